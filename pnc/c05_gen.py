"""C05 (record count coherent across processes, memory and file header): history generator,
script emitter for harness/pnc_impl.c, renderer of the same history as Coq terms for the model
coq/Numrecs.v, and the property ORACLE (the property text only, no knowledge of the library).

A history is a list of steps over one file with variables
    F(x) int  (fixed-size, varid 0),  R(t,x) SHORT (record, varid 1),  optionally R2(t,x) int (varid 2)
(memory type is always int: a put on R without `pat` sends the 0xA5 fill pattern = -1515870811, which is not
representable in NC_SHORT: the put writes its data and returns NC_ERANGE; with `pat` all values are in range)
with x = 2*nprocs; rank k only ever writes columns 2k, 2k+1 (no concurrent overlapping writes).
After every step every rank reports `inq_numrecs` and `inq_nreqs`; after collective steps rank 0
reads the file (`snapshot`, header bytes 4..7 / 4..11 = record count on disk); outside define mode
the highest record written so far is read back with a blocking get (collective mode: by all
ranks; independent mode: every rank reads its own highest record)."""
import re, ast

NC_EINVALCOORDS = -40
NC_ERANGE = -60
VARS = {'F': 0, 'R': 1, 'R2': 2}


def hi_of(acc):
    """1 + highest record index addressed by a record-variable access"""
    k = acc[0]
    if k == 'vara':
        return acc[1] + acc[2]
    if k == 'vars':
        return acc[1] + (acc[2] - 1) * acc[3] + 1
    if k == 'varn':
        return max(s + c for s, c in acc[1])
    raise ValueError(k)


def start0_of(acc):
    return acc[1][0][0] if acc[0] == 'varn' else acc[1]


class Hist:
    """builder of one history: script lines (relative numbering), model ops, annotations"""
    def __init__(self, np_, fmt=1, nrv=1, bput=False, name=''):
        self.np, self.fmt, self.nrv, self.name = np_, fmt, nrv, name
        self.x = 2 * np_
        self.lines = []
        self.steps = []
        self.indep = False; self.indef = False
        self.pend = [dict() for _ in range(np_)]       # slot -> (isrec, hi)
        self.nextslot = [0] * np_
        self.vtag = 1000
        self.seed = 1
        self.own = [0] * np_                            # generator's view of completed writes (for the read-back index only)
        self.bput = bput
        L = self.lines
        L.append('* create 0 %d 1' % fmt)
        L.append('* def_dim 0 74 -1')
        L.append('* def_dim 0 78 %d' % self.x)
        L.append('* def_var 0 66 4 1 1')
        L.append('* def_var 0 72 3 2 0 1')
        L.append('* def_var_fill 0 1 0 0 0')
        if nrv > 1:
            L.append('* def_var 0 7332 4 2 0 1')
            L.append('* def_var_fill 0 2 0 0 0')
        L.append('* enddef 0')
        L.append('* inq 0')
        self.inq_line = len(L) - 1
        if bput:
            L.append('* attach 0 65536')

    # ------------------------------------------------------------------ emission helpers
    def _acc_tokens(self, k, var, acc):
        """tokens `<form> t4 c <formargs>` of an access by rank k (columns 2k..2k+1)"""
        c0 = 2 * k
        if var == 'F':
            # fixed-size 1-D variable: acc = ('vara', col_offset(0/1), ncols)
            return 'vara t4 c 1 %d %d' % (c0 + acc[1], acc[2])
        kind = acc[0]
        if kind == 'vara':
            return 'vara t4 c 2 %d %d %d 2' % (acc[1], c0, acc[2])
        if kind == 'bad':      # column out of bounds: the dispatcher rejects it (NC_EINVALCOORDS), NC_REQ_ZERO path
            return 'vara t4 c 2 %d %d 1 2' % (acc[1], 1000 + c0)
        if kind == 'vars':
            return 'vars t4 c 2 %d %d %d 2 %d 1' % (acc[1], c0, acc[2], acc[3])
        if kind == 'varn':
            return 'varn t4 c %d 2 %s' % (len(acc[1]), ' '.join('%d %d %d 2' % (s, c0, c) for s, c in acc[1]))
        raise ValueError(kind)

    def _zero_tokens(self, var, varn=False):
        if varn:
            return 'varn t4 c 1 2 0 0 0 0' if var != 'F' else 'varn t4 c 1 1 0 0'
        return 'vara t4 c 2 0 0 0 0' if var != 'F' else 'vara t4 c 1 0 0'

    def _pat(self):
        self.seed += 1
        return ' pat %d' % self.seed

    def _emit(self, l):
        self.lines.append(l)
        return len(self.lines) - 1

    def _group(self, per_rank_lines):
        self._emit('{')
        idx = [self._emit(l) for l in per_rank_lines]
        self._emit('}')
        return idx

    def _finish(self, st, collective):
        """observation lines after a step"""
        st['nr'] = self._emit('* inq_numrecs 0')
        st['nq'] = self._emit('* inq_nreqs 0')
        st['snap'] = self._emit('* snapshot 0') if collective else None
        st['get'] = []
        st['indep_after'] = self.indep; st['indef_after'] = self.indef
        if not self.indef:
            if not self.indep:
                w = max(self.own)
                if w >= 1:
                    i = self._emit('* get 0 c 1 vara t4 c 2 %d 0 1 1' % (w - 1))
                    st['get'] = [(k, i, w - 1) for k in range(self.np)]
            else:
                for k in range(self.np):
                    if self.own[k] >= 1:
                        i = self._emit('%d get 0 i 1 vara t4 c 2 %d 0 1 1' % (k, self.own[k] - 1))
                        st['get'].append((k, i, self.own[k] - 1))
        self.steps.append(st)

    def sleep(self, k, ms):
        self._emit('%d sleep_ms %d' % (k, ms))

    # ------------------------------------------------------------------ steps
    # `done[k]` = 1 + highest record the step writes on behalf of rank k (0: none) IF the call returns 0
    def coll_put(self, var, accs, er=None):
        """accs[k]: None (zero-length participant) or an access tuple; er[k]: rank k's data contain a value that is
        out of range for the variable (only on R): the call writes and returns NC_ERANGE"""
        isrec = var != 'F'
        er = [bool(er and er[k] and var == 'R' and accs[k] is not None and accs[k][0] != 'bad') for k in range(self.np)]
        ls = []
        for k in range(self.np):
            a = accs[k]
            ls.append('%d put 0 c %d %s%s' % (k, VARS[var], self._zero_tokens(var) if a is None else self._acc_tokens(k, var, a),
                                              '' if er[k] else self._pat()))
        idx = self._group(ls)
        done = [(hi_of(a) if (a is not None and isrec and a[0] != 'bad') else 0) for a in accs]
        if isrec:
            mop = ('CollPutRec', [('PNone',) if a is None else ('PInvalid',) if a[0] == 'bad' else
                                  ('PRecE' if er[k] else 'PRec', hi_of(a) - 1) for k, a in enumerate(accs)])
        else:
            mop = ('CollPutFix',)
        ok = not self.indef and not self.indep
        if ok:
            self.own = [max(o, d) for o, d in zip(self.own, done)]
        st = dict(kind='coll_put', cls='collwrite', oplines=idx, done=done, mops=[mop], misuse=False, accepted=ok, erange=er)
        self._finish(st, True)

    def indep_put(self, k, var, acc, er=False):
        isrec = var != 'F'
        er = bool(er and var == 'R')
        i = self._emit('%d put 0 i %d %s%s' % (k, VARS[var], self._acc_tokens(k, var, acc), '' if er else self._pat()))
        done = [0] * self.np
        if isrec:
            done[k] = hi_of(acc)
            mop = ('IndepPutRec', k, ('PRecE' if er else 'PRec', hi_of(acc) - 1))
        else:
            mop = ('IndepPutFix', k)
        ok = not self.indef and self.indep
        if ok:
            self.own[k] = max(self.own[k], done[k])
        st = dict(kind='indep_put', cls='indepwrite', oplines=[None if r != k else i for r in range(self.np)], done=done,
                  mops=[mop], misuse=False, accepted=ok, erange=[er and r == k for r in range(self.np)])
        self._finish(st, False)

    def fill(self, var, recnos):
        if len(set(recnos)) == 1:
            i = self._emit('* fill_var_rec 0 %d %d' % (VARS[var], recnos[0]))
            idx = [i] * self.np
        else:
            idx = self._group(['%d fill_var_rec 0 %d %d' % (k, VARS[var], recnos[k]) for k in range(self.np)])
        done = [r + 1 for r in recnos]
        ok = not self.indef and not self.indep          # otherwise the dispatcher returns NC_EINDEFINE / NC_EINDEP
        if ok:
            self.own = [max(o, d) for o, d in zip(self.own, done)]
        st = dict(kind='fill', cls='collwrite', oplines=idx, done=done, mops=[('FillRec', list(recnos))], misuse=False,
                  accepted=ok)
        self._finish(st, True)

    def post(self, k, var, acc, api='iput', er=False):
        slot = self.nextslot[k]
        while slot in self.pend[k]:
            slot = (slot + 1) % 64
        self.nextslot[k] = (slot + 1) % 64
        isrec = var != 'F'
        er = bool(er and var == 'R')        # the post returns NC_ERANGE, the request is queued all the same
        i = self._emit('%d %s 0 %d %d %s%s' % (k, api, slot, VARS[var], self._acc_tokens(k, var, acc), '' if er else self._pat()))
        hi = hi_of(acc) if isrec else 0
        self.pend[k][slot] = (isrec, hi)
        mop = ('Post', k, slot, var, (start0_of(acc) if isrec else 0), (hi if isrec else -1))
        st = dict(kind='post', cls='other', oplines=[None if r != k else i for r in range(self.np)], done=[0] * self.np,
                  mops=[mop], misuse=False, accepted=True, slot=slot, erange=[er and r == k for r in range(self.np)])
        self._finish(st, False)
        return slot

    def _sel_tokens(self, sel):
        if sel == 'all':
            return '-1'
        if sel == 'putall':
            return '-2'
        return '%d%s' % (len(sel), ''.join(' %d' % s for s in sel))

    def _sel_done(self, k, sel):
        slots = list(self.pend[k]) if sel in ('all', 'putall') else list(sel)
        d = 0
        for s in slots:
            isrec, hi = self.pend[k][s]
            if isrec:
                d = max(d, hi)
        return d, slots

    def _sel_mop(self, k, sel):
        if sel in ('all', 'putall'):
            return ('WAll',)
        return ('WIds', list(sel))

    def wait_all(self, sels):
        idx = self._group(['%d wait 0 c %s' % (k, self._sel_tokens(sels[k])) for k in range(self.np)])
        ok = not self.indef and not self.indep
        done = [0] * self.np
        named = 0
        for k in range(self.np):
            d, slots = self._sel_done(k, sels[k])
            named += len(slots)
            if ok:
                done[k] = d
                for s in slots:
                    del self.pend[k][s]
        if ok:
            self.own = [max(o, d) for o, d in zip(self.own, done)]
        st = dict(kind='wait_all', cls='collwrite', oplines=idx, done=done, mops=[('WaitAll', [self._sel_mop(k, sels[k]) for k in range(self.np)])],
                  misuse=False, accepted=ok, subset=any(s not in ('all', 'putall') for s in sels))
        self._finish(st, True)

    def wait(self, k, sel):
        i = self._emit('%d wait 0 i %s' % (k, self._sel_tokens(sel)))
        ok = not self.indef and self.indep
        done = [0] * self.np
        d, slots = self._sel_done(k, sel)
        if ok:
            done[k] = d
            for s in slots:
                del self.pend[k][s]
            self.own[k] = max(self.own[k], d)
        st = dict(kind='wait', cls='indepwrite', oplines=[None if r != k else i for r in range(self.np)], done=done,
                  mops=[('Wait', k, self._sel_mop(k, sel))], misuse=False, accepted=ok, subset=sel not in ('all', 'putall'))
        self._finish(st, False)

    def varn_all(self, var, accs):
        """blocking ncmpi_put_varn_<type>_all; accs[k]: None (zero-length) or list of (start,count)"""
        isrec = var != 'F'
        ls = []
        for k in range(self.np):
            a = accs[k]
            if a is None:
                ls.append('%d put 0 c %d %s' % (k, VARS[var], self._zero_tokens(var, True)))
            elif isrec:
                ls.append('%d put 0 c %d %s%s' % (k, VARS[var], self._acc_tokens(k, var, ('varn', a)), self._pat()))
            else:
                ls.append('%d put 0 c 0 varn t4 c 1 1 %d %d%s' % (k, 2 * k + a[0][0], a[0][1], self._pat()))
        idx = self._group(ls)
        ok = not self.indef and not self.indep
        done = [0] * self.np
        mops = []
        if ok:
            sels = []
            for k in range(self.np):
                a = accs[k]
                if a is None:
                    sels.append(('WIds', [None]))
                else:
                    self.vtag += 1
                    hi = hi_of(('varn', a)) if isrec else 0
                    mops.append(('Post', k, self.vtag, var, (a[0][0] if isrec else 0), (hi if isrec else -1)))
                    sels.append(('WIds', [self.vtag]))
                    done[k] = hi
            mops.append(('WaitAll', sels))
            self.own = [max(o, d) for o, d in zip(self.own, done)]
        else:
            mops.append(('CollPutFix',))
        st = dict(kind='put_varn_all', cls='collwrite', oplines=idx, done=done, mops=mops, misuse=False, accepted=ok,
                  pending=[len(p) for p in self.pend])
        self._finish(st, True)

    def varn(self, k, var, a):
        isrec = var != 'F'
        if isrec:
            i = self._emit('%d put 0 i %d %s%s' % (k, VARS[var], self._acc_tokens(k, var, ('varn', a)), self._pat()))
        else:
            i = self._emit('%d put 0 i 0 varn t4 c 1 1 %d %d%s' % (k, 2 * k + a[0][0], a[0][1], self._pat()))
        ok = not self.indef and self.indep
        done = [0] * self.np
        if ok:
            self.vtag += 1
            hi = hi_of(('varn', a)) if isrec else 0
            mops = [('Post', k, self.vtag, var, (a[0][0] if isrec else 0), (hi if isrec else -1)), ('Wait', k, ('WIds', [self.vtag]))]
            done[k] = hi
            self.own[k] = max(self.own[k], hi)
        else:
            mops = [('IndepPutFix', k)]
        st = dict(kind='put_varn', cls='indepwrite', oplines=[None if r != k else i for r in range(self.np)], done=done,
                  mops=mops, misuse=False, accepted=ok, pending=[len(p) for p in self.pend])
        self._finish(st, False)

    def simple(self, name):
        """begin_indep end_indep sync sync_numrecs redef enddef reopen"""
        if name == 'reopen':
            i = self._emit('* close 0')
            j = self._emit('* open 0 1')
            if self.bput:
                self._emit('* attach 0 65536')
            idx = [j] * self.np
            extra = [i] * self.np
            self.pend = [dict() for _ in range(self.np)]
            self.indep = False; self.indef = False
        else:
            i = self._emit('* %s 0' % name)
            idx = [i] * self.np; extra = None
            if name == 'begin_indep' and not self.indef: self.indep = True
            elif name == 'end_indep' and not self.indef: self.indep = False
            elif name == 'redef' and not self.indef: self.indep = False; self.indef = True
            elif name == 'enddef' and self.indef: self.indef = False; self.indep = False
        mop = {'begin_indep': 'BeginIndep', 'end_indep': 'EndIndep', 'sync': 'Sync', 'sync_numrecs': 'SyncNumrecs',
               'redef': 'Redef', 'enddef': 'Enddef', 'reopen': 'Reopen'}[name]
        cls = 'sync' if name in ('end_indep', 'sync', 'sync_numrecs', 'redef', 'reopen') else 'other'
        st = dict(kind=name, cls=cls, oplines=idx, extralines=extra, done=[0] * self.np, mops=[(mop,)], misuse=False, accepted=True)
        self._finish(st, True)

    def close(self):
        self._emit('* close 0')

    # ------------------------------------------------------------------ rendering
    def model_ops(self, layout):
        """Coq term (list op) with the variable offsets of `layout` = dict(F=,R=,R2=,recsize=)"""
        out = []
        for st in self.steps:
            for m in st['mops']:
                out.append(coq_op(m, layout))
        return '[' + '; '.join(out) + ']'

    def step_of_mop(self):
        """index of the last model op of every step (observation alignment)"""
        res = []; n = 0
        for st in self.steps:
            n += len(st['mops'])
            res.append(n - 1)
        return res


def zt(v):
    return '(%d)' % v if v < 0 else '%d' % v


def coq_part(p):
    if p[0] == 'PNone': return 'PNone'
    if p[0] == 'PInvalid': return 'PInvalid'
    return '(%s %s)' % (p[0], zt(p[1]))


def coq_sel(s):
    if s[0] == 'WAll':
        return 'WAll'
    return '(WIds [%s])' % '; '.join('None' if t is None else 'Some %d%%nat' % t for t in s[1])


def coq_op(m, layout):
    k = m[0]
    if k == 'CollPutRec':
        return 'CollPutRec [%s]' % '; '.join(coq_part(p) for p in m[1])
    if k == 'CollPutFix':
        return 'CollPutFix'
    if k == 'IndepPutRec':
        return 'IndepPutRec %d %s' % (m[1], coq_part(m[2]))
    if k == 'IndepPutFix':
        return 'IndepPutFix %d' % m[1]
    if k == 'FillRec':
        return 'FillRec [%s]' % '; '.join(zt(r) for r in m[1])
    if k == 'Post':
        _, rank, tag, var, start0, maxrec = m
        isrec = var != 'F'
        vb = layout[var]
        ro = vb + (layout['recsize'] * start0 if isrec else 0)
        return 'Post %d %d %s %d %d %s' % (rank, tag, 'true' if isrec else 'false', vb, ro, zt(maxrec))
    if k == 'WaitAll':
        return 'WaitAll [%s]' % '; '.join(coq_sel(s) for s in m[1])
    if k == 'Wait':
        return 'Wait %d %s' % (m[1], coq_sel(m[2]))
    return k


def parse_layout(tokens):
    """from the `inq` log tokens: offsets of the variables and the record size"""
    lay = {}
    names = {'66': 'F', '72': 'R', '7332': 'R2'}
    i = 0
    while i < len(tokens):
        if tokens[i] == 'V':
            name = tokens[i + 1]; nd = int(tokens[i + 3])
            off = int(tokens[i + 4 + nd + 1])
            lay[names.get(name, name)] = off
            i += 4 + nd + 2
        elif tokens[i] == 'H':
            lay['recsize'] = int(tokens[i + 3])
            i += 6
        else:
            i += 1
    return lay


def hdr_numrecs(hexbytes, fmt):
    n = 8 if fmt == 5 else 4
    return int(hexbytes[8:8 + 2 * n], 16)


# ---------------------------------------------------------------------- observations
def observe(h, impl, base):
    """impl: dict (lineno,rank) -> tokens (lineno 1-based in the batch script); base = 0-based index
    in the batch script of the history's first line.  Returns per step dict(rc=[..], nr=[..], nq=[..], hdr=int|None,
    get=[(rank, rc, recidx)]) or raises KeyError when the log is incomplete (crash/hang)."""
    out = []
    def tok(rel, k):
        return impl[(base + rel + 1, k)]
    lay = parse_layout(tok(h.inq_line, 0))
    for st in h.steps:
        o = {}
        o['rc'] = [None if st['oplines'][k] is None else int(tok(st['oplines'][k], k)[1]) for k in range(h.np)]
        if st.get('extralines'):
            o['rc_close'] = [int(tok(st['extralines'][k], k)[1]) for k in range(h.np)]
        o['nr'] = [int(tok(st['nr'], k)[2]) for k in range(h.np)]
        o['nq'] = [int(tok(st['nq'], k)[2]) for k in range(h.np)]
        if st['snap'] is not None:
            t = tok(st['snap'], 0)
            o['hdr'] = hdr_numrecs(t[3], h.fmt) if int(t[1]) == 0 and len(t) > 3 and t[3] not in ('big', '-') else None
        else:
            o['hdr'] = None
        o['get'] = [(k, int(tok(i, k)[1]), rec) for (k, i, rec) in st['get']]
        out.append(o)
    return lay, out


# ---------------------------------------------------------------------- the property oracle
def completed_rc(st, o, k):
    """did rank k's call of this step complete?  NC_NOERR, or NC_ERANGE for a put whose data contain an
    out-of-range value (NC_ERANGE is not fatal: the data are written, the out-of-range element as fill value)"""
    rc = o['rc'][k]
    return rc == 0 or (rc == NC_ERANGE and bool(st.get('erange')) and st['erange'][k])


def oracle(h, obs):
    """The property text evaluated on the implementation's own observations.
    Returns list of failures dict(kind, step, stepkind, detail)."""
    fails = []
    np_ = h.np
    own = [0] * np_                 # 1 + highest record of writes completed by rank k (calls that returned 0)
    prev_nr = [0] * np_; prev_hdr = 0
    coherent = True                 # new file in collective data mode
    for si, (st, o) in enumerate(zip(h.steps, obs)):
        rcs = [r for r in o['rc'] if r is not None]
        ok_all = all(completed_rc(st, o, k) for k in range(np_) if o['rc'][k] is not None)
        # which writes completed
        for k in range(np_):
            if completed_rc(st, o, k) and st['done'][k] > 0:
                own[k] = max(own[k], st['done'][k])
        W = max(own)
        def fail(kind, detail):
            fails.append(dict(kind=kind, step=si, stepkind=st['kind'], detail=detail,
                              subset=st.get('subset'), pending=st.get('pending'),
                              erange=bool(st.get('erange')) and any(st['erange'])))
        # expected return code of a put whose data are (not) representable
        if st.get('erange') is not None and st['accepted']:
            for k in range(np_):
                if o['rc'][k] is None:
                    continue
                if st['erange'][k] and o['rc'][k] != NC_ERANGE:
                    fail('rc-unexpected', 'rank %d: put with an out-of-range value returns %d, expected NC_ERANGE' % (k, o['rc'][k]))
                elif not st['erange'][k] and o['rc'][k] == NC_ERANGE:
                    fail('rc-unexpected', 'rank %d: put with in-range values returns NC_ERANGE' % k)
        # never decreases
        for k in range(np_):
            if o['nr'][k] < prev_nr[k]:
                fail('decrease', 'rank %d numrecs %d -> %d' % (k, prev_nr[k], o['nr'][k]))
        if o['hdr'] is not None:
            if o['hdr'] < prev_hdr:
                fail('decrease-hdr', 'header numrecs %d -> %d' % (prev_hdr, o['hdr']))
            prev_hdr = o['hdr']
        prev_nr = list(o['nr'])
        # every completed write of a rank is readable by that rank
        for k in range(np_):
            if o['nr'][k] < own[k]:
                fail('own-unreadable', 'rank %d numrecs %d < 1 + highest record it has written (%d)' % (k, o['nr'][k], own[k]))
        # coherence points
        if st['misuse']:
            coherent = False if st['indep_after'] else coherent
        elif st['cls'] == 'collwrite' and ok_all and rcs:
            coherent = True
        elif st['cls'] == 'sync' and ok_all:
            coherent = True
        elif st['cls'] == 'indepwrite' and any(completed_rc(st, o, k) and st['done'][k] > 0 for k in range(np_)):
            coherent = False        # an independent write to a record variable: nothing is promised until the next sync call
        if coherent and not st['misuse']:
            if len(set(o['nr'])) != 1:
                fail('ranks-differ', 'numrecs per rank %s' % o['nr'])
            elif o['nr'][0] != W:
                fail('too-small' if o['nr'][0] < W else 'too-large',
                     'numrecs %d on all ranks, 1 + highest record written so far = %d' % (o['nr'][0], W))
            if o['hdr'] is not None and o['hdr'] != W:
                fail('hdr-mismatch', 'header field %d, 1 + highest record written so far = %d' % (o['hdr'], W))
        for (k, rc, rec) in o['get']:
            if rc != 0 and rec < (W if not st['indep_after'] else own[k]):
                fail('unreadable', 'rank %d: get of record %d returns %d' % (k, rec, rc))
    return fails


def finding_key(f):
    """stable key of an oracle failure: the API whose return leaves the record count wrong"""
    sk = f['stepkind']
    if f['kind'] in ('too-small', 'own-unreadable', 'unreadable', 'hdr-mismatch'):
        if sk in ('wait_all', 'wait') and f.get('subset'):
            return 'F1:%s:subset' % sk
        if sk in ('put_varn_all', 'put_varn') and f.get('pending') and any(f['pending']):
            return 'F1:%s:pending-requests' % sk
        if sk in ('coll_put', 'indep_put') and f.get('erange'):
            return 'erange-put:%s:numrecs-not-updated' % sk
    return 'numrecs:%s:%s' % (f['kind'], sk)


# ---------------------------------------------------------------------- model side
COQ_HEAD = ('From Coq Require Import ZArith List.\nImport ListNotations.\nFrom Pnc Require Import Numrecs.\n'
            'Open Scope Z_scope.\nSet Printing Width 1000000.\nSet Printing Depth 1000000.\n')


def cases_v(items, loop='fixed', er=True):
    """items: list of (np, ops_term).  One Eval per case printing (trace, head_ok over the history) of the model
    variant (loop: 'head' = commit_loop / 'fixed' = commit_fixed; er: put_varm counts NC_ERANGE puts)"""
    L = 'commit_loop' if loop == 'head' else 'commit_fixed'
    E = 'true' if er else 'false'
    out = [COQ_HEAD]
    for np_, ops in items:
        out.append('Eval vm_compute in (let ops := %s in (trace %s %s (init %d 0) ops, '
                   'hist_allb %s %s head_ok (init %d 0) ops)).' % (ops, L, E, np_, L, E, np_))
    return '\n'.join(out) + '\n'


def parse_coq_out(text):
    res = []
    for blk in re.split(r'(?m)^\s*= ', text)[1:]:
        blk = blk.split('\n     : ')[0]
        blk = blk.replace(';', ',').replace('true', 'True').replace('false', 'False')
        res.append(ast.literal_eval(' '.join(blk.split())))
    return res


def model_obs(h, tr):
    """select from the model trace (one entry per model op) the entries that correspond to the
    history's steps; decode"""
    out = []
    n = h.np
    for j in h.step_of_mop():
        v = tr[j]
        out.append(dict(nr=v[0:n], hdr=v[n], nq=v[n + 1:2 * n + 1], own=v[2 * n + 1:3 * n + 1], indep=v[3 * n + 1], indef=v[3 * n + 2],
                        hung=v[3 * n + 3]))
    return out


def compare(h, obs, mobs):
    """implementation observations vs model trace; list of mismatches (corr_C05_numrecs / _hdr / _nreqs / _get / _ghost)"""
    mism = []
    own = [0] * h.np
    for si, (st, o, m) in enumerate(zip(h.steps, obs, mobs)):
        if m['hung']:
            mism.append(dict(step=si, rel='corr_C05_hang', detail='model predicts a hang'))
            break
        for k in range(h.np):
            if completed_rc(st, o, k) and st['done'][k] > 0:
                own[k] = max(own[k], st['done'][k])
        if o['nr'] != m['nr']:
            mism.append(dict(step=si, rel='corr_C05_numrecs', detail='%s: impl %s model %s' % (st['kind'], o['nr'], m['nr'])))
        if o['hdr'] is not None and o['hdr'] != m['hdr']:
            mism.append(dict(step=si, rel='corr_C05_hdr', detail='%s: impl %s model %s' % (st['kind'], o['hdr'], m['hdr'])))
        if o['nq'] != m['nq']:
            mism.append(dict(step=si, rel='corr_C05_nreqs', detail='%s: impl %s model %s' % (st['kind'], o['nq'], m['nq'])))
        if own != m['own']:
            mism.append(dict(step=si, rel='corr_C05_ghost', detail='%s: oracle bookkeeping %s model ghost %s' % (st['kind'], own, m['own'])))
        if (1 if st['indep_after'] else 0) != m['indep'] or (1 if st['indef_after'] else 0) != m['indef']:
            mism.append(dict(step=si, rel='corr_C05_mode', detail='%s: generator mode (%s,%s) model (%s,%s)'
                             % (st['kind'], st['indep_after'], st['indef_after'], m['indep'], m['indef'])))
        for (k, rc, rec) in o['get']:
            exp = 0 if rec < m['nr'][k] else NC_EINVALCOORDS
            if rc != exp:
                mism.append(dict(step=si, rel='corr_C05_get', detail='rank %d get record %d: impl rc %d model rc %d' % (k, rec, rc, exp)))
    return mism


# ---------------------------------------------------------------------- history generators
def directed():
    """hand-written histories: the F1 witnesses and their neighbours"""
    hs = []
    # F1 witness of DESIGN.md: iput fixed, iput record 5, wait_all naming only the second
    h = Hist(2, 1, name='F1-wait_all-fixed-then-rec5')
    a = h.post(0, 'F', ('vara', 0, 2)); b = h.post(0, 'R', ('vara', 5, 1))
    h.wait_all([[b], []]); h.wait_all([[a], []]); h.simple('sync'); h.simple('reopen'); h.close(); hs.append(h)
    # two record requests, wait for the later one only
    h = Hist(2, 5, name='F1-wait_all-rec0-then-rec5')
    a = h.post(1, 'R', ('vara', 0, 1)); b = h.post(1, 'R', ('vara', 5, 1))
    h.wait_all([[], [b]]); h.wait_all(['all', 'all']); h.close(); hs.append(h)
    # same through the independent wait
    h = Hist(2, 2, name='F1-wait-indep')
    h.simple('begin_indep'); a = h.post(0, 'F', ('vara', 0, 1)); b = h.post(0, 'R', ('vara', 3, 2))
    h.wait(0, [b]); h.simple('end_indep'); h.wait_all(['all', 'all']); h.close(); hs.append(h)
    # blocking put_varn_all with an unrelated pending request
    h = Hist(2, 1, name='F1-put_varn_all-pending')
    h.post(0, 'F', ('vara', 0, 1)); h.post(1, 'F', ('vara', 0, 1)); h.post(1, 'F', ('vara', 1, 1))
    h.varn_all('R', [[(9, 1)], [(8, 1)]]); h.wait_all(['all', 'all']); h.simple('reopen'); h.close(); hs.append(h)
    h = Hist(2, 1, name='F1-put_varn-indep-pending')
    h.simple('begin_indep'); h.post(1, 'F', ('vara', 0, 1)); h.post(1, 'F', ('vara', 1, 1))
    h.varn(1, 'R', [(4, 1)]); h.simple('end_indep'); h.close(); hs.append(h)
    # subset waits that the loop as written handles (record request at the queue head)
    h = Hist(3, 1, name='subset-head')
    a = h.post(0, 'R', ('vara', 2, 1)); b = h.post(0, 'R', ('vara', 7, 1)); c = h.post(2, 'R', ('vara', 4, 1))
    h.wait_all([[a], [], [c]]); h.wait_all([[b], [], []]); h.close(); hs.append(h)
    # two record variables: a later request of the first variable sorts before the second variable's
    h = Hist(2, 1, nrv=2, name='two-recvars-sorted')
    a = h.post(0, 'R2', ('vara', 0, 1)); b = h.post(0, 'R', ('vara', 0, 1)); c = h.post(0, 'R', ('vara', 6, 1))
    h.wait_all([[b], []]); h.wait_all([[c], []]); h.wait_all([[a], []]); h.close(); hs.append(h)
    # independent writes then each documented synchronisation call
    for sy in ('end_indep', 'sync', 'sync_numrecs', 'redef', 'reopen'):
        h = Hist(3, 2, name='indep-then-' + sy)
        h.coll_put('R', [('vara', 0, 1), None, None]); h.simple('begin_indep')
        h.indep_put(2, 'R', ('vara', 6, 1)); h.indep_put(0, 'R', ('vara', 3, 1)); h.indep_put(1, 'F', ('vara', 0, 1))
        h.simple(sy)
        if sy == 'redef': h.simple('enddef')
        h.coll_put('R', [None, ('vara', 1, 1), None]); h.close(); hs.append(h)
    # root wrote the highest record itself (the NC_NDIRTY guard of write_numrecs)
    h = Hist(2, 1, name='root-highest-indep')
    h.simple('begin_indep'); h.indep_put(0, 'R', ('vara', 4, 1)); h.indep_put(1, 'R', ('vara', 2, 1)); h.simple('sync_numrecs')
    h.simple('end_indep'); h.simple('reopen'); h.close(); hs.append(h)
    # fill_var_rec, per-rank record numbers, lower than the current count
    h = Hist(2, 5, name='fill')
    h.fill('R', [3, 3]); h.fill('R', [1, 1]); h.fill('R', [5, 7]); h.coll_put('R', [('vars', 2, 2, 3), None]); h.simple('reopen'); h.close(); hs.append(h)
    # fill in independent mode and in define mode is rejected (NC_EINDEP / NC_EINDEFINE) with no effect on any rank
    h = Hist(2, 1, name='fill-indep-rejected')
    h.simple('begin_indep'); h.indep_put(1, 'R', ('vara', 5, 1)); h.fill('R', [2, 2]); h.simple('end_indep')
    h.simple('redef'); h.fill('R', [8, 8]); h.simple('enddef'); h.fill('R', [3, 3]); h.close(); hs.append(h)
    # record 0 of the same variable posted later: req_off equals the queued entry's varp->begin (`<=` keeps post order)
    h = Hist(2, 1, name='sort-equal-begin')
    a = h.post(1, 'R', ('vara', 5, 1)); b = h.post(1, 'R', ('vara', 0, 1)); c = h.post(1, 'F', ('vara', 0, 1)); d = h.post(1, 'F', ('vara', 1, 1))
    h.wait_all([[], [c]]); h.wait_all([[], [a]]); h.wait_all(['all', 'all']); h.close(); hs.append(h)
    # every rank passes an invalid start: all take the NC_REQ_ZERO path (no Allreduce, no hang, no change)
    h = Hist(2, 1, name='all-invalid')
    h.coll_put('R', [('vara', 2, 1), None]); h.coll_put('R', [('bad', 7), ('bad', 8)]); h.coll_put('R', [None, ('vara', 4, 1)]); h.close(); hs.append(h)
    # puts whose data contain a value that is out of range for NC_SHORT (NC_ERANGE): the data are written and the
    # record count follows - on the highest record (one rank / all ranks), on a lower record, independent, nonblocking
    h = Hist(2, 1, name='erange-coll-one-rank-highest')
    h.coll_put('R', [('vara', 1, 1), ('vara', 0, 1)]); h.coll_put('R', [('vara', 6, 1), None], er=[True, False])
    h.coll_put('R', [None, ('vara', 2, 1)]); h.simple('reopen'); h.close(); hs.append(h)
    h = Hist(3, 5, name='erange-coll-all-ranks')
    h.coll_put('R', [('vara', 4, 1), ('vara', 5, 1), ('vars', 1, 2, 3)], er=[True, True, True])
    h.coll_put('R', [('vara', 0, 1), None, None]); h.simple('sync'); h.simple('reopen'); h.close(); hs.append(h)
    h = Hist(2, 2, name='erange-coll-lower-record')
    h.coll_put('R', [None, ('vara', 7, 1)]); h.coll_put('R', [('vara', 3, 1), ('vara', 2, 1)], er=[True, False])
    h.coll_put('R', [('vara', 8, 1), ('vara', 3, 1)], er=[False, True]); h.close(); hs.append(h)
    h = Hist(2, 1, name='erange-indep')
    h.simple('begin_indep'); h.indep_put(1, 'R', ('vara', 5, 1), er=True); h.indep_put(0, 'R', ('vars', 1, 2, 2), er=True)
    h.indep_put(0, 'R', ('vara', 0, 1)); h.simple('sync_numrecs'); h.indep_put(0, 'R', ('vara', 8, 1), er=True)
    h.simple('end_indep'); h.simple('reopen'); h.close(); hs.append(h)
    h = Hist(2, 1, name='erange-iput')
    a = h.post(0, 'R', ('vara', 4, 1), er=True); b = h.post(1, 'R', ('vara', 2, 1)); c = h.post(1, 'R', ('vara', 9, 1), er=True)
    h.wait_all([[a], [b]]); h.wait_all(['all', 'all']); h.close(); hs.append(h)
    # bput
    h = Hist(2, 1, bput=True, name='bput')
    a = h.post(0, 'R', ('vara', 1, 2), api='bput'); b = h.post(1, 'R', ('vara', 8, 1), api='bput'); c = h.post(1, 'F', ('vara', 0, 2), api='bput')
    h.wait_all([[a], [c]]); h.wait_all(['putall', [b]]); h.close(); hs.append(h)
    return hs


# alphabet of the exhaustive search: 2 ranks, one record variable R and one fixed variable F
ALPHABET = ['CP0', 'CP1', 'CE0', 'CPF', 'IP0', 'IP1', 'IE1', 'FILL', 'PF0', 'PR0', 'PR1', 'WALL', 'WLAST', 'WI0', 'VARN',
            'BEGIN', 'END', 'SYNC', 'SYNCN', 'REDEF', 'REOPEN']


def apply_letter(h, a, last, variant=0):
    """one letter of the exhaustive alphabet; `last[k]` = most recently posted slot of rank k still pending.
    variant 1 uses another assignment of record numbers to letters."""
    rec = {'CP0': 1, 'CP1': 3, 'IP0': 2, 'IP1': 4, 'FILL': 5, 'PR0': 6, 'PR1': 7, 'VARN': 8, 'CE0': 9, 'IE1': 10} if variant == 0 else \
          {'CP0': 7, 'CP1': 2, 'IP0': 8, 'IP1': 1, 'FILL': 3, 'PR0': 4, 'PR1': 6, 'VARN': 5, 'CE0': 6, 'IE1': 4}
    if a == 'CP0': h.coll_put('R', [('vara', rec[a], 1), None])
    elif a == 'CP1': h.coll_put('R', [None, ('vara', rec[a], 1)])
    elif a == 'CE0': h.coll_put('R', [('vara', rec[a], 1), None], er=[True, False])
    elif a == 'IE1': h.indep_put(1, 'R', ('vara', rec[a], 1), er=True)
    elif a == 'CPF': h.coll_put('F', [('vara', 0, 2), ('vara', 0, 1)])
    elif a == 'IP0': h.indep_put(0, 'R', ('vara', rec[a], 1))
    elif a == 'IP1': h.indep_put(1, 'R', ('vara', rec[a], 1))
    elif a == 'FILL': h.fill('R', [rec[a], rec[a]])
    elif a == 'PF0':
        if not h.indef: last[0] = h.post(0, 'F', ('vara', 0, 1))
        else: h.simple('sync')
    elif a == 'PR0':
        if not h.indef: last[0] = h.post(0, 'R', ('vara', rec[a], 1))
        else: h.simple('sync')
    elif a == 'PR1':
        if not h.indef: last[1] = h.post(1, 'R', ('vara', rec[a], 1))
        else: h.simple('sync')
    elif a == 'WALL': h.wait_all(['all', 'all'])
    elif a == 'WLAST':
        h.wait_all([[last[k]] if last[k] in h.pend[k] else [] for k in range(2)])
    elif a == 'WI0':
        h.wait(0, [last[0]] if last[0] in h.pend[0] else [])
    elif a == 'VARN':
        # the zero-length participant's NC_REQ_NULL wait completes a single pending request of that
        # rank through the "same as NC_PUT_REQ_ALL" shortcut (C02/F3); keep rank 1 a real participant then
        if len(h.pend[1]) == 1: h.varn_all('R', [[(rec[a], 1)], [(rec[a] - 1, 1)]])
        else: h.varn_all('R', [[(rec[a], 1)], None])
    elif a == 'BEGIN': h.simple('begin_indep')
    elif a == 'END': h.simple('end_indep')
    elif a == 'SYNC': h.simple('sync')
    elif a == 'SYNCN': h.simple('sync_numrecs')
    elif a == 'REDEF':
        h.simple('redef'); h.simple('enddef')
    elif a == 'REOPEN':
        h.simple('reopen'); last[0] = last[1] = None


COLL_ONLY = ('CP0', 'CP1', 'CE0', 'CPF', 'FILL', 'WALL', 'WLAST', 'VARN')
INDEP_ONLY = ('IP0', 'IP1', 'IE1', 'WI0')


def rejected(h, a):
    """the letter is an API call that the current data mode rejects (or a mode switch that is a no-op):
    the word then behaves like the shorter word without it"""
    if a in COLL_ONLY: return h.indep
    if a in INDEP_ONLY: return not h.indep
    if a == 'BEGIN': return h.indep
    if a == 'END': return not h.indep
    return False


def word_hist(w, variant=0, fmt=1, prune=False):
    h = Hist(2, fmt, name='x%d:' % variant + ','.join(w))
    last = [None, None]
    for a in w:
        if prune and rejected(h, a):
            return None
        apply_letter(h, a, last, variant)
    h.close()
    return h


def exhaustive(maxlen, variant=0, fmt=1, minlen=1, prune=False):
    """all words of length minlen..maxlen over ALPHABET (REDEF = redef+enddef, so a word of 4 letters
    has up to 8 model steps).  prune: skip words containing a call rejected by the data mode."""
    import itertools
    for n in range(minlen, maxlen + 1):
        for w in itertools.product(ALPHABET, repeat=n):
            h = word_hist(w, variant, fmt, prune)
            if h is not None:
                yield h


def random_hist(rng, idx):
    np_ = rng.choice([2, 2, 3, 3, 4])
    fmt = rng.choice([1, 2, 5])
    nrv = rng.choice([1, 1, 2])
    use_bput = rng.chance(1, 4)
    h = Hist(np_, fmt, nrv, bput=use_bput, name='r%d' % idx)
    recvars = ['R'] if nrv == 1 else ['R', 'R2']
    nsteps = rng.range(5, 14)
    sleepy = rng.chance(2, 3)
    def racc():
        r = rng.below(10)
        if r < 6: return ('vara', rng.below(9), rng.range(1, 2))
        if r < 8: return ('vars', rng.below(6), rng.range(1, 3), rng.range(1, 3))
        return ('vara', rng.below(3), 1)
    def maybe_sleep():
        if sleepy and rng.chance(1, 3):
            h.sleep(rng.below(np_), rng.range(1, 12))
    for _ in range(nsteps):
        maybe_sleep()
        npend = sum(len(p) for p in h.pend)
        c = rng.below(100)
        if h.indef:
            h.simple('enddef') if c < 80 else h.simple(rng.choice(['sync', 'end_indep', 'redef']))
            continue
        if c < 14:
            v = rng.choice(recvars)
            accs = [None if rng.chance(1, 3) else racc() for _ in range(np_)]
            h.coll_put(v, accs, er=[rng.chance(1, 4) for _ in range(np_)])
        elif c < 17:
            h.coll_put('F', [None if rng.chance(1, 4) else ('vara', rng.below(2), 1) for _ in range(np_)])
        elif c < 30:
            k = rng.below(np_)
            if rng.chance(1, 5): h.indep_put(k, 'F', ('vara', 0, 2))
            else: h.indep_put(k, rng.choice(recvars), racc(), er=rng.chance(1, 4))
        elif c < 36:
            r = rng.below(9)
            h.fill(rng.choice(recvars), [r] * np_ if rng.chance(4, 5) else [rng.below(9) for _ in range(np_)])
        elif c < 56:
            k = rng.below(np_)
            api = 'bput' if (use_bput and rng.chance(1, 2)) else 'iput'
            if rng.chance(1, 3): h.post(k, 'F', ('vara', rng.below(2), 1), api)
            else:
                v = rng.choice(recvars)
                if rng.chance(1, 6): h.post(k, v, ('varn', [(rng.below(8), 1), (rng.below(8), rng.range(1, 2))]), api)
                else: h.post(k, v, racc(), api, er=rng.chance(1, 5))
        elif c < 70:
            sels = []
            for k in range(np_):
                slots = list(h.pend[k])
                r = rng.below(4)
                if r == 0 or not slots: sels.append(rng.choice(['all', 'putall', []]) if not slots or r == 0 else [])
                else:
                    rng.shuffle(slots)
                    sels.append(slots[:rng.range(0, len(slots))])
            h.wait_all(sels)
        elif c < 76:
            k = rng.below(np_)
            slots = list(h.pend[k])
            if slots and rng.chance(3, 4):
                rng.shuffle(slots); h.wait(k, slots[:rng.range(1, len(slots))])
            else:
                h.wait(k, 'all')
        elif c < 81:
            v = rng.choice(recvars + ['F'])
            accs = []
            for k in range(np_):
                if rng.chance(1, 4) and len(h.pend[k]) != 1: accs.append(None)
                elif v == 'F': accs.append([(rng.below(2), 1)])
                else: accs.append([(rng.below(9), rng.range(1, 2))] + ([(rng.below(9), 1)] if rng.chance(1, 3) else []))
            h.varn_all(v, accs)
        elif c < 84:
            k = rng.below(np_)
            h.varn(k, rng.choice(recvars), [(rng.below(9), 1)])
        elif c < 89: h.simple('begin_indep')
        elif c < 93: h.simple('end_indep')
        elif c < 95: h.simple('sync')
        elif c < 97: h.simple('sync_numrecs')
        elif c < 99: h.simple('redef')
        else: h.simple('reopen')
    if h.indef:
        h.simple('enddef')
    if rng.chance(1, 2):
        h.simple(rng.choice(['end_indep', 'sync', 'reopen', 'sync_numrecs']))
    h.close()
    return h


def batch_script(hists):
    """concatenate histories of equal nprocs into one script; returns (text, [base index of each])"""
    np_ = hists[0].np
    lines = ['nprocs %d' % np_]
    bases = []
    for h in hists:
        assert h.np == np_
        bases.append(len(lines))
        lines.extend(h.lines)
    return '\n'.join(lines) + '\n', bases
