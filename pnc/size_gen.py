"""C18: sessions around the format size limits (variable sizes just below / at / above the threshold
of each format, in different definition orders; dimension limits) with single-element accesses on
both sides of 2^31 and 2^32 bytes, and an independent statement of the size rule as oracle."""
from .session import Session
from .gen import hx, fmt_list, ELSIZE, Var
from . import oracle as O

EVARSIZE, EDIMSIZE = -62, -63
VMAX = {1: 2**31 - 4, 2: 2**32 - 4, 5: 2**63 - 4}


def size_rule(fmt, vars_, dims, names):
    """the rule of the property text: (verdict, decided?) ; vars_: list of (xtype, dimids)"""
    vmax = VMAX[fmt]
    def nbytes(v):
        n = ELSIZE[v[0]]
        for i, d in enumerate(v[1]):
            if not (i == 0 and dims[d] == 0):
                n *= dims[d]
        return n
    isrec = lambda v: bool(v[1]) and dims[v[1][0]] == 0
    fixed = [v for v in vars_ if not isrec(v)]
    recs = [v for v in vars_ if isrec(v)]
    lf = [nbytes(v) > vmax for v in fixed]
    lr = [nbytes(v) > vmax for v in recs]
    if fmt == 5:
        ok = not any(lf) and not any(lr)
    else:
        ok = (sum(lf) == 0 or (sum(lf) == 1 and lf[-1] and not recs)) and (sum(lr) == 0 or (sum(lr) == 1 and lr[-1]))
    if not ok:
        return False, True
    if fmt == 1:
        # variable offsets below 2 GiB: replay the offset assignment of a NEW file without hints
        # (header rounded up to 512, variables 4-byte aligned, record section after the fixed one)
        rnd = lambda x, a: (x + a - 1) // a * a
        hl = 4 + 4 + (8 + sum(4 + rnd(len(n), 4) + 4 for n in names['dims'])) + 8 + \
             (8 + sum(4 + rnd(len(n), 4) + 4 + 4 * len(v[1]) + 8 + 4 + 4 + 4 for n, v in zip(names['vars'], vars_)))
        if not names['dims']: hl = hl           # ABSENT lists have the same 8 bytes
        end = rnd(hl, 512) if vars_ else hl
        for v in fixed:
            if end > 2**31 - 1:
                return False, True
            end = rnd(end, 4) + rnd(nbytes(v), 4)
        end = rnd(end, 4)
        for v in recs:
            if end > 2**31 - 1:
                return False, True
            end += rnd(nbytes(v), 4)
    return True, True


def gen_size_session(rng):
    sess = Session(rng, np_=rng.choice([1, 1, 2]))
    f = sess.f
    fmt = rng.choice([1, 2, 5])
    T = VMAX[fmt]
    sess.emit('* create %d %d 1' % (f, fmt), kind='create')
    dims = []       # lengths
    def dim(l):
        sess.emit('* def_dim %d %s %d' % (f, hx('d%d' % len(dims)), -1 if l == 0 else l),
                  kind='defdim', length=l, fmt=fmt)
        dims.append(l)
        return len(dims) - 1
    # dimension limit probes (rejected definitions do not create the dimension)
    if rng.chance(1, 3):
        lim = 2**31 - 1 if fmt < 5 else 2**63 - 1
        bad = lim + 1 + rng.below(2) if fmt < 5 else None
        if bad:
            sess.emit('* def_dim %d %s %d' % (f, hx('bad'), bad), kind='defdim', length=bad, fmt=fmt, expect_rc=EDIMSIZE)
    has_rec = rng.chance(1, 2)
    if has_rec:
        dim(0)
    vars_ = []
    vnames = []
    types = [1, 3, 4, 6] if fmt < 5 else [1, 3, 4, 6, 10]
    nv = rng.range(1, 3)
    plan = rng.choice(['last_big', 'first_big', 'two_big', 'just_below', 'at', 'rec_big', 'big_fixed_plus_rec', 'small',
                       'rec_before_big_fixed', 'rec_before_big_fixed', 'mix', 'mix'])
    if plan == 'rec_before_big_fixed':
        # a record variable defined EARLIER than a too-large (or exactly-at-threshold) last fixed-size variable
        if not has_rec:
            has_rec = True; dim(0)
        nv = rng.range(2, 3)
        recpos = rng.below(nv - 1)
    def big_dims(xt, target):
        """dimension ids of a variable of about `target` bytes"""
        xs = ELSIZE[xt]
        n = max(target // xs, 1)
        lim = 2**31 - 1 if fmt < 5 else 2**62
        if n <= lim:
            return [dim(n)], n * xs
        a = 2**16
        b = n // a
        return [dim(b), dim(a)], a * b * xs
    for i in range(nv):
        xt = rng.choice(types)
        xs = ELSIZE[xt]
        isrec = False
        delta = rng.choice([-8, -4, 0, 4, 8]) // xs * xs
        if plan == 'small':
            ids = [dim(rng.range(1, 5))]
        elif plan == 'last_big' and i == nv - 1:
            ids, _ = big_dims(xt, T + max(delta, xs) + 8)
        elif plan == 'first_big' and i == 0:
            ids, _ = big_dims(xt, T + 16)
        elif plan == 'two_big':
            ids, _ = big_dims(xt, T + 16)
        elif plan == 'just_below' and i == 0:
            ids, _ = big_dims(xt, T - 8)
        elif plan == 'at' and i == nv - 1:
            ids, _ = big_dims(xt, T + delta)
        elif plan == 'rec_big' and has_rec and i == nv - 1:
            ids, _ = big_dims(xt, T + 16); ids = [0] + ids; isrec = True
        elif plan == 'rec_before_big_fixed' and i == recpos:
            ids = [0, dim(rng.range(1, 3))]; isrec = True
        elif plan == 'rec_before_big_fixed' and i == nv - 1:
            ids, _ = big_dims(xt, T + rng.choice([delta, max(delta, xs) + 8, xs, 16]))
        elif plan == 'mix':
            cls = rng.choice(['small', 'small', 'below', 'above', 'at'])
            if cls == 'small':
                ids = [dim(rng.range(1, 5))]
            else:
                ids, _ = big_dims(xt, T + {'below': -8, 'above': 16, 'at': delta}[cls])
            if has_rec and rng.chance(1, 3):
                ids = [0] + ids; isrec = True
        elif plan == 'big_fixed_plus_rec' and i == 0:
            ids, _ = big_dims(xt, T + 16)
        elif plan == 'big_fixed_plus_rec' and has_rec:
            ids = [0, dim(rng.range(1, 3))]; isrec = True
        else:
            ids = [dim(rng.range(1, 5))]
        nb = ELSIZE[xt]
        for j, d in enumerate(ids):
            if not (j == 0 and dims[d] == 0):
                nb *= dims[d]
        toobig = nb > 2**63 - 4
        sess.emit('* def_var %d %s %d %d %s' % (f, hx('v%d' % i), xt, len(ids), fmt_list(ids)),
                  kind='defvar', expect_rc=(EVARSIZE if toobig else 0), nbytes=nb)
        if not toobig:
            vars_.append((xt, ids)); vnames.append('v%d' % i)
    names = dict(dims=['d%d' % i for i in range(len(dims))], vars=vnames)
    ok, decided = size_rule(fmt, vars_, dims, names)
    sess.emit('* enddef %d' % f, kind='enddef', size_rule=[ok, decided], fmt=fmt,
              sizes=[[v[0], [dims[d] for d in v[1]]] for v in vars_])
    sess.emit('* inq %d' % f, kind='inq')
    total0 = 1024 + sum((ELSIZE[xt] * max(1, __import__('math').prod([dims[d] for j, d in enumerate(ids) if not (j == 0 and dims[d] == 0)])))
                        for xt, ids in vars_)
    if ok and total0 >= 2**63:
        # the end offset of the data section exceeds 2^63-1: offsets of later variables overflow (known
        # finding); no data access is attempted, the session only shows that the file cannot be reopened
        class S_: pass
        s = S_(); s.vars = []; s.fmt = fmt; s.dims = []
        sess.s = s
        sess.emit('* close %d' % f)
        sess.emit('* open %d 0' % f, kind='open', end_overflow=True)
        sess.emit('* close %d' % f)
        return sess
    if ok:
        # single elements at the first and last index of every variable
        schema_vars = []
        for i, (xt, ids) in enumerate(vars_):
            shape = [dims[d] for d in ids]
            v = Var(i, 'v%d' % i, xt, ids, shape, bool(ids) and dims[ids[0]] == 0)
            schema_vars.append(v)
        class S_: pass
        s = S_(); s.vars = schema_vars; s.fmt = fmt; s.dims = [('d%d' % i, l) for i, l in enumerate(dims)]
        sess.s = s
        # variables that start beyond 2^41 cannot be touched (file system limit on sparse files)
        acc = 1024; reachable = set()
        for v in [x for x in schema_vars if not x.isrec] + [x for x in schema_vars if x.isrec]:
            if acc < 2**41:
                reachable.add(v.vid)
            n = ELSIZE[v.xtype]
            for i, l in enumerate(v.shape):
                if not (i == 0 and v.isrec):
                    n *= l
            acc += n
        if any(x.isrec for x in schema_vars) and acc >= 2**41:
            reachable -= {x.vid for x in schema_vars if x.isrec}      # record stride too large
        for v in schema_vars:
            if v.vid not in reachable:
                continue
            for which in ('first', 'last', 'mid'):
                idx = []
                for i, l in enumerate(v.shape):
                    if i == 0 and v.isrec:
                        idx.append(rng.below(3))
                    else:
                        idx.append(0 if which == 'first' else (l - 1 if which == 'last' else rng.below(l)))
                # keep the byte offset below 2^41 (the file system, not the library, limits sparse files)
                lin = 1
                for i, l in enumerate(v.shape):
                    if not (i == 0 and v.isrec):
                        lin *= l
                if lin * ELSIZE[v.xtype] > 2**41 and which != 'first':
                    cap = 2**41 // ELSIZE[v.xtype]
                    k = 0 if not v.isrec else 1
                    rest = 1
                    for l in v.shape[k + 1:]:
                        rest *= l
                    idx[k] = min(idx[k], max(cap // max(rest, 1) - 1, 0))
                if sess.np == 1:
                    sess.one_access('put', 'c', v, idx, [1] * v.nd, [1] * v.nd, form='var1' if v.nd else 'var1')
                else:
                    sess.begin_indep()
                    sess.one_access('put', 'i', v, idx, [1] * v.nd, [1] * v.nd, who=str(rng.below(sess.np)), form='var1')
                    sess.emit('* end_indep %d' % f)
                    sess.emit('* sync %d' % f)
                sess.note_put_numrecs(v, idx, [1] * v.nd, [1] * v.nd)
                sess.one_access('get', 'c', v, idx, [1] * v.nd, [1] * v.nd, forget=True, form='var1')
        sess.emit('* inq %d' % f, kind='inq')
        sess.emit('* close %d' % f)
        total = 1024 + sum((ELSIZE[xt] * max(1, __import__('math').prod([dims[d] for j, d in enumerate(ids) if not (j == 0 and dims[d] == 0)])))
                           for xt, ids in vars_)
        sess.emit('* open %d 0' % f, kind='open', end_overflow=(total >= 2**63))
        if total >= 2**63:
            sess.emit('* close %d' % f)
            return sess
        for v in schema_vars:
            if v.isrec or v.vid not in reachable:
                continue
            sess.one_access('get', 'c', v, [0] * v.nd, [1] * v.nd, [1] * v.nd, forget=True, form='var1')
        sess.emit('* close %d' % f)
    else:
        class S_: pass
        s = S_(); s.vars = []; s.fmt = fmt; s.dims = []
        sess.s = s
        sess.emit('* abort %d' % f)
    return sess


def gen_reclimit_session(rng):
    """CDF-1/2: the record count field is a 32-bit NON_NEG (at most 2^31-1 records).  One narrow record
    variable; single records just below the limit are written and read back (sparse file, a few GiB of
    offsets), then a put that would make the count 2^31: either it succeeds and the count survives
    close/open, or it is rejected and has no effect - a failing put that raises the count, or a count
    that is lost at reopen, violates the property."""
    sess = Session(rng, np_=1)
    f = sess.f
    fmt = rng.choice([1, 2])
    xt = rng.choice([1, 2, 3])
    K = {1: 't1', 2: 't2', 3: 't3'}[xt]
    sess.emit('* create %d %d 1' % (f, fmt), kind='create')
    sess.emit('* def_dim %d %s -1' % (f, hx('t')))
    sess.emit('* def_var %d %s %d 1 0' % (f, hx('r'), xt), kind='rl_def')
    sess.emit('* enddef %d' % f, kind='rl_enddef')
    class S_: pass
    s = S_(); s.vars = []; s.fmt = fmt; s.dims = []
    sess.s = s
    LIM = 2**31 - 1
    below = LIM - 1 - rng.below(3)                  # record index: count becomes <= 2^31-1
    sess.emit('* put %d c 0 var1 %s c 1 %d pat %d' % (f, K, below, 3 + rng.below(50)), kind='rl_put', rec=below, legal=True)
    sess.emit('* inq_numrecs %d' % f, kind='rl_nr', want=below + 1)
    sess.emit('* get %d c 0 var1 %s c 1 %d' % (f, K, below), kind='rl_get', rec=below)
    over = LIM + rng.below(2)                       # record index: count would become 2^31 or 2^31+1
    sess.emit('* put %d c 0 var1 %s c 1 %d pat %d' % (f, K, over, 60 + rng.below(30)), kind='rl_put', rec=over, legal=False,
              prev=below + 1)
    sess.emit('* inq_numrecs %d' % f, kind='rl_nr_after')
    if rng.chance(1, 2):
        sess.emit('* sync %d' % f)
    sess.emit('* close %d' % f)
    sess.emit('* open %d 0' % f, kind='open', end_overflow=False)
    sess.emit('* inq_numrecs %d' % f, kind='rl_nr_reopen')
    sess.emit('* get %d c 0 var1 %s c 1 %d' % (f, K, below), kind='rl_get', rec=below)
    sess.emit('* close %d' % f)
    return sess


def judge_reclimit(sess, res):
    fails = []
    st = {}
    for ln in range(1, len(sess.lines) + 1):
        a = sess.ann.get(ln)
        if not a or not a['kind'].startswith('rl_'):
            continue
        o = res.impl.get((ln, 0))
        if o is None or len(o) < 2:
            continue
        rc = int(o[1])
        if a['kind'] in ('rl_def', 'rl_enddef'):
            st[a['kind']] = (rc == 0)
        if not (st.get('rl_def') and st.get('rl_enddef')):
            continue                                # (a shrunk script without the definitions shows nothing)
        if a['kind'] == 'rl_put':
            if a['legal']:
                st['legal_ok'] = (rc == 0)
            if a['legal'] and rc != 0:
                fails.append(dict(kind='reclimit:legal-put-rejected', line=ln, rank=0,
                                  detail='put of record %d (count <= 2^31-1) returned %d' % (a['rec'], rc)))
            if not a['legal'] and st.get('legal_ok'):
                st['over_rc'] = rc; st['prev'] = a['prev']; st['over'] = a['rec']
        elif a['kind'] == 'rl_nr' and rc == 0 and int(o[2]) != a['want']:
            fails.append(dict(kind='reclimit:count', line=ln, rank=0, detail='record count %s, expected %d' % (o[2], a['want'])))
        elif a['kind'] == 'rl_get' and rc != 0:
            fails.append(dict(kind='reclimit:get', line=ln, rank=0, detail='reading record %d returned %d' % (a['rec'], rc)))
        elif a['kind'] == 'rl_nr_after' and rc == 0 and 'over_rc' in st:
            st['mem'] = int(o[2])
            if st['over_rc'] != 0 and st['mem'] != st['prev']:
                fails.append(dict(kind='cdf12-numrecs>2^31-1:failed-put-raised-count', line=ln, rank=0,
                                  detail='CDF-1/2: a put of record %d returned %d (count would exceed 2^31-1) yet the record '
                                         'count in memory went from %d to %d (and the data was written)'
                                         % (st['over'], st['over_rc'], st['prev'], st['mem'])))
        elif a['kind'] == 'rl_nr_reopen' and rc == 0 and 'mem' in st:
            if int(o[2]) != st['mem']:
                fails.append(dict(kind='cdf12-numrecs>2^31-1:count-lost-at-reopen', line=ln, rank=0,
                                  detail='CDF-1/2: the record count was %d before close (sync and close returned no error) '
                                         'and is %s after reopening the file' % (st['mem'], o[2])))
    return fails


def judge_size(sess, res):
    fails = []
    for ln in range(1, len(sess.lines) + 1):
        a = sess.ann.get(ln)
        if not a:
            continue
        o = res.impl.get((ln, 0))
        if a['kind'] == 'defdim' and o is not None and len(o) > 1:
            rc = int(o[1])
            want = a.get('expect_rc', 0)
            if rc != want:
                fails.append(dict(kind='def_dim-verdict', line=ln, rank=0,
                                  detail='def_dim length %d in format %d returned %d, expected %d' % (a['length'], a['fmt'], rc, want)))
        if a['kind'] == 'open' and o is not None and len(o) > 1 and int(o[1]) != 0:
            fails.append(dict(kind='reopen-failed:end-offset>=2^63' if a.get('end_overflow') else 'reopen-failed', line=ln, rank=0,
                              detail='a file whose definitions were accepted by enddef cannot be opened again (rc %s)' % o[1]))
        if a['kind'] == 'defvar' and o is not None and len(o) > 1 and int(o[1]) != a['expect_rc']:
            fails.append(dict(kind='def_var-verdict', line=ln, rank=0,
                              detail='def_var of %d bytes returned %s, expected %d' % (a['nbytes'], o[1], a['expect_rc'])))
        if a['kind'] == 'inq' and o is not None and len(o) > 2 and int(o[1]) == 0:
            vw = O.FileView(o[2:])
            if vw.ok and (vw.recsize < 0 or any(x['off'] is not None and x['off'] < 0 for x in vw.vars)):
                fails.append(dict(kind='end-offset>=2^63:negative-offset-reported', line=ln, rank=0,
                                  detail='layout accepted by enddef whose sizes do not fit 63 bits: the library reports a negative '
                                         'record size or variable offset (record size %d, offsets %s)'
                                         % (vw.recsize, [x['off'] for x in vw.vars])))
        if a['kind'] == 'enddef' and 'size_rule' in a and o is not None and len(o) > 1:
            rc = int(o[1])
            ok, decided = a['size_rule']
            if decided and ((rc == 0) != ok or (rc not in (0, EVARSIZE))):
                fails.append(dict(kind='enddef-size-verdict', line=ln, rank=0,
                                  detail='enddef returned %d; the size rule of format %d says %s for variables (type, shape) %s'
                                  % (rc, a['fmt'], 'accept' if ok else 'NC_EVARSIZE', a['sizes'])))
    return fails


def gen_wide_session(rng):
    """CDF-5 variables with a dimension longer than 2^31-1 (the hand-built subarray file type path):
    non-contiguous blocks straddling columns 2^31 and 2^32, read back through other access shapes"""
    sess = Session(rng, np_=rng.choice([1, 1, 2]))
    f = sess.f
    fmt = 5
    W = rng.choice([2**31 + 8, 2**32 + 16, 2**32 + 16])
    K = rng.choice([3, 4, 5])
    xt = rng.choice([1, 3, 4])
    three = rng.chance(1, 3)
    sess.emit('* create %d %d 1' % (f, fmt), kind='create')
    dims = [K, W] + ([2] if three else [])
    order = [0, 1, 2] if three else [0, 1]
    if three and rng.chance(1, 2):
        order = [0, 2, 1]; 
    for i, l in enumerate(dims):
        sess.emit('* def_dim %d %s %d' % (f, hx('d%d' % i), l))
    if rng.chance(1, 2):
        sess.emit('* def_var %d %s 4 0 ' % (f, hx('s')))
        vid0 = 1
    else:
        vid0 = 0
    ids = order
    shape = [dims[i] for i in ids]
    sess.emit('* def_var %d %s %d %d %s' % (f, hx('w'), xt, len(ids), fmt_list(ids)))
    sess.emit('* enddef %d' % f, kind='enddef')
    sess.emit('* inq %d' % f, kind='inq')
    v = Var(vid0, 'w', xt, ids, shape, False)
    class S_: pass
    s = S_(); s.vars = [None] * vid0 + [v]; s.fmt = fmt; s.dims = [('d%d' % i, l) for i, l in enumerate(dims)]
    sess.s = s
    wpos = ids.index(1)
    for _ in range(rng.range(2, 4)):
        c0 = rng.choice([2**31 - 2, 2**31 - 1, 2**32 - 2, W - 4, 5]) 
        c0 = min(c0, W - 4)
        start = [0] * v.nd; count = [1] * v.nd
        start[0] = rng.range(1, K - 2); count[0] = 2      # non-zero start in the slower dimension
        start[wpos] = c0; count[wpos] = rng.range(2, 4)
        if three:
            other = [i for i in range(v.nd) if i not in (0, wpos)][0]
            start[other] = 0; count[other] = rng.choice([1, 2])
        stride = [1] * v.nd
        if sess.np == 1:
            sess.one_access('put', 'c', v, start, count, stride, form=rng.choice(['vara', 'vars']))
        else:
            w = rng.below(sess.np)
            sess.emit('{')
            for r in range(sess.np):
                if r == w:
                    sess.one_access('put', 'c', v, start, count, stride, who=str(r), form='vara')
                else:
                    sess.one_access('put', 'c', v, [0] * v.nd, [0] * v.nd, stride, who=str(r), form='vara')
            sess.emit('}')
        # other shapes: row by row, and single cells
        for r0 in range(count[0]):
            st = list(start); st[0] = start[0] + r0
            cn = list(count); cn[0] = 1
            sess.one_access('get', 'c', v, st, cn, stride, forget=True, form='vara')
        st = [a + b - 1 for a, b in zip(start, count)]
        sess.one_access('get', 'c', v, st, [1] * v.nd, stride, forget=True, form='var1')
        sess.one_access('get', 'c', v, start, count, stride, forget=True, form='vara')
    sess.emit('* close %d' % f)
    sess.emit('* open %d 0' % f, kind='open', end_overflow=False)
    sess.emit('* inq %d' % f, kind='inq')
    sess.emit('* close %d' % f)
    return sess
