"""C16: sessions about fill mode and the fill oracle (never-written elements of fill-mode variables
read as the fill value; filled records; variables added by redefinition; no-fill variables untouched)."""
import struct
from .session import Session
from .gen import Schema, rand_request, hx, fmt_list, ELSIZE
from .api_gen import rw_ops
from . import oracle as O

DEFAULT_FILL = {1: -127, 2: 0, 3: -32767, 4: -2147483647, 5: 9.9692099683868690e+36, 6: 9.9692099683868690e+36,
                7: 255, 8: 65535, 9: 4294967295, 10: -9223372036854775806, 11: 18446744073709551614}
CUSTOM = {1: 77, 2: 42, 3: 1234, 4: 123456, 5: 1024, 6: 4096, 7: 200, 8: 50000, 9: 3000000000, 10: -5000000000, 11: 5000000000}


def fill_mem_bytes(t, custom):
    v = CUSTOM[t] if custom else DEFAULT_FILL[t]
    if t == 5:
        return struct.pack('<f', v)
    if t == 6:
        return struct.pack('<d', v)
    return struct.pack('<' + O.SFMT[t], v)


def define_with_fill(sess, rng, schema, first_new_dim, first_new_var, filemode):
    """emit definitions of new dims/vars with fill settings; returns per-variable (fillmode, custom)"""
    f = sess.f
    out = {}
    for n, l in schema.dims[first_new_dim:]:
        sess.emit('* def_dim %d %s %d' % (f, hx(n), -1 if l == 0 else l))
    for v in schema.vars[first_new_var:]:
        sess.emit('* def_var %d %s %d %d %s' % (f, hx(v.name), v.xtype, v.nd, fmt_list(v.dimids)))
        mode = filemode
        custom = False
        c = rng.below(6)
        if c == 0:
            sess.emit('* def_var_fill %d %d 1 0 0' % (f, v.vid)); mode = False
        elif c == 1:
            sess.emit('* def_var_fill %d %d 0 0 0' % (f, v.vid)); mode = True
        elif c == 2:
            sess.emit('* def_var_fill %d %d 0 1 %d' % (f, v.vid, CUSTOM[v.xtype])); mode = True; custom = True
        out[v.vid] = [mode, custom]
    return out


def gen_fill_session(rng, np_=None):
    sess = Session(rng, np_=np_ or rng.choice([1, 2, 3, 4]))
    f = sess.f
    schema = Schema(rng, maxvars=3, maxdims=3, maxlen=5)
    sess.s = schema
    sess.emit('* create %d %d 1' % (f, schema.fmt), kind='create')
    filemode = False
    early = rng.chance(1, 2)
    if early and rng.chance(3, 4):
        sess.emit('* set_fill %d 0' % f); filemode = True
    fm = define_with_fill(sess, rng, schema, 0, 0, filemode)
    if not early and rng.chance(3, 4):
        # set_fill after the definitions changes every variable defined so far
        mode = rng.chance(3, 4)
        sess.emit('* set_fill %d %d' % (f, 0 if mode else 1)); filemode = mode
        for k in fm:
            fm[k][0] = mode
    for v in schema.vars:
        sess.emit('* inq_var_fill %d %d' % (f, v.vid))
    sess.emit('* enddef %d' % f, kind='enddef', fill=dict((k, list(x)) for k, x in fm.items()), newvars=list(fm), numrecs=0)
    sess.sync_point()
    def reads():
        for v in schema.vars:
            if v.isrec and sess.numrecs == 0:
                continue
            start = [0] * v.nd
            count = [sess.numrecs if (i == 0 and v.isrec) else d for i, d in enumerate(v.shape)]
            ln = sess.one_access('get', 'c', v, start, count, [1] * v.nd, forget=True, form='vara' if v.nd else 'var1')
            # force memory type = external type (no conversion of fill values)
            line = sess.lines[ln - 1].split(' ')
            a = sess.ann[ln]
            line[6] = 't%d' % v.xtype
            if a['flex']:
                # drop the buffer layout tokens of the flexible form: rebuild as typed
                acc = '%d %s t%d c %s' % (v.vid, 'vara' if v.nd else 'var1', v.xtype,
                                          ('%d %s %s' % (v.nd, fmt_list(start), fmt_list(count))) if v.nd else '0')
                sess.lines[ln - 1] = '* get %d c %s' % (f, acc)
            else:
                sess.lines[ln - 1] = ' '.join(line)
            a['memk'] = v.xtype; a['buf'] = ('c',); a['flex'] = False
    reads()
    rw_ops(sess, rng, rng.range(2, 6), allow_indep=False, allow_varm=False)
    # explicitly filled records
    for v in schema.vars:
        if v.isrec and fm[v.vid][0] and rng.chance(1, 2):
            rec = rng.range(0, 5)
            sess.emit('* fill_var_rec %d %d %d' % (f, v.vid, rec), kind='fillrec', vid=v.vid, rec=rec)
            sess.numrecs = max(sess.numrecs, rec + 1); sess.rank_numrecs = [sess.numrecs] * sess.np
    sess.sync_point()
    reads()
    for k in range(rng.choice([0, 1, 1, 2])):
        sess.emit('* redef %d' % f)
        nd0, nv0 = len(schema.dims), len(schema.vars)
        if rng.chance(1, 3):
            mode = rng.chance(1, 2)
            sess.emit('* set_fill %d %d' % (f, 0 if mode else 1)); filemode = mode
            for kk in fm:
                fm[kk][0] = mode
        if rng.chance(1, 2):
            schema.dims.append(('e%d' % k, rng.range(1, 4)))
        has_rec = any(d[1] == 0 for d in schema.dims)
        for _ in range(rng.range(1, 2)):
            schema.add_var(has_rec and rng.chance(1, 2))
        new = define_with_fill(sess, rng, schema, nd0, nv0, filemode)
        fm.update(new)
        sess.emit('* enddef %d' % f, kind='enddef', fill=dict((kk, list(x)) for kk, x in fm.items()), newvars=list(new),
                  numrecs=sess.numrecs)
        sess.sync_point()
        reads()
        rw_ops(sess, rng, rng.range(1, 4), allow_indep=False, allow_varm=False)
        sess.sync_point()
        reads()
    sess.emit('* close %d' % f)
    sess.emit('* open %d 0' % f)
    sess.emit('* inq %d' % f, kind='inq')
    reads()
    sess.emit('* close %d' % f)
    return sess


def judge_fill(sess, res):
    fails = []
    s = sess.s
    fillinfo = {}            # vid -> (mode, custom) as of the last enddef
    filled = set()           # (vid, idx tuple) known to hold the fill value
    filled_rec = set()       # (vid, rec)
    filled_fixed = set()     # vid
    written = set()
    for ln in range(1, len(sess.lines) + 1):
        a = sess.ann.get(ln)
        if not a:
            continue
        if a['kind'] == 'enddef' and 'fill' in a:
            o = res.impl.get((ln, 0))
            if o is None or int(o[1]) != 0:
                fails.append(dict(kind='fill:enddef-failed', line=ln, rank=0, detail=str(o)[:200])); return fails
            fillinfo = {int(k): tuple(v) for k, v in a['fill'].items()}
            for vid in a['newvars']:
                v = s.vars[vid]
                if fillinfo[vid][0]:
                    if v.isrec:
                        for r in range(a['numrecs']):
                            filled_rec.add((vid, r))
                    else:
                        filled_fixed.add(vid)
        elif a['kind'] == 'fillrec':
            o = res.impl.get((ln, 0))
            if o is None or int(o[1]) != 0:
                fails.append(dict(kind='fill:fill_var_rec-failed', line=ln, rank=0, detail=str(o)[:200])); continue
            filled_rec.add((a['vid'], a['rec']))
            # a filled record overwrites whatever was written there
            written = {w for w in written if not (w[0] == a['vid'] and w[1][:1] == (a['rec'],))}
        elif a['kind'] == 'put':
            for idx in O.req_indices(a['start'], a['count'], a['stride']):
                written.add((a['vid'], tuple(idx)))
        elif a['kind'] == 'get' and a.get('form') != 'varm' and a['memk'] == s.vars[a['vid']].xtype and a['buf'] == ('c',):
            v = s.vars[a['vid']]
            for r in a['ranks']:
                o = res.impl.get((ln, r))
                if o is None or len(o) < 3 or int(o[1]) not in (0, -60):
                    continue
                buf = bytes.fromhex(o[2]) if o[2] != '-' else b''
                body = buf[O.GUARD:len(buf) - O.GUARD]
                es = ELSIZE[a['memk']]
                k = 0
                for idx in O.req_indices(a['start'], a['count'], a['stride']):
                    key = (a['vid'], tuple(idx))
                    got = body[k * es:(k + 1) * es]; k += 1
                    if key in written:
                        continue
                    isfill = (a['vid'] in filled_fixed) if not v.isrec else ((a['vid'], idx[0]) in filled_rec)
                    if isfill:
                        want = fill_mem_bytes(v.xtype, fillinfo.get(a['vid'], (True, False))[1])
                        if got != want:
                            fails.append(dict(kind='fill:not-fill-value', line=ln, rank=r,
                                              detail='never-written element %s of fill-mode variable %d reads %s, fill value is %s: %s'
                                              % (list(idx), a['vid'], got.hex(), want.hex(), sess.lines[ln - 1])))
                            break
    return fails
