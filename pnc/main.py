"""entry point: python3 -m pnc.main <id> [--tier quick|thorough] [--replay path]"""
import sys, os, importlib, traceback, json
from . import common as C


def main():
    args = sys.argv[1:]
    if not args:
        print('usage: check <id> [--tier quick|thorough] [--replay file]'); return 2
    pid = args[0]
    tier = None; replay = None
    i = 1
    while i < len(args):
        if args[i] == '--tier': tier = args[i + 1]; i += 2
        elif args[i] == '--replay': replay = args[i + 1]; i += 2
        else: i += 1
    sys.path.insert(0, C.VERIF)
    mod = importlib.import_module('checks.' + pid)
    ctx = C.Ctx(pid, mod.LEVEL, tier=tier)
    try:
        if replay:
            return mod.replay(ctx, json.load(open(replay)))
        mod.run(ctx)
    except C.BuildFailure as e:
        # the tree does not build: nothing about the property is shown
        print(str(e)[-3000:])
        ctx.violation('build failure: the property is not shown to hold on this tree',
                      dict(error=str(e)[-3000:], relation='build'), no_input=True)
    except Exception:
        tb = traceback.format_exc()
        print(tb)
        ctx.violation('internal error of the check', dict(error=tb[-3000:], relation='check-internal'), no_input=True)
    return ctx.finish(getattr(mod, 'ASSUMPTIONS', []))


if __name__ == '__main__':
    sys.exit(main())
