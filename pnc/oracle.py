"""Model-independent oracles evaluated on the IMPLEMENTATION's own observations: a small Python
re-statement of the specification (row-major element offsets, big-endian external encoding,
the script value pattern).  Used to decide whether a property fails on the real library,
independently of the Coq model."""
import struct
from .gen import ELSIZE

GUARD = 16
SFMT = {1: 'b', 2: 'B', 3: 'h', 4: 'i', 5: 'f', 6: 'd', 7: 'B', 8: 'H', 9: 'I', 10: 'q', 11: 'Q'}


def is8(k): return k in (1, 2, 7)
def is16(k): return k in (3, 8)


def pat_lim(memk, xt):
    if is8(memk) or is8(xt): return 100
    if is16(memk) or is16(xt): return 30000
    return 16000000


def pat_value(seed, k, lim):
    return 1 + ((seed * 7919 + k * 104729) % lim)


def mem_bytes(k, v):
    return struct.pack('<' + SFMT[k], float(v) if k in (5, 6) else v)


RANGE = {1: (-128, 127), 2: (0, 255), 3: (-32768, 32767), 4: (-2**31, 2**31 - 1), 7: (0, 255), 8: (0, 65535),
         9: (0, 2**32 - 1), 10: (-2**63, 2**63 - 1), 11: (0, 2**64 - 1)}


def fits(k, v):
    """value v is representable in memory type k (an element that is not makes NC_ERANGE legitimate)"""
    if k in (5, 6):
        return True
    lo, hi = RANGE[k]
    return lo <= v <= hi


def ext_bytes(xt, v):
    return struct.pack('>' + SFMT[xt], float(v) if xt in (5, 6) else v)


def req_indices(start, count, stride):
    """row-major enumeration of the index vectors addressed by a request"""
    if not start:
        return [[]]
    out = [[]]
    for s, c, t in zip(start, count, stride):
        out = [p + [s + i * t] for p in out for i in range(c)]
    return out


def elem_off(begin, xsz, shape, isrec, recsize, idx):
    if not shape:
        return begin
    dims = shape[1:] if isrec else shape
    ix = idx[1:] if isrec else idx
    lin = 0
    for d, i in zip(dims, ix):
        lin = lin * d + i
    return begin + (idx[0] * recsize if isrec else 0) + lin * xsz


class FileView:
    """variable geometry as reported by the implementation's own `inq` line"""
    def __init__(self, toks):
        # toks: extra tokens of an inq line (after rc)
        self.ok = False
        try:
            it = iter(toks)
            nd, nv, ng, unl = int(next(it)), int(next(it)), int(next(it)), int(next(it))
            self.dims = []; self.vars = []
            t = next(it)
            cur = None
            while True:
                if t == 'D':
                    nm = next(it); ln = int(next(it)); self.dims.append((nm, ln)); t = next(it)
                elif t == 'A':
                    next(it); next(it); next(it); next(it); t = next(it)
                elif t == 'V':
                    nm = next(it); ty = int(next(it)); n = int(next(it))
                    ids = [int(next(it)) for _ in range(n)]
                    na = int(next(it)); off = next(it)
                    self.vars.append(dict(name=nm, type=ty, dimids=ids, off=int(off) if off.lstrip('-').isdigit() else None))
                    t = next(it)
                elif t == 'H':
                    self.hsize = int(next(it)); self.hext = int(next(it)); self.recsize = int(next(it))
                    self.numrecs = int(next(it)); self.fmt = int(next(it))
                    break
                else:
                    return
            self.unlim = unl
            self.ok = True
        except (StopIteration, ValueError):
            return

    def geom(self, vid):
        v = self.vars[vid]
        shape = [0 if d == self.unlim else self.dims[d][1] for d in v['dimids']]
        # dims list reports numrecs for the unlimited dim; use dimid identity instead
        isrec = bool(v['dimids']) and v['dimids'][0] == self.unlim
        return v['off'], ELSIZE[v['type']], shape, isrec, self.recsize, v['type']

    def var_region(self, vid, numrecs):
        """byte intervals belonging to variable vid"""
        off, xsz, shape, isrec, recsize, _ = self.geom(vid)
        n = 1
        for s in (shape[1:] if isrec else shape):
            n *= s
        if isrec:
            return [(off + r * recsize, off + r * recsize + n * xsz) for r in range(numrecs)]
        return [(off, off + n * xsz)]


def put_buffer(memk, buf, nel, seed, lim):
    """the user buffer (with guards) the driver builds for a put: buf = ('c',) | ('v',c,b,s) | ('n',)"""
    es = ELSIZE[memk]
    if buf[0] == 'v':
        _, c, b, s = buf
        ext = 0 if (c <= 0 or b <= 0) else (c - 1) * s + b
        body = bytearray(b'\xa5' * (ext * es))
        for j in range(c):
            for i in range(b):
                k = j * b + i
                p = (j * s + i) * es
                body[p:p + es] = mem_bytes(memk, pat_value(seed, k, lim))
    else:
        body = bytearray()
        for k in range(nel):
            body += mem_bytes(memk, pat_value(seed, k, lim))
    return (b'\xa5' * GUARD + bytes(body) + b'\xa5' * GUARD).hex()
