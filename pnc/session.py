"""Generated API sessions (script text + annotations) and the specification oracle that judges
the implementation's observations of such a session (round trip, frame, file bytes, numrecs)."""
from .gen import Schema, rand_request, access_tokens, decompose, memtype_for, hx, ELSIZE, fmt_list
from . import oracle as O

INT_RANGE = {1: 127, 2: 255, 3: 32767, 4: 2**31 - 1, 5: 2**24, 6: 2**53, 7: 255, 8: 65535, 9: 2**32 - 1,
             10: 2**63 - 1, 11: 2**64 - 1}


class Session:
    def __init__(self, rng, np_=None, f=0):
        self.rng = rng
        self.np = np_ or rng.choice([1, 1, 2, 3, 4])
        self.f = f
        self.lines = ['nprocs %d' % self.np]
        self.ann = {}          # lineno (1-based) -> annotation dict
        self.vmax = {}         # vid -> largest value ever written
        self.seedctr = rng.below(1000)
        self.numrecs = 0       # generator's view (after collective agreement)
        self.rank_numrecs = [0] * self.np

    # -- emission
    def emit(self, line, **ann):
        self.lines.append(line)
        if ann:
            self.ann[len(self.lines)] = ann
        return len(self.lines)

    def text(self):
        return '\n'.join(self.lines) + '\n'

    def units(self):
        """indices (0-based) of lines grouped into removable units ({...} groups stay together);
        returns (fixed_header_indices, units)"""
        head, units, cur = [], [], None
        for i, l in enumerate(self.lines):
            t = l.split()
            if not t or t[0] in ('nprocs', 'env'):
                head.append(i)
            elif t[0] == '{':
                cur = [i]
            elif t[0] == '}':
                cur.append(i); units.append(cur); cur = None
            elif cur is not None:
                cur.append(i)
            else:
                units.append([i])
        return head, units

    def subset(self, idxs):
        """a copy of the session restricted to the given line indices (annotations follow)"""
        import copy
        n = copy.copy(self)
        idxs = sorted(idxs)
        n.lines = [self.lines[i] for i in idxs]
        n.ann = {}
        for k, i in enumerate(idxs):
            if (i + 1) in self.ann:
                n.ann[k + 1] = self.ann[i + 1]
        return n

    def next_seed(self):
        self.seedctr += 1
        return self.seedctr

    # -- building blocks
    def create(self, schema, clobber=1, enddef_args=None, hints=None):
        self.s = schema
        f = self.f
        for k, v in (hints or []):
            self.emit('hint %s %s' % (k, v))
        self.emit('* create %d %d %d' % (f, schema.fmt, clobber), kind='create')
        for l in schema.define_lines(f):
            self.emit(l)
        if enddef_args:
            self.emit('* _enddef %d %s' % (f, fmt_list(enddef_args)), kind='enddef')
        else:
            self.emit('* enddef %d' % f, kind='enddef')

    def begin_indep(self):
        # a rank may leave a collective read early and start writing independently while another
        # rank is still reading the same element: that program is racy; separate them
        if self.np > 1:
            self.emit('* barrier')
        self.emit('* begin_indep %d' % self.f)

    def sync_point(self):
        self.emit('* inq %d' % self.f, kind='inq')
        self.emit('* snapshot %d' % self.f, kind='snapshot')

    def pick_mem(self, v, forget):
        rng = self.rng
        for _ in range(20):
            tok, k, flex = memtype_for(rng, v)
            if forget:
                if INT_RANGE[k] >= self.vmax.get(v.vid, 0):
                    return tok, k, flex
            else:
                return tok, k, flex
        return ('t%d' % v.xtype), v.xtype, False

    def put_ann(self, v, start, count, stride, k, flex, buftok, seed, form, ranks):
        lim = O.pat_lim(v.xtype if buftok == 'n' else k, v.xtype)
        self.vmax[v.vid] = max(self.vmax.get(v.vid, 0), lim)
        return dict(kind='put', vid=v.vid, start=start, count=count, stride=stride, memk=(v.xtype if buftok == 'n' else k),
                    seed=seed, lim=lim, form=form, ranks=ranks)

    def one_access(self, op, mode, v, start, count, stride, who='*', forget=False, form=None, slot=None):
        """emit one put/get line; returns lineno"""
        rng = self.rng
        tok, k, flex = self.pick_mem(v, forget)
        acc = access_tokens(rng, v, start, count, stride, tok, k, flex, form=form, allow_resized=True)
        parts = acc.split(' ')
        form_used = parts[1]
        buftok = parts[3]
        buf = ('c',)
        if flex:
            if buftok in ('v', 'r'):
                buf = ('v', int(parts[4]), int(parts[5]), int(parts[6]))
            elif buftok == 'n':
                buf = ('n',)
        seed = self.next_seed()
        memk = v.xtype if buftok == 'n' else k
        lim = O.pat_lim(memk, v.xtype)
        head = '%s %s %d %s' % (who, op, self.f, mode if slot is None else str(slot))
        line = '%s %s%s' % (head, acc, (' pat %d' % seed) if op in ('put', 'iput', 'bput') else '')
        isput = op in ('put', 'iput', 'bput')
        if isput:
            self.vmax[v.vid] = max(self.vmax.get(v.vid, 0), lim)
        ranks = list(range(self.np)) if who == '*' else [int(who)]
        return self.emit(line, kind=('put' if isput else 'get'), op=op, vid=v.vid, start=start, count=count,
                         stride=stride, memk=memk, seed=seed, lim=lim, form=form_used, buf=buf, ranks=ranks,
                         mode=mode, flex=flex)

    def note_put_numrecs(self, v, start, count, stride, ranks=None, coll=True):
        if not v.isrec:
            return
        n = 1
        for c in count:
            n *= c
        if n == 0:
            return
        nr = start[0] + (count[0] - 1) * stride[0] + 1
        if coll:
            self.numrecs = max(self.numrecs, nr, max(self.rank_numrecs))
            self.rank_numrecs = [self.numrecs] * self.np
        else:
            for r in ranks:
                self.rank_numrecs[r] = max(self.rank_numrecs[r], nr)

    def agree_numrecs(self):
        self.numrecs = max([self.numrecs] + self.rank_numrecs)
        self.rank_numrecs = [self.numrecs] * self.np


# ---------------------------------------------------------------------- oracle
class Expect:
    """expected logical content: per variable {index tuple: value}"""
    def __init__(self):
        self.val = {}        # (vid, idx) -> value
        self.dirty = {}      # (vid, idx) -> rank that wrote it independently since the last sync
        self.touched = set() # (vid, idx) written since last snapshot

    def put(self, a, rank=None, indep=False):
        k = 0
        if a['form'] == 'varm':
            return False
        for idx in O.req_indices(a['start'], a['count'], a['stride']):
            key = (a['vid'], tuple(idx))
            self.val[key] = O.pat_value(a['seed'], k, a['lim'])
            self.touched.add(key)
            if indep:
                self.dirty[key] = rank
            elif key in self.dirty:
                del self.dirty[key]
            k += 1
        return True


def parse_hexbuf(h):
    return b'' if h == '-' else bytes.fromhex(h)


def judge(sess, res, check_frame=True):
    """walk the session with the implementation's log; returns list of failures
    (each: dict(kind, line, rank, detail))"""
    fails = []
    exp = Expect()
    s = sess.s
    view = None
    prev_snap = None
    varm_taint = set()        # variables written through varm: values unknown to this oracle
    indep = False
    view_stale = False
    for ln in range(1, len(sess.lines) + 1):
        a = sess.ann.get(ln)
        text = sess.lines[ln - 1]
        toks = text.split()
        if len(toks) >= 2 and toks[1] == 'begin_indep':
            indep = True
        if len(toks) >= 2 and toks[1] in ('end_indep', 'redef'):
            indep = False               # (redef leaves independent mode, synchronising the record count)
        if len(toks) >= 2 and toks[1] in ('sync', 'close') and not indep:
            exp.dirty.clear()
        if len(toks) >= 2 and toks[1] in ('put', 'iput', 'bput', 'wait', 'fill_var_rec', 'redef', 'enddef', '_enddef', 'open', 'create'):
            view_stale = True           # the record count reported by the last `inq` may be out of date
        if len(toks) >= 2 and toks[1] == 'inq':
            view_stale = False
        if not a:
            continue
        if a['kind'] == 'put':
            for r in a['ranks']:
                o = res.impl.get((ln, r))
                if o is None:
                    fails.append(dict(kind='no-observation', line=ln, rank=r, detail=text)); continue
                rc = int(o[1])
                if a.get('expect_rc') is not None:
                    if rc != a['expect_rc']:
                        fails.append(dict(kind='rc', line=ln, rank=r, detail='rc %d expected %d: %s' % (rc, a['expect_rc'], text)))
                    continue
                if rc != 0:
                    fails.append(dict(kind='valid-put-rejected', line=ln, rank=r, detail='rc %d: %s' % (rc, text))); continue
                if len(o) > 2 and o[2] != 'same' and a.get('op') == 'put':
                    fails.append(dict(kind='put-buffer-modified', line=ln, rank=r, detail=text))
                if a.get('op') == 'put':
                    if not exp.put(a, r, indep and a['mode'] == 'i'):
                        varm_taint.add(a['vid'])
        elif a['kind'] == 'get':
            v = s.vars[a['vid']]
            for r in a['ranks']:
                o = res.impl.get((ln, r))
                if o is None:
                    fails.append(dict(kind='no-observation', line=ln, rank=r, detail=text)); continue
                rc = int(o[1])
                if a.get('expect_rc') is not None:
                    if rc != a['expect_rc']:
                        fails.append(dict(kind='rc', line=ln, rank=r, detail='rc %d expected %d: %s' % (rc, a['expect_rc'], text)))
                    continue
                idxs = O.req_indices(a['start'], a['count'], a['stride'])
                allknown = all((a['vid'], tuple(i)) in exp.val and exp.dirty.get((a['vid'], tuple(i)), r) == r for i in idxs) \
                    and a['vid'] not in varm_taint
                if rc == -60 and not allknown:
                    rc = 0      # never-written elements hold anything: a range error is legitimate
                unfit = [i for i in idxs if (a['vid'], tuple(i)) in exp.val and not O.fits(a['memk'], exp.val[(a['vid'], tuple(i))])]
                if rc == -60 and unfit:
                    rc = 0      # a stored value does not fit the memory type asked for: NC_ERANGE is the documented answer
                if rc != 0:
                    fails.append(dict(kind='valid-get-rejected', line=ln, rank=r, detail='rc %d: %s' % (rc, text))); continue
                if a.get('op') != 'get' or a['form'] == 'varm' or a['vid'] in varm_taint:
                    continue
                buf = parse_hexbuf(o[2])
                es = ELSIZE[a['memk']]
                body = buf[O.GUARD:len(buf) - O.GUARD]
                if buf[:O.GUARD] != b'\xa5' * O.GUARD or buf[len(buf) - O.GUARD:] != b'\xa5' * O.GUARD:
                    fails.append(dict(kind='guard-overwritten', line=ln, rank=r, detail=text))
                k = 0
                bl = a['buf']
                for idx in O.req_indices(a['start'], a['count'], a['stride']):
                    key = (a['vid'], tuple(idx))
                    if bl[0] == 'v':
                        pos = (k // bl[2]) * bl[3] + k % bl[2]
                    else:
                        pos = k
                    got = body[pos * es:(pos + 1) * es]
                    k += 1
                    if key in exp.dirty and exp.dirty[key] != r:
                        continue
                    if key in exp.val and not O.fits(a['memk'], exp.val[key]):
                        continue        # (what is delivered for an out-of-range element is the subject of C09)
                    if key in exp.val:
                        want = O.mem_bytes(a['memk'], exp.val[key])
                        if got != want:
                            fails.append(dict(kind='roundtrip', line=ln, rank=r,
                                              detail='element %s of var %d: read %s expected %s (value %d): %s'
                                              % (list(idx), a['vid'], got.hex(), want.hex(), exp.val[key], text)))
                            break
                # gap bytes of vector layouts must be untouched
                if bl[0] == 'v':
                    _, c, b, st = bl
                    for j in range(c):
                        gap = body[(j * st + b) * es:min(((j + 1) * st) * es, len(body))] if st > b else b''
                        if gap != b'\xa5' * len(gap):
                            fails.append(dict(kind='gap-overwritten', line=ln, rank=r, detail=text)); break
        elif a['kind'] == 'fillrec':
            # an explicitly filled record overwrites what was written there (judged by the fill oracle)
            for key in [k for k in exp.val if k[0] == a['vid'] and k[1][:1] == (a['rec'],)]:
                del exp.val[key]
                exp.dirty.pop(key, None)
        elif a['kind'] == 'inq':
            o = res.impl.get((ln, 0))
            if o is not None and int(o[1]) == 0:
                view = O.FileView(o[2:])
                if not view.ok:
                    view = None
            # numrecs coherence across ranks
            if a.get('coherent', True) and not indep:
                nrs = set()
                for r in range(sess.np):
                    oo = res.impl.get((ln, r))
                    if oo is not None and int(oo[1]) == 0:
                        vw = O.FileView(oo[2:])
                        if vw.ok:
                            nrs.add(vw.numrecs)
                if len(nrs) > 1:
                    fails.append(dict(kind='numrecs-incoherent', line=ln, rank=0, detail='ranks report %s' % sorted(nrs)))
        elif a['kind'] == 'snapshot':
            o = res.impl.get((ln, 0))
            if o is None or int(o[1]) != 0 or len(o) < 4 or o[3] == 'big' or view is None:
                continue
            data = parse_hexbuf(o[3])
            def at(off, n):
                b = data[off:off + n]
                return b + b'\x00' * (n - len(b))
            # file bytes of every known element
            allowed = set()
            for (vid, idx), val in exp.val.items():
                if vid in varm_taint or (vid, idx) in exp.dirty:
                    continue
                off0, xsz, shape, isrec, recsize, xt = view.geom(vid)
                if off0 is None:
                    continue
                off = O.elem_off(off0, xsz, shape, isrec, recsize, list(idx))
                want = O.ext_bytes(xt, val)
                if at(off, xsz) != want:
                    fails.append(dict(kind='file-bytes', line=ln, rank=0,
                                      detail='element %s of var %d at offset %d holds %s expected %s'
                                      % (list(idx), vid, off, at(off, xsz).hex(), want.hex())))
                    break
            # header numrecs field vs reported numrecs
            nn = 8 if view.fmt == 5 else 4
            filenr = int.from_bytes(at(4, nn), 'big')
            if view.numrecs >= 0 and filenr != view.numrecs and not indep and not view_stale:
                fails.append(dict(kind='numrecs-file', line=ln, rank=0,
                                  detail='header field %d, library reports %d' % (filenr, view.numrecs)))
            if check_frame and prev_snap is not None and prev_snap[1] is not None and not a.get('noframe'):
                pdata, pview = prev_snap
                if pview.hext == view.hext and [x['off'] for x in pview.vars] == [x['off'] for x in view.vars[:len(pview.vars)]] \
                        and len(pview.vars) == len(view.vars) and pview.recsize == view.recsize:
                    allowed.update(range(4, 4 + nn))
                    # header bytes are defined; nothing but the record count may change there.
                    # (never-written data bytes are undefined: collective buffering may
                    # read-modify-write anything into holes; written elements are checked above)
                    for i in range(min(view.hsize, pview.hsize)):
                        x = data[i] if i < len(data) else 0
                        y = pdata[i] if i < len(pdata) else 0
                        if x != y and i not in allowed:
                            fails.append(dict(kind='frame', line=ln, rank=0,
                                              detail='header byte %d changed (%02x -> %02x) by a data-mode call' % (i, y, x)))
                            break
            prev_snap = (data, view)
            exp.touched = set()
    return fails


def shrink_session(sess, still_fails, max_runs=60):
    """delta debugging over units of a session; still_fails(session) -> bool"""
    head, units = sess.units()
    runs = 0
    n = 2
    while len(units) >= 2 and runs < max_runs:
        chunk = max(1, len(units) // n)
        reduced = False
        for i in range(0, len(units), chunk):
            cand = units[:i] + units[i + chunk:]
            if not cand:
                continue
            runs += 1
            cs = sess.subset(head + [x for u in cand for x in u])
            if still_fails(cs):
                units = cand; n = max(n - 1, 2); reduced = True
                break
            if runs >= max_runs:
                break
        if not reduced:
            if chunk == 1:
                break
            n = min(n * 2, len(units))
    return sess.subset(head + [x for u in units for x in u])
