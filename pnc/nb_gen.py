"""Nonblocking-request sessions for C02 / C13: generator (pnc_impl script + abstract op list), translation
of the op list to Coq terms for the model interpreter coq/NbRun.v, runner of the model (one coqc per
batch of sessions, `Eval vm_compute`), comparison implementation <-> model, and the specification
ORACLE evaluated on the implementation's own observations.

Three parties:  implementation (pnc_impl log)   model (Nonblocking.v/Abuf.v via NbRun.v)   spec (this file).
 * corr_*   : implementation vs model   (ids, statuses, idafter, inq_nreqs, usage/size, numrecs, rc, get buffers,
              put buffers incl. guards, file bytes of written elements)
 * oracle_* : implementation vs spec    (see judge())"""
import os, re, ast, struct, hashlib
from .gen import Schema, Var, hx, ELSIZE, fmt_list
from . import oracle as O
from . import common as C

G = O.GUARD
A5 = 0xA5
NOERR, ERANGE, EINVAL_REQ, EINSUFFBUF, EPENDINGBPUT, ENULLABUF, EPENDING = 0, -60, -212, -219, -218, -217, -236
TYPE_RANGE = {1: (-128, 127), 2: (0, 255), 3: (-32768, 32767), 4: (-2**31, 2**31 - 1), 5: (-2**24, 2**24),
              6: (-2**53, 2**53), 7: (0, 255), 8: (0, 65535), 9: (0, 2**32 - 1), 10: (-2**63, 2**63 - 1), 11: (0, 2**64 - 1)}
SWAP_THRESHOLD = 4096     # NC_BYTE_SWAP_BUFFER_SIZE (coq/Gen_consts.v); checked against the model by the correspondence


def prod(l):
    p = 1
    for x in l:
        p *= x
    return p


def need_convert(fmt, xt, k):
    if xt == 2: return False
    if fmt < 5 and xt == 1 and k == 7: return False
    return xt != k


def need_swap(xt, k):
    return not ((xt == 2 and k == 2) or (xt == 1 and k == 1) or (xt == 7 and k == 7))


def imap_is_contig(count, imap):
    """ncmpii_create_imaptype returns MPI_DATATYPE_NULL (Access.imap_positions = None)"""
    if imap is None or not count or prod(count) == 1:
        return True
    blk = 1
    for c, m in zip(reversed(count), reversed(imap)):
        if blk == m:
            blk *= c
        else:
            return False
    return True


def imap_positions(count, imap):
    out = [0]
    for c, m in zip(reversed(count), reversed(imap)):
        out = [i * m + p for i in range(c) for p in out]
    # built from the last dim outward: the order above is row-major (outer dims vary slowest)
    return out


class Req:
    """one posted nonblocking request"""
    def __init__(self, **kw):
        self.__dict__.update(kw)

    @property
    def isput(self):
        return self.kind in ('iput', 'bput')

    def positions(self):
        """element index inside the buffer body of canonical element k"""
        n = self.nelems
        if self.imap is not None and not imap_is_contig(self.count0, self.imap):
            return imap_positions(self.count0, self.imap)
        if self.buf[0] == 'v':
            _, c, b, s = self.buf
            return [(k // b) * s + k % b for k in range(n)]
        return list(range(n))

    def extent(self):
        if self.imap is not None and all(c > 0 for c in self.count0) and all(m >= 0 for m in self.imap) and not self.flex:
            return 1 + sum((c - 1) * m for c, m in zip(self.count0, self.imap))
        if self.buf[0] == 'v':
            _, c, b, s = self.buf
            return 0 if (c <= 0 or b <= 0) else (c - 1) * s + b
        return self.nelems

    def values(self):
        """value of canonical element k (puts)"""
        pos = self.positions()
        if self.imap is not None and not self.flex:
            return [O.pat_value(self.seed, p, self.lim) for p in pos]      # dense varm buffer: value by memory index
        return [O.pat_value(self.seed, k, self.lim) for k in range(self.nelems)]

    def put_image(self):
        """the caller's buffer incl. guards as the driver builds it"""
        es = ELSIZE[self.memk]
        if self.imap is not None and not self.flex:
            body = b''.join(O.mem_bytes(self.memk, O.pat_value(self.seed, k, self.lim)) for k in range(self.extent()))
            return b'\xa5' * G + body + b'\xa5' * G
        return bytes.fromhex(O.put_buffer(self.memk, self.buf, self.nelems, self.seed, self.lim))

    def blank_image(self):
        return b'\xa5' * (2 * G + self.extent() * ELSIZE[self.memk])

    def xbuf_bytes(self):
        return b''.join(O.ext_bytes(self.v.xtype, x) for x in self.values())


def swap_image(img, nelems, es):
    """ncmpii_in_swapn on the body (first nelems elements) of a guarded buffer"""
    if es <= 1:
        return img
    b = bytearray(img)
    for k in range(nelems):
        o = G + k * es
        b[o:o + es] = b[o:o + es][::-1]
    return bytes(b)


# ======================================================================================== generator
class NbSession:
    def __init__(self, rng, np_=None, big=False, mode=None, profile='mixed'):
        self.rng = rng
        self.np = np_ or rng.choice([1, 1, 1, 2, 2, 3])
        self.big = big
        self.profile = profile
        self.lines = ['nprocs %d' % self.np]
        self.ops = []                 # abstract ops, each dict with 'ln' (script line, 1-based) or 'lns' {rank: ln}
        self.reqs = {}                # (rank, post line) -> Req
        self.seedctr = rng.below(500)
        self.f = 0
        self.hint = rng.choice(['auto', 'auto', 'enable', 'disable'])
        self.indep = (mode == 'i') if mode else rng.chance(1, 4)
        self.erroneous = False
        self.indep_now = False

    # ---- emission
    def emit(self, line):
        self.lines.append(line)
        return len(self.lines)

    def text(self):
        return '\n'.join(self.lines) + '\n'

    def next_seed(self):
        self.seedctr += 1
        return self.seedctr

    # ---- schema
    def make_schema(self):
        rng = self.rng
        if self.big:
            s = Schema.__new__(Schema)
            s.rng = rng; s.fmt = rng.choice([1, 2, 5]); s.types = [1, 2, 3, 4, 5, 6] if s.fmt < 5 else list(range(1, 12))
            n1 = rng.choice([1025, 1030, 1100, 2050])
            s.dims = [('t', 0), ('a', n1), ('b', rng.choice([513, 520, 700]))]
            s.vars = []
            s.vars.append(Var(0, 'v0', rng.choice([4, 5, 3, 6]), [1], [n1], False))
            s.vars.append(Var(1, 'v1', rng.choice([6, 4, 10] if s.fmt == 5 else [6, 4]), [0, 2], [0, s.dims[2][1]], True))
            if rng.chance(1, 2):
                s.vars.append(Var(2, 'v2', rng.choice([3, 4]), [0, 1], [0, n1], True))
            s.numrecs = 0
        elif self.profile == 'strided':
            # 2-D / 3-D variables (fixed and record) whose SLOW dimensions are long enough for stride > 1 with count >= 3
            s = Schema.__new__(Schema)
            s.rng = rng; s.fmt = rng.choice([1, 2, 5]); s.types = [1, 2, 3, 4, 5, 6] if s.fmt < 5 else list(range(1, 12))
            s.dims = [('t', 0), ('a', rng.range(6, 9)), ('b', rng.range(5, 7)), ('c', rng.range(2, 4))]
            ty = lambda: rng.choice(s.types)
            shapes = [[1, 2], [1, 2, 3], [0, 1, 2], [0, 1, 3]]
            rng.shuffle(shapes)
            s.vars = []
            for i, ids in enumerate(shapes[:rng.range(2, 4)]):
                s.vars.append(Var(i, 'v%d' % i, ty(), ids, [s.dims[d][1] for d in ids], ids[0] == 0))
            s.numrecs = 0
        else:
            s = Schema(rng, maxdims=3, maxvars=4, maxlen=5, want_rec=rng.chance(3, 4))
        self.s = s
        self.fmt = s.fmt
        self.has_rec = any(l == 0 for _, l in s.dims)

    def fmt_req(self, r):
        """script tokens '<varid> <form> <memtype> <buf> <formargs>' of request r"""
        v = r.v
        nd = v.nd
        mt = ('x%d' if r.flex else 't%d') % r.memk
        if not r.flex:
            buf = 'c'
        elif r.buf[0] == 'c':
            buf = 'c %d' % r.nelems
        elif r.buf[0] == 'v':
            buf = 'v %d %d %d' % r.buf[1:]
        else:
            buf = 'n'
        st, ct, sd = r.parts[0]
        if r.form == 'var1':
            args = 'var1 %d %s' % (nd, fmt_list(st))
        elif r.form == 'vara':
            args = 'vara %d %s %s' % (nd, fmt_list(st), fmt_list(ct))
        elif r.form == 'vars':
            args = 'vars %d %s %s %s' % (nd, fmt_list(st), fmt_list(ct), fmt_list(sd))
        elif r.form == 'varm':
            args = 'varm %d %s %s %s %s' % (nd, fmt_list(st), fmt_list(ct), fmt_list(sd), fmt_list(r.imap))
        elif r.form == 'varn':
            args = 'varn %d %d %s' % (len(r.parts), nd, ' '.join(fmt_list(s) + ' ' + fmt_list(c) for s, c, _ in r.parts))
        else:
            args = 'var'
        args = ' '.join(args.split())
        return '%d %s %s %s%s' % (v.vid, args.split(' ', 1)[0], mt, buf, (' ' + args.split(' ', 1)[1]) if ' ' in args else '')

    # ---- request construction
    def rand_part(self, v, numrecs, forwrite, strided=True, maxrec=5):
        rng = self.rng
        start, count, stride = [], [], []
        for i, s in enumerate(v.shape):
            lim = (maxrec if forwrite else numrecs) if (i == 0 and v.isrec) else s
            if lim <= 0:
                return None
            mode = rng.below(10)
            if self.big and not (i == 0 and v.isrec):
                # requests on both sides of the 4096-byte threshold
                xs = ELSIZE[v.xtype]
                want = rng.choice([SWAP_THRESHOLD // xs, SWAP_THRESHOLD // xs + 1, SWAP_THRESHOLD // xs - 1, SWAP_THRESHOLD // xs + 7, 3])
                c = max(1, min(lim, want))
                st = rng.below(lim - c + 1)
                start.append(st); count.append(c); stride.append(1)
                continue
            if mode < 3:
                st, c, t = 0, lim, 1
            elif mode < 5:
                st, c, t = rng.below(lim), 1, 1
            else:
                t = rng.choice([1, 1, 1, 2, 2, 3]) if strided else 1
                st = rng.below(lim)
                c = rng.range(1, (lim - 1 - st) // t + 1)
            if self.big and i == 0 and v.isrec:
                st = min(st, 1); c = 1 if rng.chance(4, 5) else min(c, 2)
            start.append(st); count.append(c); stride.append(t)
        return start, count, stride

    def build_req(self, rank, kind, v, numrecs, avoid, reserved):
        """a random valid request of `kind` on v whose elements avoid the set `avoid` (pending puts of all ranks);
        puts also avoid `reserved`.  returns Req or None"""
        rng = self.rng
        forwrite = kind != 'iget'
        for _ in range(12):
            form = rng.choice(['vara', 'vara', 'vars', 'vars', 'varn', 'varn', 'varm', 'var1', 'var'])
            if self.big:
                form = rng.choice(['vara', 'vara', 'varn', 'vars'])
            if v.nd == 0:
                form = rng.choice(['var', 'var1', 'vara', 'varn'])
            parts = []
            if form == 'var':
                if v.isrec:
                    if numrecs == 0:
                        continue
                    parts = [([0] * v.nd, [numrecs] + v.shape[1:], [1] * v.nd)]
                else:
                    parts = [([0] * v.nd, list(v.shape), [1] * v.nd)]
                if self.big:
                    continue
            elif form == 'varn' and v.nd > 0:
                n = rng.range(1, 3)
                for __ in range(n):
                    p = self.rand_part(v, numrecs, forwrite, strided=False)
                    if p is None:
                        break
                    if rng.chance(1, 8):
                        p = (p[0], [0 if i == rng.below(v.nd) else c for i, c in enumerate(p[1])], p[2])
                    parts.append(p)
                if not parts:
                    continue
            else:
                p = self.rand_part(v, numrecs, forwrite, strided=form in ('vars', 'varm'))
                if p is None:
                    continue
                if form == 'var1':
                    p = (p[0], [1] * v.nd, [1] * v.nd)
                if form == 'vara':
                    p = (p[0], p[1], [1] * v.nd)
                parts = [p]
            # element sets
            idxs = []
            for st, ct, sd in parts:
                if prod(ct) == 0:
                    continue
                idxs += [tuple(i) for i in O.req_indices(st, ct, sd)]
            keys = [(v.vid, i) for i in idxs]
            if forwrite and len(set(keys)) != len(keys):
                continue        # a varn put addressing an element twice
            if any(k in avoid for k in keys):
                continue
            if forwrite and any(k in reserved for k in keys):
                continue
            if not idxs:
                if rng.chance(2, 3):
                    continue
            # memory type / buffer layout
            if v.xtype == 2:
                memk = 2
            else:
                memk = rng.choice([v.xtype, v.xtype, v.xtype, 1, 3, 4, 5, 6, 7, 8, 9, 10, 11])
            if self.big:
                memk = v.xtype if rng.chance(4, 5) else memk
            flex = rng.chance(2, 5)
            nel = len(idxs)
            buf = ('c',)
            imap = None
            count0 = parts[0][1]
            if form == 'varm':
                im = [1] * v.nd
                for i in range(v.nd - 2, -1, -1):
                    im[i] = im[i + 1] * max(count0[i + 1], 1)
                if v.nd >= 2 and rng.chance(2, 3):
                    flex = False
                    im[v.nd - 1] = max(count0[v.nd - 2], 1); im[v.nd - 2] = 1
                    for i in range(v.nd - 3, -1, -1):
                        im[i] = im[i + 1] * max(count0[i + 1], 1) if i + 1 < v.nd - 2 else count0[v.nd - 1] * count0[v.nd - 2]
                imap = im
            if flex:
                b = rng.below(6)
                if b < 3 or nel == 0:
                    buf = ('c',)
                elif b < 5:
                    bl = rng.choice([d for d in range(1, min(nel, 64) + 1) if nel % d == 0])
                    buf = ('v', nel // bl, bl, bl + rng.below(3))
                else:
                    buf = ('n',); memk = v.xtype
            lim = O.pat_lim(memk, v.xtype)
            r = Req(rank=rank, kind=kind, v=v, form=form, parts=parts, memk=memk, flex=flex, buf=buf, imap=imap,
                    count0=count0, seed=self.next_seed(), lim=lim, nelems=nel, idxs=idxs,
                    nbytes=nel * ELSIZE[v.xtype], slot=None, line=None, id_expected=None)
            return r
        return None

    # ---- the session
    # ---- "wide pitch": 2-D CDF-5 variables whose rows are 4 GiB / 3 GiB apart (sparse file): the offsets of the
    #      flattened segments of interleaved requests differ by >= 2^31, posted in DEscending order so that
    #      merge_requests has to sort them; only a few KB are ever written
    def build_wide(self):
        rng = self.rng
        f = self.f
        s = Schema.__new__(Schema)
        s.rng = rng; s.fmt = 5; s.types = list(range(1, 12))
        yb = rng.range(2, 3)
        s.dims = [('ya', 3), ('xa', 2 ** 30), ('yb', yb), ('xb', 3 * 2 ** 29)]
        s.vars = [Var(0, 'v0', 4, [0, 1], [3, 2 ** 30], False), Var(1, 'v1', 3, [2, 3], [yb, 3 * 2 ** 29], False)]
        s.numrecs = 0
        self.s = s; self.fmt = 5; self.has_rec = False; self.numrecs = 0
        self.hint = rng.choice(['auto', 'enable', 'disable'])
        self.emit('hint nc_in_place_swap %s' % self.hint)
        self.emit('* create %d 5 1' % f)
        for l in s.define_lines(f):
            self.emit(l)
        self.emit('* enddef %d' % f)
        self.ops.append(dict(op='inq', ln=self.emit('* inq %d' % f)))
        self.written = {}
        self.pending = [[] for _ in range(self.np)]
        self.slots_free = [list(range(63, -1, -1)) for _ in range(self.np)]
        self.attached = [None] * self.np
        self.poisoned = [False] * self.np
        self.allow_overlap_gets = False
        W = 10
        win = {}
        for v in s.vars:
            c0 = rng.choice([0, 5, rng.below(v.shape[1] - W), v.shape[1] - W])
            win[v.vid] = c0
            self.blocking_put(v, [0, c0], [v.shape[0], W], [1, 1])        # old values of the window, every row

        def verify():
            for v in s.vars:
                st = [0, win[v.vid]]; ct = [v.shape[0], W]
                ln = self.emit('* get %d c %d vara t%d c 2 %s %s' % (f, v.vid, v.xtype, fmt_list(st), fmt_list(ct)))
                self.ops.append(dict(op='get', ln=ln, v=v, start=st, count=ct, stride=[1, 1],
                                     expect={tuple(i): self.written.get((v.vid, tuple(i))) for i in O.req_indices(st, ct, [1, 1])}))

        def column_reqs(r, kind, v):
            """2-3 requests of rank r on v, higher columns first; columns of different ranks are disjoint"""
            cols = [win[v.vid] + 3 * r + j for j in (2, 1, 0)][:rng.range(2, 3)]
            out = []
            for c in cols:
                shape = rng.below(4)
                Y = v.shape[0]
                if shape == 0 and Y >= 3:
                    part = ([0, c], [2, 1], [2, 1])            # rows 0 and 2
                elif shape == 1:
                    part = ([rng.below(Y - 1), c], [2, 1], [1, 1])  # two consecutive rows
                else:
                    part = ([0, c], [Y, 1], [1, 1])            # the whole column
                form = 'vars' if part[2] != [1, 1] else rng.choice(['vara', 'vars'])
                memk = v.xtype if rng.chance(2, 3) else rng.choice([4, 6, 10])
                out.append(self.make_req(r, kind, v, form, [part], memk=memk))
            return out

        use_bput = rng.chance(1, 3)
        if use_bput:
            for r in range(self.np):
                self.attached[r] = 256
                ln = self.emit('%d attach %d 256' % (r, f))
                self.ops.append(dict(op='attach', ln=ln, rank=r, n=256, expect=0))
        for rnd in range(rng.range(1, 2)):
            # puts
            for r in range(self.np):
                for v in (s.vars if rng.chance(1, 2) else [rng.choice(s.vars)]):
                    for q in column_reqs(r, 'bput' if (use_bput and rng.chance(1, 2)) else 'iput', v):
                        self.post_q(r, q)
            self.complete_wide()
            verify()
            # a blocking put_var1 somewhere in the window, then interleaved gets, higher columns first
            v = rng.choice(s.vars)
            self.blocking_put(v, [rng.below(v.shape[0]), win[v.vid] + rng.below(W)], [1, 1], [1, 1])
            for r in range(self.np):
                for v in (s.vars if rng.chance(1, 2) else [rng.choice(s.vars)]):
                    for q in column_reqs(r, 'iget', v):
                        self.post_q(r, q)
            self.complete_wide()
        verify()
        if use_bput:
            for r in range(self.np):
                self.do_inq_buffer(r)
                self.do_detach(r)
        self.ops.append(dict(op='close', ln=self.emit('* close %d' % f)))
        return self

    def complete_wide(self):
        rng = self.rng
        np_ = self.np
        toks = lambda r: [str(q.slot) for q in self.pending[r]]
        if rng.chance(1, 3):
            self.indep_now = True
            self.emit('* begin_indep %d' % self.f)
            for r in range(np_):
                t = toks(r)
                self.do_step(r, ('wait', -1, []) if rng.chance(1, 2) else ('wait', len(t), t), 'i')
                if np_ > 1:
                    self.emit('* barrier')
            self.indep_now = False
            self.emit('* end_indep %d' % self.f)
            self.ops.append(dict(op='sync', ln=self.emit('* sync %d' % self.f)))
        else:
            waits = []
            for r in range(np_):
                t = toks(r)
                if rng.chance(1, 2):
                    rng.shuffle(t)
                waits.append(('wait', -1, []) if rng.chance(1, 2) else ('wait', len(t), t))
            self.do_coll_wait(waits)

    def build(self):
        if self.profile == 'wide':
            return self.build_wide()
        rng = self.rng
        f = self.f
        self.make_schema()
        s = self.s
        self.emit('hint nc_in_place_swap %s' % self.hint)
        self.emit('* create %d %d 1' % (f, s.fmt))
        for l in s.define_lines(f):
            self.emit(l)
        self.emit('* enddef %d' % f)
        ln = self.emit('* inq %d' % f)
        self.ops.append(dict(op='inq', ln=ln))
        # ---- prefill by blocking collective puts of rank 0 (others take part with zero-length requests)
        self.numrecs = 0
        self.written = {}          # (vid, idx) -> value currently in the file per SPEC
        nrec0 = rng.choice([0, 2, 3, 4]) if not self.big else rng.choice([0, 2])
        if self.profile == 'strided':
            nrec0 = 3
        for v in s.vars:
            if v.isrec and nrec0 == 0:
                continue
            if rng.chance(1, 6) and self.profile != 'strided':
                continue
            start = [0] * v.nd
            count = [nrec0 if (i == 0 and v.isrec) else d for i, d in enumerate(v.shape)]
            self.blocking_put(v, start, count, [1] * v.nd)
        # ---- nonblocking rounds
        self.pending = [[] for _ in range(self.np)]      # per rank: Req in post order (SPEC view)
        self.slots_free = [list(range(63, -1, -1)) for _ in range(self.np)]
        self.attached = [None] * self.np                 # SPEC: attached size or None
        self.poisoned = [False] * self.np
        nrounds = rng.range(1, 3) if not self.big else rng.range(1, 2)
        use_bput = rng.chance(1, 2) or self.profile == 'abuf'
        if use_bput:
            for r in range(self.np):
                if rng.chance(5, 6):
                    self.do_attach(r)
        for _ in range(nrounds):
            self.round(use_bput)
        # ---- flush what is left, detach, read back
        self.flush_all()
        if use_bput:
            for r in range(self.np):
                if self.attached[r] is not None or rng.chance(1, 4):
                    self.do_inq_buffer(r)
                    self.do_detach(r)
        self.readback()
        ln = self.emit('* close %d' % f)
        self.ops.append(dict(op='close', ln=ln))
        return self

    def blocking_put(self, v, start, count, stride, writer=0):
        f = self.f
        memk = v.xtype
        nel = prod(count)
        seed = self.next_seed()
        lim = O.pat_lim(memk, v.xtype)
        idxs = [tuple(i) for i in O.req_indices(start, count, stride)] if nel else []
        vals = [O.pat_value(seed, k, lim) for k in range(nel)]
        form = 'vara' if v.nd else 'var1'
        def line(who, st, ct):
            if v.nd == 0:
                return '%s put %d c %d var1 t%d c 0 pat %d' % (who, f, v.vid, memk, seed)
            return '%s put %d c %d vara t%d c %d %s %s pat %d' % (who, f, v.vid, memk, v.nd, fmt_list(st), fmt_list(ct), seed)
        if self.np == 1:
            ln = self.emit(line('*', start, count))
            lns = {0: ln}
        elif v.nd == 0:
            self.emit('* begin_indep %d' % f)
            ln = self.emit('%d put %d i %d var1 t%d c 0 pat %d' % (writer, f, v.vid, memk, seed))
            self.emit('* end_indep %d' % f)
            self.emit('* sync %d' % f)
            lns = {writer: ln}
        else:
            self.emit('{')
            lns = {}
            for r in range(self.np):
                if r == writer:
                    lns[r] = self.emit(line(str(r), start, count))
                else:
                    lns[r] = self.emit(line(str(r), [0] * v.nd, [0] * v.nd))
            self.emit('}')
        for i, x in zip(idxs, vals):
            self.written[(v.vid, i)] = x
        if v.isrec and nel:
            self.numrecs = max(self.numrecs, start[0] + (count[0] - 1) * stride[0] + 1)
        self.ops.append(dict(op='put', lns=lns, writer=writer, v=v, start=start, count=count, stride=stride,
                             data=b''.join(O.ext_bytes(v.xtype, x) for x in vals), coll=True, idxs=idxs, vals=vals))

    def do_attach(self, r):
        rng = self.rng
        size = rng.choice([16, 32, 48, 64, 100, 256, 1024, 4096]) if not self.big else rng.choice([4096, 8192, 20000])
        ln = self.emit('%d attach %d %d' % (r, self.f, size))
        self.ops.append(dict(op='attach', ln=ln, rank=r, n=size, expect=(-216 if self.attached[r] is not None else 0)))
        if self.attached[r] is None:
            self.attached[r] = size

    def do_detach(self, r):
        ln = self.emit('%d detach %d' % (r, self.f))
        pend = any(q.kind == 'bput' for q in self.pending[r])
        exp = ENULLABUF if self.attached[r] is None else (EPENDINGBPUT if pend else 0)
        self.ops.append(dict(op='detach', ln=ln, rank=r, expect=exp))
        if exp == 0:
            self.attached[r] = None
            if hasattr(self, 'bput_log'):
                self.bput_log[r] = []

    def abuf_hole(self, r):
        """a buffered put that is no longer pending was posted BEFORE one that still is: the pool of the library
        (which reclaims space from the tail only, finding F7) cannot give that space back yet"""
        log = getattr(self, 'bput_log', {}).get(r, [])
        pend = [any(q is p for p in self.pending[r]) for q in log]
        return any((not pend[i]) and any(pend[i + 1:]) for i in range(len(log)))

    def do_inq_buffer(self, r):
        ln = self.emit('%d inq_buffer %d' % (r, self.f))
        self.ops.append(dict(op='inqbuf', ln=ln, rank=r, attached=self.attached[r], hole=self.abuf_hole(r),
                             pending_bytes=sum(q.nbytes for q in self.pending[r] if q.kind == 'bput')))

    def do_inq_nreqs(self, r, f3=False):
        ln = self.emit('%d inq_nreqs %d' % (r, self.f))
        self.ops.append(dict(op='nreqs', ln=ln, rank=r, expect=len(self.pending[r]), f3=f3))

    def probe_shortcut(self, r, ann):
        """the number of ids equals the number of pending requests of the kind but (NULL ids) not every pending
        request is named: the SPEC leaves the unnamed ones pending - ask the library right away"""
        if ann['erroneous'] or ann['n'] < 0 or not ann['shortcut']:
            return
        if len(ann['sel']) != len(ann['pending_before']):
            self.do_inq_nreqs(r, f3=True)

    def pending_put_keys(self):
        return {(q.v.vid, i) for pl in self.pending for q in pl if q.isput for i in q.idxs}

    def post(self, r, kind):
        rng = self.rng
        s = self.s
        v = rng.choice(s.vars)
        if kind == 'iget' and v.isrec and self.numrecs == 0:
            return None
        avoid = self.pending_put_keys()
        reserved = set()
        if kind != 'iget':
            # a put must not touch elements some pending get reads (the order of the write and the read
            # inside one wait is the library's business, not the property's)
            reserved = {(q.v.vid, i) for pl in self.pending for q in pl if not q.isput for i in q.idxs}
        q = self.build_req(r, kind, v, self.numrecs, avoid, reserved)
        if q is None:
            return None
        if kind == 'iget' and not self.allow_overlap_gets:
            mine = {(q.v.vid, i) for i in q.idxs}
            if any((p.v.vid, i) in mine for pl in self.pending for p in pl if not p.isput for i in p.idxs):
                return None
        return self.post_q(r, q)

    def post_q(self, r, q):
        kind = q.kind
        if not self.slots_free[r]:
            return None
        q.slot = self.slots_free[r].pop()
        line = '%d %s %d %d %s%s' % (r, kind, self.f, q.slot, self.fmt_req(q), (' pat %d' % q.seed) if q.isput else '')
        q.line = self.emit(line)
        # SPEC expectation of the return code
        exp_rc = 0
        queued = q.nelems > 0
        if kind == 'bput':
            if self.attached[r] is None:
                exp_rc = ENULLABUF; queued = False
            elif q.nelems > 0:
                used = sum(p.nbytes for p in self.pending[r] if p.kind == 'bput')
                if self.attached[r] - used < q.nbytes:
                    exp_rc = EINSUFFBUF; queued = False
        q.exp_rc = exp_rc
        q.queued_spec = queued
        q.spec_hole = self.abuf_hole(r)
        q.spec_attached = self.attached[r]
        q.spec_pending_bytes = sum(p.nbytes for p in self.pending[r] if p.kind == 'bput')
        self.reqs[(r, q.line)] = q
        self.ops.append(dict(op='post', ln=q.line, rank=r, req=q))
        if queued:
            self.pending[r].append(q)
            if kind == 'bput':
                if not hasattr(self, 'bput_log'):
                    self.bput_log = {}
                self.bput_log.setdefault(r, []).append(q)
        else:
            self.slots_free[r].append(q.slot)
        return q

    def make_req(self, rank, kind, v, form, parts, memk=None):
        memk = memk or v.xtype
        idxs = [tuple(i) for st, ct, sd in parts if prod(ct) for i in O.req_indices(st, ct, sd)]
        return Req(rank=rank, kind=kind, v=v, form=form, parts=parts, memk=memk, flex=False, buf=('c',), imap=None,
                   count0=parts[0][1], seed=self.next_seed(), lim=O.pat_lim(memk, v.xtype), nelems=len(idxs), idxs=idxs,
                   nbytes=len(idxs) * ELSIZE[v.xtype], slot=None, line=None, id_expected=None)

    def post_strided_group(self, r):
        """2-3 requests of one process on ONE variable, strided (stride > 1, count >= 3) in a SLOW non-record dimension,
        whose file regions interleave while their elements are disjoint: completed together they go through the
        flatten / sort / merge path of the aggregation (vars_flatten, merge_requests)"""
        rng = self.rng
        cands = [v for v in self.s.vars if v.nd >= 2]
        if not cands:
            return
        v = rng.choice(cands)
        first = 1 if v.isrec else 0
        slow = [d for d in range(first, v.nd - 1) if v.shape[d] >= 5]
        if not slow:
            return
        d = rng.choice(slow)
        t = rng.choice([2, 2, 3]) if v.shape[d] >= 7 else 2
        kind = rng.choice(['iput', 'iput', 'iget'])
        base_start, base_count, base_stride = [], [], []
        for i, n in enumerate(v.shape):
            if i == 0 and v.isrec:
                lim = 4 if kind != 'iget' else self.numrecs
                st = rng.below(max(lim, 1)); c = rng.range(1, min(2, max(lim - st, 1)))
                base_start.append(st); base_count.append(c); base_stride.append(1)
            elif i == d:
                base_start.append(0); base_count.append(0); base_stride.append(t)
            else:
                tt = rng.choice([1, 1, 2])
                st = rng.below(n)
                c = rng.range(1, (n - 1 - st) // tt + 1)
                base_start.append(st); base_count.append(c); base_stride.append(tt if c > 1 else 1)
        avoid = self.pending_put_keys()
        reserved = {(q.v.vid, i) for pl in self.pending for q in pl if not q.isput for i in q.idxs}
        offs = list(range(t)); rng.shuffle(offs)
        for j in offs[:rng.range(2, t)] if t > 2 else offs:
            cnt = (v.shape[d] - 1 - j) // t + 1
            if cnt < 1:
                continue
            st = list(base_start); ct = list(base_count); sd = list(base_stride)
            st[d] = j; ct[d] = cnt
            memk = v.xtype if (v.xtype == 2 or rng.chance(2, 3)) else rng.choice([4, 6, 10, 5])
            q = self.make_req(r, kind, v, 'vars', [(st, ct, sd)], memk=memk)
            keys = {(v.vid, i) for i in q.idxs}
            if keys & avoid or (q.isput and keys & reserved):
                continue
            if q.isput:
                avoid |= keys
            self.post_q(r, q)

    def round(self, use_bput):
        rng = self.rng
        np_ = self.np
        self.allow_overlap_gets = rng.chance(1, 5)
        if self.profile == 'strided':
            for r in range(np_):
                if not self.poisoned[r]:
                    for _ in range(rng.range(1, 2)):
                        self.post_strided_group(r)
        # posts: different counts per rank
        for r in range(np_):
            if self.poisoned[r]:
                continue
            n = rng.choice([0, 1, 2, 2, 3, 4, 5]) if not self.big else rng.choice([1, 2, 3])
            if self.profile == 'strided':
                n = rng.choice([0, 0, 1])
            for _ in range(n):
                kinds = ['iput', 'iput', 'iget', 'iget'] + (['bput', 'bput', 'bput'] if use_bput else [])
                if self.profile == 'abuf':
                    kinds = ['bput', 'bput', 'bput', 'iput', 'iget']
                self.post(r, rng.choice(kinds))
                if rng.chance(1, 6):
                    self.do_inq_nreqs(r)
                if use_bput and rng.chance(1, 3):
                    self.do_inq_buffer(r)
        if rng.chance(1, 3):
            self.emit_bufs()
        for r in range(np_):
            if rng.chance(1, 2):
                self.do_inq_nreqs(r)
        # completion plans per rank
        plans = [self.plan(r) for r in range(np_)]
        self.indep_now = False
        if self.indep:
            self.emit('* begin_indep %d' % self.f)
            self.indep_now = True
            for r in range(np_):
                for step in plans[r]:
                    self.do_step(r, step, 'i')
                if np_ > 1:
                    # independent writes of different processes to neighbouring bytes race inside MPI-IO
                    # (data sieving read-modify-write): one process at a time
                    self.emit('* barrier')
            self.indep_now = False
            self.emit('* end_indep %d' % self.f)
            ln = self.emit('* sync %d' % self.f)
            self.ops.append(dict(op='sync', ln=ln))
            self.numrecs_synced()
        else:
            nsteps = max(len(p) for p in plans)
            for k in range(nsteps):
                steps = [plans[r][k] if k < len(plans[r]) else ('wait', 0, []) for r in range(np_)]
                # cancels are independent calls: emit them first, then one collective wait
                waits = []
                for r in range(np_):
                    if steps[r][0] == 'cancel':
                        self.do_step(r, steps[r], 'c')
                        waits.append(('wait', 0, []))
                    else:
                        waits.append(steps[r])
                self.do_coll_wait(waits)
        for r in range(np_):
            if rng.chance(1, 2):
                self.do_inq_nreqs(r)
            if use_bput and rng.chance(1, 2):
                self.do_inq_buffer(r)
        if rng.chance(1, 3) and self.has_rec:
            ln = self.emit('* inq_numrecs %d' % self.f)
            self.ops.append(dict(op='numrecs', ln=ln, expect=self.numrecs))

    def numrecs_synced(self):
        pass

    def emit_bufs(self):
        ln = self.emit('* bufs %d' % self.f)
        self.ops.append(dict(op='bufs', ln=ln))

    def plan(self, r):
        """a list of steps ('wait'|'cancel', n, [slot tokens]) completing (most of) rank r's pending requests"""
        rng = self.rng
        P = list(self.pending[r])
        if self.poisoned[r]:
            return []
        if not P:
            return [('wait', rng.choice([0, -1]), [])] if rng.chance(1, 2) else []
        c = rng.below(100)
        if self.profile == 'strided':
            c = rng.below(48)           # ALL / by kind / every request by id (in order or permuted): completed TOGETHER
        toks = lambda L: [str(q.slot) for q in L]
        if c < 12:
            return [('wait', -1, [])]
        if c < 22:
            a, b = (-2, -3) if rng.chance(1, 2) else (-3, -2)
            return [('wait', a, []), ('wait', b, [])]
        if c < 34:      # every pending request, explicit list, post order
            return [('wait', len(P), toks(P))]
        if c < 48:      # permuted explicit list
            L = list(P); rng.shuffle(L)
            return [('wait', len(L), toks(L))]
        if c < 75:      # partition into subsets, each permuted, NULL ids sprinkled
            L = list(P); rng.shuffle(L)
            k = rng.range(1, min(3, len(L)))
            cuts = sorted(set(rng.below(len(L)) for _ in range(k - 1)) - {0})
            parts = [L[i:j] for i, j in zip([0] + cuts, cuts + [len(L)])]
            steps = []
            for part in parts:
                t = toks(part)
                if rng.chance(1, 4):
                    t.insert(rng.below(len(t) + 1), 'N')
                steps.append(('wait', len(t), t))
            if rng.chance(1, 4):
                steps = steps[:-1]          # leave the last subset pending for the next round / final flush
            return steps
        if c < 87:      # complete a subset, cancel the rest (or part of it)
            L = list(P); rng.shuffle(L)
            h = rng.below(len(L) + 1)
            steps = []
            if h:
                steps.append(('wait', h, toks(L[:h])))
            rest = L[h:]
            if rest:
                if rng.chance(1, 3):
                    steps.append(('cancel', rng.choice([-1, -2, -3]), []))
                else:
                    steps.append(('cancel', len(rest), toks(rest)))
            return steps
        if c < 95:      # only NULL ids
            n = rng.range(1, 3)
            return [('wait', n, ['N'] * n)]
        # erroneous: a duplicated id
        L = list(P); rng.shuffle(L)
        h = rng.range(1, len(L))
        t = toks(L[:h])
        t.insert(rng.below(len(t) + 1), t[rng.below(len(t))])
        return [('wait', len(t), t, 'dup')]

    # ---- SPEC bookkeeping of one call -------------------------------------------------------
    def apply_spec(self, r, kind, n, toks, coll, erroneous=None):
        """update the SPEC state for a wait/cancel by rank r; returns the annotation dict"""
        P = self.pending[r]
        nput = sum(1 for q in P if q.isput); nget = len(P) - nput
        shortcut = n >= 0 and ((nget == 0 and n == nput) or (nput == 0 and n == nget))
        by_slot = {q.slot: q for q in P}
        named = []
        seen = set()
        dup = False
        for t in toks:
            if t == 'N':
                named.append(None); continue
            q = by_slot.get(int(t))
            if q is not None and id(q) in seen:
                dup = True
                named.append('dup')
                continue
            if q is not None:
                seen.add(id(q))
            named.append(q if q is not None else 'stale')
        if n < 0:
            if kind == 'wait':
                sel = [q for q in P if (n == -1) or (n == -2 and q.isput) or (n == -3 and not q.isput)]
            else:
                sel = [q for q in P if (n == -1) or (n == -2 and q.isput) or (n == -3 and not q.isput)]
        else:
            sel = [q for q in named if isinstance(q, Req)]
        err = dup or any(q == 'stale' for q in named)
        ann = dict(rank=r, kind=kind, n=n, toks=list(toks), named=named, sel=list(sel), erroneous=err,
                   shortcut=shortcut, pending_before=list(P), nput=nput, nget=nget, coll=coll,
                   numrecs_before=self.numrecs)
        if err:
            # SPEC for an erroneous call: safety only (judge); the generator stops using this rank's queue
            self.last_err_named = [x for x in named if isinstance(x, Req)]
            self.poisoned[r] = True
            self.erroneous = True
            ann['completed'] = []
            return ann
        # complete / cancel
        for q in sel:
            P.remove(q)
            self.slots_free[r].append(q.slot)
            if kind == 'wait' and q.isput:
                for i, x in zip(q.idxs, q.values()):
                    self.written[(q.v.vid, i)] = x
                if q.v.isrec and q.nelems:
                    mr = max(i[0] for i in q.idxs) + 1
                    ann.setdefault('newrecs', 0)
                    ann['newrecs'] = max(ann['newrecs'], mr)
        if kind == 'wait' and not err:
            # numrecs (collective: agreed by do_coll_wait; independent: at sync)
            self.numrecs = max(self.numrecs, ann.get('newrecs', 0))
        ann['completed'] = list(sel)
        ann['expect_get'] = {}
        if kind == 'wait':
            for q in sel:
                if not q.isput:
                    ann['expect_get'][q.slot] = [self.written.get((q.v.vid, i)) for i in q.idxs]
        return ann

    def do_step(self, r, step, mode):
        kind, n, toks = step[0], step[1], step[2]
        if kind == 'cancel':
            ln = self.emit('%d cancel %d %d%s' % (r, self.f, n, (' ' + ' '.join(toks)) if toks else ''))
            ann = self.apply_spec(r, 'cancel', n, toks, False)
            self.ops.append(dict(op='cancel', ln=ln, rank=r, n=n, toks=list(toks), ann=ann))
        else:
            ln = self.emit('%d wait %d i %d%s' % (r, self.f, n, (' ' + ' '.join(toks)) if toks else ''))
            ann = self.apply_spec(r, 'wait', n, toks, False)
            self.ops.append(dict(op='wait', coll=False, lns={r: ln}, args={r: (n, list(toks))}, anns={r: ann}))
            self.probe_shortcut(r, ann)
        if self.poisoned[r]:
            self.cleanup_poisoned(r)

    def do_coll_wait(self, waits):
        np_ = self.np
        same = all(w == waits[0] for w in waits)
        lns = {}
        if same and np_ > 1 and not waits[0][2]:
            ln = self.emit('* wait %d c %d' % (self.f, waits[0][1]))
            lns = {r: ln for r in range(np_)}
        elif np_ == 1:
            w = waits[0]
            lns = {0: self.emit('* wait %d c %d%s' % (self.f, w[1], (' ' + ' '.join(w[2])) if w[2] else ''))}
        else:
            self.emit('{')
            for r, w in enumerate(waits):
                lns[r] = self.emit('%d wait %d c %d%s' % (r, self.f, w[1], (' ' + ' '.join(w[2])) if w[2] else ''))
            self.emit('}')
        anns = {r: self.apply_spec(r, 'wait', w[1], w[2], True) for r, w in enumerate(waits)}
        self.ops.append(dict(op='wait', coll=True, lns=lns, args={r: (w[1], list(w[2])) for r, w in enumerate(waits)}, anns=anns))
        if not any(a['erroneous'] for a in anns.values()):
            for r in range(np_):
                self.probe_shortcut(r, anns[r])
        if any(self.poisoned):
            # an error on one process makes ncmpi_wait_all return early on ALL processes: stop using the queues
            for r in range(np_):
                self.poisoned[r] = True
                self.cleanup_poisoned(r, retry=(np_ == 1))

    def cleanup_poisoned(self, r, retry=True):
        """after an erroneous wait: show the state, try to complete one of the still pending requests by id
        (valid per SPEC), then cancel everything of this rank"""
        self.do_inq_nreqs(r)
        P = self.pending[r]
        if retry and P and not self.indep_now:
            pass
        if retry and P:
            named = [x for x in (getattr(self, 'last_err_named', None) or []) if any(x is p_ for p_ in P)]
            q = named[0] if named else P[0]
            if self.np == 1 or self.indep_now:
                mode = 'i' if self.indep_now else 'c'
                ln = self.emit('%d wait %d %s 1 %d' % (r, self.f, mode, q.slot))
                self.poisoned[r] = False
                ann = self.apply_spec(r, 'wait', 1, [str(q.slot)], mode == 'c')
                ann['retry_after_error'] = True
                self.poisoned[r] = True
                self.ops.append(dict(op='wait', coll=(mode == 'c'), lns={r: ln}, args={r: (1, [str(q.slot)])}, anns={r: ann}))
        ln = self.emit('%d cancel %d -1' % (r, self.f))
        ann = dict(rank=r, kind='cancel', n=-1, toks=[], named=[], sel=list(P), erroneous=False, shortcut=False,
                   pending_before=list(P), completed=list(P), expect_get={}, after_erroneous=True,
                   nput=0, nget=0, coll=False, numrecs_before=self.numrecs)
        for q in list(P):
            P.remove(q); self.slots_free[r].append(q.slot)
        self.ops.append(dict(op='cancel', ln=ln, rank=r, n=-1, toks=[], ann=ann))

    def flush_all(self):
        if not any(self.pending):
            return
        if self.rng.chance(1, 5):
            # leave them to close (which cancels and reports NC_EPENDING)
            self.left_at_close = [list(p) for p in self.pending]
            return
        waits = [('wait', -1, []) for _ in range(self.np)]
        self.do_coll_wait(waits)

    def readback(self):
        f = self.f
        if self.has_rec:
            ln = self.emit('* inq_numrecs %d' % f)
            self.ops.append(dict(op='numrecs', ln=ln, expect=self.numrecs, final=True))
        for v in self.s.vars:
            if v.isrec and self.numrecs == 0:
                continue
            start = [0] * v.nd
            count = [self.numrecs if (i == 0 and v.isrec) else d for i, d in enumerate(v.shape)]
            if v.nd == 0:
                ln = self.emit('* get %d c %d var1 t%d c 0' % (f, v.vid, v.xtype))
            else:
                ln = self.emit('* get %d c %d vara t%d c %d %s %s' % (f, v.vid, v.xtype, v.nd, fmt_list(start), fmt_list(count)))
            self.ops.append(dict(op='get', ln=ln, v=v, start=start, count=count, stride=[1] * v.nd,
                                 expect={tuple(i): self.written.get((v.vid, tuple(i))) for i in O.req_indices(start, count, [1] * v.nd)}))
        ln = self.emit('* snapshot %d' % f)
        self.ops.append(dict(op='snap', ln=ln, expect=dict(self.written)))


def gen_session(rng, **kw):
    return NbSession(rng, **kw).build()


# ======================================================================================== Coq terms
def zl(l):
    return '[' + '; '.join(('(%d)' % x) if x < 0 else str(x) for x in l) + ']'


def zbytes(b):
    return '[' + ';'.join(str(x) for x in b) + ']'


def coq_geom(view, vid):
    off, xsz, shape, isrec, recsize, xt = view.geom(vid)
    nrec = sum(1 for i in range(len(view.vars)) if view.geom(i)[3])
    return '(mkgeom %d %d %s %d %d)' % (off, xsz, zl(shape), recsize, nrec)


def coq_case(name, sess, view):
    lo, hi = data_region(view, sess)
    return (name, sess.np, sess.hint, sess.fmt, lo, hi, coq_ops(sess, view))


def coq_ops(sess, view):
    """the abstract op list as a Coq term `list op` (needs the geometry reported by the implementation)"""
    out = []
    for o in sess.ops:
        k = o['op']
        if k == 'post':
            q = o['req']
            g = coq_geom(view, q.v.vid)
            kind = {'iput': 'KIput', 'iget': 'KIget', 'bput': 'KBput'}[q.kind]
            if q.form == 'varn' and q.v.nd > 0:
                f = '(FVarn [%s])' % '; '.join('(%s, Some %s)' % (zl(s), zl(c)) for s, c, _ in q.parts)
            else:
                st, ct, sd = q.parts[0]
                stride = 'None' if q.form in ('var', 'var1', 'vara', 'varn') else '(Some %s)' % zl(sd)
                f = '(FVarm %s %s %s)' % (zl(st), zl(ct), stride)
            contig = 'false' if q.buf[0] == 'v' else 'true'
            has_imap = 'false' if imap_is_contig(q.count0, q.imap) else 'true'
            xaddr = ((q.rank * 64 + q.slot + 1) << 24)
            data = zbytes(q.xbuf_bytes()) if q.isput else '[]'
            out.append('OPost %d %d %s %s %s %d %d %s %s %d %s %d' %
                       (o['ln'], q.rank, kind, g, f, q.v.xtype, q.memk, contig, has_imap, xaddr, data, q.slot))
        elif k == 'wait':
            def toks(ts):
                return '[' + '; '.join('SNull' if t == 'N' else 'SSlot %s' % t for t in ts) + ']'
            args = '; '.join('(%d, (%d), %s)' % (r, NUM_N.get(a[0], a[0]), toks(a[1])) for r, a in sorted(o['args'].items()))
            ln0 = min(o['lns'].values())
            out.append('OWait %d %s [%s]' % (ln0, 'true' if o['coll'] else 'false', args))
        elif k == 'cancel':
            ts = '[' + '; '.join('SNull' if t == 'N' else 'SSlot %s' % t for t in o['toks']) + ']'
            out.append('OCancel %d %d (%d) %s' % (o['ln'], o['rank'], NUM_N.get(o['n'], o['n']), ts))
        elif k == 'nreqs':
            out.append('OInqNreqs %d %d' % (o['ln'], o['rank']))
        elif k == 'inqbuf':
            out.append('OInqBuffer %d %d' % (o['ln'], o['rank']))
        elif k == 'attach':
            out.append('OAttach %d %d %d' % (o['ln'], o['rank'], o['n']))
        elif k == 'detach':
            out.append('ODetach %d %d' % (o['ln'], o['rank']))
        elif k == 'numrecs':
            for r in range(sess.np):
                out.append('OInqNumrecs %d %d' % (o['ln'], r))
        elif k == 'put':
            ln0 = min(o['lns'].values())
            out.append('OPut %d %s %d %s %s %s %s %s' % (ln0, 'true' if o['coll'] else 'false', o['writer'],
                                                       coq_geom(view, o['v'].vid), zl(o['start']), zl(o['count']),
                                                       zl(o['stride']), zbytes(o['data'])))
        elif k == 'get':
            out.append('OGet %d 0 %s %s %s %s' % (o['ln'], coq_geom(view, o['v'].vid), zl(o['start']), zl(o['count']), zl(o['stride'])))
        elif k == 'sync':
            out.append('OSync %d' % o['ln'])
        elif k == 'close':
            out.append('OClose %d' % o['ln'])
        elif k == 'snap':
            lo, hi = data_region(view, sess)
            out.append('OSnap %d %d %d' % (o['ln'], lo, hi))
    return '[' + ';\n  '.join(out) + ']'


NUM_N = {-2: -3, -3: -2}     # script -2 = NC_PUT_REQ_ALL (= -3 in pnetcdf.h), script -3 = NC_GET_REQ_ALL (= -2)
# ---------------------------------------------------------------- which extract_reqs / req_commit is in the sources as built?
_V_SC = (r'if\(ncp->num%sReqs==0&&num_reqs==ncp->numLead%sReqs\)\{', 
         r'for\(i=0;i<num_reqs&&i<ncp->numLead%sReqs;i\+\+\)if\(req_ids\[i\]!=ncp->%s_lead_list\[i\]\.id\)break;'
         r'if\(ncp->num%sReqs==0&&num_reqs==ncp->numLead%sReqs&&i==num_reqs\)\{')
_V_SC3 = r'if\(num_reqs==ncp->numLeadPutReqs\+ncp->numLeadGetReqs&&statuses==NULL\)\{'
_V_ERR_OLD = r'if\(status!=NC_NOERR\)returnstatus;if\(\*num_w_reqs\)'
_V_ERR_NEW = (r'if\(status!=NC_NOERR\)\{for\(j=0;j<ncp->numLeadPutReqs;j\+\+\)\{fClr\(ncp->put_lead_list\[j\]\.flag,NC_REQ_TO_FREE\);'
              r'ncp->put_lead_list\[j\]\.status=NULL;\}for\(j=0;j<ncp->numLeadGetReqs;j\+\+\)\{fClr\(ncp->get_lead_list\[j\]\.flag,NC_REQ_TO_FREE\);'
              r'ncp->get_lead_list\[j\]\.status=NULL;\}returnstatus;\}if\(\*num_w_reqs\)')
_V_LOOP = r'newnumrecs=ncp->numrecs;for\(i=0;i<ncp->numLeadPutReqs;i\+\+\)\{if\(!IS_RECVAR'


def detect_variant(lib):
    """the model carries two variants of extract_reqs (Nonblocking.v, argument fx).  Returns ('old'|'fixed', note) or
    (None, reason) when the source has neither shape (then nothing is claimed: fail closed)"""
    path = os.path.join(lib, 'gen', 'src', 'drivers', 'ncmpio', 'ncmpio_wait.c')
    try:
        txt = open(path).read()
    except OSError:
        return None, 'cannot read ' + path
    txt = re.sub(r'/\*.*?\*/', '', txt, flags=re.S)
    txt = re.sub(r'\s+', '', txt)
    if len(re.findall(_V_LOOP, txt)) != 1:
        return None, 'newnumrecs loop of req_commit is not `for (i=0; i<ncp->numLeadPutReqs; i++)` (the model has only that form)'
    old = [len(re.findall(_V_SC[0] % ('Get', 'Put'), txt)), len(re.findall(_V_SC[0] % ('Put', 'Get'), txt)),
           len(re.findall(_V_SC3, txt)), len(re.findall(_V_ERR_OLD, txt))]
    new = [len(re.findall(_V_SC[1] % ('Put', 'put', 'Get', 'Put'), txt)), len(re.findall(_V_SC[1] % ('Get', 'get', 'Put', 'Get'), txt)),
           len(re.findall(_V_SC3, txt)), len(re.findall(_V_ERR_NEW, txt))]
    if old == [1, 1, 1, 1] and new[0] == 0 and new[1] == 0 and new[3] == 0:
        return 'old', 'shortcuts of extract_reqs by request COUNT, third shortcut present, error return leaves NC_REQ_TO_FREE set'
    if new == [1, 1, 0, 1] and old[0] == 0 and old[1] == 0 and old[3] == 0:
        return 'fixed', 'shortcuts of extract_reqs guarded by the in-order id test, third shortcut removed, error return clears the marks'
    return None, 'extract_reqs has neither the snapshot shape nor the shape of patches/F3_poison.diff (old-shape matches %s, new-shape matches %s)' % (old, new)


HINT = {'auto': 'SwapAuto', 'enable': 'SwapOn', 'disable': 'SwapOff'}


def run_model(cases, workdir, tag, timeout=600, variant='old'):
    """cases: list of (name, np, hint, fmt, coq ops term).  One coqc; returns {name: rows} (rows = list of int lists)
    or raises C.BuildFailure"""
    src = ['From Pnc Require Import NbRun.', 'Local Open Scope Z_scope.', 'Set Printing Width 1000000.',
           'Set Printing Depth 100000000.']
    for i, (name, np_, hint, fmt, lo, hi, term) in enumerate(cases):
        src.append('Definition ops_%d : list op :=\n  %s.' % (i, term))
        src.append('Eval vm_compute in (%d, run (init_world %s %d %s %d %d) ops_%d).' % (i, 'true' if variant == 'fixed' else 'false', np_, HINT[hint], fmt, lo, i))
    d = os.path.join(workdir, tag)
    os.makedirs(d, exist_ok=True)
    p = os.path.join(d, 'cases.v')
    open(p, 'w').write('\n'.join(src) + '\n')
    rc, out = C.sh('ulimit -s 4000000 2>/dev/null || ulimit -s unlimited 2>/dev/null; exec coqc -Q %s Pnc -w -all cases.v' % C.COQ,
                   cwd=d, timeout=timeout)
    if rc != 0:
        raise C.BuildFailure('model run failed (%s):\n%s' % (tag, out[-3000:]))
    res = {}
    for m in re.finditer(r'=\s*\((\d+),\s*(\[.*?\])\)\s*:\s*Z \* list \(list Z\)', out, re.S):
        i = int(m.group(1))
        rows = ast.literal_eval(m.group(2).replace(';', ','))
        res[cases[i][0]] = rows
    if len(res) != len(cases):
        raise C.BuildFailure('model run: %d of %d results parsed\n%s' % (len(res), len(cases), out[-2000:]))
    return res


# ======================================================================================== implementation log access
class ImplView:
    """decoded observations of one session run"""
    def __init__(self, sess, res):
        self.sess = sess
        self.res = res
        self.impl = res.impl
        self.view = None
        for o in sess.ops:
            if o['op'] == 'inq':
                t = self.impl.get((o['ln'], 0))
                if t is not None and int(t[1]) == 0:
                    v = O.FileView(t[2:])
                    if v.ok:
                        self.view = v
        # buffer images per (rank, slot): resolve `same`
        self.cur = {}

    def get(self, ln, r):
        return self.impl.get((ln, r))


def elem_offsets(view, vid, idxs):
    off0, xsz, shape, isrec, recsize, xt = view.geom(vid)
    return [O.elem_off(off0, xsz, shape, isrec, recsize, list(i)) for i in idxs]


def data_region(view, sess):
    lo = view.hext
    hi = lo
    for v in sess.s.vars:
        off0, xsz, shape, isrec, recsize, xt = view.geom(v.vid)
        n = prod(shape[1:] if isrec else shape)
        if isrec:
            hi = max(hi, off0 + (3 if sess.big else 8) * recsize + n * xsz)
        else:
            hi = max(hi, off0 + n * xsz)
    return lo, hi


# ======================================================================================== comparison impl <-> model
def unpack_err(q, xbytes):
    """status ncmpio_unpack_xbuf reports for get request q when xbuf holds xbytes (model bytes, -1 = undefined):
    None = unknown (undefined bytes)"""
    xs = ELSIZE[q.v.xtype]
    if not need_convert(q.sess_fmt, q.v.xtype, q.memk):
        return 0
    lo, hi = TYPE_RANGE[q.memk]
    err = 0
    for k in range(q.nelems):
        b = xbytes[k * xs:(k + 1) * xs]
        if any(x < 0 for x in b):
            return None
        val = struct.unpack('>' + O.SFMT[q.v.xtype], bytes(b))[0]
        if q.memk in (5, 6):
            continue
        if isinstance(val, float):
            if val != val or val < lo or val > hi:
                err = ERANGE
        elif val < lo or val > hi:
            err = ERANGE
    return err


def mem_image_from_xbuf(q, xbytes, prev):
    """the caller's get buffer after unpack, predicted from the model's xbuf bytes; bytes the prediction leaves
    open are None"""
    xs = ELSIZE[q.v.xtype]; es = ELSIZE[q.memk]
    img = list(prev)
    pos = q.positions()
    lo, hi = TYPE_RANGE[q.memk]
    for k in range(q.nelems):
        b = xbytes[k * xs:(k + 1) * xs]
        o = G + pos[k] * es
        if any(x < 0 for x in b):
            img[o:o + es] = [None] * es
            continue
        val = struct.unpack('>' + O.SFMT[q.v.xtype], bytes(b))[0]
        try:
            if q.memk in (5, 6):
                mb = struct.pack('<' + O.SFMT[q.memk], float(val))
            else:
                if isinstance(val, float):
                    if val != val or val < lo or val > hi:
                        raise OverflowError
                    val = int(val)
                if val < lo or val > hi:
                    raise OverflowError
                mb = struct.pack('<' + O.SFMT[q.memk], val)
            img[o:o + es] = list(mb)
        except (OverflowError, struct.error):
            img[o:o + es] = [None] * es       # out of range: the library stores a fill value (C09), not compared here
    return img


def img_match(actual, pred):
    return len(actual) == len(pred) and all(p is None or a == p for a, p in zip(actual, pred))


def compare(sess, iv, rows):
    """corr relations between the implementation log and the model rows; returns list of dict(rel, line, rank, detail)"""
    mism = []
    by = {}
    for row in rows:
        by.setdefault((row[0], row[1], row[2] if row[0] != 11 else 0), []).append(row)
    def add(rel, ln, r, detail):
        mism.append(dict(rel=rel, line=ln, rank=r, detail=detail))
    # predicted images of the live slots
    pred = {}      # (rank, slot) -> (Req, list image (None = open), dumped_before: last predicted image at a dump)
    last = {}      # (rank, slot) -> image at the previous dump (or right after the post)
    ncmp = 0

    def live_req(r, tag):
        q = sess.reqs.get((r, tag))
        if q is not None and (r, q.slot) in pred and pred[(r, q.slot)][0] is q:
            return q
        return None

    def dump_compare(ln, r, tokens, released):
        nonlocal ncmp
        seen = {}
        for t in tokens:
            m = re.match(r'B(\d+)=(\S+)', t)
            if m:
                seen[int(m.group(1))] = m.group(2)
            if t == '!overrun' or t.endswith('!overrun'):
                add('corr_C13_overrun', ln, r, 'driver reports bytes changed beyond the buffer')
        for (rr, slot), (q, img) in sorted(pred.items()):
            if rr != r:
                continue
            tok = seen.get(slot)
            if tok is None:
                add('corr_C02_dump', ln, r, 'slot %d live in the model but not dumped' % slot); continue
            prev = last[(rr, slot)]
            ncmp += 1
            if tok == 'same':
                if not img_match(prev, img):
                    add('corr_C13_buffer', ln, r, 'slot %d (%s): implementation buffer unchanged, model predicts a change' % (slot, q.kind))
            else:
                act = list(bytes.fromhex(tok.replace('!overrun', '')))
                if not img_match(act, img):
                    add('corr_C13_buffer', ln, r, 'slot %d (%s line %d): buffer %s..., model %s...' %
                        (slot, q.kind, q.line, tok[:80], ''.join('??' if x is None else '%02x' % x for x in img)[:80]))
                last[(rr, slot)] = act
                pred[(rr, slot)] = (q, act)
        for slot in seen:
            if (r, slot) not in pred:
                add('corr_C02_dump', ln, r, 'slot %d dumped by the implementation but not live in the model' % slot)
        for key in released:
            pred.pop(key, None); last.pop(key, None)

    for o in sess.ops:
        k = o['op']
        if k == 'post':
            q = o['req']; ln = o['ln']; r = q.rank
            t = iv.get(ln, r)
            m = (by.get((1, ln, r)) or [None])[0]
            if t is None or m is None:
                add('corr_C02_post', ln, r, 'missing observation impl=%s model=%s' % (t, m)); continue
            ncmp += 1
            rc, rid = int(t[1]), int(t[2])
            if rc != m[3]:
                add('corr_C02_post_rc', ln, r, 'rc %d model %d: %s' % (rc, m[3], sess.lines[ln - 1]))
            if rid != m[4]:
                add('corr_C02_ids', ln, r, 'request id %d model %d: %s' % (rid, m[4], sess.lines[ln - 1]))
            # the slot is live in the driver whatever the rc
            img = list(q.put_image() if q.isput else q.blank_image())
            if q.isput and m[5] == 1:
                img = list(swap_image(bytes(img), q.nelems, ELSIZE[q.memk]))
            pred[(r, q.slot)] = (q, img)
            last[(r, q.slot)] = list(img)       # content right after the post call returned
            q.model_swapped = (m[5] == 1)
        elif k in ('wait', 'cancel'):
            if k == 'wait':
                items = [(r, o['lns'][r], o['args'][r]) for r in sorted(o['args'])]
                mln = min(o['lns'].values())
            else:
                items = [(o['rank'], o['ln'], (o['n'], o['toks']))]
                mln = o['ln']
            for r, ln, (n, toks) in items:
                t = iv.get(ln, r)
                m = (by.get((2, mln, r)) or [None])[0]
                if t is None or m is None:
                    add('corr_C02_wait', ln, r, 'missing observation impl=%s model=%s' % (t, m)); continue
                ncmp += 1
                rc = int(t[1])
                # events of this rank
                gets = by.get((3, mln, r), [])
                # expected rc: model rc, or the first unpack error in queue order
                exp_rc = m[3]
                stat_over = {}
                unknown_rc = False
                for g in gets:
                    # the tag of an event is the line of the post; the request may no longer own a live slot
                    # (completion after the driver released it: only in histories derailed by an earlier finding)
                    q = sess.reqs.get((r, g[3]))
                    if q is None or q.isput or len(g[5:]) != q.nelems * ELSIZE[q.v.xtype]:
                        add('corr_C02_event', ln, r, 'completion event of the model does not match a posted get: tag %s' % g[3])
                        continue
                    q.sess_fmt = sess.fmt
                    e = unpack_err(q, g[5:])
                    if e is None:
                        unknown_rc = True; continue
                    if e != 0:
                        if exp_rc == 0:
                            exp_rc = e
                        if g[4] >= 0 and g[4] not in stat_over:
                            stat_over[g[4]] = e
                if not unknown_rc and rc != exp_rc:
                    add('corr_C02_wait_rc', ln, r, 'rc %d model %d: %s' % (rc, exp_rc, sess.lines[ln - 1]))
                if n >= 0:
                    pairs = t[3:3 + n]
                    for i in range(n):
                        if i >= len(pairs) or ':' not in pairs[i]:
                            add('corr_C02_wait', ln, r, 'malformed log %s' % t[:12]); break
                        s_i, id_i = (int(x) for x in pairs[i].split(':'))
                        ms = m[5 + 2 * i]; mid = m[6 + 2 * i]
                        if i in stat_over and ms == 0:
                            ms = stat_over[i]
                        if s_i != ms and not (unknown_rc and s_i in (0, ERANGE) and ms in (0, ERANGE)):
                            add('corr_C02_status', ln, r, 'statuses[%d] = %d model %d: %s' % (i, s_i, ms, sess.lines[ln - 1]))
                        if id_i != mid:
                            add('corr_C02_idafter', ln, r, 'req_ids[%d] after = %d model %d: %s' % (i, id_i, mid, sess.lines[ln - 1]))
                # model events -> predicted images
                for g in gets:
                    q = live_req(r, g[3])
                    if q is not None:
                        key = (r, q.slot)
                        pred[key] = (q, mem_image_from_xbuf(q, g[5:], pred[key][1]))
                for sw in by.get((4, mln, r), []):
                    q = live_req(r, sw[3])
                    if q is not None:
                        key = (r, q.slot)
                        pred[key] = (q, list(swap_image(bytes(pred[key][1]), q.nelems, ELSIZE[q.memk])))
                # driver releases: the named slots (n >= 0) or all of the kind (n < 0)
                if n >= 0:
                    rel = [(r, int(x)) for x in toks if x != 'N']
                else:
                    # harness: script -1 -> ALL, -2 -> put kinds, -3 -> get kinds
                    rel = [key for key, (q, _) in pred.items() if key[0] == r and
                           (n == -1 or (n == -2 and q.isput) or (n == -3 and not q.isput))]
                dump_compare(ln, r, t[3 + max(n, 0):], rel)
        elif k == 'bufs':
            for r in range(sess.np):
                t = iv.get(o['ln'], r)
                if t is not None:
                    dump_compare(o['ln'], r, t[2:], [])
        elif k == 'nreqs':
            t = iv.get(o['ln'], o['rank']); m = (by.get((6, o['ln'], o['rank'])) or [None])[0]
            if t is None or m is None:
                add('corr_C02_nreqs', o['ln'], o['rank'], 'missing'); continue
            ncmp += 1
            if int(t[2]) != m[3]:
                add('corr_C02_nreqs', o['ln'], o['rank'], 'inq_nreqs %s model %d' % (t[2], m[3]))
        elif k == 'inqbuf':
            t = iv.get(o['ln'], o['rank']); m = (by.get((7, o['ln'], o['rank'])) or [None])[0]
            if t is None or m is None:
                add('corr_C13_usage', o['ln'], o['rank'], 'missing'); continue
            ncmp += 1
            a = [int(x) for x in t[2:6]]
            if a != list(m[3:7]):
                add('corr_C13_usage', o['ln'], o['rank'], 'inq_buffer (rc usage rc size) %s model %s' % (a, list(m[3:7])))
        elif k in ('attach', 'detach'):
            t = iv.get(o['ln'], o['rank']); m = (by.get((8, o['ln'], o['rank'])) or [None])[0]
            if t is None or m is None:
                add('corr_C13_attach', o['ln'], o['rank'], 'missing'); continue
            ncmp += 1
            if int(t[1]) != m[3]:
                add('corr_C13_attach', o['ln'], o['rank'], '%s rc %s model %d' % (k, t[1], m[3]))
        elif k == 'numrecs':
            if sess.indep and not o.get('final'):
                continue
            for r in range(sess.np):
                t = iv.get(o['ln'], r); m = (by.get((9, o['ln'], r)) or [None])[0]
                if t is None or m is None:
                    add('corr_C02_numrecs', o['ln'], r, 'missing'); continue
                ncmp += 1
                if int(t[2]) != m[3]:
                    add('corr_C02_numrecs', o['ln'], r, 'numrecs %s model %d' % (t[2], m[3]))
        elif k == 'get':
            m = (by.get((10, o['ln'], 0)) or [None])[0]
            t = iv.get(o['ln'], 0)
            if t is None or m is None:
                add('corr_C02_readback', o['ln'], 0, 'missing: %s' % (t[:2] if t else t)); continue
            ncmp += 1
            if int(t[1]) != m[3] and not (int(t[1]) == ERANGE and m[3] == 0):
                add('corr_C02_readback', o['ln'], 0, 'rc %s model %d: %s' % (t[1], m[3], sess.lines[o['ln'] - 1])); continue
            if m[3] != 0:
                continue
            body = bytes.fromhex(t[2])[G:-G] if t[2] != '-' else b''
            v = o['v']; xs = ELSIZE[v.xtype]
            mb = m[4:]
            for kx in range(len(mb) // xs):
                e = mb[kx * xs:(kx + 1) * xs]
                if any(x < 0 for x in e):
                    continue
                if bytes(e)[::-1] != body[kx * xs:(kx + 1) * xs]:
                    add('corr_C02_file', o['ln'], 0, 'read-back of var %d element #%d: %s model (external) %s' %
                        (v.vid, kx, body[kx * xs:(kx + 1) * xs].hex(), bytes(e).hex()))
                    break
        elif k == 'snap':
            m = (by.get((11, o['ln'], 0)) or [None])[0]
            t = iv.get(o['ln'], 0)
            if t is None or m is None or int(t[1]) != 0 or len(t) < 4 or t[3] == 'big':
                continue
            ncmp += 1
            data = bytes.fromhex(t[3]) if t[3] != '-' else b''
            lo = m[2]
            for j, x in enumerate(m[3:]):
                if x < 0:
                    continue            # never written in the model: undefined, not compared
                a = data[lo + j] if lo + j < len(data) else 0
                if a != x:
                    add('corr_C02_file', o['ln'], 0, 'file byte %d = %02x model %02x' % (lo + j, a, x))
                    break
        elif k == 'close':
            for r in range(sess.np):
                t = iv.get(o['ln'], r); m = (by.get((8, o['ln'], r)) or [None])[0]
                if t is None or m is None:
                    add('corr_C02_close', o['ln'], r, 'missing'); continue
                ncmp += 1
                if int(t[1]) != m[3]:
                    add('corr_C02_close', o['ln'], r, 'close rc %s model %d' % (t[1], m[3]))
                for sw in by.get((4, o['ln'], r), []):
                    q = live_req(r, sw[3])
                    if q is not None:
                        key = (r, q.slot)
                        pred[key] = (q, list(swap_image(bytes(pred[key][1]), q.nelems, ELSIZE[q.memk])))
                dump_compare(o['ln'], r, t[2:], [key for key in pred if key[0] == r])
    return ncmp, mism


# ======================================================================================== SPEC oracle
def key_for(kind, ann=None, extra=''):
    return kind + ((':' + extra) if extra else '')


def judge(sess, iv):
    """the property evaluated on the implementation's observations alone.  returns list of dict(kind, key, line, rank, detail)"""
    fails = []
    ctx = dict(key=None, stop=False, ranks=set())
    DERAIL = {'post-rc', 'bput-refused', 'status', 'wait-rc', 'nreqs', 'late-or-early-delivery', 'id-not-reset',
              'no-observation', 'readback-rejected'}
    def fail(kind, key, ln, r, detail):
        if ctx['key'] and not key.startswith(('F2', 'F7')) and \
           (r in ctx['ranks'] or kind in ('file-content', 'file-bytes', 'numrecs', 'readback-rejected')):
            key = ctx['key']          # consequence of an earlier erroneous call on this process (see the generator)
        fails.append(dict(kind=kind, key=key, line=ln, rank=r, detail=detail))
        if kind in DERAIL or ctx['key']:
            ctx['stop'] = True        # the SPEC's and the library's sets of pending requests differ from here on
    view = iv.view
    if view is None:
        fail('no-inq', 'no-inq', 0, 0, 'no usable inq line')
        return fails
    live = {}          # (rank, slot) -> dict(q, img (bytes, current as far as known), known (bool))
    orig = {}

    def parse_dump(tokens):
        d = {}
        for t in tokens:
            m = re.match(r'B(\d+)=([0-9a-f]+|same|-)(!overrun)?', t)
            if m:
                d[int(m.group(1))] = (m.group(2), bool(m.group(3)))
        return d

    def check_dump(ln, r, tokens, completed, cancelled, unnamed_must_be_untouched=True, ann=None):
        d = parse_dump(tokens)
        for (rr, slot), st in sorted(live.items()):
            if rr != r or slot not in d:
                continue
            tok, over = d[slot]
            q = st['q']
            if over:
                fail('overrun', 'overrun', ln, r, 'bytes beyond the buffer of slot %d changed' % slot)
            if tok != 'same':
                st['img'] = bytes.fromhex(tok) if tok != '-' else b''
                st['known'] = True
            img = st['img'] if st['known'] else None
            is_done = any(x is q for x in completed)
            is_cancel = any(x is q for x in cancelled)
            if q.isput:
                # a write call never changes the caller's buffer as observable once the completing wait / cancel returned
                if (is_done or is_cancel) and img is not None and img != q.put_image():
                    fail('put-buffer-modified', 'put-buffer-modified', ln, r,
                         'slot %d (%s, line %d) after %s: %s expected %s' % (slot, q.kind, q.line, 'wait' if is_done else 'cancel',
                                                                             img.hex()[:96], q.put_image().hex()[:96]))
                if img is not None and (img[:G] != b'\xa5' * G or img[-G:] != b'\xa5' * G):
                    fail('guard-overwritten', 'guard-overwritten', ln, r, 'slot %d' % slot)
            else:
                blank = q.blank_image()
                if is_done:
                    want = ann['expect_get'].get(q.slot) if ann else None
                    cur = img if img is not None else blank          # `same` since the post = still blank
                    es = ELSIZE[q.memk]
                    pos = q.positions()
                    body = cur[G:len(cur) - G]
                    sel = set()
                    bad = None
                    lo, hi = TYPE_RANGE[q.memk]
                    for kx in range(q.nelems):
                        sel.update(range(pos[kx] * es, pos[kx] * es + es))
                    for kx in range(q.nelems):
                        o_ = pos[kx] * es
                        val = want[kx] if want else None
                        if val is None or not (lo <= val <= hi):
                            continue
                        if body[o_:o_ + es] != O.mem_bytes(q.memk, val):
                            bad = (kx, body[o_:o_ + es].hex(), O.mem_bytes(q.memk, val).hex(), val)
                            break
                    if bad:
                        others = [p for p in ann['sel'] if (not p.isput) and p is not q]
                        mine = {(q.v.vid, i) for i in q.idxs}
                        ov = any((p.v.vid, i) in mine for p in others for i in p.idxs) or len(set(q.idxs)) != len(q.idxs)
                        key = 'F2:get-overlapping-reads-one-wait' if ov else 'get-buffer-wrong'
                        fail('get-buffer', key, ln, r, 'slot %d (line %d) element #%d holds %s expected %s (value %d)%s' %
                             (slot, q.line, bad[0], bad[1], bad[2], bad[3], '; another get of the same wait reads the same elements' if ov else ''))
                    # exactly the selected bytes
                    for j in range(len(body)):
                        if j not in sel and body[j] != A5:
                            fail('get-wrote-unselected', 'get-wrote-unselected', ln, r,
                                 'slot %d (line %d): byte %d outside the selection changed to %02x' % (slot, q.line, j, body[j]))
                            break
                    if cur[:G] != b'\xa5' * G or cur[-G:] != b'\xa5' * G:
                        fail('guard-overwritten', 'guard-overwritten', ln, r, 'get slot %d' % slot)
                else:
                    # not completed by this call (pending or cancelled): untouched
                    if img is not None and img != blank and unnamed_must_be_untouched:
                        k2 = 'F3:unnamed-completed-shortcut' if (ann and ann.get('shortcut') and not is_cancel) else 'unnamed-get-buffer-touched'
                        fail('late-or-early-delivery', k2, ln, r,
                             'get buffer of slot %d (line %d) changed although the request was %s' %
                             (slot, q.line, 'cancelled' if is_cancel else 'not named'))

    for o in sess.ops:
        if ctx['stop']:
            break
        k = o['op']
        if k == 'post':
            q = o['req']; r = q.rank; ln = o['ln']
            t = iv.get(ln, r)
            if t is None:
                fail('no-observation', 'no-observation', ln, r, sess.lines[ln - 1]); continue
            rc, rid = int(t[1]), int(t[2])
            live[(r, q.slot)] = dict(q=q, img=None, known=False)
            if rc != q.exp_rc:
                if q.kind == 'bput' and rc == EINSUFFBUF and q.exp_rc == 0:
                    fail('bput-refused', 'F7:bput-refused-although-space' if q.spec_hole else 'bput-refused-wrong', ln, r,
                         'bput of %d bytes refused (NC_EINSUFFBUF) with %d bytes attached and %d bytes of pending bputs: %s'
                         % (q.nbytes, q.spec_attached, q.spec_pending_bytes, sess.lines[ln - 1]))
                elif rc == ERANGE:
                    pass
                elif q.kind == 'iget' and q.v.isrec and rc in (-40, -57) and q.exp_rc == 0:
                    fail('post-rc', 'F1:numrecs-after-wait', ln, r, 'iget of existing records rejected (rc %d): the library lost '
                         'records written by completed nonblocking puts: %s' % (rc, sess.lines[ln - 1]))
                else:
                    fail('post-rc', 'post-rc', ln, r, 'rc %d expected %d: %s' % (rc, q.exp_rc, sess.lines[ln - 1]))
            if q.queued_spec and rc == 0:
                if rid < 0 or (rid % 2 == 0) != q.isput:
                    fail('id-parity', 'id-parity', ln, r, 'request id %d for %s' % (rid, q.kind))
            if not q.queued_spec and rc == q.exp_rc and rid != -1:
                fail('id-not-null', 'id-not-null', ln, r, 'request id %d for a request that is not queued' % rid)
        elif k in ('wait', 'cancel'):
            if k == 'wait':
                items = [(r, o['lns'][r], o['args'][r], o['anns'][r]) for r in sorted(o['args'])]
            else:
                items = [(o['rank'], o['ln'], (o['n'], o['toks']), o['ann'])]
            anyerr = [a for _, _, _, a in items if a['erroneous']]
            for r, ln, (n, toks), ann in items:
                t = iv.get(ln, r)
                if t is None:
                    fail('no-observation', 'no-observation', ln, r, sess.lines[ln - 1]); continue
                rc = int(t[1])
                if anyerr and not ann['erroneous'] and not ctx['key']:
                    ctx['key'] = 'waitall:error-on-one-process-drops-the-others'
                    ctx['ranks'] = set(range(sess.np))
                pairs = t[3:3 + max(n, 0)]
                stats = [tuple(int(x) for x in p.split(':')) for p in pairs if ':' in p]
                if ann['erroneous']:
                    # safety only: requests not named must stay pending and untouched (checked through later calls)
                    check_dump(ln, r, t[3 + max(n, 0):], [], [], ann=ann)
                    for key in [(r, int(x)) for x in toks if x != 'N']:
                        live.pop(key, None)
                    if not ctx['key'] and len(items) == 1:
                        ctx['key'] = 'F3:duplicate-ids-complete-unnamed-shortcut' if ann['shortcut'] else 'wait:failed-wait-poisons-named-requests'
                        ctx['ranks'] = {r}
                    continue
                exp_status = []
                for x in ann['named']:
                    if x is None:
                        exp_status.append((0, -1))
                    else:
                        e = 0
                        if k == 'wait' and not x.isput:
                            lo, hi = TYPE_RANGE[x.memk]
                            vals = ann['expect_get'].get(x.slot, [])
                            if any(v is None for v in vals):
                                e = None
                            elif need_convert(sess.fmt, x.v.xtype, x.memk) and x.memk not in (5, 6) and any(not (lo <= v <= hi) for v in vals):
                                e = ERANGE
                        exp_status.append((e, -1))
                if n >= 0:
                    for i, (es_, got) in enumerate(zip(exp_status, stats)):
                        if es_[0] is not None and got[0] != es_[0]:
                            kk = 'F3:status-order-shortcut' if ann['shortcut'] else 'status-wrong'
                            x = ann['named'][i]
                            if isinstance(x, Req) and not x.isput and {got[0], es_[0]} == {ERANGE, 0}:
                                # a read buffer that was not (completely) filled is converted all the same
                                mine = {(x.v.vid, j) for j in x.idxs}
                                others = [p_ for p_ in ann['sel'] if (not p_.isput) and p_ is not x]
                                if len(set(x.idxs)) != len(x.idxs) or any((p_.v.vid, j) in mine for p_ in others for j in p_.idxs):
                                    kk = 'F2:get-overlapping-reads-one-wait'
                            fail('status', kk, ln, r, 'statuses[%d] = %d expected %d (request of slot %s): %s' %
                                 (i, got[0], es_[0], toks[i], sess.lines[ln - 1]))
                        if got[1] != -1:
                            fail('id-not-reset', 'id-not-reset', ln, r, 'req_ids[%d] = %d after the call' % (i, got[1]))
                exp_rc = 0
                for e in exp_status:
                    if e[0] not in (0, None) and exp_rc == 0:
                        exp_rc = e[0]
                if rc != exp_rc and not any(e[0] is None for e in exp_status) and not (rc == ERANGE or exp_rc == ERANGE):
                    fail('wait-rc', 'wait-rc', ln, r, 'rc %d expected %d: %s' % (rc, exp_rc, sess.lines[ln - 1]))
                done = ann['completed'] if k == 'wait' else []
                canc = ann['completed'] if k == 'cancel' else []
                check_dump(ln, r, t[3 + max(n, 0):], done, canc, ann=ann)
                if n >= 0:
                    rel = [(r, int(x)) for x in toks if x != 'N']
                else:
                    rel = [key for key, st in live.items() if key[0] == r and
                           (n == -1 or (n == -2 and st['q'].isput) or (n == -3 and not st['q'].isput))]
                for key in rel:
                    live.pop(key, None)
        elif k == 'bufs':
            for r in range(sess.np):
                t = iv.get(o['ln'], r)
                if t is not None:
                    check_dump(o['ln'], r, t[2:], [], [])
        elif k == 'nreqs':
            t = iv.get(o['ln'], o['rank'])
            if t is not None and int(t[1]) == 0 and int(t[2]) != o['expect']:
                fail('nreqs', 'F3:unnamed-completed-shortcut' if o.get('f3') else 'nreqs', o['ln'], o['rank'],
                     'inq_nreqs reports %s, %d requests are pending%s' % (t[2], o['expect'],
                     ' (the preceding wait named as many ids, NULL ids included, as there are pending requests: it completed requests it did not name)' if o.get('f3') else ''))
        elif k == 'inqbuf':
            t = iv.get(o['ln'], o['rank'])
            if t is None:
                continue
            rcu, usage, rcs, size = (int(x) for x in t[2:6])
            if o['attached'] is None:
                if rcu != ENULLABUF:
                    fail('inq-buffer-rc', 'inq-buffer-rc', o['ln'], o['rank'], 'rc %d without an attached buffer' % rcu)
            else:
                if rcu != 0 or rcs != 0 or size != o['attached']:
                    fail('inq-buffer-size', 'inq-buffer-size', o['ln'], o['rank'], 'rc %d/%d size %d expected %d' % (rcu, rcs, size, o['attached']))
                elif usage != o['pending_bytes']:
                    fail('usage', 'F7:usage-not-pending-bytes' if (o.get('hole') and usage > o['pending_bytes']) else 'usage-wrong', o['ln'], o['rank'],
                         'inq_buffer_usage = %d, pending buffered puts hold %d bytes' % (usage, o['pending_bytes']))
        elif k in ('attach', 'detach'):
            t = iv.get(o['ln'], o['rank'])
            if t is not None and int(t[1]) != o['expect']:
                fail(k + '-rc', k + '-rc', o['ln'], o['rank'], 'rc %s expected %d' % (t[1], o['expect']))
        elif k == 'numrecs':
            if sess.indep and not o.get('final'):
                continue
            for r in range(sess.np):
                t = iv.get(o['ln'], r)
                if t is not None and int(t[1]) == 0 and int(t[2]) != o['expect']:
                    fail('numrecs', 'F1:numrecs-after-wait', o['ln'], r,
                         'number of records %s, expected %d (records written by completed nonblocking puts)' % (t[2], o['expect']))
                    break
        elif k == 'get':
            t = iv.get(o['ln'], 0)
            if t is None or int(t[1]) not in (0, ERANGE) or t[2] == '-':
                if t is not None and int(t[1]) in (-40, -57) :
                    fail('readback-rejected', 'F1:numrecs-after-wait', o['ln'], 0,
                         'read-back of records that completed puts wrote is rejected (rc %s): %s' % (t[1], sess.lines[o['ln'] - 1]))
                continue
            body = bytes.fromhex(t[2])[G:-G]
            v = o['v']; es = ELSIZE[v.xtype]
            for kx, idx in enumerate(O.req_indices(o['start'], o['count'], o['stride'])):
                val = o['expect'].get(tuple(idx))
                if val is None:
                    continue
                if body[kx * es:(kx + 1) * es] != O.mem_bytes(v.xtype, val):
                    fail('file-content', 'file-content', o['ln'], 0, 'element %s of var %d reads %s expected %s (value %d)' %
                         (list(idx), v.vid, body[kx * es:(kx + 1) * es].hex(), O.mem_bytes(v.xtype, val).hex(), val))
                    break
        elif k == 'snap':
            t = iv.get(o['ln'], 0)
            if t is None or int(t[1]) != 0 or len(t) < 4 or t[3] in ('big', '-'):
                continue
            data = bytes.fromhex(t[3])
            for (vid, idx), val in o['expect'].items():
                off0, xsz, shape, isrec, recsize, xt = view.geom(vid)
                off = O.elem_off(off0, xsz, shape, isrec, recsize, list(idx))
                got = data[off:off + xsz]
                if got != O.ext_bytes(xt, val):
                    fail('file-bytes', 'file-bytes', o['ln'], 0, 'element %s of var %d at offset %d holds %s expected %s' %
                         (list(idx), vid, off, got.hex(), O.ext_bytes(xt, val).hex()))
                    break
        elif k == 'close':
            left = getattr(sess, 'left_at_close', None)
            for r in range(sess.np):
                t = iv.get(o['ln'], r)
                if t is None:
                    continue
                pend = bool(left and left[r])
                if int(t[1]) != (EPENDING if pend else 0):
                    fail('close-rc', 'close-rc', o['ln'], r, 'close rc %s with %s pending requests' % (t[1], 'some' if pend else 'no'))
                check_dump(o['ln'], r, t[2:], [], left[r] if left else [])
    return fails


def sess_attached(sess, o):
    return -1


def sess_pending_bytes(sess, o):
    return -1


# ======================================================================================== directed sessions
class Directed(NbSession):
    """hand-written histories (same machinery, SPEC bookkeeping and oracle as the generated ones): the minimal
    witnesses of the model's refuted statements, replayed on the real library in every run"""
    def __init__(self, np_, dims, vars_, fmt=5, hint='auto'):
        NbSession.__init__(self, C.SplitMix64(7), np_=np_)
        self.hint = hint
        self.indep = False
        s = Schema.__new__(Schema)
        s.rng = self.rng; s.fmt = fmt; s.types = list(range(1, 12)); s.dims = dims; s.vars = []
        for i, (xt, dimids) in enumerate(vars_):
            shape = [dims[d][1] for d in dimids]
            s.vars.append(Var(i, 'v%d' % i, xt, dimids, shape, bool(dimids) and dims[dimids[0]][1] == 0))
        s.numrecs = 0
        self.s = s; self.fmt = fmt
        self.has_rec = any(l == 0 for _, l in dims)
        f = self.f
        self.emit('hint nc_in_place_swap %s' % self.hint)
        self.emit('* create %d %d 1' % (f, fmt))
        for l in s.define_lines(f):
            self.emit(l)
        self.emit('* enddef %d' % f)
        self.ops.append(dict(op='inq', ln=self.emit('* inq %d' % f)))
        self.numrecs = 0
        self.written = {}
        self.pending = [[] for _ in range(np_)]
        self.slots_free = [list(range(63, -1, -1)) for _ in range(np_)]
        self.attached = [None] * np_
        self.poisoned = [False] * np_
        self.allow_overlap_gets = True

    def req(self, rank, kind, vid, start, count, memk=None, form='vara', stride=None):
        v = self.s.vars[vid]
        stride = stride or [1] * v.nd
        memk = memk or v.xtype
        idxs = [tuple(i) for i in O.req_indices(start, count, stride)] if prod(count) else []
        q = Req(rank=rank, kind=kind, v=v, form=form, parts=[(start, count, stride)], memk=memk, flex=False, buf=('c',),
                imap=None, count0=count, seed=self.next_seed(), lim=O.pat_lim(memk, v.xtype), nelems=len(idxs), idxs=idxs,
                nbytes=len(idxs) * ELSIZE[v.xtype], slot=None, line=None, id_expected=None)
        return self.post_q(rank, q)

    def attach(self, r, size):
        ln = self.emit('%d attach %d %d' % (r, self.f, size))
        self.ops.append(dict(op='attach', ln=ln, rank=r, n=size, expect=(-216 if self.attached[r] is not None else 0)))
        if self.attached[r] is None:
            self.attached[r] = size

    def numrecs_probe(self):
        ln = self.emit('* inq_numrecs %d' % self.f)
        self.ops.append(dict(op='numrecs', ln=ln, expect=self.numrecs))

    def finish(self):
        self.flush_all()
        self.readback()
        self.ops.append(dict(op='close', ln=self.emit('* close %d' % self.f)))
        return self


def directed_sessions():
    out = []
    T = ('t', 0); X = ('x', 4)
    # F1: numrecs after a wait that names a later-queued record request
    d = Directed(1, [T, X], [(4, [1]), (4, [0, 1])])
    a = d.req(0, 'iput', 0, [0], [4]); b = d.req(0, 'iput', 1, [5, 0], [1, 4])
    d.do_coll_wait([('wait', 1, [str(b.slot)])]); d.numrecs_probe()
    d.do_coll_wait([('wait', 1, [str(a.slot)])]); d.numrecs_probe()
    out.append(('F1-numrecs', d.finish()))
    # F2: two reads of the same region completed by one wait
    d = Directed(1, [T, X], [(4, [1])])
    d.blocking_put(d.s.vars[0], [0], [4], [1])
    a = d.req(0, 'iget', 0, [0], [4]); b = d.req(0, 'iget', 0, [0], [4])
    d.do_inq_nreqs(0)
    d.do_coll_wait([('wait', -1, [])])
    out.append(('F2-overlapping-gets', d.finish()))
    # F2 inside ONE varn request
    d = Directed(1, [T, X], [(4, [1])])
    d.blocking_put(d.s.vars[0], [0], [4], [1])
    v = d.s.vars[0]
    parts = [([0], [3], [1]), ([1], [2], [1])]
    idxs = [tuple(i) for st, ct, sd in parts for i in O.req_indices(st, ct, sd)]
    q = Req(rank=0, kind='iget', v=v, form='varn', parts=parts, memk=4, flex=False, buf=('c',), imap=None, count0=[3],
            seed=d.next_seed(), lim=O.pat_lim(4, 4), nelems=5, idxs=idxs, nbytes=20, slot=None, line=None, id_expected=None)
    d.post_q(0, q)
    d.do_coll_wait([('wait', 1, [str(q.slot)])])
    out.append(('F2-overlap-inside-varn', d.finish()))
    # F3: statuses delivered in queue order, not in req_ids order
    d = Directed(1, [T, X], [(4, [1])])
    d.blocking_put(d.s.vars[0], [0], [4], [1])
    a = d.req(0, 'iget', 0, [0], [2], memk=1); b = d.req(0, 'iget', 0, [2], [2], memk=4)
    d.do_coll_wait([('wait', 2, [str(b.slot), str(a.slot)])])
    out.append(('F3-status-order', d.finish()))
    # F3: a NULL id makes the wait complete a request it does not name
    d = Directed(1, [T, X], [(4, [1])])
    a = d.req(0, 'iput', 0, [0], [2]); b = d.req(0, 'iput', 0, [2], [2])
    d.do_coll_wait([('wait', 2, ['N', str(a.slot)])])
    d.do_step(0, ('cancel', 1, [str(b.slot)]), 'c')
    out.append(('F3-null-id', d.finish()))
    # F3: a duplicated id completes the request that is not named
    d = Directed(1, [T, X], [(4, [1])])
    a = d.req(0, 'iput', 0, [0], [2]); b = d.req(0, 'iput', 0, [2], [2])
    d.do_coll_wait([('wait', 2, [str(a.slot), str(a.slot)])])
    out.append(('F3-duplicate-id', d.finish()))
    # F7: usage does not fall when the first of two buffered puts completes; the freed space cannot be reused
    d = Directed(1, [T, ('x', 16)], [(4, [1])])
    d.attach(0, 32)
    a = d.req(0, 'bput', 0, [0], [4]); b = d.req(0, 'bput', 0, [4], [4])
    d.do_inq_buffer(0)
    d.do_coll_wait([('wait', 1, [str(a.slot)])])
    d.do_inq_buffer(0)
    c = d.req(0, 'bput', 0, [8], [4])
    d.do_inq_buffer(0)
    d.do_coll_wait([('wait', -1, [])])
    d.do_inq_buffer(0)
    d.do_detach(0)
    out.append(('F7-usage', d.finish()))
    # a failed wait (duplicate id, not all pending named) leaves the named request flagged for ever
    d = Directed(1, [T, X], [(4, [1])])
    d.blocking_put(d.s.vars[0], [0], [4], [1])
    a = d.req(0, 'iput', 0, [0], [2]); b = d.req(0, 'iput', 0, [2], [1]); c = d.req(0, 'iget', 0, [3], [1])
    d.do_coll_wait([('wait', 2, [str(a.slot), str(a.slot)])])
    out.append(('failed-wait-poisons', d.finish()))
    # interleaving requests strided in a SLOW dimension (count 3, stride 2), completed together: the flatten / sort / merge
    # path of the aggregation (vars_flatten); fixed 2-D variable, then a record 3-D variable, puts then gets
    d = Directed(1, [T, ('a', 6), ('b', 5)], [(4, [1, 2]), (6, [0, 1, 2])])
    d.blocking_put(d.s.vars[0], [0, 0], [6, 5], [1, 1])
    d.blocking_put(d.s.vars[1], [0, 0, 0], [2, 6, 5], [1, 1, 1])
    for vid, st0, ct0 in ((0, [], []), (1, [1], [1])):
        a = d.post_q(0, d.make_req(0, 'iput', d.s.vars[vid], 'vars', [(st0 + [0, 1], ct0 + [3, 2], [1] * len(st0) + [2, 2])]))
        b = d.post_q(0, d.make_req(0, 'iput', d.s.vars[vid], 'vars', [(st0 + [1, 0], ct0 + [3, 3], [1] * len(st0) + [2, 2])]))
        d.do_coll_wait([('wait', 2, [str(b.slot), str(a.slot)])])
        a = d.post_q(0, d.make_req(0, 'iget', d.s.vars[vid], 'vars', [(st0 + [0, 0], ct0 + [3, 5], [1] * len(st0) + [2, 1])]))
        b = d.post_q(0, d.make_req(0, 'iget', d.s.vars[vid], 'vars', [(st0 + [1, 1], ct0 + [3, 2], [1] * len(st0) + [2, 3])]))
        d.do_coll_wait([('wait', -1, [])])
    out.append(('strided-slow-dim-interleaved', d.finish()))
    # an invalid id on ONE process makes wait_all return NC_NOERR on the OTHER without doing its I/O
    d = Directed(2, [T, X], [(4, [1])])
    d.blocking_put(d.s.vars[0], [0], [4], [1])
    a = d.req(0, 'iput', 0, [0], [2])
    b = d.req(1, 'iput', 0, [2], [1]); c = d.req(1, 'iget', 0, [3], [1])
    d.do_coll_wait([('wait', 1, [str(a.slot)]), ('wait', 2, [str(b.slot), str(b.slot)])])
    out.append(('waitall-peer-error', d.finish()))
    return out
