"""C12 (burst-buffer driver is transparent): program generator, Coq case writer and ORACLE.

A generated program is ONE script (harness/SCRIPT.md) that is run unchanged against the default
build and against the burst-buffer build (there the `hint` lines are active; in the default run they
are replaced by `#` lines so that line numbers coincide), plus the same program as a Coq term
(`list op` of coq/BurstBuffer.v) for the model, plus the bookkeeping the oracle needs.

Program discipline (what the property quantifies over; enforced by construction):
  * between two flushes of a rank's log no element is written twice (documented limitation), and
    an element last written by ANOTHER rank is touched only after a global visibility point
    (sync/flush/wait_all/redef/close followed by a barrier) -- the same discipline the default driver
    needs under MPI-IO consistency;
  * elements of a posted, not yet waited nonblocking put are neither read nor written;
  * a nonblocking put is cancelled only before any flush trigger of its rank;
  * reads address only elements whose value is known (never-written bytes are undefined).
Everything random comes from the SplitMix64 handed in."""
from .gen import Schema, rand_request, access_tokens, memtype_for, hx, ELSIZE, fmt_list
from . import oracle as O

KEY_CANCEL = 'bb:numrecs:cancelled-iput'
KEY_BEGIN = 'bb:numrecs:begin-indep-unflushed'
KEY_WAITMIX = 'bb:hang:wait_all-put-req-all-mixed'
KEY_UNLINK = 'bb:reopen:shared-log-unlink-race'


class Cfg:
    def __init__(self, np_, hint, shared, delete, fmt=None):
        self.np, self.hint, self.shared, self.delete, self.fmt = np_, hint, shared, delete, fmt
    def desc(self):
        return 'np=%d buf=%s logs=%s del=%s' % (self.np, self.hint if self.hint else 'unlimited',
                                                'shared' if self.shared else 'per-process', 'on' if self.delete else 'off')


def parse_acc(acc):
    """'<vid> <form> <memtype> <buf..> <formargs>' -> dict(vid, form, memtok, k, flex, buf, parts)
    parts = [(start, count, stride-or-None)]"""
    t = acc.split()
    vid, form, mt = int(t[0]), t[1], t[2]
    flex = mt[0] == 'x'; k = int(mt[1:])
    i = 3
    if t[i] == 'c':
        if flex:
            buf = ('c', int(t[i + 1])); i += 2
        else:
            buf = ('c',); i += 1
    elif t[i] == 'v':
        buf = ('v', int(t[i + 1]), int(t[i + 2]), int(t[i + 3])); i += 4
    else:
        buf = ('n',); i += 1
    a = [int(x) for x in t[i:]]
    parts = []
    if form == 'var':
        parts = None
    elif form == 'var1':
        nd = a[0]; parts = [(a[1:1 + nd], [1] * nd, None)]
    elif form == 'vara':
        nd = a[0]; parts = [(a[1:1 + nd], a[1 + nd:1 + 2 * nd], None)]
    elif form == 'vars':
        nd = a[0]; parts = [(a[1:1 + nd], a[1 + nd:1 + 2 * nd], a[1 + 2 * nd:1 + 3 * nd])]
    elif form == 'varn':
        n, nd = a[0], a[1]; p = 2
        for _ in range(n):
            parts.append((a[p:p + nd], a[p + nd:p + 2 * nd], None)); p += 2 * nd
        if nd == 0:
            form = 'vara'        # the dispatcher hands a varn request on a scalar variable to put_var/get_var
    return dict(vid=vid, form=form, memtok=mt, k=k, flex=flex, buf=buf, parts=parts)


def part_keys(vid, parts):
    out = []
    for st, cnt, sd in parts:
        for idx in O.req_indices(st, cnt, sd or [1] * len(st)):
            out.append((vid, tuple(idx)))
    return out


def part_recs(isrec, parts):
    if not isrec:
        return 0
    m = 0
    for st, cnt, sd in parts:
        n = 1
        for c in cnt:
            n *= c
        if n == 0 or not st:
            continue
        m = max(m, st[0] + (cnt[0] - 1) * (sd[0] if sd else 1) + 1)
    return m


# ------------------------------------------------------------------ Coq terms
def zl(l):
    return '[' + '; '.join('(%d)' % x for x in l) + ']'


def coq_key(k):
    return '(%d, %s)' % (k[0], zl(k[1]))


def coq_req(vid, isrec, elsz, form, parts, data):
    b = 'true' if isrec else 'false'
    if form == 'varn':
        subs = '[' + '; '.join('(%s, Some %s)' % (zl(st), zl(cnt)) for st, cnt, _ in parts) + ']'
        return '(RVarn %d %s %d %s true %s)' % (vid, b, elsz, subs, zl(data))
    st, cnt, sd = parts[0]
    return '(RVar %d %s %d %s (Some %s) %s %s)' % (vid, b, elsz, zl(st), zl(cnt),
                                                  'None' if sd is None else '(Some %s)' % zl(sd), zl(data))


class Slot:
    def __init__(self, kind, rank, slot, keys, vals, recs, line, ann):
        self.kind, self.rank, self.slot, self.keys, self.vals, self.recs = kind, rank, slot, keys, vals, recs
        self.line, self.ann = line, ann
        self.flushed = False


class Program:
    """generated program + oracle state"""
    def __init__(self, rng, cfg, logdir='@LOGDIR@', nsteps=14, allow_lag=False, allow_cancel_rec=False,
                 want_iget=True, want_reopen=None, directed=None):
        self.rng, self.cfg = rng, cfg
        self.np = cfg.np
        self.logdir = logdir
        self.lines = ['nprocs %d' % self.np]
        self.bbonly = set()         # 0-based indices of lines that exist only in the BB run
        self.ops = []               # Coq op terms
        self.ann = {}               # lineno -> dict
        self.groupline = {}         # (coq line tag, rank) -> script lineno of that rank's line
        self.val = {}               # committed value per key
        self.wrank = {}; self.wgp = {}
        self.pend = [set() for _ in range(self.np)]
        self.locked = {}            # key -> Slot (posted put not yet waited)
        self.readers = {}           # key -> (gp, ranks that read it in that epoch)
        self.rlocked = {}           # key -> Slot (posted get)
        self.slots = [dict() for _ in range(self.np)]    # rank -> slot -> Slot
        self.gp = 1
        self.indep = False
        self.seed = rng.below(100000)
        self.dview = [0] * self.np  # record count each rank sees under the default driver
        self.posted_list = []
        self.posted = 0             # largest record count implied by any put posted so far and not cancelled
        self.bbextra = [0] * self.np    # recdimsize pollution by cancelled iputs (known finding)
        self.lag = False            # history of finding KEY_BEGIN is live
        self.expect_keys = set()
        self.allow_lag, self.allow_cancel_rec = allow_lag, allow_cancel_rec
        self.want_iget = want_iget
        self.ever = set()           # keys ever committed (final dump)
        self.stats = dict(put=0, iput=0, bput=0, get=0, iget=0, wait=0, cancel=0, flush=0, sync=0, redef=0,
                          indep=0, reopen=0, varn=0, vars=0, rec=0, inq=0)
        self.uses_bput = False
        self.stage = 0
        self.waitmix_lines = set()
        self.replay_order = [[] for _ in range(self.np)]   # rank -> script lines of the log entries, in replay order
        self.s = Schema(rng, fmt=cfg.fmt, maxdims=3, maxvars=3, maxlen=4)
        if directed:
            directed(self)
        else:
            self.random_body(nsteps, rng.chance(1, 4) if want_reopen is None else want_reopen)

    # ---------------------------------------------------------------- emission
    def emit(self, line, bbonly=False, **ann):
        self.lines.append(line)
        if bbonly:
            self.bbonly.add(len(self.lines) - 1)
        if ann:
            self.ann[len(self.lines)] = ann
        return len(self.lines)

    def text(self, bb):
        out = []
        for i, l in enumerate(self.lines):
            if i in self.bbonly and not bb:
                out.append('# ' + l)
            else:
                out.append(l)
        return '\n'.join(out) + '\n'

    def hints(self, reopen=False):
        c = self.cfg
        self.emit('hint nc_burst_buf enable', True)
        self.emit('hint nc_burst_buf_dirname %s' % self.logdir, True)
        self.emit('hint nc_burst_buf_del_on_close %s' % ('enable' if c.delete else 'disable'), True)
        self.emit('hint nc_burst_buf_flush_buffer_size %d' % c.hint, True)
        self.emit('hint nc_burst_buf_shared_logs %s' % ('enable' if c.shared else 'disable'), True)
        if reopen and not c.delete:
            self.emit('hint nc_burst_buf_overwrite enable', True)

    def prologue(self):
        self.hints()
        self.emit('* create 0 %d 1' % self.s.fmt, kind='create')
        for l in self.s.define_lines(0):
            self.emit(l)
        self.emit('* enddef 0')
        self.emit('* attach 0 1048576')

    def next_seed(self):
        self.seed += 1
        return self.seed

    # ---------------------------------------------------------------- element rules
    def can_write(self, q, k):
        if k in self.locked or k in self.rlocked:
            return False
        rd = self.readers.get(k)
        if rd and rd[0] == self.gp and (rd[1] - {q}):
            return False        # another rank reads it in this epoch (ranks are not ordered between sync points)
        if k not in self.wrank:
            return True
        if self.wrank[k] == q:
            return k not in self.pend[q]
        return self.wgp[k] < self.gp

    def can_read(self, q, k):
        if k not in self.val or k in self.locked:
            return False
        if self.s.vars[k[0]].isrec and k[1][0] >= self.dview[q]:
            return False        # beyond the record count this rank knows (independent mode: agreed only by sync)
        return self.wrank[k] == q or self.wgp[k] < self.gp

    def note_read(self, q, keys):
        for k in keys:
            rd = self.readers.get(k)
            if rd and rd[0] == self.gp:
                rd[1].add(q)
            else:
                self.readers[k] = (self.gp, {q})

    def commit(self, q, keys, vals):
        for k, v in zip(keys, vals):
            self.val[k] = v; self.wrank[k] = q; self.wgp[k] = self.gp; self.ever.add(k)

    def flushed_rank(self, q):
        self.pend[q] = set()
        for s in self.slots[q].values():
            s.flushed = True

    def trigger(self, ranks):
        if self.indep:
            for q in ranks:
                self.flushed_rank(q)
        else:
            for q in range(self.np):
                self.flushed_rank(q)

    def global_point(self):
        self.gp += 1

    # ---------------------------------------------------------------- request construction
    def pick_form(self, v, st, cnt, sd, family, allow_varn=True):
        """API form for a request; family 'n' = varn, 'a' = var1/vara/vars (one collective call must use
        one family on all ranks: put_varn_all and put_vara_all perform different collective sequences)"""
        rng = self.rng
        need_stride = any(t != 1 for t in sd)
        if family == 'n':
            return None if need_stride else 'varn'
        opts = ['vars', 'vars'] if need_stride else ['vara', 'vara', 'vars']
        if not need_stride and v.nd > 0 and all(c == 1 for c in cnt):
            opts.append('var1')
        if family is None and not need_stride and allow_varn:
            opts += ['varn']
        return rng.choice(opts)

    def make_put(self, q, v, zero_ok=False, family=None, allow_varn=True):
        """a put request of rank q on variable v obeying the element rules; returns
        (acc string, parsed, keys, vals, recs) or None"""
        rng = self.rng
        for _ in range(12):
            st, cnt, sd = rand_request(rng, v, 0, True, maxrec=4, strided=(False if family == 'n' else None))
            tok, k, flex = memtype_for(rng, v)
            if v.nd and family != 'n' and rng.chance(1, 12) and not v.isrec:
                form = 'var'
                st, cnt, sd = [0] * v.nd, list(v.shape), [1] * v.nd
            else:
                form = self.pick_form(v, st, cnt, sd, family, allow_varn)
                if form is None:
                    continue
            acc = access_tokens(rng, v, st, cnt, sd, tok, k, flex, form=form)
            p = parse_acc(acc)
            if p['form'] == 'var':
                p['parts'] = [([0] * v.nd, list(v.shape), None)]
            keys = part_keys(v.vid, p['parts'])
            if len(set(keys)) != len(keys):
                continue
            if not keys:
                if zero_ok:
                    return acc, p, [], [], 0
                continue
            if all(self.can_write(q, kk) for kk in keys):
                seed = self.next_seed()
                memk = v.xtype if p['buf'][0] == 'n' else p['k']
                lim = O.pat_lim(memk, v.xtype)
                vals = [O.pat_value(seed, i, lim) for i in range(len(keys))]
                p['seed'], p['memk'], p['lim'] = seed, memk, lim
                return acc, p, keys, vals, part_recs(v.isrec, p['parts'])
        return None

    def zero_put(self, v, family='a'):
        """a zero-length request (collective participation)"""
        if v.nd == 0:
            return None
        st = [0] * v.nd; cnt = [0] + [1] * (v.nd - 1)
        if family == 'n':
            return '%d varn t%d c 1 %d %s %s' % (v.vid, v.xtype, v.nd, fmt_list(st), fmt_list(cnt))
        return '%d vara t%d c %d %s %s' % (v.vid, v.xtype if v.xtype != 2 else 2, v.nd, fmt_list(st), fmt_list(cnt))

    def make_get(self, q, v, family=None, allow_varn=True):
        rng = self.rng
        readable = [k for k in self.val if k[0] == v.vid and self.can_read(q, k)]
        if not readable:
            return None
        maxrec = max([k[1][0] for k in readable]) + 1 if v.isrec else 0
        for _ in range(10):
            st, cnt, sd = rand_request(rng, v, maxrec, False, strided=(False if family == 'n' else None))
            tok, k, flex = memtype_for(rng, v)
            form = self.pick_form(v, st, cnt, sd, family, allow_varn)
            if form is None:
                continue
            acc = access_tokens(rng, v, st, cnt, sd, tok, k, flex, form=form)
            p = parse_acc(acc)
            keys = part_keys(v.vid, p['parts'])
            if keys and all(self.can_read(q, kk) for kk in keys):
                if not self.int_fits(p, v, keys):
                    continue
                p['memk'] = v.xtype if p['buf'][0] == 'n' else p['k']
                return acc, p, keys
        kk = rng.choice(sorted(readable))
        tok, k, flex = ('t%d' % v.xtype), v.xtype, False
        st = list(kk[1])
        acc = access_tokens(rng, v, st, [1] * v.nd, [1] * v.nd, tok, k, flex,
                            form=('varn' if family == 'n' else 'var1') if v.nd else ('varn' if family == 'n' else 'vara'))
        p = parse_acc(acc)
        p['memk'] = v.xtype
        return acc, p, [kk]

    def int_fits(self, p, v, keys):
        """no NC_ERANGE on the way back: the values fit the memory type of the get"""
        memk = v.xtype if p['buf'][0] == 'n' else p['k']
        rngmax = {1: 127, 2: 255, 3: 32767, 4: 2**31 - 1, 5: 2**24, 6: 2**53, 7: 255, 8: 65535, 9: 2**32 - 1,
                  10: 2**63 - 1, 11: 2**64 - 1}[memk]
        return all(self.val[k] <= rngmax for k in keys)

    # ---------------------------------------------------------------- operations
    def op_put_group(self):
        """collective mode: every rank calls put_<form>_all on the same variable"""
        rng = self.rng
        v = rng.choice(self.s.vars)
        family = 'n' if (rng.chance(1, 5) and not any(self.slots)) else 'a'
        reqs = []
        tmp_taken = set()
        for q in range(self.np):
            r = None
            if rng.chance(4, 5):
                for _ in range(4):
                    r = self.make_put(q, v, family=family)
                    if r and not (set(r[2]) & tmp_taken):
                        break
                    r = None
            if r is None:
                z = self.zero_put(v, family)
                if z is None:
                    return False
                reqs.append(('zero', z))
            else:
                tmp_taken |= set(r[2])
                reqs.append(('put', r))
        if all(k == 'zero' for k, _ in reqs):
            return False
        if family == 'n' and any(k == 'zero' for k, _ in reqs):
            # a zero-length varn request is logged and replayed as an empty iput_varn whose request id is
            # NC_REQ_NULL; ncmpio's wait(1,[NULL]) then hits the default driver's "same as ALL" shortcut (F3)
            # when a get request is pending.  Directed case d_rounds0 covers zero-length varn entries.
            return False
        self.emit_put_group(v, reqs)
        return True

    def emit_put_group(self, v, reqs):
        if self.np > 1:
            self.emit('{')
        newrecs = 0
        for q, (kind, r) in enumerate(reqs):
            who = '*' if self.np == 1 else str(q)
            if kind == 'zero':
                zp = parse_acc(r)
                zp['memk'] = v.xtype
                ln = self.emit('%s put 0 c %s pat 1' % (who, r), kind='zput', rank=q, p=zp, vals=[], keys=[])
                if zp['form'] == 'varn':
                    # ncbbio_log_put_varn has no "skip zero-length request": an entry of length 0 is logged and replayed
                    self.ops.append('OPut %d %d %s' % (ln, q, coq_req(v.vid, v.isrec, ELSIZE[v.xtype], 'varn', zp['parts'], [])))
                    self.replay_order[q].append(ln)
                continue
            acc, p, keys, vals, recs = r
            ln = self.emit('%s put 0 c %s pat %d' % (who, acc, p['seed']), kind='put', rank=q, keys=keys, vals=vals, p=p)
            self.ops.append('OPut %d %d %s' % (ln, q, coq_req(v.vid, v.isrec, ELSIZE[p['memk']], p['form'], p['parts'], vals)))
            self.replay_order[q].append(ln)
            self.commit(q, keys, vals); self.pend[q] |= set(keys)
            newrecs = max(newrecs, recs)
            self.note(p, v)
        if self.np > 1:
            self.emit('}')
        if newrecs:
            m = max(max(self.dview), newrecs)
            self.dview = [m] * self.np        # collective put agrees numrecs (default driver)
        self.stats['put'] += 1

    def note(self, p, v):
        if p['form'] == 'varn': self.stats['varn'] += 1
        if p['form'] == 'vars': self.stats['vars'] += 1
        if v.isrec: self.stats['rec'] += 1

    def fixed_put(self, q, v, st, cnt, sd=None, form=None):
        """a given request with the variable's own memory type (directed cases)"""
        form = form or ('vars' if sd else 'vara')
        acc = access_tokens(self.rng, v, st, cnt, sd or [1] * v.nd, 't%d' % v.xtype, v.xtype, False, form=form)
        p = parse_acc(acc)
        keys = part_keys(v.vid, p['parts'])
        assert all(self.can_write(q, k) for k in keys), 'directed case breaks the element rules'
        seed = self.next_seed()
        lim = O.pat_lim(v.xtype, v.xtype)
        p['seed'], p['memk'], p['lim'] = seed, v.xtype, lim
        return acc, p, keys, [O.pat_value(seed, i, lim) for i in range(len(keys))], part_recs(v.isrec, p['parts'])

    def emit_put_indep(self, q, v, r):
        acc, p, keys, vals, recs = r
        ln = self.emit('%d put 0 i %s pat %d' % (q, acc, p['seed']), kind='put', rank=q, keys=keys, vals=vals, p=p)
        self.ops.append('OPut %d %d %s' % (ln, q, coq_req(v.vid, v.isrec, ELSIZE[p['memk']], p['form'], p['parts'], vals)))
        self.replay_order[q].append(ln)
        self.commit(q, keys, vals); self.pend[q] |= set(keys)
        self.dview[q] = max(self.dview[q], recs)
        self.note(p, v); self.stats['put'] += 1
        return ln

    def op_put_indep(self):
        rng = self.rng
        q = rng.below(self.np); v = rng.choice(self.s.vars)
        r = self.make_put(q, v, allow_varn=not self.slots[q])
        if not r:
            return False
        self.emit_put_indep(q, v, r)
        return True

    def free_slot(self, q):
        used = {s for d in self.slots for s in d}          # harness slots are global (0..63)
        for s in range(64):
            if s not in used:
                return s
        return None

    def op_iput(self):
        rng = self.rng
        q = rng.below(self.np); v = rng.choice(self.s.vars)
        sl = self.free_slot(q)
        if sl is None or len(self.slots[q]) >= 8:
            return False
        r = self.make_put(q, v)
        if not r:
            return False
        self.emit_iput(q, v, r, sl, 'bput' if rng.chance(1, 4) else 'iput')
        return True

    def emit_iput(self, q, v, r, sl, op='iput'):
        acc, p, keys, vals, recs = r
        if op == 'bput':
            self.uses_bput = True
        ln = self.emit('%d %s 0 %d %s pat %d' % (q, op, sl, acc, p['seed']), kind='iput', rank=q, slot=sl, p=p, keys=keys, vals=vals)
        self.ops.append('OIput %d %d %d %s' % (ln, q, sl, coq_req(v.vid, v.isrec, ELSIZE[p['memk']], p['form'], p['parts'], vals)))
        s = Slot('put', q, sl, keys, vals, recs, ln, p)
        s.isrec = v.isrec
        self.posted_list.append(s)
        self.posted = max(self.posted, recs)
        self.replay_order[q].append(ln)
        self.slots[q][sl] = s
        for k in keys:
            self.locked[k] = s
        self.pend[q] |= set(keys)
        self.note(p, v); self.stats[op] += 1
        return s

    def op_iget(self):
        rng = self.rng
        q = rng.below(self.np)
        if any(s.kind == 'get' for s in self.slots[q].values()):
            return False
        v = rng.choice(self.s.vars)
        sl = self.free_slot(q)
        g = self.make_get(q, v)
        if sl is None or not g:
            return False
        acc, p, keys = g
        if any(k in self.rlocked for k in keys):
            return False
        ln = self.emit('%d iget 0 %d %s' % (q, sl, acc), kind='iget', rank=q, slot=sl, p=p, keys=keys)
        s = Slot('get', q, sl, keys, [self.val[k] for k in keys], 0, ln, p)
        self.slots[q][sl] = s
        for k in keys:
            self.rlocked[k] = s
        self.stats['iget'] += 1
        return True

    def fixed_get(self, q, v, st, cnt):
        acc = access_tokens(self.rng, v, st, cnt, [1] * v.nd, 't%d' % v.xtype, v.xtype, False, form='vara')
        p = parse_acc(acc); p['memk'] = v.xtype
        keys = part_keys(v.vid, p['parts'])
        assert all(self.can_read(q, k) for k in keys), 'directed read breaks the element rules'
        return acc, p, keys

    def get_lines(self, ranks, v=None, per=None):
        """get of each rank in `ranks` (collective group when not independent)"""
        rng = self.rng
        v = v or rng.choice(self.s.vars)
        family = None if self.indep else ('n' if (per is None and rng.chance(1, 5) and not any(self.slots)) else 'a')
        if per is None:
            per = {}
            for q in ranks:
                g = self.make_get(q, v, family, allow_varn=not self.slots[q])
                if g:
                    per[q] = g
        if not per:
            return False
        coll = not self.indep
        if coll:
            # every rank must take part: ranks without readable data read zero elements
            if v.nd == 0 and len(per) < self.np:
                return False
            if self.np > 1:
                gl = self.emit('{')
            who = []
            first = None
            for q in range(self.np):
                w = '*' if self.np == 1 else str(q)
                if q in per:
                    acc, p, keys = per[q]
                    self.note_read(q, keys)
                    ln = self.emit('%s get 0 c %s' % (w, acc), kind='get', rank=q, keys=keys, p=p, lag=self.lag, exp=[self.val[k] for k in keys])
                else:
                    st = [0] * v.nd; cnt = [0] + [1] * (v.nd - 1)
                    ln = self.emit('%s get 0 c %d %s t%d c %s%d %s %s' % (w, v.vid, 'varn' if family == 'n' else 'vara', v.xtype,
                                                                       '1 ' if family == 'n' else '', v.nd, fmt_list(st), fmt_list(cnt)),
                                   kind='zget', rank=q)
                    keys = []
                first = first or ln
                who.append((q, keys, ln))
            if self.np > 1:
                self.emit('}')
            tag = first
            for q, keys, ln in who:
                self.groupline[(tag, q)] = ln
            self.ops.append('OGet %d [%s]' % (tag, '; '.join('(%d%%nat, [%s])' % (q, '; '.join(coq_key(k) for k in keys))
                                                            for q, keys, ln in who)))
            self.trigger(range(self.np))
        else:
            q = rng.choice(sorted(per))
            acc, p, keys = per[q]
            self.note_read(q, keys)
            ln = self.emit('%d get 0 i %s' % (q, acc), kind='get', rank=q, keys=keys, p=p, lag=self.lag, exp=[self.val[k] for k in keys])
            self.groupline[(ln, q)] = ln
            self.ops.append('OGet %d [(%d%%nat, [%s])]' % (ln, q, '; '.join(coq_key(k) for k in keys)))
            self.trigger([q])
        self.stats['get'] += 1
        return True

    def op_get(self):
        return self.get_lines(list(range(self.np)))

    def wait_tokens(self, q, force_all=False, explicit=None, putall=False):
        """choose what rank q waits for: (script tokens, coq waitarg, put slots completed, get slots completed)"""
        rng = self.rng
        live = self.slots[q]
        puts = [s for s in live.values() if s.kind == 'put']
        gets = [s for s in live.values() if s.kind == 'get']
        if explicit is not None:
            items = [('p', live[x]) if live[x].kind == 'put' else ('g', live[x]) for x in explicit.get(q, [])]
            toks = ' '.join(str(s.slot) for k, s in items)
            coq = 'WList [%s]' % '; '.join('WPut %d' % s.slot if k == 'p' else 'WGet' for k, s in items)
            return ('%d %s' % (len(items), toks)).strip(), coq, [s for k, s in items if k == 'p'], [s for k, s in items if k == 'g']
        mode = rng.below(9)
        if mode == 8 and not self.indep and self.np > 1:
            mode = 0          # NC_PUT_REQ_ALL next to other argument kinds in one wait_all: finding KEY_WAITMIX (directed case only)
        if force_all:
            mode = rng.choice([0, 0, 7])
        if putall:
            mode = 8
        if mode == 7:
            return '-1', 'WAllKind (-1)', puts, gets
        if mode == 8:
            return '-2', 'WAllKind (-3)', puts, []       # script -2 = NC_PUT_REQ_ALL (= -3)
        if mode == 9 and not force_all:
            return '-3', 'WAllKind (-2)', [], gets       # script -3 = NC_GET_REQ_ALL (= -2)
        sel_p = list(puts)
        if not force_all and puts and not any(s.isrec for s in puts) and rng.chance(1, 3):
            rng.shuffle(sel_p); sel_p = sel_p[:rng.range(0, len(sel_p))]
        sel_g = list(gets) if (force_all or rng.chance(2, 3)) else []
        items = [('p', s) for s in sel_p] + [('g', s) for s in sel_g]
        if rng.chance(1, 6) and len(sel_p) == len(puts) and len(sel_g) == len(gets):
            # (default driver, known F3: a list as long as the number of pending requests is taken for "all",
            # so a NULL id next to a strict subset would complete an unnamed request)
            items.append(('n', None))
        rng.shuffle(items)
        toks = ' '.join('N' if k == 'n' else str(s.slot) for k, s in items)
        coq = 'WList [%s]' % '; '.join('WNull' if k == 'n' else ('WPut %d' % s.slot if k == 'p' else 'WGet') for k, s in items)
        return ('%d %s' % (len(items), toks)).strip(), coq, sel_p, sel_g

    def complete(self, q, puts, gets, coll):
        recs = 0
        for s in puts:
            self.commit(q, s.keys, s.vals)
            for k in s.keys:
                self.locked.pop(k, None)
            recs = max(recs, s.recs)
            del self.slots[q][s.slot]
        for s in gets:
            for k in s.keys:
                self.rlocked.pop(k, None)
            self.note_read(q, s.keys)
            del self.slots[q][s.slot]
        return recs

    def op_wait(self, force_all=False, explicit=None, putall=None):
        rng = self.rng
        if putall is None:
            putall = [(not force_all) and explicit is None and rng.chance(1, 10)] * self.np
        if not self.indep:
            if self.np > 1:
                self.emit('{')
            who = []; first = None; recs = 0
            for q in range(self.np):
                toks, coq, puts, gets = self.wait_tokens(q, force_all, explicit, putall[q])
                w = '*' if self.np == 1 else str(q)
                ln = self.emit('%s wait 0 c %s' % (w, toks), kind='wait', rank=q,
                               order=self.wait_order(toks), puts=[(s.slot, s.line) for s in puts],
                               gets=[(s.slot, s.vals, s.ann) for s in gets])
                first = first or ln
                who.append((q, coq, ln, puts, gets))
            if self.np > 1:
                self.emit('}')
            self.trigger(range(self.np))
            for q, coq, ln, puts, gets in who:
                self.groupline[(first, q)] = ln
                recs = max(recs, self.complete(q, puts, gets, True))
            self.ops.append('OWait %d true [%s]' % (first, '; '.join('(%d%%nat, %s)' % (q, coq) for q, coq, _, _, _ in who)))
            if recs:
                m = max(max(self.dview), recs)
                self.dview = [m] * self.np
            self.emit('* barrier'); self.global_point()
        else:
            cands = [q for q in range(self.np) if self.slots[q]] or list(range(self.np))
            q = rng.choice(cands)
            toks, coq, puts, gets = self.wait_tokens(q, force_all)
            ln = self.emit('%d wait 0 i %s' % (q, toks), kind='wait', rank=q, order=self.wait_order(toks),
                           puts=[(s.slot, s.line) for s in puts], gets=[(s.slot, s.vals, s.ann) for s in gets])
            self.groupline[(ln, q)] = ln
            self.trigger([q])
            recs = self.complete(q, puts, gets, False)
            self.dview[q] = max(self.dview[q], recs)
            self.ops.append('OWait %d false [(%d%%nat, %s)]' % (ln, q, coq))
        self.stats['wait'] += 1
        return True

    @staticmethod
    def wait_order(toks):
        t = toks.split()
        return t[1:] if int(t[0]) >= 0 else []

    def op_cancel(self):
        rng = self.rng
        cands = [(q, s) for q in range(self.np) for s in self.slots[q].values()
                 if s.kind == 'put' and not s.flushed and (self.allow_cancel_rec or s.recs <= min(self.dview))]
        if not cands:
            return False
        q, s = rng.choice(cands)
        self.emit_cancel(q, s)
        return True

    def emit_cancel(self, q, s):
        ln = self.emit('%d cancel 0 1 %d' % (q, s.slot), kind='cancel', rank=q)
        self.ops.append('OCancel %d %d [%d]' % (ln, q, s.slot))
        for k in s.keys:
            self.locked.pop(k, None)
        self.pend[q] -= set(s.keys)
        del self.slots[q][s.slot]
        self.replay_order[q].remove(s.line)
        self.posted_list.remove(s)
        self.posted = max([x.recs for x in self.posted_list] + [0])
        if s.recs > self.dview[q]:
            # ncbbp->recdimsize was raised when the request was logged and is never lowered
            self.bbextra[q] = max(self.bbextra[q], s.recs)
            self.expect_keys.add(KEY_CANCEL)
        self.stats['cancel'] += 1

    def agree(self):
        m = max(self.dview); self.dview = [m] * self.np

    def op_flush(self, sync=False):
        if sync:
            ln = self.emit('* sync 0'); self.ops.append('OSync %d' % ln); self.stats['sync'] += 1
            self.agree(); self.lag = False
        else:
            ln = self.emit('* flush 0'); self.ops.append('OFlush %d' % ln); self.stats['flush'] += 1
        self.trigger(range(self.np))
        self.emit('* barrier'); self.global_point()
        return True

    def op_inq(self):
        """record count on every rank; judged only when no nonblocking put is outstanding"""
        if any(s.kind == 'put' for d in self.slots for s in d.values()):
            return False
        if any(self.pend[q] for q in range(self.np)):
            return False              # BB shows its own pending records early; compared after flushes only
        if not any(l == 0 for _, l in self.s.dims):
            return False              # no unlimited dimension
        # the burst-buffer driver may complete a posted nonblocking put at any flush before its wait: a rank may
        # legitimately see up to the largest record of any put posted so far
        ln = self.emit('* inq_numrecs 0', kind='inq', expect=list(self.dview), extra=list(self.bbextra), lag=self.lag,
                       upper=max(self.posted, max(self.dview)))
        self.ops.append('OInq %d' % ln)
        self.stats['inq'] += 1
        return True

    def op_redef(self):
        if self.indep or any(d for d in self.slots):
            return False
        ln = self.emit('* redef 0'); self.ops.append('ORedef %d' % ln)
        if self.rng.chance(1, 2) and len(self.s.vars) < 5:
            v = self.s.add_var(False)
            v.vid = len(self.s.vars) - 1; v.name = 'w%d' % v.vid
            self.emit('* def_var 0 %s %d %d %s' % (hx(v.name), v.xtype, v.nd, ' '.join(map(str, v.dimids))))
        self.emit('* enddef 0')
        for q in range(self.np):
            self.flushed_rank(q)
        self.emit('* barrier'); self.global_point()
        self.stats['redef'] += 1
        return True

    def op_mode(self):
        if self.np == 1 and self.rng.chance(1, 2):
            pass
        if not self.indep:
            dirty = any(self.pend[q] for q in range(self.np))
            if dirty and not self.allow_lag:
                self.op_flush()
            elif dirty:
                # entries logged in collective mode stay in the log across begin_indep_data
                if self.np > 1 and any(k[0] in [v.vid for v in self.s.vars if v.isrec] for q in range(self.np) for k in self.pend[q]):
                    self.lag = True; self.expect_keys.add(KEY_BEGIN)
            self.emit('* begin_indep 0'); self.ops.append('OBeginIndep'); self.indep = True
        else:
            self.emit('* end_indep 0'); self.ops.append('OEndIndep'); self.indep = False
            self.agree(); self.lag = False
            self.emit('* barrier')
        self.stats['indep'] += 1
        return True

    def drain(self):
        """wait for everything that is outstanding"""
        if self.indep:
            for q in range(self.np):
                while self.slots[q]:
                    n = len(self.slots[q])
                    toks, coq, puts, gets = self.wait_tokens(q, True)
                    ln = self.emit('%d wait 0 i %s' % (q, toks), kind='wait', rank=q, order=self.wait_order(toks),
                                   puts=[(s.slot, s.line) for s in puts], gets=[(s.slot, s.vals, s.ann) for s in gets])
                    self.groupline[(ln, q)] = ln
                    self.trigger([q])
                    recs = self.complete(q, puts, gets, False)
                    self.dview[q] = max(self.dview[q], recs)
                    self.ops.append('OWait %d false [(%d%%nat, %s)]' % (ln, q, coq))
                    assert len(self.slots[q]) < n
        elif any(self.slots[q] for q in range(self.np)):
            self.op_wait(force_all=True)

    def close(self):
        self.drain()
        self.emit('* detach 0')
        ln = self.emit('* close 0', kind='close')
        self.ops.append('OClose %d' % ln)
        self.agree(); self.lag = False
        for q in range(self.np):
            self.flushed_rank(q)
        self.global_point()
        self.bbextra = [0] * self.np

    def reopen(self):
        self.hints(reopen=True)
        ln = self.emit('* open 0 1', kind='open')
        self.ops.append('OReopen %d' % ln)
        self.indep = False
        self.stage += 1
        self.emit('* attach 0 1048576')
        self.stats['reopen'] += 1

    def random_body(self, nsteps, reopen):
        rng = self.rng
        self.prologue()
        stages = 2 if reopen else 1
        for stage in range(stages):
            n = nsteps if stages == 1 else max(4, nsteps // 2)
            for _ in range(n):
                self.random_step()
            # final observations of the stage
            if rng.chance(1, 2):
                self.drain(); self.op_flush(sync=rng.chance(1, 2)); self.op_inq()
            self.close()
            if stage + 1 < stages:
                self.reopen()

    def random_step(self):
        rng = self.rng
        for _ in range(6):
            x = rng.below(100)
            if self.indep:
                if x < 26: ok = self.op_put_indep()
                elif x < 45: ok = self.op_iput()
                elif x < 57: ok = self.op_get()
                elif x < 66: ok = self.op_wait()
                elif x < 75: ok = self.op_cancel()
                elif x < 80: ok = self.want_iget and self.op_iget()
                elif x < 86: ok = self.op_flush()
                elif x < 91: ok = self.op_flush(sync=True)
                elif x < 95: ok = self.op_inq()
                else: ok = self.op_mode()
            else:
                if x < 24: ok = self.op_put_group()
                elif x < 45: ok = self.op_iput()
                elif x < 56: ok = self.op_get()
                elif x < 64: ok = self.op_wait()
                elif x < 73: ok = self.op_cancel()
                elif x < 78: ok = self.want_iget and self.op_iget()
                elif x < 84: ok = self.op_flush()
                elif x < 88: ok = self.op_flush(sync=True)
                elif x < 92: ok = self.op_inq()
                elif x < 95: ok = self.op_redef()
                else: ok = self.op_mode()
            if ok:
                return

    # ---------------------------------------------------------------- outputs
    def readback_script(self):
        """read the final file with the DEFAULT library: every variable whole, native type"""
        out = ['nprocs 1', '* open 0 0', '* inq 0']
        self.rb_lines = {}
        for v in self.s.vars:
            out.append('* get 0 c %d var t%d c' % (v.vid, v.xtype))
            self.rb_lines[v.vid] = len(out)
        out.append('* close 0')
        return '\n'.join(out) + '\n'

    def final_keys(self):
        return sorted(self.ever)

    def coq_case(self, flags=()):
        c = self.cfg
        return '(run_case %d (%d) %s [%s] [%s] [%s])' % (
            self.np, c.hint, 'true' if c.delete else 'false',
            '; '.join('(%d%%nat, (%d))' % f for f in flags),
            ';\n   '.join(self.ops), '; '.join(coq_key(k) for k in self.final_keys()))


# ------------------------------------------------------------------ decoding of observations
def dec_buf(hexs, memk, n, layout=('c',)):
    """values of the n selected elements of a dumped buffer (guards stripped)"""
    b = bytes.fromhex(hexs)
    body = b[O.GUARD:len(b) - O.GUARD]
    es = ELSIZE[memk]
    import struct
    out = []
    for i in range(n):
        if layout[0] == 'v':
            pos = (i // layout[2]) * layout[3] + i % layout[2]
        else:
            pos = i
        x = struct.unpack('<' + O.SFMT[memk], body[pos * es:(pos + 1) * es])[0]
        out.append(int(x) if (x == x and abs(x) != float('inf') and float(x) == int(x)) else x)
    ok_guard = b[:O.GUARD] == b'\xa5' * O.GUARD and b[len(b) - O.GUARD:] == b'\xa5' * O.GUARD
    return out, ok_guard


def parse_inq_dims(toks):
    v = O.FileView(toks)
    return v if v.ok else None


def var_index_order(shape):
    return O.req_indices([0] * len(shape), shape, [1] * len(shape))


# ------------------------------------------------------------------ directed programs
def set_schema(p):
    """t unlimited, x = 4; v0(t,x) int record variable, v1(x) double fixed variable"""
    from .gen import Var
    p.s.fmt = 1
    p.s.types = [1, 2, 3, 4, 5, 6]
    p.s.dims = [('t', 0), ('x', 4)]
    p.s.vars = [Var(0, 'v0', 4, [0, 1], [0, 4], True), Var(1, 'v1', 6, [1], [4], False)]


def d_status(p):
    """every rank: one blocking put and three nonblocking puts, all completed by one wait_all that
    names the requests in rotated order (status delivery, F10)"""
    set_schema(p); p.prologue()
    v0, v1 = p.s.vars
    n = p.np
    p.emit_put_group(v0, [('put', p.fixed_put(q, v0, [q, 0], [1, 4])) for q in range(n)])
    order = {}
    for q in range(n):
        a = p.emit_iput(q, v0, p.fixed_put(q, v0, [n + 2 * q, 0], [1, 2]), p.free_slot(q))
        b = p.emit_iput(q, v0, p.fixed_put(q, v0, [n + 2 * q + 1, 1], [1, 3]), p.free_slot(q))
        c = p.emit_iput(q, v1, p.fixed_put(q, v1, [q], [1]), p.free_slot(q))
        order[q] = [[c.slot, a.slot, b.slot], [b.slot, c.slot, a.slot], [a.slot, b.slot, c.slot]][q % 3]
    p.op_wait(explicit=order)
    p.op_inq()
    p.close()


def d_cancel(p):
    """a nonblocking put to a record beyond numrecs is cancelled before any flush (finding KEY_CANCEL)"""
    set_schema(p); p.prologue()
    v0, v1 = p.s.vars
    p.allow_cancel_rec = True
    p.emit_put_group(v0, [('put', p.fixed_put(q, v0, [q, 0], [1, 4])) for q in range(p.np)])
    s = p.emit_iput(0, v0, p.fixed_put(0, v0, [p.np + 4, 0], [1, 2]), p.free_slot(0))
    p.emit_cancel(0, s)
    p.op_flush(sync=True)
    p.op_inq()
    p.op_redef()
    p.op_inq()
    p.close()


def d_begin(p):
    """entries logged in collective mode are still in the log at begin_indep_data (finding KEY_BEGIN)"""
    assert p.np >= 2
    set_schema(p); p.prologue()
    v0, v1 = p.s.vars
    p.allow_lag = True
    p.emit_put_group(v0, [('put', p.fixed_put(0, v0, [5, 0], [1, 4]))] + [('zero', p.zero_put(v0))] * (p.np - 1))
    p.op_mode()
    p.op_flush()
    p.op_inq()
    p.get_lines([1], v=v0)
    p.op_flush(sync=True)
    p.op_inq()
    p.get_lines([1], v=v0)
    p.op_mode()
    p.close()


def d_rounds(p):
    """ranks with 5, 1, 0, ... log entries and a small flush buffer: different numbers of rounds,
    trailing participation waits; one cancelled entry in the middle of rank 0's log"""
    set_schema(p); p.prologue()
    v0, v1 = p.s.vars
    if p.np > 1:
        # zero-length varn requests are logged (length-0 entries) and replayed as empty iput_varn calls
        p.emit_put_group(v1, [('put', p.fixed_put(0, v1, [3], [1], form='varn'))] + [('zero', p.zero_put(v1, 'n'))] * (p.np - 1))
    ss = []
    for i in range(5):
        ss.append(p.emit_iput(0, v0, p.fixed_put(0, v0, [i, 0], [1, 1 + i % 4]), p.free_slot(0)))
    if p.np > 1:
        p.emit_iput(1, v1, p.fixed_put(1, v1, [1], [2]), p.free_slot(1))
    p.emit_cancel(0, ss[2])
    p.get_lines(list(range(p.np)), v=v0)
    p.op_wait(force_all=True)
    p.op_inq()
    for i in range(3):
        p.emit_iput(p.np - 1, v0, p.fixed_put(p.np - 1, v0, [6 + i, 0], [1, 4]), p.free_slot(p.np - 1))
    p.op_flush()
    p.op_wait(force_all=True)
    p.op_inq()
    p.close()


def d_retain(p):
    """log files are kept (del_on_close disable): entries of the last epoch stay in the metadata log;
    the file is re-opened for writing with the same hints"""
    set_schema(p); p.prologue()
    v0, v1 = p.s.vars
    p.emit_put_group(v0, [('put', p.fixed_put(q, v0, [q, 0], [1, 4])) for q in range(p.np)])
    p.emit_iput(0, v1, p.fixed_put(0, v1, [0], [3]), p.free_slot(0))
    p.op_wait(force_all=True)
    p.emit_put_group(v0, [('put', p.fixed_put(q, v0, [p.np + q, 1], [1, 2], [1, 2], form='vars')) for q in range(p.np)])
    p.close()
    p.reopen()
    p.emit_put_group(v0, [('put', p.fixed_put(q, v0, [2 * p.np + q, 0], [1, 3])) for q in range(p.np)])
    p.get_lines(list(range(p.np)), v=v0)
    p.op_flush()
    p.emit_put_group(v0, [('put', p.fixed_put(q, v0, [q, 0], [1, 2])) for q in range(p.np)])
    p.close()


def d_waitmix(p):
    """one rank completes its puts with wait_all(NC_PUT_REQ_ALL), the others name theirs (finding KEY_WAITMIX)"""
    assert p.np >= 2
    set_schema(p); p.prologue()
    v0, v1 = p.s.vars
    for q in range(p.np):
        p.emit_iput(q, v0, p.fixed_put(q, v0, [q, 0], [1, 2 + q % 2]), p.free_slot(q))
    p.expect_keys.add(KEY_WAITMIX)
    n0 = len(p.lines)
    p.op_wait(putall=[q == 0 for q in range(p.np)])
    p.waitmix_lines = set(range(n0 + 1, len(p.lines) + 1))
    p.op_inq()
    p.close()


def d_cancelpat(p, kmax=5):
    """every pattern of valid / cancelled entries for k <= kmax nonblocking puts of different sizes in one flush
    (fixed-size variable: record counts play no role); rank q uses the pattern rotated by q"""
    from .gen import Var
    p.s.fmt = 1; p.s.types = [1, 2, 3, 4, 5, 6]
    p.s.dims = [('y', 16 * p.np)]
    p.s.vars = [Var(0, 'f', 4, [0], [16 * p.np], False)]
    p.prologue()
    f = p.s.vars[0]
    for k in range(1, kmax + 1):
        for mask in range(2 ** k):
            order = {}; first = {}
            for q in range(p.np):
                m = (mask + 5 * q) % (2 ** k)
                ss = [p.emit_iput(q, f, p.fixed_put(q, f, [16 * q + 3 * i], [1 + (i + mask) % 3]), p.free_slot(q)) for i in range(k)]
                for i, sl in enumerate(ss):
                    if m >> i & 1:
                        p.emit_cancel(q, sl)
                keep = [sl.slot for i, sl in enumerate(ss) if not m >> i & 1]
                order[q] = keep[mask % (len(keep) or 1):] + keep[:mask % (len(keep) or 1)]
                first[q] = next((sl for i, sl in enumerate(ss) if not m >> i & 1), None)
            p.op_wait(explicit=order)
            # every rank reads back the first entry it kept (read own writes after the flush)
            per = {q: p.fixed_get(q, f, list(sl.keys[0][1]), [len(sl.keys)]) for q, sl in first.items() if sl is not None}
            if per:
                p.get_lines(list(range(p.np)), v=f, per=per)
    p.get_lines(list(range(p.np)), v=f)
    p.close()


def d_cancelpat4(p):
    d_cancelpat(p, 4)


DIRECTED = dict(cancelpat=d_cancelpat, cancelpat4=d_cancelpat4, waitmix=d_waitmix, status=d_status, cancel=d_cancel, begin=d_begin, rounds=d_rounds, retain=d_retain)
