"""Cases for harness/c13_buf.c (property C13): what the library does to the CALLER's buffer.
 * put side: the buffer right after the posting call (in-place byte swap iff the model's decision
   Abuf.put_swaps_user_buf, image = Abuf.in_swapn), after the exit (blocking return / wait / wait_all / cancel /
   close): byte-identical to what the caller passed; a buffered put's buffer may be overwritten right after the
   post (data captured at post: the file must hold the ORIGINAL values);
 * get side: the whole buffer incl. guard zones and gaps of vector layouts / transposing imap equals
   Abuf.unpack_xbuf of the converted element stream: exactly the selected bytes change.
ORACLE (spec, this file) and MODEL (Coq, one coqc run) are evaluated separately."""
import os, re, ast, struct
from . import common as C, oracle as O
from .gen import ELSIZE
from .nb_gen import need_convert, need_swap, HINT, zbytes

GUARD = 16
API_COQ = {'put': 'PBlocking', 'iput': 'PIput', 'bput': 'PBput', 'iput_varn': 'PIputVarn', 'bput_varn': 'PBputVarn', 'put_varn': 'PIputVarn'}


def lim_of(a, b):
    return O.pat_lim(a, b)


def val(cid, k, L):
    return 1 + ((cid * 7919 + k * 104729) % L)


def gen_cases(rng, n_put, n_get):
    cases = []
    cid = 0
    apis = ['put', 'iput', 'bput', 'iput_varn', 'bput_varn', 'put_varn']
    for i in range(n_put):
        cid += 1
        fmt = rng.choice([1, 2, 5])
        xt = rng.choice([1, 2, 3, 4, 5, 6] if fmt < 5 else list(range(1, 12)))
        same = rng.chance(3, 4)
        memk = xt if (same or xt == 2) else rng.choice([1, 3, 4, 5, 6, 7, 8, 9, 10, 11])
        api = apis[i % len(apis)]
        xs = ELSIZE[xt]
        thr = 4096 // xs
        n = rng.choice([thr - 1, thr, thr + 1, thr + 2, thr + 9, 2 * thr, 1, 2, 7, 64])
        n = max(n, 2) if 'varn' in api else max(n, 1)
        lay = rng.choice(['c', 'x', 'x', 'v', 'k', 'k', 'k', 'K', 'q', 'R', 'R'])
        if lay == 'v':
            bl = rng.choice([d for d in (1, 2, 3, 4, 5, 8) if n % d == 0])
            lay = 'v%d_%d' % (bl, bl + rng.below(3))
        elif lay == 'R':
            # array of padded records: bufcount = n/bl instances of resized(contiguous(bl), 0, st*elsize), st > bl
            bl = rng.choice([1, 2, 3, 4])
            m = thr // bl
            n = bl * rng.choice([m + 1, m + 2, m + 5, 2 * m, max(m - 1, 1), 2, 3, 7])
            if 'varn' in api:
                n = max(n, 2 * bl)
            lay = 'R%d_%d' % (bl, bl + rng.range(1, 2))
        elif lay in ('k', 'K', 'q'):
            # derived types WITHOUT gaps: contiguous(k), contiguous(k1, contiguous(k2)), contiguous of vector(2, bl, bl)
            if lay == 'k':
                unit = rng.choice([2, 4, 16]); lay = 'k%d' % unit
            elif lay == 'K':
                k1, k2 = rng.choice([(2, 2), (4, 2), (2, 8), (4, 4)]); unit = k1 * k2; lay = 'K%d_%d' % (k1, k2)
            else:
                bl = rng.choice([1, 2, 4]); unit = 2 * bl; lay = 'q%d' % bl
            m = thr // unit
            n = unit * rng.choice([m, m + 1, m + 1, m + 3, 2 * m, 1, 2, 3]) if m > 0 else unit * rng.choice([1, 2, 3])
            if 'varn' in api:
                n = max(n, 2 * unit)
        hint = rng.choice(['auto', 'auto', 'enable', 'disable'])
        ex = rng.choice(['wait', 'wait_all', 'cancel', 'close'])
        cases.append(dict(kind='P', id=cid, fmt=fmt, xt=xt, memk=memk, api=api, n=n, layout=lay, hint=hint, exit=ex))
    for i in range(n_get):
        cid += 1
        fmt = rng.choice([1, 2, 5])
        xt = rng.choice([1, 2, 3, 4, 5, 6] if fmt < 5 else list(range(1, 12)))
        memk = xt if (rng.chance(1, 2) or xt == 2) else rng.choice([1, 3, 4, 5, 6, 7, 8, 9, 10, 11])
        rows, cols = rng.range(1, 5), rng.range(1, 6)
        n = rows * cols
        lay = rng.choice(['c', 'x', 'v', 'm', 'w', 'R', 'R'])
        if lay == 'R' and rng.chance(1, 3):
            # somewhat larger reads too (the get path has no size threshold; the model evaluation is quadratic in the size)
            rows = rng.choice([2, 3]); cols = rng.choice([24, 40, 64]); n = rows * cols
        if lay in ('v', 'w'):
            bl = rng.choice([d for d in (1, 2, 3, 4, 5, 6) if n % d == 0])
            lay = '%s%d_%d' % (lay, bl, bl + rng.below(3))
        elif lay == 'R':
            bl = rng.choice([d for d in (1, 2, 3, 4, 5, 6) if n % d == 0])
            lay = 'R%d_%d' % (bl, bl + rng.range(1, 2))
        cases.append(dict(kind='G', id=cid, fmt=fmt, xt=xt, memk=memk, api=rng.choice(['get', 'iget']), rows=rows, cols=cols,
                          n=n, layout=lay))
    return cases


def case_line(c):
    if c['kind'] == 'P':
        return 'P %(id)d %(fmt)d %(xt)d %(memk)d %(api)s %(n)d %(layout)s %(hint)s %(exit)s' % c
    return 'G %(id)d %(fmt)d %(xt)d %(memk)d %(api)s %(rows)d %(cols)d %(layout)s' % c


def vec(lay):
    m = re.match(r'[vwR](\d+)_(\d+)', lay)
    return (int(m.group(1)), int(m.group(2))) if m else None


def btype_of(c):
    """(bufcount, primitive elements per buftype unit, decoded as contiguous?) as ncmpii_dtype_decode reports it"""
    lay = c['layout']; n = c['n']
    if lay[0] == 'k':
        k = int(lay[1:]); return n // k, k, True
    if lay[0] == 'K':
        k1, k2 = (int(x) for x in lay[1:].split('_')); return n // (k1 * k2), k1 * k2, True
    if lay[0] == 'q':
        return 1, n, False          # a vector combiner inside: iscontig_of_ptypes = 0 although there are no gaps
    if lay[0] == 'R':
        bl = vec(lay)[0]; return n // bl, bl, False      # MPI_COMBINER_RESIZED: never contiguous for dtype_decode
    if vec(lay):
        return 1, n, False
    return n, 1, True


def positions(c):
    """element index in the buffer body of canonical element k, and the extent in elements"""
    n = c['n']
    lay = c['layout']
    v = vec(lay)
    bt = list(range(n))
    ext = n
    if v:
        bl, st = v
        bt = [(k // bl) * st + k % bl for k in range(n)]
        ext = (n // bl - 1) * st + bl
    if lay[0] in ('m', 'w'):
        rows, cols = c['rows'], c['cols']
        im = [(k % cols) * rows + k // cols for k in range(n)]     # imap = [1, rows]
        return [bt[p] for p in im], ext, bt, im
    return bt, ext, bt, None


def put_body(c):
    es = ELSIZE[c['memk']]
    pos, ext, _, _ = positions(c)
    L = lim_of(c['memk'], c['xt'])
    body = bytearray(b'\xa5' * (ext * es))
    for k in range(c['n']):
        body[pos[k] * es:(pos[k] + 1) * es] = O.mem_bytes(c['memk'], val(c['id'], k, L))
    return bytes(body)


def get_expected(c):
    es = ELSIZE[c['memk']]
    pos, ext, _, _ = positions(c)
    L = min(lim_of(c['xt'], c['xt']), lim_of(c['memk'], c['xt']))
    img = bytearray(b'\xa5' * (2 * GUARD + ext * es))
    for k in range(c['n']):
        o = GUARD + pos[k] * es
        img[o:o + es] = O.mem_bytes(c['memk'], val(c['id'], k, L))
    return bytes(img)


def run_harness(lib, cases, wd):
    exe = C.build_c(lib, [os.path.join(C.VERIF, 'harness', 'c13_buf.c')], 'c13_buf')
    d = os.path.join(wd, 'c13'); os.makedirs(d, exist_ok=True)
    cf_ = os.path.join(d, 'cases.txt'); of = os.path.join(d, 'out.txt')
    open(cf_, 'w').write('\n'.join(case_line(c) for c in cases) + '\n')
    rc, out = C.sh([exe, cf_, d, of], timeout=900, cwd=d)
    res = {}
    if os.path.exists(of):
        for l in open(of):
            t = l.split()
            if len(t) >= 3 and t[1].lstrip('-').isdigit():
                res[int(t[1])] = t
    return rc, out, res


def judge(c, t):
    """SPEC on the harness line t of case c; returns list of (kind, key, detail)"""
    f = []
    if t is None:
        return [('no-observation', 'c13-no-observation', 'case produced no line: ' + case_line(c))]
    if c['kind'] == 'P':
        rc_post, reqid, rc_exit, post, ex, guards, fileok = int(t[2]), int(t[3]), int(t[4]), t[5], t[6], int(t[7]), int(t[8])
        nb = c['api'] not in ('put', 'put_varn')
        if rc_post != 0:
            f.append(('post-rc', 'c13-post-rc', 'rc %d: %s' % (rc_post, case_line(c))))
            return f
        want_exit_rc = -236 if (nb and c['exit'] == 'close') else 0
        if rc_exit != want_exit_rc:
            f.append(('exit-rc', 'c13-exit-rc', 'rc %d expected %d: %s' % (rc_exit, want_exit_rc, case_line(c))))
        if c['api'].startswith('bput'):
            if post != 'same':
                f.append(('put-buffer-modified', 'bput-buffer-modified-at-post', 'a buffered put changed the caller\'s buffer: ' + case_line(c)))
            if ex != 'scribble':
                f.append(('put-buffer-modified', 'bput-buffer-touched-after-post', 'the library touched the caller\'s buffer after the post: ' + case_line(c)))
        elif ex != 'same':
            f.append(('put-buffer-modified', 'put-buffer-not-restored:%s:%s' % (c['api'], c['exit'] if nb else 'return'),
                      'caller\'s buffer differs after the %s: %s' % (c['exit'] if nb else 'blocking return', case_line(c))))
        if not guards:
            f.append(('guard-overwritten', 'c13-guard', case_line(c)))
        if fileok == 0:
            f.append(('file-content', 'bput-not-captured-at-post' if c['api'].startswith('bput') else 'c13-file-content',
                      'the variable does not hold the values passed at the post: ' + case_line(c)))
    else:
        rc = int(t[2])
        if rc != 0:
            f.append(('get-rc', 'c13-get-rc', 'rc %d: %s' % (rc, case_line(c))))
            return f
        got = bytes.fromhex(t[3])
        want = get_expected(c)
        if got != want:
            es = ELSIZE[c['memk']]
            pos, ext, _, _ = positions(c)
            sel = set()
            for k in range(c['n']):
                sel.update(range(GUARD + pos[k] * es, GUARD + (pos[k] + 1) * es))
            outside = [j for j in range(len(got)) if j not in sel and got[j] != 0xA5]
            if outside:
                f.append(('get-wrote-unselected', 'get-wrote-unselected', 'byte %d outside the selection changed: %s' % (outside[0], case_line(c))))
            else:
                f.append(('get-buffer', 'c13-get-values', 'selected elements hold wrong values: %s' % case_line(c)))
    return f


def model_predictions(cases, wd, max_swap_images=60):
    """one coqc run: for every P case the model's in-place-swap decision (and, for up to max_swap_images cases, the
    swapped image by Abuf.in_swapn); for every G case the caller's buffer by Abuf.unpack_xbuf"""
    src = ['From Pnc Require Import Abuf.', 'Local Open Scope Z_scope.', 'Set Printing Width 1000000.', 'Set Printing Depth 100000000.']
    nimg = 0
    for c in cases:
        if c['kind'] == 'P':
            nb = need_swap(c['xt'], c['memk']); nc = need_convert(c['fmt'], c['xt'], c['memk'])
            cnt, per, ctg = btype_of(c)
            contig = 'true' if ctg else 'false'
            nbytes = c['n'] * ELSIZE[c['xt']]
            flag = '(put_swaps_user_buf %s %s %s %s false %s %d)' % (API_COQ[c['api']], 'true' if nc else 'false',
                                                                     'true' if nb else 'false', contig, HINT[c['hint']], nbytes)
            body = '[]'
            if c['memk'] == c['xt'] and ctg and nimg < max_swap_images and c['n'] <= 1100:
                body = zbytes(put_body(c)); nimg += 1
            # result: flag :: restored? :: in-flight image   (restored = the caller's buffer after the blocking call /
            # the exit, Abuf.put_blocking_buffer over bnelems = bufcount * elements per buftype, equals the original)
            bt = '(mkbt %d %d %s)' % (cnt, per, contig)
            src.append('Eval vm_compute in (%d, (if %s then 1 else 0) :: (if bytes_eqb (put_blocking_buffer %s %s %s %d) %s then 1 else 0) '
                       ':: (if %s then user_buf_in_flight true %s (bt_bnelems %s) %d else [])).'
                       % (c['id'], flag, flag, bt, body, ELSIZE[c['xt']], body, flag, body, bt, ELSIZE[c['xt']]))
        else:
            es = ELSIZE[c['memk']]
            pos, ext, bt, im = positions(c)
            L = min(lim_of(c['xt'], c['xt']), lim_of(c['memk'], c['xt']))
            idata = b''.join(O.mem_bytes(c['memk'], val(c['id'], k, L)) for k in range(c['n']))
            buf = b'\xa5' * (ext * es)
            contig = 'false' if vec(c['layout']) else 'true'
            impos = 'None' if im is None else '(Some %s)' % zbytes(im)
            src.append('Eval vm_compute in (%d, unpack_xbuf %s %s %s %d %d %s %s %s).'
                       % (c['id'], contig, impos, zbytes(bt), es, c['n'], zbytes(buf), zbytes(idata), zbytes(b'\0' * (c['n'] * es))))
    d = os.path.join(wd, 'c13model'); os.makedirs(d, exist_ok=True)
    open(os.path.join(d, 'cases.v'), 'w').write('\n'.join(src) + '\n')
    rc, out = C.sh('ulimit -s 4000000 2>/dev/null; exec coqc -Q %s Pnc -w -all cases.v' % C.COQ, cwd=d, timeout=1200)
    if rc != 0:
        raise C.BuildFailure('C13 model run failed:\n' + out[-2000:])
    res = {}
    for m in re.finditer(r'=\s*\((\d+),\s*(\[.*?\])\)\s*:\s*Z \* list', out, re.S):
        res[int(m.group(1))] = ast.literal_eval(m.group(2).replace(';', ','))
    return res


def compare(c, t, m):
    """harness line vs model prediction; returns list of (rel, detail)"""
    out = []
    if t is None or m is None:
        return [('corr_C13_buf', 'missing observation/prediction: ' + case_line(c))]
    if c['kind'] == 'P':
        if int(t[2]) != 0:
            return out
        post = t[5]
        nb = c['api'] not in ('put', 'put_varn')
        flag = m[0] == 1
        if nb:
            body = put_body(c)
            es = ELSIZE[c['xt']]
            trivially_same = es == 1
            if flag and not trivially_same:
                if post == 'same':
                    out.append(('corr_C13_swap_decision', 'model: buffer byte-swapped in place while in flight, library: untouched: ' + case_line(c)))
                elif len(m) > 2 and bytes(m[2:]) != bytes.fromhex(post):
                    out.append(('corr_C13_in_swapn', 'in-flight image differs from Abuf.in_swapn: ' + case_line(c)))
            if not flag and post != 'same':
                out.append(('corr_C13_swap_decision', 'model: buffer untouched while in flight, library changed it: ' + case_line(c)))
        # after the blocking return / the exit: the model (both swaps over bnelems) gives back the caller's bytes
        if m[1] == 1 and not c['api'].startswith('bput') and t[6] != 'same':
            out.append(('corr_C13_exit_image', 'caller\'s buffer after the %s differs from Abuf.put_blocking_buffer (swap-back over bnelems): %s'
                        % ('exit' if nb else 'blocking return', case_line(c))))
    else:
        if int(t[2]) != 0:
            return out
        got = bytes.fromhex(t[3])
        if got[GUARD:len(got) - GUARD] != bytes(m):
            out.append(('corr_C13_unpack', 'caller\'s get buffer differs from Abuf.unpack_xbuf: ' + case_line(c)))
    return out
