"""C10 (hints, process count, execution modes never change results): generator of
(logical program, configuration set), layout of one logical program for a given number of
ranks / decomposition, extraction of the logical observations of a run, the differential oracle
(pairwise equality of return codes, read data and the logical content of the final file) and the
emission of Coq cases for the model (Config.v / Aggregate.v).

A LOGICAL program is a schema (+ attributes) and a list of steps; a step is a set of pairwise
disjoint logical puts on one variable, or one logical get, or one invalid request issued
identically by all ranks, or a name lookup.  Values are attached to logical elements: element k
(row-major) of a logical put with base seed S holds pat_value(S, k, LIM); a rank that is handed
the elements k0.. of that put gets the script seed S' with S'*7919 = S*7919 + k0*104729 (mod LIM),
so every layout writes the SAME values into the SAME elements."""
import re
from .session import Session, INT_RANGE, judge
from .gen import Schema, Var, rand_request, access_tokens, hx, ELSIZE, fmt_list
from . import oracle as O

LIMS = (100, 30000, 16000000)
INV7919 = {lim: pow(7919, -1, lim) for lim in LIMS}


def shifted_seed(seed, k0, lim):
    return (seed + k0 * 104729 * INV7919[lim]) % lim


def nelems(count):
    n = 1
    for c in count:
        n *= c
    return n


# ------------------------------------------------------------------ configurations
DEFAULT_CFG = dict(np=1, via='info', h_align=None, v_align=None, r_align=None, ea=None, ibuf=None,
                   swap=None, hash=None, hcoll=None, safe=None, naggr=None, chunk=None, io=None, move_unit=None)
DIMS = ['np', 'via', 'h_align', 'v_align', 'r_align', 'ea', 'ibuf', 'swap', 'hash', 'hcoll', 'safe',
        'naggr', 'chunk', 'io', 'move_unit']
ALIGN_VALUES = [4, 64, 512, 4096, 6, 100, 1001]     # incl. non-multiples of 4
HASH_VALUES = [1, 2, 256, None]


def cfg_hints(cfg):
    """the pnetcdf hints of a configuration as ordered (key, value-string) pairs"""
    h = []
    for k, name in (('h_align', 'nc_header_align_size'), ('v_align', 'nc_var_align_size'),
                    ('r_align', 'nc_record_align_size'), ('ibuf', 'nc_ibuf_size'),
                    ('swap', 'nc_in_place_swap'), ('hcoll', 'romio_no_indep_rw'),
                    ('naggr', 'nc_num_aggrs_per_node')):
        if cfg.get(k) is not None:
            h.append((name, str(cfg[k])))
    if cfg.get('hash') is not None:
        for name, v in zip(('nc_hash_size_dim', 'nc_hash_size_var', 'nc_hash_size_gattr', 'nc_hash_size_vattr'),
                           cfg['hash']):
            if v is not None:
                h.append((name, str(v)))
    return h


def cfg_env(cfg):
    """environment of a run: (list of `env` script lines, PNETCDF_HINTS string or None)"""
    env = []
    hs = None
    if cfg.get('safe') is not None:
        env.append('PNETCDF_SAFE_MODE=%d' % cfg['safe'])
    if cfg.get('chunk') is not None:
        env.append('PNETCDF_VERIF_HDR_CHUNK=%d' % cfg['chunk'])
    if cfg.get('io') is not None:
        env.append('OMPI_MCA_io=%s' % cfg['io'])
    if cfg.get('move_unit') is not None:
        # hook H2: caps the per-rank round size of the data mover run by enddef after a redef
        env.append('PNETCDF_VERIF_MOVE_UNIT=%d' % cfg['move_unit'])
    if cfg.get('via') == 'env':
        hints = cfg_hints(cfg)
        if hints:
            hs = ';'.join('%s=%s' % kv for kv in hints)
            env.append('PNETCDF_HINTS=' + hs)
    return env, hs


def cfg_repr(cfg):
    return ' '.join('%s=%s' % (k, cfg[k]) for k in DIMS if cfg.get(k) != DEFAULT_CFG[k])  or 'default'


def cfg_diff(a, b):
    return [k for k in DIMS if a.get(k) != b.get(k)]


def rand_align(rng):
    return rng.choice(ALIGN_VALUES)


def rand_cfg(rng, np_=None, dims=None):
    """a configuration drawn from the product; `dims` restricts the dimensions that vary"""
    c = dict(DEFAULT_CFG)
    c['np'] = np_ or rng.choice([1, 2, 3, 4])
    def want(d):
        return (dims is None and rng.chance(1, 3)) or (dims is not None and d in dims)
    if want('via'): c['via'] = 'env'
    if want('h_align'): c['h_align'] = rand_align(rng)
    if want('v_align'): c['v_align'] = rand_align(rng)
    if want('r_align'): c['r_align'] = rand_align(rng)
    if want('ea'): c['ea'] = [rng.choice([0, 0, 10, 64]), rng.choice([0, 4, 16, 512, 100]),
                               rng.choice([0, 0, 8, 100]), rng.choice([0, 4, 64, 6])]
    if want('ibuf'): c['ibuf'] = rng.choice([1, 64])
    if want('swap'): c['swap'] = rng.choice(['enable', 'disable', 'auto'])
    if want('hash'): c['hash'] = [rng.choice(HASH_VALUES) for _ in range(4)]
    if want('hcoll'): c['hcoll'] = rng.choice(['true', 'false'])
    if want('safe'): c['safe'] = rng.choice([0, 1])
    if want('naggr') and c['np'] > 1: c['naggr'] = rng.choice([0, 1, 2, c['np']])
    if want('chunk'): c['chunk'] = rng.choice([64, 4096])
    if c['hash'] is not None and all(x is None for x in c['hash']):
        c['hash'] = None
    return c


def config_set(rng, n_extra):
    """reference (1 rank, defaults) + per-rank-count baselines + single-dimension variants +
    aggregation variants + random combinations"""
    out = [dict(DEFAULT_CFG)]
    nps = [2, 3, 4]
    rng.shuffle(nps)
    for k in nps[:2]:
        c = dict(DEFAULT_CFG); c['np'] = k
        out.append(c)
    # aggregation: relative to the baseline with the same np
    for k in nps[:2]:
        c = dict(DEFAULT_CFG); c['np'] = k; c['naggr'] = rng.choice([1, 2] if k > 2 else [1])
        out.append(c)
    singles = ['h_align', 'v_align', 'r_align', 'ea', 'ibuf', 'swap', 'hash', 'hcoll', 'safe', 'chunk']
    rng.shuffle(singles)
    for d in singles[:3]:
        c = rand_cfg(rng, np_=rng.choice([1, 1, 2]), dims=[d])
        out.append(c)
    # the same hints through PNETCDF_HINTS
    c = rand_cfg(rng, np_=1, dims=['via', rng.choice(['h_align', 'r_align', 'v_align']), rng.choice(['ibuf', 'hash', 'swap'])])
    out.append(c)
    for _ in range(n_extra):
        out.append(rand_cfg(rng))
    # drop exact duplicates
    seen, res = set(), []
    for c in out:
        key = cfg_repr(c)
        if key not in seen:
            seen.add(key); res.append(c)
    return res


def redef_config_set(rng, thorough):
    """configurations for the redefinition family: the data mover of enddef divides every moved
    block among the ranks, in rounds of at most MOVE_UNIT bytes per rank; rank counts that do not
    divide the block lengths and small move units reach its partial last round"""
    out = [dict(DEFAULT_CFG)]
    def add(np_, mu, **kw):
        c = dict(DEFAULT_CFG); c['np'] = np_; c['move_unit'] = mu; c.update(kw)
        out.append(c)
    add(3, None)
    add(3, rng.choice([8, 16]))
    add(1, rng.choice([8, 16, 100]))
    add(2, rng.choice([None, 8, 100]))
    add(4, rng.choice([None, 16, 100]))
    if thorough:
        for k in (5, 6, 7, 8):
            add(k, rng.choice([None, 8, 16, 100]))
        add(3, 100)
        add(2, 16)
    # one with other dimensions on top
    c = rand_cfg(rng, np_=rng.choice([2, 3, 3, 4]), dims=[rng.choice(['h_align', 'r_align', 'v_align', 'hcoll', 'safe', 'naggr', 'via'])])
    c['move_unit'] = rng.choice([None, 8, 16, 100])
    out.append(c)
    seen, res = set(), []
    for c in out:
        key = cfg_repr(c)
        if key not in seen:
            seen.add(key); res.append(c)
    return res


# ------------------------------------------------------------------ logical programs
class Program:
    pass


def gen_redef_program(rng):
    """write every variable completely -> redef -> grow the header (large attribute, h_minfree) and/or
    add a fixed-size / record variable -> enddef (the data sections move) -> read everything back"""
    p = Program()
    s = Schema(rng, maxlen=9, want_rec=rng.chance(3, 4))
    p.bigvid = None
    p.s = s
    p.atts = []
    if rng.chance(1, 2):
        p.atts.append((-1, 'title', 2, [rng.range(65, 90) for _ in range(rng.range(1, 9))]))
    p.steps = []
    written, vmax = {}, {}
    seedctr = rng.below(900)
    numrecs = 0
    nrec = rng.range(2, 5)
    order = list(s.vars)
    rng.shuffle(order)
    for v in order:
        start = [0] * v.nd
        count = [nrec if (i == 0 and v.isrec) else d for i, d in enumerate(v.shape)]
        stride = [1] * v.nd
        tok, memk, flex, bufkind = pick_mem(rng, v, 0, False)
        lim = O.pat_lim(memk, v.xtype)
        seedctr += 1
        seed = seedctr % lim
        p.steps.append(dict(kind='puts', ops=[dict(op='put', vid=v.vid, start=start, count=count, stride=stride, seed=seed,
                                                   tok=tok, memk=memk, flex=flex, bufkind=bufkind, lim=lim)]))
        for k, idx in enumerate(O.req_indices(start, count, stride)):
            written[(v.vid, tuple(idx))] = O.pat_value(seed, k, lim)
        vmax[v.vid] = lim
        if v.isrec:
            numrecs = max(numrecs, nrec)
    # the redefinition
    mods, newatts = [], []
    dims2 = list(s.dims)
    vars2 = list(s.vars)
    ea2 = None
    kinds = ['att', 'att', 'fixvar', 'recvar', 'minfree']
    rng.shuffle(kinds)
    for kind in kinds[:rng.range(1, 2)]:
        if kind == 'att':
            n = rng.choice([600, 1500, 3000])
            vals = [97 + (i * 7) % 26 for i in range(n)]
            nm = 'history' if not newatts else 'comment'      # two distinct attributes at most
            mods.append('put_att 0 -1 %s 2 %d %s' % (hx(nm), n, fmt_list(vals)))
            newatts.append((-1, nm, 2, vals))
        elif kind == 'fixvar':
            fixed_ids = [i for i, d in enumerate(dims2) if d[1] != 0]
            ids = [rng.choice(fixed_ids) for _ in range(rng.range(1, 2))]
            xt = rng.choice(s.types)
            nv = Var(len(vars2), 'n%d' % len(vars2), xt, ids, [dims2[i][1] for i in ids], False)
            vars2.append(nv)
            mods.append('def_var 0 %s %d %d %s' % (hx(nv.name), xt, nv.nd, ' '.join(map(str, ids))))
        elif kind == 'recvar':
            recid = [i for i, d in enumerate(dims2) if d[1] == 0]
            if not recid:
                recid = [len(dims2)]
                dims2.append(('t', 0))
                mods.append('def_dim 0 %s -1' % hx('t'))
            fixed_ids = [i for i, d in enumerate(dims2) if d[1] != 0]
            ids = recid + [rng.choice(fixed_ids) for _ in range(rng.range(0, 1))]
            xt = rng.choice(s.types)
            nv = Var(len(vars2), 'n%d' % len(vars2), xt, ids, [dims2[i][1] for i in ids], True)
            vars2.append(nv)
            mods.append('def_var 0 %s %d %d %s' % (hx(nv.name), xt, nv.nd, ' '.join(map(str, ids))))
        else:
            ea2 = [rng.choice([600, 1000]), 0, rng.choice([0, 100, 36]), 0]
    p.steps.append(dict(kind='redef', mods=mods, ea=ea2))
    # schema after the redefinition (for the model)
    s2 = Schema.__new__(Schema)
    s2.__dict__.update(s.__dict__)
    s2.dims, s2.vars = dims2, vars2
    p.s2 = s2
    p.atts2 = p.atts + newatts
    p.final = []
    for v in s.vars:
        if v.isrec and numrecs == 0:
            continue
        start = [0] * v.nd
        count = [numrecs if (i == 0 and v.isrec) else d for i, d in enumerate(v.shape)]
        tok, memk, flex, bufkind = pick_mem(rng, v, vmax.get(v.vid, 0), True)
        p.final.append(dict(kind='get', ops=[dict(op='get', vid=v.vid, start=start, count=count, stride=[1] * v.nd,
                                                   tok=tok, memk=memk, flex=flex, bufkind=bufkind,
                                                   defined=[True] * nelems(count))]))
    # the same reads right after the enddef, before the file is closed
    p.steps += [dict(kind='get', ops=[dict(st['ops'][0])]) for st in p.final]
    p.numrecs = numrecs
    p.written = written
    p.has_recstride = False
    p.redef = True
    return p


def pick_mem(rng, v, vmax, forget):
    """memory type of a logical access: (token, k, flex, bufkind); half of them need no conversion"""
    # the packing-buffer (nc_ibuf_size) branch of ncmpio_read_write is reached only with a
    # non-contiguous buffer type that needs neither conversion nor byte swap: a one-byte element
    # type accessed through a vector layout of the same type
    if v.xtype in (1, 2, 7) and rng.chance(1, 2):
        return 'x%d' % v.xtype, v.xtype, True, 'v'
    for _ in range(30):
        if v.xtype == 2:
            k = 2
        elif rng.chance(1, 2):
            k = v.xtype
        else:
            k = rng.choice([1, 3, 4, 5, 6, 7, 8, 9, 10, 11])
        flex = rng.chance(1, 2)
        bufkind = 't'
        if flex:
            bufkind = rng.choice(['c', 'c', 'v', 'v', 'n'])
        memk = v.xtype if bufkind == 'n' else k
        if forget and INT_RANGE[memk] < vmax:
            continue
        return ('x%d' % k if flex else 't%d' % k), memk, flex, bufkind
    return 't%d' % v.xtype, v.xtype, False, 't'


def gen_program(rng, big=None):
    p = Program()
    s = Schema(rng)
    # a variable large enough for requests beyond NC_BYTE_SWAP_BUFFER_SIZE (4096 bytes)
    if big is None:
        big = rng.chance(1, 2)
    if big:
        d0 = len(s.dims); s.dims.append(('b0', rng.range(30, 40)))
        d1 = len(s.dims); s.dims.append(('b1', rng.range(36, 44)))
        xt = rng.choice([4, 5, 6, 3] if s.fmt < 5 else [4, 5, 6, 9, 10])
        bv = Var(len(s.vars), 'v%d' % len(s.vars), xt, [d0, d1], [s.dims[d0][1], s.dims[d1][1]], False)
        # fixed variables precede... order is free in the format; keep it last
        s.vars.append(bv)
        p.bigvid = bv.vid
    else:
        p.bigvid = None
    p.s = s
    # attributes: several names per table so that small hash tables collide
    p.atts = []
    names = ['a', 'bb', 'long_attribute_name_1', 'units', 'x', '_pad', 'Zeta9']
    rng.shuffle(names)
    for nm in names[:rng.range(1, 4)]:
        p.atts.append((-1, nm, rng.choice([2, 4, 6]), [rng.range(1, 90) for _ in range(rng.range(1, 5))]))
    for v in s.vars:
        rng.shuffle(names)
        for nm in names[:rng.range(0, 3)]:
            p.atts.append((v.vid, nm, rng.choice([2, 3, 4, 5]), [rng.range(1, 90) for _ in range(rng.range(1, 3))]))
    # steps
    p.steps = []
    numrecs = 0
    written = {}            # (vid, idx) -> value
    vmax = {}
    seedctr = rng.below(900)
    nsteps = rng.range(5, 12)
    has_recstride = False
    # strides along the record dimension (the request class flatten_req mishandled under
    # aggregation before the fix) are part of every program's vocabulary
    allow_recstride = True
    for si in range(nsteps):
        c = rng.below(100)
        v = rng.choice(s.vars)
        if big and rng.chance(1, 4):
            v = s.vars[p.bigvid]
        if c < 50:
            start, count, stride = rand_request(rng, v, numrecs, True)
            if v.isrec and not allow_recstride:
                stride[0] = 1
            if v.vid == p.bigvid and rng.chance(2, 3):
                start, count, stride = [0, 0], list(v.shape), [1, 1]
                if rng.chance(1, 2):
                    count[0] = rng.range(v.shape[0] // 2, v.shape[0])
            elif v.xtype in (1, 2, 7) and v.nd > 0 and rng.chance(1, 2):
                # whole one-byte variables: long enough vector buffers for the packing branch
                start = [0] * v.nd
                count = [rng.range(2, 4) if (i == 0 and v.isrec) else d for i, d in enumerate(v.shape)]
                stride = [1] * v.nd
            tok, memk, flex, bufkind = pick_mem(rng, v, 0, False)
            lim = O.pat_lim(memk, v.xtype)
            reqs = [(start, count, stride)]
            # an interleaved twin (shifted by one along the first dimension) when it fits
            if v.nd > 0 and stride[0] >= 2 and count[0] >= 1 and rng.chance(1, 2):
                s2 = list(start); s2[0] += 1
                last = s2[0] + (count[0] - 1) * stride[0]
                if v.isrec or last < v.shape[0]:
                    reqs.append((s2, list(count), list(stride)))
            ops = []
            for (st, cn, sd) in reqs:
                seedctr += 1
                seed = seedctr % lim
                op = dict(op='put', vid=v.vid, start=st, count=cn, stride=sd, seed=seed, tok=tok, memk=memk,
                          flex=flex, bufkind=bufkind, lim=lim)
                ops.append(op)
                k = 0
                for idx in O.req_indices(st, cn, sd):
                    written[(v.vid, tuple(idx))] = O.pat_value(seed, k, lim)
                    k += 1
                vmax[v.vid] = max(vmax.get(v.vid, 0), lim)
                if v.isrec and nelems(cn) > 0:
                    numrecs = max(numrecs, st[0] + (cn[0] - 1) * sd[0] + 1)
                    if sd[0] > 1 and cn[0] > 1:
                        has_recstride = True
            p.steps.append(dict(kind='puts', ops=ops))
            if rng.chance(1, 2):
                # read the request back at once (a later put may overwrite it before the final reads)
                st, cn, sd = reqs[0]
                if not (v.isrec and numrecs == 0) and nelems(cn) > 0:
                    gtok, gmemk, gflex, gbuf = pick_mem(rng, v, vmax.get(v.vid, 0), True)
                    p.steps.append(dict(kind='get', ops=[dict(op='get', vid=v.vid, start=list(st), count=list(cn),
                                                               stride=list(sd), tok=gtok, memk=gmemk, flex=gflex, bufkind=gbuf,
                                                               defined=[True] * nelems(cn))]))
        elif c < 78:
            if v.isrec and numrecs == 0:
                continue
            start, count, stride = rand_request(rng, v, numrecs, False)
            if v.vid == p.bigvid and rng.chance(1, 2):
                start, count, stride = [0, 0], list(v.shape), [1, 1]
            tok, memk, flex, bufkind = pick_mem(rng, v, vmax.get(v.vid, 0), True)
            defined = [(v.vid, tuple(i)) in written for i in O.req_indices(start, count, stride)]
            p.steps.append(dict(kind='get', ops=[dict(op='get', vid=v.vid, start=start, count=count, stride=stride,
                                                       tok=tok, memk=memk, flex=flex, bufkind=bufkind, defined=defined)]))
        elif c < 88:
            p.steps.append(dict(kind='err', line=gen_invalid(rng, s, v, numrecs)))
        elif c < 96:
            p.steps.append(dict(kind='look', line=gen_lookup(rng, p)))
        else:
            p.steps.append(dict(kind='numrecs'))
    # final: read every variable completely
    p.final = []
    for v in s.vars:
        if v.isrec and numrecs == 0:
            continue
        start = [0] * v.nd
        count = [numrecs if (i == 0 and v.isrec) else d for i, d in enumerate(v.shape)]
        tok, memk, flex, bufkind = pick_mem(rng, v, vmax.get(v.vid, 0), True)
        defined = [(v.vid, tuple(i)) in written for i in O.req_indices(start, count, [1] * v.nd)]
        p.final.append(dict(kind='get', ops=[dict(op='get', vid=v.vid, start=start, count=count, stride=[1] * v.nd,
                                                   tok=tok, memk=memk, flex=flex, bufkind=bufkind, defined=defined)]))
    p.final.append(dict(kind='look', line=gen_lookup(rng, p)))
    p.numrecs = numrecs
    p.written = written
    p.has_recstride = has_recstride
    return p


def gen_invalid(rng, s, v, numrecs):
    """an invalid request every rank issues identically (the text after `who`)"""
    f = 0
    nd = v.nd
    c = rng.below(6)
    if nd == 0 or c == 0:
        return 'put %d c %d vara t4 c 1 0 1 pat 3' % (f, len(s.vars) + 3)            # NC_ENOTVAR
    start = [0] * nd; count = [1] * nd; stride = [1] * nd
    d = rng.below(nd)
    if v.isrec and d == 0:
        d = nd - 1
        if nd == 1:
            # the record dimension has no upper bound for writes: use a read
            return 'get %d c %d vara t%d c %d %d %d' % (f, v.vid, 6 if v.xtype != 2 else 2, nd, numrecs + 2, 1)
    mt = 't%d' % (2 if v.xtype == 2 else 6)
    if c == 1:
        start[d] = v.shape[d] + 1                                                   # NC_EINVALCOORDS
        return 'put %d c %d vara %s c %d %s %s pat 5' % (f, v.vid, mt, nd, fmt_list(start), fmt_list(count))
    if c == 2:
        count[d] = v.shape[d] + 1                                                   # NC_EEDGE
        return 'get %d c %d vara %s c %d %s %s' % (f, v.vid, mt, nd, fmt_list(start), fmt_list(count))
    if c == 3:
        stride[d] = 0                                                               # NC_ESTRIDE
        return 'put %d c %d vars %s c %d %s %s %s pat 5' % (f, v.vid, mt, nd, fmt_list(start), fmt_list(count), fmt_list(stride))
    if c == 4:
        count[d] = -1                                                               # NC_ENEGATIVECNT
        return 'get %d c %d vara %s c %d %s %s' % (f, v.vid, mt, nd, fmt_list(start), fmt_list(count))
    start[d] = v.shape[d]; count[d] = 1                                             # start == shape, count > 0
    return 'get %d c %d vara %s c %d %s %s' % (f, v.vid, mt, nd, fmt_list(start), fmt_list(count))


def gen_lookup(rng, p):
    f = 0
    c = rng.below(5)
    if c == 0:
        return 'inq_name %d d %s' % (f, hx(rng.choice(p.s.dims)[0]))
    if c == 1:
        return 'inq_name %d v %s' % (f, hx(rng.choice(p.s.vars).name))
    if c == 2:
        return 'inq_name %d %s %s' % (f, rng.choice(['d', 'v']), hx('nosuch'))
    if p.atts and c == 3:
        a = rng.choice(p.atts)
        return 'get_att %d %d %s' % (f, a[0], hx(a[1]))
    return 'get_att %d %d %s' % (f, -1, hx('missing'))


# ------------------------------------------------------------------ layout for k ranks
def split_request(rng, start, count, stride, maxparts):
    """cut a request along the first dimension whose count >= 2 into row-major contiguous pieces:
    list of (start, count, k0)"""
    n = nelems(count)
    ds = None
    for i, c in enumerate(count):
        if c >= 2:
            ds = i; break
    if ds is None or n == 0 or maxparts <= 1:
        return [(list(start), list(count), 0)]
    m = rng.range(1, min(maxparts, count[ds]))
    cuts = set()
    while len(cuts) < m - 1:
        cuts.add(rng.range(1, count[ds] - 1))
    cuts = [0] + sorted(cuts) + [count[ds]]
    inner = nelems(count[ds + 1:])
    out = []
    for a, b in zip(cuts, cuts[1:]):
        st = list(start); cn = list(count)
        st[ds] = start[ds] + a * stride[ds]; cn[ds] = b - a
        out.append((st, cn, a * inner))
    return out


def buf_tokens(rng, bufkind, nel):
    """buffer layout tokens for access_tokens and the annotation tuple"""
    if bufkind == 't':
        return 'c', ('c',)
    if bufkind == 'n':
        return 'n', ('n',)
    if bufkind == 'v' and nel > 0:
        divs = [d for d in range(1, min(nel, 64) + 1) if nel % d == 0]
        bl = rng.choice(divs[:3] + divs)            # small blocks are more likely
        cnt = nel // bl
        st = bl + rng.below(3)
        return 'v %d %d %d' % (cnt, bl, st), ('v', cnt, bl, st)
    return 'c %d' % nel, ('c',)


def emit_access(sess, lrng, v, op, mode, who, lop, start, count, stride, k0, form=None, trace=None, key=None):
    """one put/get line for a piece of a logical access"""
    nel = nelems(count)
    if form is None:
        if any(t != 1 for t in stride) and any(c > 1 and t > 1 for c, t in zip(count, stride)):
            form = 'vars'
        else:
            opts = ['vara', 'vars']
            if v.nd > 0 and all(c == 1 for c in count):
                opts.append('var1')
            form = lrng.choice(opts)
    if form in ('vara', 'var1', 'varn'):
        stride_eff = [1] * v.nd       # count <= 1 wherever stride > 1
    else:
        stride_eff = list(stride)
    flex = lop['flex']
    buf, bufann = buf_tokens(lrng, lop['bufkind'], nel)
    acc = access_tokens(lrng, v, start, count, stride_eff, lop['tok'], int(lop['tok'][1:]), flex, form=form, buf=buf)
    isput = (op == 'put')
    line = '%s %s %d %s %s' % (who, op, sess.f, mode, acc)
    seed = None
    if isput:
        seed = shifted_seed(lop['seed'], k0, lop['lim'])
        line += ' pat %d' % seed
    ranks = list(range(sess.np)) if who == '*' else [int(who)]
    # the annotation carries the LOGICAL stride so that the oracle enumerates the same elements
    ln = sess.emit(line, kind=('put' if isput else 'get'), op=op, vid=v.vid, start=list(start), count=list(count),
                   stride=list(stride), memk=lop['memk'], seed=seed, lim=lop.get('lim', O.pat_lim(lop['memk'], v.xtype)),
                   form=acc.split(' ')[1], buf=bufann, ranks=ranks, mode=mode, flex=flex)
    if trace is not None and key is not None:
        trace.append(dict(line=ln, key=key, k0=k0, n=nel, ranks=ranks, isput=isput, buf=bufann, memk=lop['memk']))
    return ln


def zero_access(sess, lrng, v, op, mode, who, lop, form):
    """a zero-length participation in a collective call"""
    if v.nd == 0:
        return None
    z = [0] * v.nd
    return emit_access(sess, lrng, v, op, mode, who, lop, z, z, [1] * v.nd, 0, form=('varn' if form == 'varn' else 'vara'))


def layout_step(sess, lrng, p, step, key, trace, allow_indep=True):
    s = p.s
    np_ = sess.np
    f = sess.f
    kind = step['kind']
    if kind == 'err' or kind == 'look':
        ln = sess.emit('* ' + step['line'], kind='other')
        trace.append(dict(line=ln, key=key, other=True))
        return
    if kind == 'numrecs':
        ln = sess.emit('* inq_numrecs %d' % f, kind='other')
        trace.append(dict(line=ln, key=key, other=True))
        return
    if kind == 'redef':
        sess.emit('* redef %d' % f)
        for m in step['mods']:
            sess.emit('* ' + m)
        if step.get('ea'):
            sess.emit('* _enddef %d %s' % (f, fmt_list(step['ea'])), kind='enddef')
        else:
            sess.emit('* enddef %d' % f, kind='enddef')
        ln = sess.emit('* inq %d' % f, kind='inq')
        trace.append(dict(line=ln, key='inqR', inq=True))
        sess.emit('* snapshot %d' % f, kind='snapshot', noframe=True)
        return
    ops = step['ops']
    v = s.vars[ops[0]['vid']]
    op = 'put' if kind == 'puts' else 'get'
    # scalar variables: one rank, independent mode (several ranks writing the same element is
    # excluded by the property); reads by everybody
    if v.nd == 0:
        for oi, lop in enumerate(ops):
            if op == 'get' or np_ == 1:
                emit_access(sess, lrng, v, op, 'c', '*', lop, [], [], [], 0, trace=trace, key=(key, oi))
            else:
                r = lrng.below(np_)
                sess.begin_indep()
                emit_access(sess, lrng, v, op, 'i', str(r), lop, [], [], [], 0, trace=trace, key=(key, oi))
                sess.emit('* end_indep %d' % f)
                sess.emit('* sync %d' % f)
        return
    # reads by every rank of the whole request
    if op == 'get' and (np_ == 1 or lrng.chance(1, 2)):
        lop = ops[0]
        emit_access(sess, lrng, v, op, 'c', '*', lop, lop['start'], lop['count'], lop['stride'], 0,
                    trace=trace, key=(key, 0))
        return
    pieces = []
    for oi, lop in enumerate(ops):
        for (st, cn, k0) in split_request(lrng, lop['start'], lop['count'], lop['stride'], np_ + 1):
            pieces.append((oi, st, cn, k0))
    lrng.shuffle(pieces)
    if allow_indep and lrng.chance(1, 6):
        # independent mode: one rank performs all the pieces one after the other
        r = lrng.below(np_)
        sess.begin_indep()
        for (oi, st, cn, k0) in pieces:
            emit_access(sess, lrng, v, op, 'i', str(r), ops[oi], st, cn, ops[oi]['stride'], k0, trace=trace, key=(key, oi))
        sess.emit('* end_indep %d' % f)
        sess.emit('* sync %d' % f)
        return
    if np_ == 1:
        for (oi, st, cn, k0) in pieces:
            emit_access(sess, lrng, v, op, 'c', '*', ops[oi], st, cn, ops[oi]['stride'], k0, trace=trace, key=(key, oi))
        return
    # collective rounds: every rank takes part in every call, with a piece or a zero-length request
    for i in range(0, len(pieces), np_):
        rnd = pieces[i:i + np_]
        ranks = list(range(np_)); lrng.shuffle(ranks)
        assign = {ranks[j]: rnd[j] for j in range(len(rnd))}
        strided = any(any(c > 1 and t > 1 for c, t in zip(pc[2], ops[pc[0]]['stride'])) for pc in rnd)
        fam = 'varn' if (not strided and lrng.chance(1, 4)) else 'plain'
        sess.emit('{')
        for r in range(np_):
            if r in assign:
                oi, st, cn, k0 = assign[r]
                emit_access(sess, lrng, v, op, 'c', str(r), ops[oi], st, cn, ops[oi]['stride'], k0,
                            form=('varn' if fam == 'varn' else None), trace=trace, key=(key, oi))
            else:
                zero_access(sess, lrng, v, op, 'c', str(r), ops[0], fam)
        sess.emit('}')


def layout(p, cfg, lrng):
    """the script of logical program p under configuration cfg; returns (session, trace)"""
    sess = Session(lrng, np_=cfg['np'])
    sess.s = p.s
    f = sess.f
    envs, _ = cfg_env(cfg)
    for e in envs:
        sess.emit('env ' + e)
    hints = cfg_hints(cfg) if cfg.get('via') != 'env' else []
    for k, v in hints:
        sess.emit('hint %s %s' % (k, v))
    sess.emit('* create %d %d 1' % (f, p.s.fmt), kind='create')
    for l in p.s.define_lines(f):
        sess.emit(l)
    for (vid, nm, ty, vals) in p.atts:
        sess.emit('* put_att %d %d %s %d %d %s' % (f, vid, hx(nm), ty, len(vals), fmt_list(vals)))
    if cfg.get('ea'):
        sess.emit('* _enddef %d %s' % (f, fmt_list(cfg['ea'])), kind='enddef')
    else:
        sess.emit('* enddef %d' % f, kind='enddef')
    trace = []
    ln = sess.emit('* inq %d' % f, kind='inq')
    trace.append(dict(line=ln, key='inq0', inq=True))
    for si, step in enumerate(p.steps):
        layout_step(sess, lrng, p, step, si, trace)
    ln = sess.emit('* inq %d' % f, kind='inq')
    trace.append(dict(line=ln, key='inq1', inq=True))
    sess.emit('* snapshot %d' % f, kind='snapshot')
    sess.emit('* close %d' % f)
    for k, v in hints:
        sess.emit('hint %s %s' % (k, v))
    sess.emit('* open %d 0' % f)
    ln = sess.emit('* inq %d' % f, kind='inq')
    trace.append(dict(line=ln, key='inq2', inq=True))
    for si, step in enumerate(p.final):
        layout_step(sess, lrng, p, step, 'F%d' % si, trace, allow_indep=False)
    ln = sess.emit('* snapshot %d' % f, kind='snapshot', noframe=True)
    trace.append(dict(line=ln, key='snap', snap=True))
    sess.emit('* close %d' % f)
    return sess, trace


# ------------------------------------------------------------------ observations
def piece_elements(hexbuf, bufann, memk, n):
    """the n elements of a dumped buffer (guards removed) in request order"""
    if hexbuf == '-' or not hexbuf:
        return None
    raw = bytes.fromhex(hexbuf)
    body = raw[O.GUARD:len(raw) - O.GUARD]
    es = ELSIZE[memk]
    out = []
    for k in range(n):
        pos = (k // bufann[2]) * bufann[3] + k % bufann[2] if bufann[0] == 'v' else k
        out.append(body[pos * es:(pos + 1) * es])
    return out


def logical_header(view_tokens):
    """the tokens of an `inq` line without anything layout-dependent (variable offsets, header
    size and extent): dims, attributes, variables (name, type, dims), record size, numrecs, format"""
    vw = O.FileView(view_tokens)
    if not vw.ok:
        return ('bad', tuple(view_tokens))
    toks = list(view_tokens)
    out = []
    i = 4
    out.append(tuple(toks[:4]))
    while i < len(toks):
        t = toks[i]
        if t == 'D':
            out.append(tuple(toks[i:i + 3])); i += 3
        elif t == 'A':
            out.append(tuple(toks[i:i + 5])); i += 5
        elif t == 'V':
            n = int(toks[i + 3])
            out.append(tuple(toks[i:i + 4 + n + 1]))       # V name type nd dimids natts
            i += 4 + n + 2                                 # skip the offset
        elif t == 'H':
            out.append(('H', toks[i + 3], toks[i + 4], toks[i + 5]))    # recsize numrecs format
            break
        else:
            i += 1
    return tuple(out)


def observe(p, sess, trace, res):
    """logical observations of one run"""
    ob = dict(rc={}, get={}, other={}, hdr={}, layout={}, data=None, problems=[])
    for t in trace:
        ln = t['line']
        if t.get('inq'):
            o = res.impl.get((ln, 0))
            if o is None or int(o[1]) != 0:
                ob['problems'].append('inq line %d: %s' % (ln, o)); continue
            ob['hdr'][t['key']] = logical_header(o[2:])
            vw = O.FileView(o[2:])
            if vw.ok:
                ob['layout'][t['key']] = dict(offs=[x['off'] for x in vw.vars], hsize=vw.hsize, hext=vw.hext,
                                              recsize=vw.recsize, numrecs=vw.numrecs)
                ob['view'] = vw
            # every rank must report the same thing
            for r in range(1, sess.np):
                o2 = res.impl.get((ln, r))
                if o2 != o:
                    ob['problems'].append('inq line %d differs between ranks 0 and %d' % (ln, r))
            continue
        if t.get('snap'):
            o = res.impl.get((ln, 0))
            if o is None or int(o[1]) != 0 or len(o) < 4 or o[3] == 'big':
                ob['problems'].append('snapshot unavailable: %s' % (o[:3] if o else None)); continue
            data = b'' if o[3] == '-' else bytes.fromhex(o[3])
            vw = ob.get('view')
            d = {}
            if vw is not None:
                for (vid, idx) in p.written:
                    off0, xsz, shape, isrec, recsize, xt = vw.geom(vid)
                    if off0 is None:
                        continue
                    off = O.elem_off(off0, xsz, shape, isrec, recsize, list(idx))
                    b = data[off:off + xsz]
                    d[(vid, idx)] = b + b'\x00' * (xsz - len(b))
            ob['data'] = d
            continue
        if t.get('other'):
            per = []
            for r in range(sess.np):
                o = res.impl.get((ln, r))
                per.append(tuple(o[1:]) if o is not None else None)
            ob['other'][t['key']] = per
            continue
        for r in t['ranks']:
            o = res.impl.get((ln, r))
            rc = int(o[1]) if (o is not None and len(o) > 1) else None
            ob['rc'].setdefault(t['key'], set()).add(rc)
            if not t['isput'] and rc in (0, -60) and t['n'] > 0:
                el = piece_elements(o[2], t['buf'], t['memk'], t['n'])
                if el is not None:
                    g = ob['get'].setdefault(t['key'], {})
                    for j, b in enumerate(el):
                        g.setdefault(t['k0'] + j, set()).add(b)
    return ob


def step_of(p, key):
    if isinstance(key, tuple):
        si, oi = key
        st = p.final[int(si[1:])] if isinstance(si, str) else p.steps[si]
        return st, st['ops'][oi]
    st = p.final[int(key[1:])] if isinstance(key, str) and key.startswith('F') else p.steps[key]
    return st, None


def compare(p, ref, ob):
    """differences between the logical observations of two runs of the same logical program:
    list of (what, detail).  Never-written elements are not compared."""
    diffs = []
    def norm(k, rcs):
        # never-written elements hold anything: a range error (NC_ERANGE) on a read that touches
        # them is legitimate and may differ between runs
        if rcs is None:
            return None
        st, lop = step_of(p, k)
        if lop is not None and lop['op'] == 'get' and not all(lop['defined']):
            return set(0 if x == -60 else x for x in rcs)
        return rcs
    for k in sorted(set(ref['rc']) | set(ob['rc']), key=str):
        a, b = norm(k, ref['rc'].get(k)), norm(k, ob['rc'].get(k))
        if a != b:
            diffs.append(('return-code', 'logical access %s: %s vs %s' % (k, sorted(a, key=str) if a else a,
                                                                         sorted(b, key=str) if b else b)))
    for k in sorted(set(ref['other']) | set(ob['other']), key=str):
        a, b = ref['other'].get(k), ob['other'].get(k)
        sa = set(a) if a else set(); sb = set(b) if b else set()
        if sa != sb:
            diffs.append(('return-code', 'step %s: %s vs %s' % (k, sorted(sa, key=str)[:2], sorted(sb, key=str)[:2])))
    for k in sorted(set(ref['get']) | set(ob['get']), key=str):
        st, lop = step_of(p, k)
        ga, gb = ref['get'].get(k, {}), ob['get'].get(k, {})
        for e, isdef in enumerate(lop['defined']):
            if not isdef:
                continue
            va, vb = ga.get(e), gb.get(e)
            if va is None or vb is None:
                if (norm(k, ref['rc'].get(k)) == {0}) and (norm(k, ob['rc'].get(k)) == {0}):
                    diffs.append(('data-differs', 'logical get %s element %d not delivered (%s vs %s)' % (k, e, va, vb)))
                    break
                continue
            if va != vb or len(va) != 1:
                diffs.append(('data-differs', 'logical get %s element %d: %s vs %s' %
                              (k, e, sorted(x.hex() for x in va), sorted(x.hex() for x in vb))))
                break
    for k in ('inq0', 'inqR', 'inq1', 'inq2'):
        if ref['hdr'].get(k) != ob['hdr'].get(k):
            a, b = ref['hdr'].get(k), ob['hdr'].get(k)
            d = ''
            if a and b:
                for x, y in zip(a, b):
                    if x != y:
                        d = '%s vs %s' % (x, y); break
            diffs.append(('header-differs', '%s: %s' % (k, d or 'missing')))
            break
    if ref['data'] is not None and ob['data'] is not None:
        for key in sorted(ref['data']):
            if ref['data'][key] != ob['data'].get(key):
                diffs.append(('data-differs', 'file: element %s of var %d holds %s vs %s' %
                              (list(key[1]), key[0], ref['data'][key].hex(), (ob['data'].get(key) or b'').hex())))
                break
    elif (ref['data'] is None) != (ob['data'] is None):
        diffs.append(('data-differs', 'file snapshot missing in one run'))
    return diffs


# ------------------------------------------------------------------ Coq cases
def coq_bytes(s):
    return '[' + '; '.join(str(b) for b in s.encode()) + ']'


def coq_zlist(l):
    return '[' + '; '.join('(%d)' % x for x in l) + ']'


def coq_hdr(p):
    s = p.s
    dims = '; '.join('mkdim %s %d' % (coq_bytes(n), l) for n, l in s.dims)
    def att(a):
        return 'mkatt %s %d %d []' % (coq_bytes(a[1]), a[2], len(a[3]))
    gatts = '; '.join(att(a) for a in p.atts if a[0] == -1)
    vs = []
    for v in s.vars:
        va = '; '.join(att(a) for a in p.atts if a[0] == v.vid)
        vs.append('mkvar %s %s [%s] %d 0 false' % (coq_bytes(v.name), coq_zlist(v.dimids), va, v.xtype))
    return '(mkhdr %d 0 [%s] [%s] [%s])' % (s.fmt, dims, gatts, '; '.join(vs))


def coq_opt_str(s):
    return 'None' if s is None else '(Some (B "%s"))' % s


def coq_info(pairs):
    if not pairs:
        return 'None'
    return '(Some [' + '; '.join('(B "%s", B "%s")' % kv for kv in pairs) + '])'


def coq_cfg_args(cfg):
    """user info, PNETCDF_HINTS, hook chunk, safe-mode env, nprocs as Coq terms"""
    _, hs = cfg_env(cfg)
    user = cfg_hints(cfg) if cfg.get('via') != 'env' else []
    return '%s %s %s %s %d' % (coq_info(user), coq_opt_str(hs),
                               coq_opt_str(None if cfg.get('chunk') is None else str(cfg['chunk'])),
                               coq_opt_str(None if cfg.get('safe') is None else str(cfg['safe'])), cfg['np'])


COQ_KEYS = ['k_h_align', 'k_v_align', 'k_r_align', 'k_chunk', 'k_ibuf', 'k_hash_dim', 'k_hash_var',
            'k_hash_gattr', 'k_hash_vattr', 'k_num_aggrs']
KEY_NAMES = ['nc_header_align_size', 'nc_var_align_size', 'nc_record_align_size', 'nc_header_read_chunk_size',
             'nc_ibuf_size', 'nc_hash_size_dim', 'nc_hash_size_var', 'nc_hash_size_gattr', 'nc_hash_size_vattr',
             'nc_num_aggrs_per_node']

COQ_PRELUDE = '''From Pnc Require Import Aggregate.
Require Import String.
Require Import List ZArith.
Import ListNotations.
Local Open Scope string_scope.
Local Open Scope list_scope.
Local Open Scope Z_scope.
Definition lay_summary (o : option layout) : list Z :=
  match o with
  | None => [-1]
  | Some l => l_xsz l :: l_begin_var l :: l_begin_rec l :: l_recsize l :: l_begins l
  end.
Definition swapnum (i : info) : Z :=
  match info_get k_swap i with
  | Some v => if caseeq v (B "enable") then 1 else if caseeq v (B "disable") then 2 else if caseeq v (B "auto") then 0 else 9
  | None => -1 end.
Definition nums (i : info) : list Z :=
  map (info_num i) [%s] ++ [swapnum i].
Definition enddef_case (user : option info) (env hook safe : option (list byte)) (np : Z) (h : hdr) (ea : enddef_args) : list Z * list Z * list Z :=
  let r := reported_after_enddef user env hook safe np h ea in
  (nums (reported_after_open user env hook safe np), nums (fst r), lay_summary (snd r)).
Definition redef_case (user : option info) (env hook safe : option (list byte)) (np : Z)
           (h1 : hdr) (ea1 : enddef_args) (h2 : hdr) (ea2 : enddef_args) : list Z * list Z :=
  let c := fst (open_config user env hook safe np) in
  match snd (cfg_enddef c h1 ea1 0 None 0) with
  | None => ([-1], [-1])
  | Some l1 =>
      (lay_summary (Some l1),
       lay_summary (snd (cfg_enddef c h2 ea2 (num_rec_vars_of h1)
                                    (Some (l1, map (is_recvar (h_dims h1)) (h_vars h1))) (l_begin_rec l1))))
  end.
Definition tiles_summary (d : disk) (pairs : list (Z * Z)) : list (Z * list Z) :=
  map (fun p => (fst p, dk_read d (fst p) (snd p))) pairs.
Fixpoint adj_disjoint (l : list triple) : bool :=
  match l with
  | a :: r => match r with
              | b :: _ => (t_off a + t_len a <=? t_off b) && adj_disjoint r
              | [] => true
              end
  | [] => true
  end.
(* are the gathered pairs pairwise disjoint?  (otherwise the result depends on the order in
   which the unstable sort leaves equal/overlapping pairs and the model's order is only one of them) *)
Definition pairs_disjoint (ps : list (Z * Z)) : list Z :=
  [if adj_disjoint (sort_triples (mk_triples (filter (fun p => 0 <? snd p) ps) 0)) then 1 else 0].
''' % '; '.join(COQ_KEYS)


def coq_redef_case(idx, p, cfg):
    """layout after create+enddef and after redef+enddef (NC_begins with the old header)"""
    ea = cfg.get('ea') or [0, 0, 0, 0]
    rd = [st for st in p.steps if st['kind'] == 'redef'][0]
    ea2 = rd.get('ea') or [0, 0, 0, 0]
    p2 = Program(); p2.s = p.s2; p2.atts = p.atts2
    return 'Eval vm_compute in (%d, redef_case %s %s (mkeargs %s) %s (mkeargs %s)).\n' % (
        idx, coq_cfg_args(cfg), coq_hdr(p), ' '.join('(%d)' % x for x in ea), coq_hdr(p2), ' '.join('(%d)' % x for x in ea2))


def coq_enddef_case(idx, p, cfg):
    ea = cfg.get('ea') or [0, 0, 0, 0]
    return 'Eval vm_compute in (%d, enddef_case %s %s (mkeargs %s)).\n' % (
        idx, coq_cfg_args(cfg), coq_hdr(p), ' '.join('(%d)' % x for x in ea))


def parse_coq_output(out):
    """{case index: nested python structure of integers}"""
    res = {}
    for m in re.finditer(r'=\s*\((\d+),\s*(.*?)\)\s*:\s', out, re.S):
        body = m.group(2).replace('\n', ' ')
        body = re.sub(r';', ',', body)
        try:
            res[int(m.group(1))] = eval(body, {'__builtins__': {}}, {})
        except Exception:
            res[int(m.group(1))] = None
    return res
