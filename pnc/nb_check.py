"""Driver shared by checks/C02.py and checks/C13.py: proofs, then the correspondence of the model
(coq/Nonblocking.v, coq/Abuf.v run through coq/NbRun.v by `Eval vm_compute`) with the real library on
nonblocking-request sessions (pnc/nb_gen.py), then the specification oracle on the implementation's own
observations, then the verdict protocol of AGENT_PACKAGE.md."""
import os, time, concurrent.futures as cf
from . import common as C, scripts as S, nb_gen as N

CHECKER_CMD = 'coq_makefile -f _CoqProject -o Makefile && make -k -j16 Properties_%s.vo NbRun.vo && coqc -Q . Pnc Properties_%s.v (Print Assumptions)'

# which oracle failure kinds / correspondence relations belong to which property
C13_KINDS = {'put-buffer-modified', 'guard-overwritten', 'get-wrote-unselected', 'usage', 'bput-refused', 'inq-buffer-rc',
             'inq-buffer-size', 'attach-rc', 'detach-rc', 'overrun'}
C13_RELS = {'corr_C13_buffer', 'corr_C13_usage', 'corr_C13_attach', 'corr_C13_overrun'}


def in_domain(pid, name, is_rel):
    c13 = (name in C13_RELS) if is_rel else (name in C13_KINDS)
    if pid == 'C13':
        return c13 or (is_rel and name == 'corr_C02_post_rc')      # bput return codes (NC_EINSUFFBUF) are C13's
    return not c13


def make_sessions(ctx, mix):
    """mix: list of (name, count, kwargs)"""
    out = list(N.directed_sessions())
    for name, n, kw in mix:
        for i in range(n):
            rng = ctx.rng.fork('%s-%d' % (name, i))
            try:
                out.append(('%s-%d' % (name, i), N.gen_session(rng, **kw)))
            except Exception as e:       # a generator bug must not look like a library defect
                raise C.BuildFailure('session generator failed (%s-%d): %r' % (name, i, e))
    return out


def run_impl(sessions, impl, wd, jobs, timeout):
    res = {}
    for tag, text, r in S.run_many([(t, s.text()) for t, s in sessions], impl, None, wd, jobs=jobs, timeout=timeout, want_model=False):
        res[tag] = r
    # the machine may be heavily loaded: a watchdog expiry is re-examined alone, with a longer limit
    bysess = dict(sessions)
    for tag, r in list(res.items()):
        if r.hang or r.crash:
            r2 = S.run_script(bysess[tag].text(), impl, None, wd, tag + '-retry', timeout=timeout * 3, want_model=False)
            r2.first_attempt = (r.crash or 'hang')[-300:]
            res[tag] = r2
    return res


def run_models(cases, wd, jobs, batch_cost=40.0, variant='old'):
    """cases: list of (name, ..., term) with an estimated cost = len(term); batches run in parallel"""
    batches = []
    cur, cost = [], 0
    for c in sorted(cases, key=lambda c: -len(c[-1])):
        w = 1.0 + len(c[-1]) / 4000.0
        if cur and cost + w > batch_cost:
            batches.append(cur); cur, cost = [], 0
        cur.append(c); cost += w
    if cur:
        batches.append(cur)
    rows = {}
    def one(ib):
        i, b = ib
        return N.run_model(b, wd, 'model-%d' % i, timeout=1500, variant=variant)
    with cf.ThreadPoolExecutor(max_workers=jobs) as ex:
        for r in ex.map(one, enumerate(batches)):
            rows.update(r)
    return rows


def run_nb_check(ctx, mix_quick, mix_thorough, extra=None, jobs=8):
    pid = ctx.pid
    lib = C.libdir()
    impl = S.impl_exe(lib)
    wd = C.scratch()
    # ---------------- proofs (and the model interpreter)
    pr = C.prove(pid, gens=('consts',), lib=lib)
    proof_ok = ctx.add_proof(pr, CHECKER_CMD % (pid, pid))
    ok, log = C.coq_make(['NbRun.vo'])
    if not ok:
        raise C.BuildFailure('model interpreter NbRun.v does not build:\n' + log[-3000:])
    ctx.cov['trusted_base'] = list(C.TRUSTED_COMMON) + [
        'the model is run inside Coq (Eval vm_compute of NbRun.run on terms printed by pnc/nb_gen.py); NbRun.v (script '
        'interpreter, tabulated file store) and the Python glue (value pattern, type conversion of small integers, buffer '
        'layouts, parsing of the printed result) are trusted',
        'variable offsets (begin, recsize) are taken from the implementation\'s own inq line (layout = C03)',
    ]
    # ---------------- which variant of extract_reqs is in the sources as built (the model has both: Nonblocking.v, fx)
    variant, vnote = N.detect_variant(lib)
    ctx.cov['model_variant'] = dict(variant=variant, note=vnote,
                                    theorems='fx = false: *_old_refuted + *_partial; fx = true: status_own, wait_subset_frame, failed_wait_no_effect, nb_run_inv_fixed in full')
    if variant is None:
        # fail closed: no model describes this source, nothing is shown; look for a failing input with the spec oracle only
        variant_unknown = True
        variant = 'old'
    else:
        variant_unknown = False
    # ---------------- sessions
    sessions = make_sessions(ctx, mix_thorough if ctx.tier == 'thorough' else mix_quick)
    t0 = time.time()
    res = run_impl(sessions, impl, wd, jobs, timeout=120)
    t_impl = time.time() - t0
    stats = dict(sessions=len(sessions), nprocs={}, kinds={}, forms={}, waits={}, hangs=0, crashes=0, compared=0,
                 oracle_failures=0, model_disagreements=0, erroneous_sessions=0, big_sessions=0, indep_sessions=0)
    cases = []; ivs = {}; hard = []
    for tag, s in sessions:
        r = res[tag]
        stats['nprocs'][str(s.np)] = stats['nprocs'].get(str(s.np), 0) + 1
        stats['erroneous_sessions'] += bool(s.erroneous); stats['big_sessions'] += bool(s.big); stats['indep_sessions'] += bool(s.indep)
        for o in s.ops:
            if o['op'] == 'post':
                q = o['req']
                stats['kinds'][q.kind] = stats['kinds'].get(q.kind, 0) + 1
                f = q.form + ('/flex-' + q.buf[0] if q.flex else '') + ('/imap' if q.imap is not None and not N.imap_is_contig(q.count0, q.imap) else '')
                stats['forms'][f] = stats['forms'].get(f, 0) + 1
            elif o['op'] == 'wait':
                for rk, (n, toks) in o['args'].items():
                    w = ('coll' if o['coll'] else 'indep') + ':' + ('ALL' if n == -1 else 'PUT_ALL' if n == -2 else 'GET_ALL' if n == -3
                                                                   else 'empty' if n == 0 else 'ids' + ('+NULL' if 'N' in toks else ''))
                    stats['waits'][w] = stats['waits'].get(w, 0) + 1
        if r.hang or r.crash:
            stats['hangs' if r.hang else 'crashes'] += 1
            hard.append((tag, s, r))
            continue
        iv = N.ImplView(s, r)
        if iv.view is None:
            hard.append((tag, s, r)); continue
        ivs[tag] = iv
        cases.append(N.coq_case(tag, s, iv.view))
    t0 = time.time()
    rows = run_models(cases, wd, jobs, variant=variant)
    t_model = time.time() - t0
    disagreements = []; oracle_fails = []
    for tag, s in sessions:
        if tag not in ivs:
            continue
        try:
            ncmp, mism = N.compare(s, ivs[tag], rows[tag])
            fails = N.judge(s, ivs[tag])
        except Exception as e:
            import traceback
            open(os.path.join(C.VERIF, 'replay', '%s-checker-error.txt' % pid), 'w').write(s.text() + '\n' + traceback.format_exc())
            raise C.BuildFailure('checker error while judging session %s (script saved in replay/%s-checker-error.txt): %r' % (tag, pid, e))
        stats['compared'] += ncmp
        ctx.count(s.text(), nontrivial=ncmp > 4)
        # data errors on several processes: is it the MPI-IO layer? (OpenMPI's default ompio returns zeros for the last
        # bytes of the file in some collective reads; ROMIO does not) - re-run under ROMIO and label accordingly
        if s.np > 1 and any(f['kind'] in ('get-buffer', 'file-content', 'file-bytes') and not f['key'].startswith(('F', 'wait')) for f in fails):
            r2 = S.run_script(s.text(), impl, None, wd, tag + '-romio', timeout=360, want_model=False, env={'OMPI_MCA_io': 'romio321'})
            if not (r2.hang or r2.crash):
                f2 = N.judge(s, N.ImplView(s, r2))
                if not any(f['kind'] in ('get-buffer', 'file-content', 'file-bytes') and not f['key'].startswith(('F', 'wait')) for f in f2):
                    for f in fails:
                        if f['kind'] in ('get-buffer', 'file-content', 'file-bytes') and not f['key'].startswith(('F', 'wait')):
                            f['key'] = 'mpiio:ompio-result-differs-from-romio'
                            f['detail'] += ' [the same script under OMPI_MCA_io=romio321 passes: MPI-IO layer (ompio), not PnetCDF]'
                    mism = [m for m in mism if m['rel'] not in ('corr_C13_buffer', 'corr_C02_file', 'corr_C02_readback')]
                    stats['ompio_vs_romio'] = stats.get('ompio_vs_romio', 0) + 1
        fails_all = list(fails)          # a history derailed by ANY finding (of either property) is not a clean correspondence sample
        mism = [m for m in mism if in_domain(pid, m['rel'], True)]
        fails = [f for f in fails if in_domain(pid, f['kind'], False)]
        if fails:
            stats['oracle_failures'] += 1
            oracle_fails.append((tag, s, fails))
        if mism:
            stats['model_disagreements'] += 1
            disagreements.append((tag, s, mism, bool(fails_all)))
            if len(stats.setdefault('disagreement_samples', [])) < 12:
                stats['disagreement_samples'].append('%s: %s line %s rank %s%s: %s' % (tag, mism[0]['rel'], mism[0]['line'], mism[0]['rank'],
                                                     ' (session also fails the oracle: %s)' % fails_all[0]['key'] if fails_all else '', mism[0]['detail'][:160]))
    stats['wall_impl_s'] = round(t_impl, 1); stats['wall_model_s'] = round(t_model, 1)
    extra_stats = extra(ctx, lib, wd) if extra else None
    if extra_stats:
        stats['extra'] = extra_stats
    ctx.cov['distribution'] = stats
    ctx.cov['traces_validated_against_impl'] = len(ivs)
    ctx.cov['rule'] = ('directed witnesses of the refuted model statements + random nonblocking histories (pnc/nb_gen.py: posts of '
                       'iput/iget/bput in all forms on 1-3 processes, completion plans: ALL / by kind / explicit lists / permuted / subsets / '
                       'NULL ids / duplicated ids / cancel); every observation line of the library is compared with the model and judged '
                       'by the spec oracle; non-trivial = more than 4 compared observations; distinct = distinct script text')
    # ---------------- verdicts
    for tag, s, r in hard[:3]:
        # what did the oracle see before the process died?  a crash that follows an already recorded finding in the
        # same history (the library's queues are inconsistent from there on) is reported as its consequence
        key = 'hang' if r.hang else 'crash'
        first = ''
        try:
            pf = [f for f in N.judge(s, N.ImplView(s, r)) if f['kind'] != 'no-observation']
            if pf and pf[0]['key'].startswith(('F', 'wait')):
                key = '%s-after:%s' % (key, pf[0]['key'])
                first = ' | first oracle failure before it: line %d: %s' % (pf[0]['line'], pf[0]['detail'][:200])
        except Exception:
            pass
        ctx.violation('%s: %s%s' % ('hang (watchdog, also alone with 3x the limit)' if r.hang else 'crash (twice) / no inq',
                                    (r.crash or r.stdout or '')[-400:], first),
                      dict(script=s.text(), nprocs=s.np, how_to_replay=REPLAY), key=key)
    reported = set()
    for tag, s, fails in oracle_fails:
        for f0 in fails:
            if f0['key'] in reported:
                continue
            reported.add(f0['key'])
            ctx.violation('%s: %s' % (f0['kind'], f0['detail']),
                          dict(script=s.text(), failures=fails[:6], nprocs=s.np, session=tag, line=f0['line'],
                               script_line=s.lines[f0['line'] - 1] if f0['line'] else '', how_to_replay=REPLAY),
                          key=f0['key'])
    broken = []
    if not proof_ok:
        broken.append('theorem(s) of Properties_%s.v no longer check: %s' % (pid, ', '.join(pr['failed'])[:500]))
    if variant_unknown:
        broken.append('the wait path of the sources as built is not one of the two modelled variants: ' + vnote)
    # a disagreement in a session the oracle does not fault = the model no longer describes the library
    pure = [d for d in disagreements if not d[3]]
    if pure:
        tag, s, mism, _ = pure[0]
        m = mism[0]
        broken.append('correspondence %s (implementation vs model) differs in %d of %d sessions; first: session %s line %s rank %s: %s'
                      % (m['rel'], len(pure), len(ivs), tag, m['line'], m['rank'], m['detail'][:300]))
    if broken and not ctx.violations:
        # the failing-input search IS the oracle sweep above (all sessions, incl. the directed witnesses): nothing found
        rep = dict(relation=broken, proof_log=pr['log'][-3000:] if not proof_ok else '',
                   note='no input was found on which the property fails on the implementation; the property is no longer shown to hold')
        if pure:
            tag, s, mism, _ = pure[0]
            rep.update(script=s.text(), mismatches=mism[:5], nprocs=s.np, how_to_replay=REPLAY)
        ctx.violation('; '.join(broken)[:900], rep, no_input=True)
    return stats


REPLAY = 'save "script" to a file and run the harness: PNC_DIR=<empty dir> PNC_OUT=<dir>/out mpiexec -n <nprocs> <build/lib-*/h-pnc_impl-*> <file>'
