"""Comparison of implementation and model observation logs."""
import os

def read_log(path):
    out = {}
    if not os.path.exists(path):
        return out
    for line in open(path, errors='replace'):
        p = line.rstrip('\n').split(' ')
        if len(p) < 4:
            continue
        try:
            key = (int(p[0]), int(p[1]))
        except ValueError:
            continue
        out[key] = p[2:]
    return out

def hex_match(a, m):
    """implementation hex dump `a` against model dump `m` that may contain ?? (undefined byte)"""
    if '?' not in m:
        return a == m
    if len(a) != len(m):
        return False
    return all(y == '?' or x == y for x, y in zip(a, m))


def file_match(a, m):
    """file images: implementation bytes zero-extended (reading past EOF gives zeros), model
    bytes ??-extended (never written = undefined)"""
    if a == '-': a = ''
    if m == '-': m = ''
    n = max(len(a), len(m))
    return hex_match(a.ljust(n, '0'), m.ljust(n, '?'))


def hex_zero_ext_equal(a, b):
    """two hex dumps equal after zero extension (file images: size differences past the
    last written byte are not observable through the library)"""
    if a == '-': a = ''
    if b == '-': b = ''
    n = max(len(a), len(b))
    return a.ljust(n, '0') == b.ljust(n, '0')

def compare(impl, model, nprocs):
    """impl: dict (lineno,rank)->tokens from all ranks; model likewise.
    returns (n_compared, n_skipped_unmodelled, mismatches[list of dict])"""
    mism = []
    ncmp = 0
    nskip = 0
    for key in sorted(set(impl) | set(model)):
        a = impl.get(key)
        m = model.get(key)
        if m is None:
            # model produced nothing for this line (e.g. hint lines produce nothing either)
            if a is not None and a[0] not in ('hint', 'nohints', 'env'):
                nskip += 1
            continue
        if a is None:
            mism.append({'line': key[0], 'rank': key[1], 'impl': None, 'model': m, 'why': 'impl printed nothing (crash/hang?)'})
            continue
        if m[1] == '-7777':
            nskip += 1
            continue
        ncmp += 1
        ok = True
        why = ''
        if a[0] != m[0]:
            ok = False; why = 'op name'
        elif a[1] != m[1] and m[1] != '-7776':
            ok = False; why = 'return code'
        else:
            ae, me = a[2:], m[2:]
            if a[0] == 'snapshot' and len(ae) >= 2 and len(me) >= 2:
                # size token: compare content zero-extended instead
                if me[1] != '?' and ae[1] != 'big' and not file_match(ae[1], me[1]):
                    ok = False; why = 'file bytes'
            elif len(ae) != len(me) and '?' not in me:
                ok = False; why = 'token count'
            else:
                for x, y in zip(ae, me):
                    if y == '?':
                        continue
                    if x != y and not ('?' in y and hex_match(x, y)):
                        ok = False; why = 'token %r vs %r' % (x[:60], y[:60]); break
        if not ok:
            mism.append({'line': key[0], 'rank': key[1], 'impl': a, 'model': m, 'why': why})
    return ncmp, nskip, mism
