/* C12: observation of the burst-buffer driver's INTERNAL traffic on the unmodified library.
 *
 * Built together with harness/pnc_impl.c (-Dmain=pnc_impl_main): this file provides the real main(),
 * which replaces three function pointers of the ncmpio driver table (ncmpio_inq_driver() returns a
 * pointer to the library's mutable static table; the burst-buffer driver reaches ncmpio only
 * through that table) by tracing wrappers, then runs the ordinary script interpreter.
 *
 *   iput_var / iput_varn : called by ncbbio_log_flush_core for every replayed log entry
 *   wait                 : called once per flush round (batch), for trailing participation rounds,
 *                          and by ncbbio_wait for the caller's get requests
 *
 * Trace file $PNC_OUT.tr.<rank>, one line per internal call:
 *   I <varid> <nd> <start>* <count>* <stride>*|S  <nbytes> <hex data>
 *   N <varid> <num> <nd> <hascounts> (<start>* [<count>*])^num <nbytes> <hex data>
 *   W <num_reqs> <c|i> <rc>
 *   G ...                (iget pass-through is not hooked)
 * A line `L <lineno>` is NOT available here (the interpreter does not expose it); the check aligns
 * the trace with the script through the model's prediction of the whole sequence.
 *
 * Status injection (to make per-request statuses distinguishable; on a healthy file system
 * ncmpio's wait returns NC_NOERR for every put request): env C12_INJECT="<rank>:<g>,<rank>:<g>,..."
 * where g is the 0-based index of the replayed iput on that rank (counted over the whole run).
 * After the real wait returned, statuses[k] of a flagged request is overwritten with -(1000+g).
 */
#include <stdio.h>
#include <stdlib.h>
#include <string.h>
#include <mpi.h>
#include <pnetcdf.h>
#include <dispatch.h>

#undef main
int pnc_impl_main(int argc, char **argv);

static PNC_driver orig;
static FILE *trf;
static int tr_rank = -1;
static long g_next = 0;            /* index of the next replayed iput on this rank */
#define MAXPEND 65536
static long pend[MAXPEND]; static int npend = 0;
static char *inject_env;

static FILE *tr(void)
{
    if (!trf) {
        char path[4096];
        const char *o = getenv("PNC_OUT");
        MPI_Comm_rank(MPI_COMM_WORLD, &tr_rank);
        snprintf(path, sizeof path, "%s.tr.%d", o ? o : "/dev/null", tr_rank);
        trf = fopen(path, "w");
        if (!trf) { perror(path); MPI_Abort(MPI_COMM_WORLD, 3); }
    }
    return trf;
}

static int flagged(long g)
{
    char key[64], *p;
    size_t n;
    if (!inject_env) return 0;
    snprintf(key, sizeof key, "%d:%ld", tr_rank, g);
    n = strlen(key);
    for (p = inject_env; (p = strstr(p, key)) != NULL; p += n)
        if ((p == inject_env || p[-1] == ',') && (p[n] == ',' || p[n] == '\0')) return 1;
    return 0;
}

static void hexdump(FILE *f, const void *buf, MPI_Offset n)
{
    MPI_Offset i;
    if (n <= 0 || buf == NULL) { fputs(" -", f); return; }
    fputc(' ', f);
    for (i = 0; i < n; i++) fprintf(f, "%02x", ((const unsigned char *)buf)[i]);
}

static int var_ndims(void *ncp, int varid)
{
    int nd = 0;
    if (orig.inq_var(ncp, varid, NULL, NULL, &nd, NULL, NULL, NULL, NULL, NULL) != NC_NOERR) nd = 0;
    return nd;
}

static int h_iput_var(void *ncp, int varid, const MPI_Offset *start, const MPI_Offset *count,
                      const MPI_Offset *stride, const MPI_Offset *imap, const void *buf,
                      MPI_Offset bufcount, MPI_Datatype buftype, int *reqid, int reqMode)
{
    FILE *f = tr();
    int i, nd = var_ndims(ncp, varid), el = 0, rc;
    MPI_Offset n = 1;
    if (buftype != MPI_DATATYPE_NULL) MPI_Type_size(buftype, &el);
    fprintf(f, "I %d %d", varid, nd);
    for (i = 0; i < nd; i++) fprintf(f, " %lld", (long long)start[i]);
    for (i = 0; i < nd; i++) { fprintf(f, " %lld", (long long)(count ? count[i] : 1)); n *= count ? count[i] : 1; }
    if (stride) for (i = 0; i < nd; i++) fprintf(f, " %lld", (long long)stride[i]);
    else fputs(" S", f);
    fprintf(f, " %lld", (long long)(n * el));
    hexdump(f, buf, n * el);
    fputc('\n', f); fflush(f);
    rc = orig.iput_var(ncp, varid, start, count, stride, imap, buf, bufcount, buftype, reqid, reqMode);
    if (npend < MAXPEND) pend[npend++] = g_next;
    g_next++;
    return rc;
}

static int h_iput_varn(void *ncp, int varid, int num, MPI_Offset *const *starts, MPI_Offset *const *counts,
                       const void *buf, MPI_Offset bufcount, MPI_Datatype buftype, int *reqid, int reqMode)
{
    FILE *f = tr();
    int i, k, nd = var_ndims(ncp, varid), el = 0, rc;
    MPI_Offset tot = 0;
    if (buftype != MPI_DATATYPE_NULL) MPI_Type_size(buftype, &el);
    fprintf(f, "N %d %d %d %d", varid, num, nd, counts ? 1 : 0);
    for (k = 0; k < num; k++) {
        MPI_Offset n = 1;
        for (i = 0; i < nd; i++) fprintf(f, " %lld", (long long)starts[k][i]);
        if (counts) for (i = 0; i < nd; i++) { fprintf(f, " %lld", (long long)counts[k][i]); n *= counts[k][i]; }
        tot += n;
    }
    fprintf(f, " %lld", (long long)(tot * el));
    hexdump(f, buf, tot * el);
    fputc('\n', f); fflush(f);
    rc = orig.iput_varn(ncp, varid, num, starts, counts, buf, bufcount, buftype, reqid, reqMode);
    if (npend < MAXPEND) pend[npend++] = g_next;
    g_next++;
    return rc;
}

static int h_wait(void *ncp, int num_reqs, int *req_ids, int *statuses, int reqMode)
{
    FILE *f = tr();
    int rc, k;
    rc = orig.wait(ncp, num_reqs, req_ids, statuses, reqMode);
    fprintf(f, "W %d %c %d\n", num_reqs, (reqMode & NC_REQ_COLL) ? 'c' : 'i', rc); fflush(f);
    if (statuses != NULL && num_reqs > 0 && num_reqs == npend)
        for (k = 0; k < num_reqs; k++)
            if (flagged(pend[k])) statuses[k] = (int)(-(1000 + pend[k]));
    npend = 0;
    return rc;
}

int main(int argc, char **argv)
{
    PNC_driver *d = ncmpio_inq_driver();
    orig = *d;
    inject_env = getenv("C12_INJECT");
    d->iput_var = h_iput_var;
    d->iput_varn = h_iput_varn;
    d->wait = h_wait;
    return pnc_impl_main(argc, argv);
}
