/* C12 scenario family "large staged volume": every rank stages 9..17 MiB in the burst-buffer log between
 * two flushes (more than one 8 MiB block of a node-shared log file), flushes by wait_all / sync / get / close,
 * reads its data back through the burst-buffer handle and, after close, through the default driver.
 * All comparisons are done here (checksum, number of wrong elements, first wrong index): nothing large is
 * printed.
 *
 * usage: c12_big <ncfile> <logdir|-> <shared 0|1> <mode w|s|g|c> <flushbuf bytes> <base MiB> <step MiB>
 *   logdir "-" : no burst-buffer hints (default driver, control run)
 *   mode w: iput_vara_int for every segment (collective mode), then wait_all on the explicit id list
 *        s: blocking independent puts, then ncmpi_sync, barrier; also reads the NEXT rank's region
 *        g: blocking independent puts, then the get itself is the flush trigger (read own writes)
 *        c: blocking independent puts, then close (only the final file is checked)
 *   rank q stages (base + q*step) MiB as a sequence of segments of very different sizes; for even ranks the
 *   8 MiB - 8 byte boundary of the data log falls exactly between two entries, for odd ranks inside a large one.
 * output, one line per check:  R <rank> <phase> <nelems> <nbad> <firstbad> <got> <want> <cksum>
 *                  errors:     E <rank> <what> <rc>
 *                  summary:    S <rank> <nsegments> <nelems>
 */
#include <stdio.h>
#include <stdlib.h>
#include <string.h>
#include <mpi.h>
#include <pnetcdf.h>

#define MIB_ELEMS 262144LL                 /* ints per MiB */
static int rank, np;

static int want(long long idx) { return (int)(((unsigned long long)idx * 2654435761ULL + 12345ULL) >> 3 & 0x7fffffff); }

static void err(const char *what, int rc) { if (rc != NC_NOERR) { printf("E %d %s %d\n", rank, what, rc); fflush(stdout); } }

static void verify(const char *phase, const int *buf, long long start, long long n)
{
    long long i, nbad = 0, first = -1; unsigned long long ck = 1469598103934665603ULL;
    int got = 0, wnt = 0;
    for (i = 0; i < n; i++) {
        ck = (ck ^ (unsigned)buf[i]) * 1099511628211ULL;
        if (buf[i] != want(start + i)) { if (!nbad) { first = start + i; got = buf[i]; wnt = want(start + i); } nbad++; }
    }
    printf("R %d %s %lld %lld %lld %d %d %llx\n", rank, phase, n, nbad, first, got, wnt, ck); fflush(stdout);
}

int main(int argc, char **argv)
{
    int ncid, dimid, varid, rc, i, nseg = 0, *reqs, *sts, shared, *data, *rb;
    long long region, mylen, base, pos, flushbuf, basemib, stepmib;
    MPI_Offset st[1], ct[1], *segst, *segct;
    MPI_Info info = MPI_INFO_NULL;
    char mode, val[64];
    static const long long pat_even[] = {3, 786437, 7, 1048576, 262127, 5, 1572869, 2, 524299, 917504, 1};
    static const long long pat_odd[]  = {11, 655373, 1310720, 6, 1835008, 4, 393229, 1048583, 9};
    const long long *pat; int npat;

    MPI_Init(&argc, &argv);
    MPI_Comm_rank(MPI_COMM_WORLD, &rank); MPI_Comm_size(MPI_COMM_WORLD, &np);
    if (argc < 8) { fprintf(stderr, "usage\n"); MPI_Abort(MPI_COMM_WORLD, 2); }
    shared = atoi(argv[3]); mode = argv[4][0]; flushbuf = atoll(argv[5]); basemib = atoll(argv[6]); stepmib = atoll(argv[7]);
    region = (basemib + stepmib * (np - 1) + 1) * MIB_ELEMS;
    mylen = (basemib + stepmib * rank) * MIB_ELEMS + 17 * rank + 5;
    base = region * rank;
    pat = rank % 2 ? pat_odd : pat_even; npat = rank % 2 ? 9 : 11;

    if (strcmp(argv[2], "-")) {
        MPI_Info_create(&info);
        MPI_Info_set(info, "nc_burst_buf", "enable");
        MPI_Info_set(info, "nc_burst_buf_dirname", argv[2]);
        MPI_Info_set(info, "nc_burst_buf_shared_logs", shared ? "enable" : "disable");
        snprintf(val, sizeof val, "%lld", flushbuf);
        MPI_Info_set(info, "nc_burst_buf_flush_buffer_size", val);
    }
    rc = ncmpi_create(MPI_COMM_WORLD, argv[1], NC_CLOBBER | NC_64BIT_DATA, info, &ncid); err("create", rc);
    if (rc != NC_NOERR) { MPI_Finalize(); return 1; }
    err("def_dim", ncmpi_def_dim(ncid, "x", region * np, &dimid));
    err("def_var", ncmpi_def_var(ncid, "v", NC_INT, 1, &dimid, &varid));
    err("enddef", ncmpi_enddef(ncid));

    data = (int *)malloc(sizeof(int) * mylen); rb = (int *)malloc(sizeof(int) * region);
    for (pos = 0; pos < mylen; pos++) data[pos] = want(base + pos);
    segst = (MPI_Offset *)malloc(sizeof(MPI_Offset) * 256); segct = (MPI_Offset *)malloc(sizeof(MPI_Offset) * 256);
    for (pos = 0; pos < mylen && nseg < 256; nseg++) {
        long long n = pat[nseg % npat]; if (pos + n > mylen) n = mylen - pos;
        segst[nseg] = base + pos; segct[nseg] = n; pos += n;
    }
    printf("S %d %d %lld\n", rank, nseg, mylen);
    reqs = (int *)malloc(sizeof(int) * nseg); sts = (int *)malloc(sizeof(int) * nseg);

    if (mode == 'w') {
        for (i = 0; i < nseg; i++)
            err("iput", ncmpi_iput_vara_int(ncid, varid, &segst[i], &segct[i], data + (segst[i] - base), &reqs[i]));
        err("wait_all", ncmpi_wait_all(ncid, nseg, reqs, sts));
        for (i = 0; i < nseg; i++) if (sts[i] != NC_NOERR) { err("status", sts[i]); break; }
        st[0] = base; ct[0] = mylen; memset(rb, 0x5a, sizeof(int) * mylen);
        err("get_all", ncmpi_get_vara_int_all(ncid, varid, st, ct, rb)); verify("own", rb, base, mylen);
    } else {
        err("begin_indep", ncmpi_begin_indep_data(ncid));
        for (i = 0; i < nseg; i++)
            err("put", ncmpi_put_vara_int(ncid, varid, &segst[i], &segct[i], data + (segst[i] - base)));
        if (mode == 's') { err("sync", ncmpi_sync(ncid)); MPI_Barrier(MPI_COMM_WORLD); }
        if (mode != 'c') {
            st[0] = base; ct[0] = mylen; memset(rb, 0x5a, sizeof(int) * mylen);
            err("get", ncmpi_get_vara_int(ncid, varid, st, ct, rb)); verify("own", rb, base, mylen);
        }
        if (mode == 's' && np > 1) {
            int nx = (rank + 1) % np; long long nlen = (basemib + stepmib * nx) * MIB_ELEMS + 17 * nx + 5;
            st[0] = region * nx; ct[0] = nlen; memset(rb, 0x5a, sizeof(int) * nlen);
            err("get_next", ncmpi_get_vara_int(ncid, varid, st, ct, rb)); verify("next", rb, region * nx, nlen);
        }
        err("end_indep", ncmpi_end_indep_data(ncid));
    }
    err("close", ncmpi_close(ncid));
    if (info != MPI_INFO_NULL) MPI_Info_free(&info);
    MPI_Barrier(MPI_COMM_WORLD);

    /* the destination file, through the default driver */
    rc = ncmpi_open(MPI_COMM_WORLD, argv[1], NC_NOWRITE, MPI_INFO_NULL, &ncid); err("reopen", rc);
    if (rc == NC_NOERR) {
        st[0] = base; ct[0] = mylen; memset(rb, 0x5a, sizeof(int) * mylen);
        err("final_get", ncmpi_get_vara_int_all(ncid, varid, st, ct, rb)); verify("final", rb, base, mylen);
        err("final_close", ncmpi_close(ncid));
    }
    free(data); free(rb); free(segst); free(segct); free(reqs); free(sts);
    MPI_Finalize();
    return 0;
}
