/* c08_trace.c -- C08 correspondence harness: one binary = scenario driver + PMPI interposition.
 *
 * usage: mpiexec -n <np> c08_trace <workdir> <casefile> [watchdog-seconds]
 *
 * casefile: one scenario per line
 *     <id> <api> [safe=0|1] [hcoll=0|1] [aggr=0|1] [dup=0|1] [pre=<state>] [mu=<bytes>] [post=abort] cls=<c0>,<c1>,...
 * one class per rank (cls count must equal np).  pre = state the file is brought to before the call:
 * (empty)/data = collective data mode, indep, indep_put (ranks whose class contains '+' wrote a new
 * record independently), redef, redef_grow / redef_addrec / redef_addfix (define mode after redef with
 * a grown header / a new record variable / a new filled fixed-size variable), new (first define mode),
 * empty (new file without dimensions and variables), closed (file exists, closed), none (no file).
 * For every scenario a fresh file <workdir>/<id>.nc
 * is prepared (fixed setup, see setup_file), then the ONE call under test is issued by every
 * rank with the arguments its class prescribes, then the file is brought back to a closable
 * state and closed, then every rank re-opens the file on MPI_COMM_SELF and checks that the data
 * the valid ranks wrote are there.
 *
 * Log: <workdir>/log.<rank>, written with write(2), one line at a time (survives a kill):
 *     BEGIN <id> <api> <class>
 *     OP  <MPI call> <target> <return address>       entry of a collective inside the call under test
 *     DONE                                           that collective returned
 *     RET <rc> [<extra>...]                          the call under test returned
 *     XOP/XDONE                                      collectives of the clean-up phase
 *     POST <api> <rc>                                clean-up calls
 *     DATA ok|bad|none <detail>                      read-back check
 *     NUMRECS <n>
 *     INFO k=v ...                                   shared-state facts the model needs (enddef layouts)
 *     END <id>
 *     HANG <phase> inop=<0|1> last=<MPI call>        watchdog fired (SIGALRM) in this rank
 * target: W = communicator of all ranks, S = communicator of size 1, P<n> other;
 *         FC = file handle opened on a communicator of all ranks, FS = on a size-1 communicator.
 * Only calls whose return address lies in the executable (libpnetcdf.a is linked statically,
 * the binary is linked -no-pie) are logged, so collectives issued inside the MPI library do
 * not appear.  The harness itself uses PMPI_* directly.
 */
#define _GNU_SOURCE
#include <stdio.h>
#include <stdlib.h>
#include <string.h>
#include <stdarg.h>
#include <unistd.h>
#include <fcntl.h>
#include <signal.h>
#include <errno.h>
#include <mpi.h>
#include <pnetcdf.h>

extern char __executable_start[], etext[];

static int g_rank, g_np, g_fd = -1;
static int g_log = 0;          /* 0 off, 1 call under test (OP), 2 clean-up (XOP) */
static volatile int g_inop = 0;
static char g_last[64] = "-";
static const char *g_phase = "setup";
static int g_wd = 4;

static void lg(const char *fmt, ...)
{
    char b[1024]; va_list ap; int n;
    va_start(ap, fmt); n = vsnprintf(b, sizeof b, fmt, ap); va_end(ap);
    if (n > (int)sizeof b - 1) n = sizeof b - 1;
    if (g_fd >= 0) { ssize_t w = write(g_fd, b, n); (void)w; }
}

static void on_alarm(int sig)
{
    (void)sig;
    lg("HANG %s inop=%d last=%s\n", g_phase, g_inop, g_last);
    usleep(400000);          /* let the other ranks' handlers write their lines */
    _exit(7);
}

/* ------------------------------------------------------------------ PMPI interposition */
static int in_exe(void *ra) { return (char *)ra >= __executable_start && (char *)ra < etext; }

static const char *comm_tgt(MPI_Comm c)
{
    static char b[16]; int n = 0;
    if (c == MPI_COMM_NULL) return "NULL";
    PMPI_Comm_size(c, &n);
    if (n == g_np && g_np > 1) return "W";
    if (n == 1) return "S";
    snprintf(b, sizeof b, "P%d", n); return b;
}
#define MAXFH 64
static MPI_File fh_tab[MAXFH]; static char fh_cls[MAXFH]; static int fh_n = 0;
static void fh_add(MPI_File f, char c) { int i; for (i = 0; i < fh_n; i++) if (fh_tab[i] == f) { fh_cls[i] = c; return; }
    if (fh_n < MAXFH) { fh_tab[fh_n] = f; fh_cls[fh_n++] = c; } }
static const char *fh_tgt(MPI_File f) { int i; for (i = fh_n - 1; i >= 0; i--) if (fh_tab[i] == f) return fh_cls[i] == 'C' ? "FC" : "FS"; return "F?"; }
static void fh_del(MPI_File f) { int i; for (i = 0; i < fh_n; i++) if (fh_tab[i] == f) { fh_tab[i] = fh_tab[fh_n - 1]; fh_cls[i] = fh_cls[fh_n - 1]; fh_n--; return; } }

#define ENTER(name, tgt) void *ra_ = __builtin_return_address(0); int ex_ = in_exe(ra_); int lg_ = g_log && ex_; \
    if (ex_) { snprintf(g_last, sizeof g_last, "%s", name); g_inop = 1; } \
    if (lg_) { lg("%s %s %s %p\n", g_log == 1 ? "OP" : "XOP", name, tgt, ra_); }
#define LEAVE() if (ex_) g_inop = 0; if (lg_) { lg(g_log == 1 ? "DONE\n" : "XDONE\n"); }

int MPI_Allreduce(const void *s, void *r, int n, MPI_Datatype t, MPI_Op op, MPI_Comm c)
{ ENTER("MPI_Allreduce", comm_tgt(c)) int e = PMPI_Allreduce(s, r, n, t, op, c); LEAVE() return e; }
int MPI_Bcast(void *b, int n, MPI_Datatype t, int root, MPI_Comm c)
{ ENTER("MPI_Bcast", comm_tgt(c)) int e = PMPI_Bcast(b, n, t, root, c); LEAVE() return e; }
int MPI_Barrier(MPI_Comm c)
{ ENTER("MPI_Barrier", comm_tgt(c)) int e = PMPI_Barrier(c); LEAVE() return e; }
int MPI_Comm_dup(MPI_Comm c, MPI_Comm *nc)
{ ENTER("MPI_Comm_dup", comm_tgt(c)) int e = PMPI_Comm_dup(c, nc); LEAVE() return e; }
int MPI_Comm_free(MPI_Comm *c)
{ ENTER("MPI_Comm_free", comm_tgt(*c)) int e = PMPI_Comm_free(c); LEAVE() return e; }
int MPI_Gather(const void *s, int sn, MPI_Datatype st, void *r, int rn, MPI_Datatype rt, int root, MPI_Comm c)
{ ENTER("MPI_Gather", comm_tgt(c)) int e = PMPI_Gather(s, sn, st, r, rn, rt, root, c); LEAVE() return e; }
int MPI_Gatherv(const void *s, int sn, MPI_Datatype st, void *r, const int rn[], const int d[], MPI_Datatype rt, int root, MPI_Comm c)
{ ENTER("MPI_Gatherv", comm_tgt(c)) int e = PMPI_Gatherv(s, sn, st, r, rn, d, rt, root, c); LEAVE() return e; }
int MPI_File_open(MPI_Comm c, const char *fn, int amode, MPI_Info info, MPI_File *fh)
{ int n = 0; PMPI_Comm_size(c, &n);
  ENTER("MPI_File_open", (n == 1 ? "S" : (n == g_np ? "W" : "P")))
  int e = PMPI_File_open(c, fn, amode, info, fh);
  if (e == MPI_SUCCESS) fh_add(*fh, (n == g_np && g_np > 1) ? 'C' : 'S');
  LEAVE() return e; }
int MPI_File_close(MPI_File *fh)
{ MPI_File f = *fh; ENTER("MPI_File_close", fh_tgt(f)) int e = PMPI_File_close(fh); fh_del(f); LEAVE() return e; }
int MPI_File_set_view(MPI_File fh, MPI_Offset disp, MPI_Datatype et, MPI_Datatype ft, const char *rep, MPI_Info info)
{ ENTER("MPI_File_set_view", fh_tgt(fh)) int e = PMPI_File_set_view(fh, disp, et, ft, rep, info); LEAVE() return e; }
int MPI_File_sync(MPI_File fh)
{ ENTER("MPI_File_sync", fh_tgt(fh)) int e = PMPI_File_sync(fh); LEAVE() return e; }
int MPI_File_set_size(MPI_File fh, MPI_Offset sz)
{ ENTER("MPI_File_set_size", fh_tgt(fh)) int e = PMPI_File_set_size(fh, sz); LEAVE() return e; }
int MPI_File_read_all(MPI_File fh, void *b, int n, MPI_Datatype t, MPI_Status *st)
{ ENTER("MPI_File_read_all", fh_tgt(fh)) int e = PMPI_File_read_all(fh, b, n, t, st); LEAVE() return e; }
int MPI_File_write_all(MPI_File fh, const void *b, int n, MPI_Datatype t, MPI_Status *st)
{ ENTER("MPI_File_write_all", fh_tgt(fh)) int e = PMPI_File_write_all(fh, b, n, t, st); LEAVE() return e; }
int MPI_File_read_at_all(MPI_File fh, MPI_Offset o, void *b, int n, MPI_Datatype t, MPI_Status *st)
{ ENTER("MPI_File_read_at_all", fh_tgt(fh)) int e = PMPI_File_read_at_all(fh, o, b, n, t, st); LEAVE() return e; }
int MPI_File_write_at_all(MPI_File fh, MPI_Offset o, const void *b, int n, MPI_Datatype t, MPI_Status *st)
{ ENTER("MPI_File_write_at_all", fh_tgt(fh)) int e = PMPI_File_write_at_all(fh, o, b, n, t, st); LEAVE() return e; }

/* ------------------------------------------------------------------ scenarios */
typedef struct {
    char id[96], api[48], pre[80], cls[8][32];
    int safe, hcoll, aggr, dup, mu, ncls, post_abort;
} Case;

#define XPR 4                  /* elements of x per rank */
static int X;                  /* x = XPR * np */
enum { VF = 0, VR = 1, VS = 2, VC = 3, VQ = 4, VG = 5 };   /* vf vr vs vc vr2 vf2 */
static int dim_t, dim_x, dim_c;
static char g_path[512];
static MPI_Comm g_comm;

/* expectation for the read-back check */
typedef struct { int varid, nd; MPI_Offset st[2], ct[2]; int val[64]; } Expect;
static Expect g_exp[8]; static int g_nexp;
static long long g_exp_numrecs;    /* -1: do not check */

static void add_exp(int varid, int nd, const MPI_Offset *st, const MPI_Offset *ct, const int *val)
{
    Expect *e = &g_exp[g_nexp++]; int i, n = 1;
    e->varid = varid; e->nd = nd;
    for (i = 0; i < nd; i++) { e->st[i] = st[i]; e->ct[i] = ct[i]; n *= (int)ct[i]; }
    if (nd == 0) n = 1;
    for (i = 0; i < n && i < 64; i++) e->val[i] = val[i];
}

static MPI_Info mk_info(const Case *c)
{
    MPI_Info info = MPI_INFO_NULL;
    if (c->hcoll || c->aggr) {
        MPI_Info_create(&info);
        if (c->hcoll) MPI_Info_set(info, "romio_no_indep_rw", "true");
        if (c->aggr) MPI_Info_set(info, "nc_num_aggrs_per_node", "1");
    }
    return info;
}

#define CK(call) do { int e_ = (call); if (e_ != NC_NOERR) { lg("SETUPFAIL %s %d\n", #call, e_); return e_; } } while (0)

/* the standard file: dims t(unlimited) x(4*np) c(8); vars vf int[x], vr int[t][x] (fill on),
 * vs int scalar, vc char[c], vr2 int[t][x] (no fill), vf2 int[x]; attr vf:units="abcd", :title="c08t";
 * data: vf[i]=100+i, vr[k][i]=1000*(k+1)+i for k=0,1, vs=5, vc="abcdefgh", vf2[i]=200+i, numrecs=2 */
static int setup_file(const Case *c, int *ncidp, int upto)
{
    int ncid, v, d[2], i, k; MPI_Info info = mk_info(c);
    setenv("PNETCDF_SAFE_MODE", c->safe ? "1" : "0", 1);
    if (c->mu > 0) { char b[32]; snprintf(b, sizeof b, "%d", c->mu); setenv("PNETCDF_VERIF_MOVE_UNIT", b, 1); }
    else unsetenv("PNETCDF_VERIF_MOVE_UNIT");
    CK(ncmpi_create(g_comm, g_path, NC_CLOBBER | NC_64BIT_DATA, info, &ncid));
    if (info != MPI_INFO_NULL) MPI_Info_free(&info);
    *ncidp = ncid;
    CK(ncmpi_def_dim(ncid, "t", NC_UNLIMITED, &dim_t));
    CK(ncmpi_def_dim(ncid, "x", X, &dim_x));
    CK(ncmpi_def_dim(ncid, "c", 8, &dim_c));
    d[0] = dim_x; CK(ncmpi_def_var(ncid, "vf", NC_INT, 1, d, &v));
    CK(ncmpi_put_att_text(ncid, v, "units", 4, "abcd"));
    d[0] = dim_t; d[1] = dim_x; CK(ncmpi_def_var(ncid, "vr", NC_INT, 2, d, &v));
    CK(ncmpi_def_var_fill(ncid, v, 0, NULL));
    CK(ncmpi_def_var(ncid, "vs", NC_INT, 0, NULL, &v));
    d[0] = dim_c; CK(ncmpi_def_var(ncid, "vc", NC_CHAR, 1, d, &v));
    d[0] = dim_t; d[1] = dim_x; CK(ncmpi_def_var(ncid, "vr2", NC_INT, 2, d, &v));
    d[0] = dim_x; CK(ncmpi_def_var(ncid, "vf2", NC_INT, 1, d, &v));
    CK(ncmpi_put_att_text(ncid, NC_GLOBAL, "title", 4, "c08t"));
    if (upto == 0) return NC_NOERR;                 /* "new": still in the first define mode */
    CK(ncmpi_enddef(ncid));
    {
        int buf[XPR * 2]; MPI_Offset st[2], ct[2]; int five = 5;
        for (i = 0; i < XPR; i++) buf[i] = 100 + g_rank * XPR + i;
        st[0] = g_rank * XPR; ct[0] = XPR; CK(ncmpi_put_vara_int_all(ncid, VF, st, ct, buf));
        for (i = 0; i < XPR; i++) buf[i] = 200 + g_rank * XPR + i;
        CK(ncmpi_put_vara_int_all(ncid, VG, st, ct, buf));
        for (k = 0; k < 2; k++) for (i = 0; i < XPR; i++) buf[k * XPR + i] = 1000 * (k + 1) + g_rank * XPR + i;
        st[0] = 0; ct[0] = 2; st[1] = g_rank * XPR; ct[1] = XPR; CK(ncmpi_put_vara_int_all(ncid, VR, st, ct, buf));
        CK(ncmpi_put_vara_int_all(ncid, VQ, st, ct, buf));
        st[0] = 0; ct[0] = 1; CK(ncmpi_put_vara_int_all(ncid, VS, st, ct, &five));
        st[0] = 0; ct[0] = (g_rank == 0) ? 8 : 0; CK(ncmpi_put_vara_text_all(ncid, VC, st, ct, "abcdefgh"));
    }
    return NC_NOERR;
}

static int varsel(char c)
{
    switch (c) { case 'F': return VF; case 'R': return VR; case 'S': return VS; case 'C': return VC;
                 case 'Q': return VQ; case 'H': return VG; case 'N': return 99; case 'G': return NC_GLOBAL; }
    return 99;
}
static int is_rec(int v) { return v == VR || v == VQ; }

/* build start/count/stride for class "<V>.<what>"; returns number of dims */
static int mk_req(const char *cls, int isget, int whole, MPI_Offset *st, MPI_Offset *ct, MPI_Offset *sd, int *vals, int *nval)
{
    int v = varsel(cls[0]); const char *w = cls + 2; int nd, i, n;
    int rec = is_rec(v); int xd = rec ? 1 : 0;
    nd = rec ? 2 : 1; if (v == VS) nd = 0; if (v == 99 || v == NC_GLOBAL) nd = 1; if (v == VC) nd = 1;
    st[0] = st[1] = 0; ct[0] = ct[1] = 1; sd[0] = sd[1] = 1;
    if (rec) { st[0] = isget ? 0 : 2 + g_rank; ct[0] = 1; }
    st[xd] = g_rank * XPR; ct[xd] = XPR;
    if (v == VC) { st[0] = 0; ct[0] = 2; }
    if (v == VS) { st[0] = 0; ct[0] = 1; }
    if (whole) { st[0] = st[1] = 0; ct[xd] = X; if (rec) ct[0] = 2; if (v == VC) ct[0] = 8; }
    if (!strcmp(w, "z")) ct[xd] = 0;
    else if (!strcmp(w, "bs")) st[xd] = -1;
    else if (!strcmp(w, "ed")) ct[xd] = X + 1;
    else if (!strcmp(w, "nc")) ct[xd] = -1;
    else if (!strcmp(w, "st")) sd[xd] = 0;
    else if (!strcmp(w, "rb")) { st[0] = 7; }           /* get: read beyond numrecs */
    n = 1; for (i = 0; i < nd; i++) n *= (ct[i] > 0 ? (int)ct[i] : 0); if (nd == 0) n = 1;
    if (n > 64) n = 64;
    *nval = n;
    for (i = 0; i < n; i++) vals[i] = (v == VS) ? 77 : (whole ? 5000 + i : 5000 + 100 * g_rank + i) + (rec ? 2000 : 0);
    return nd;
}

/* expected contents for a get on the standard file */
static int init_val(int v, int nd, const MPI_Offset *st, const MPI_Offset *ct, int idx)
{
    if (v == VS) return 5;
    if (v == VF) return 100 + (int)st[0] + idx;
    if (v == VG) return 200 + (int)st[0] + idx;
    if (v == VR || v == VQ) { int k = (int)st[0] + idx / (int)ct[1], i = (int)st[1] + idx % (int)ct[1]; return 1000 * (k + 1) + i; }
    (void)nd; return 0;
}

static int g_ncid;
static int g_state;     /* after the call: 0 data-coll, 1 data-indep, 2 define, 3 closed/no file */
static int g_nreq;
static int g_ibuf[8][XPR];

static void expect_put(const char *cls, int nd, const MPI_Offset *st, const MPI_Offset *ct, const int *vals, int nval)
{
    int v = varsel(cls[0]);
    if (strcmp(cls + 2, "ok") || v == 99 || v == NC_GLOBAL || v == VC) return;
    if (nval <= 0) return;
    add_exp(v, nd, st, ct, vals);
}

/* the call under test; returns rc; extra info appended to `extra` */
static int run_call(const Case *c, const char *cls, char *extra)
{
    const char *api = c->api; int ncid = g_ncid, rc = -9999, i;
    MPI_Offset st[2], ct[2], sd[2], im[2]; int vals[64], nval = 0, nd;
    extra[0] = 0;
    if (!strncmp(api, "put_var", 7) || !strncmp(api, "get_var", 7)) {
        int isget = api[0] == 'g'; const char *k = api + 7;      /* "", 1, a, s, m, n, d */
        int v = varsel(cls[0]);
        int whole = (k[0] == 0);
        int gb[64];
        if (k[0] == 'n') {
            /* varn: classes <V>.ok|num0|num2|ns|bs|ed */
            MPI_Offset *starts[2], *counts[2], s2[2], c2[2]; int num = 1;
            nd = mk_req(cls, isget, 0, st, ct, sd, vals, &nval);
            starts[0] = st; counts[0] = ct; s2[0] = st[0]; s2[1] = st[1]; c2[0] = ct[0]; c2[1] = ct[1];
            starts[1] = s2; counts[1] = c2;
            if (!strcmp(cls + 2, "num0")) num = 0;
            if (!strcmp(cls + 2, "num2")) num = 2;
            if (!strcmp(cls + 2, "ns")) {
                rc = isget ? ncmpi_get_varn_int_all(ncid, v, 1, NULL, NULL, gb) : ncmpi_put_varn_int_all(ncid, v, 1, NULL, NULL, vals);
                return rc;
            }
            if (isget) {
                rc = ncmpi_get_varn_int_all(ncid, v, num, starts, counts, gb);
                if (rc == NC_NOERR && num == 1 && !strcmp(cls + 2, "ok")) {
                    int bad = 0; for (i = 0; i < nval; i++) if (gb[i] != init_val(v, nd, st, ct, i)) bad++;
                    sprintf(extra, "getcmp=%s", bad ? "bad" : "ok");
                }
            } else {
                rc = ncmpi_put_varn_int_all(ncid, v, num, starts, counts, vals);
                if (num == 1) expect_put(cls, nd, st, ct, vals, nval);
            }
            return rc;
        }
        if (k[0] == 'd') {
            /* vard: filetype = subarray of the variable (one record for record variables) */
            MPI_Datatype ft = MPI_DATATYPE_NULL; int sizes[2], subs[2], sts[2]; MPI_Offset bufcount;
            nd = mk_req(cls, isget, 0, st, ct, sd, vals, &nval);
            if (v == VS || v == 99 || v == NC_GLOBAL || v == VC) { ft = MPI_INT; bufcount = 1; nval = 1; }
            else if (is_rec(v)) {
                /* the filetype is relative to the variable's begin: record st[0] starts st[0]*recsize bytes later */
                MPI_Datatype sub; MPI_Offset recsize = 0; int bl = 1; MPI_Aint disp;
                ncmpi_inq_recsize(ncid, &recsize);
                sizes[0] = X; subs[0] = XPR; sts[0] = (int)st[1];
                PMPI_Type_create_subarray(1, sizes, subs, sts, MPI_ORDER_C, MPI_INT, &sub);
                disp = (MPI_Aint)(st[0] * recsize);
                PMPI_Type_create_hindexed(1, &bl, &disp, sub, &ft); PMPI_Type_commit(&ft); PMPI_Type_free(&sub);
                bufcount = XPR; nval = XPR;
            } else {
                sizes[0] = X; subs[0] = XPR; sts[0] = (int)st[0];
                PMPI_Type_create_subarray(1, sizes, subs, sts, MPI_ORDER_C, MPI_INT, &ft); PMPI_Type_commit(&ft);
                bufcount = XPR; nval = XPR;
            }
            if (!strcmp(cls + 2, "z")) bufcount = 0;
            if (isget) {
                rc = ncmpi_get_vard_all(ncid, v, ft, gb, bufcount, MPI_INT);
                if (rc == NC_NOERR && !strcmp(cls + 2, "ok") && v != VS) {
                    int bad = 0; ct[is_rec(v) ? 1 : 0] = XPR; for (i = 0; i < nval; i++) if (gb[i] != init_val(v, nd, st, ct, i)) bad++;
                    sprintf(extra, "getcmp=%s", bad ? "bad" : "ok");
                }
            } else {
                rc = ncmpi_put_vard_all(ncid, v, ft, vals, bufcount, MPI_INT);
                if (bufcount > 0) expect_put(cls, nd, st, ct, vals, nval);
            }
            if (ft != MPI_INT && ft != MPI_DATATYPE_NULL) PMPI_Type_free(&ft);
            return rc;
        }
        nd = mk_req(cls, isget, whole, st, ct, sd, vals, &nval);
        im[0] = (nd == 2) ? ct[1] : 1; im[1] = 1; if (im[0] <= 0) im[0] = 1;
        if (isget) {
            switch (k[0]) {
            case 0:   rc = ncmpi_get_var_int_all(ncid, v, gb); break;
            case '1': rc = ncmpi_get_var1_int_all(ncid, v, st, gb); nval = 1; ct[0] = ct[1] = 1; break;
            case 'a': rc = ncmpi_get_vara_int_all(ncid, v, st, ct, gb); break;
            case 's': rc = ncmpi_get_vars_int_all(ncid, v, st, ct, sd, gb); break;
            case 'm': rc = ncmpi_get_varm_int_all(ncid, v, st, ct, sd, im, gb); break;
            }
            if (rc == NC_NOERR && !strcmp(cls + 2, "ok") && v != VC) {
                int bad = 0; for (i = 0; i < nval; i++) if (gb[i] != init_val(v, nd, st, ct, i)) bad++;
                sprintf(extra, "getcmp=%s", bad ? "bad" : "ok");
            }
        } else {
            switch (k[0]) {
            case 0:   rc = ncmpi_put_var_int_all(ncid, v, vals); break;
            case '1': rc = ncmpi_put_var1_int_all(ncid, v, st, vals); nval = 1; ct[0] = ct[1] = 1; break;
            case 'a': rc = ncmpi_put_vara_int_all(ncid, v, st, ct, vals); break;
            case 's': rc = ncmpi_put_vars_int_all(ncid, v, st, ct, sd, vals); break;
            case 'm': rc = ncmpi_put_varm_int_all(ncid, v, st, ct, sd, im, vals); break;
            }
            expect_put(cls, nd, st, ct, vals, nval);
        }
        return rc;
    }
    if (!strcmp(api, "mput_vara") || !strcmp(api, "mget_vara")) {
        /* classes: one letter per variable then .what applied to the LAST variable, e.g. FH.ok, FR.ok, F.bs, 0 (nvars=0) */
        int isget = api[1] == 'g'; int nv = 0, vids[4]; MPI_Offset sts[4][2], cts[4][2], *sp[4], *cp[4]; int *bp[4]; static int bufs[4][64];
        const char *dot = strchr(cls, '.'); int j;
        if (cls[0] != '0') for (j = 0; cls + j < dot && j < 4; j++) {
            char one[8]; int nvl; MPI_Offset sdum[2];
            snprintf(one, sizeof one, "%c.%s", cls[j], (cls + j + 1 == dot) ? dot + 1 : "ok");
            vids[nv] = varsel(cls[j]);
            nd = mk_req(one, isget, 0, sts[nv], cts[nv], sdum, bufs[nv], &nvl);
            sp[nv] = sts[nv]; cp[nv] = cts[nv]; bp[nv] = bufs[nv];
            if (!isget) expect_put(one, nd, sts[nv], cts[nv], bufs[nv], nvl);
            nv++;
        }
        rc = isget ? ncmpi_mget_vara_int_all(ncid, nv, vids, sp, cp, bp) : ncmpi_mput_vara_int_all(ncid, nv, vids, sp, cp, bp);
        if (rc != NC_NOERR && !isget) g_nexp = 0;
        return rc;
    }
    if (!strcmp(api, "wait_all") || !strcmp(api, "close_pend")) {
        /* classes: sequence of request letters then optional :mode
             F = iput on vf, R = iput on vr (new record 2+rank), f = iget on vf, r = iget vr rec 0, - = none
             modes: (none) wait for exactly the posted ids; :all NC_REQ_ALL; :bad append a bogus id; :null append NC_REQ_NULL;
                    :put NC_PUT_REQ_ALL; :get NC_GET_REQ_ALL; :none wait with num=0 although requests are pending */
        int ids[8], n = 0, statuses[8]; const char *mode = strchr(cls, ':'); int j; char one[8]; int nvl;
        g_nreq = 0;
        g_log = 0;
        for (j = 0; cls[j] && cls[j] != ':' && j < 6; j++) {
            int isget = (cls[j] == 'f' || cls[j] == 'r'); int v = (cls[j] == 'F' || cls[j] == 'f') ? VF : VR;
            if (cls[j] == '-') continue;
            snprintf(one, sizeof one, "%c.ok", v == VF ? 'F' : 'R');
            nd = mk_req(one, isget, 0, st, ct, sd, g_ibuf[n], &nvl);
            if (j > 0 && !isget && v == VF) { ct[0] = 1; st[0] += j % XPR; nvl = 1; }   /* distinct sub-regions */
            if (isget) rc = ncmpi_iget_vara_int(ncid, v, st, ct, g_ibuf[n], &ids[n]);
            else { rc = ncmpi_iput_vara_int(ncid, v, st, ct, g_ibuf[n], &ids[n]); if (rc == NC_NOERR) add_exp(v, nd, st, ct, g_ibuf[n]); }
            if (rc != NC_NOERR) lg("SETUPFAIL ipost %d\n", rc);
            n++;
        }
        g_log = 1;
        if (!strcmp(api, "close_pend")) { rc = ncmpi_close(ncid); g_state = 3; g_nexp = 0; return rc; }
        for (j = 0; j < n; j++) statuses[j] = 12345;
        if (mode && !strcmp(mode, ":all")) rc = ncmpi_wait_all(ncid, NC_REQ_ALL, NULL, NULL);
        else if (mode && !strcmp(mode, ":put")) rc = ncmpi_wait_all(ncid, NC_PUT_REQ_ALL, NULL, NULL);
        else if (mode && !strcmp(mode, ":get")) rc = ncmpi_wait_all(ncid, NC_GET_REQ_ALL, NULL, NULL);
        else if (mode && !strcmp(mode, ":none")) { rc = ncmpi_wait_all(ncid, 0, NULL, NULL); g_nexp = 0; }
        else {
            if (mode && !strcmp(mode, ":bad")) { ids[n] = 9998; statuses[n] = 12345; n++; }
            if (mode && !strcmp(mode, ":null")) { ids[n] = NC_REQ_NULL; statuses[n] = 12345; n++; }
            rc = ncmpi_wait_all(ncid, n, ids, statuses);
            { char *p = extra; p += sprintf(p, "st="); for (j = 0; j < n; j++) p += sprintf(p, "%d,", statuses[j]); }
        }
        { int npend = -1; ncmpi_inq_nreqs(ncid, &npend); sprintf(extra + strlen(extra), " nreqs=%d", npend); }
        return rc;
    }
    if (!strcmp(api, "fill_var_rec")) {
        /* classes: <V>.<recno> */
        int v = varsel(cls[0]); long recno = atol(cls + 2);
        return ncmpi_fill_var_rec(ncid, v, (MPI_Offset)recno);
    }
    if (!strcmp(api, "rename_var")) {
        /* ok: vf->vg ; diff: vf->vh ; inuse: vf->vr ; N: varid 99 ; long: vf->vflong ; other: vf2 -> vg (different varid) */
        if (!strcmp(cls, "ok")) return ncmpi_rename_var(ncid, VF, "vg");
        if (!strcmp(cls, "diff")) return ncmpi_rename_var(ncid, VF, "vh");
        if (!strcmp(cls, "inuse")) return ncmpi_rename_var(ncid, VF, "vr");
        if (!strcmp(cls, "N")) return ncmpi_rename_var(ncid, 99, "vg");
        if (!strcmp(cls, "long")) return ncmpi_rename_var(ncid, VF, "vflong");
        if (!strcmp(cls, "other")) return ncmpi_rename_var(ncid, VG, "vg");
    }
    if (!strcmp(api, "rename_dim")) {
        if (!strcmp(cls, "ok")) return ncmpi_rename_dim(ncid, dim_x, "y");
        if (!strcmp(cls, "diff")) return ncmpi_rename_dim(ncid, dim_x, "z");
        if (!strcmp(cls, "inuse")) return ncmpi_rename_dim(ncid, dim_x, "c");
        if (!strcmp(cls, "N")) return ncmpi_rename_dim(ncid, 99, "y");
        if (!strcmp(cls, "long")) return ncmpi_rename_dim(ncid, dim_x, "xlong");
    }
    if (!strcmp(api, "rename_att")) {
        if (!strcmp(cls, "ok")) return ncmpi_rename_att(ncid, VF, "units", "unitz");
        if (!strcmp(cls, "diff")) return ncmpi_rename_att(ncid, VF, "units", "unity");
        if (!strcmp(cls, "notatt")) return ncmpi_rename_att(ncid, VF, "nosuch", "unitz");
        if (!strcmp(cls, "N")) return ncmpi_rename_att(ncid, 99, "units", "unitz");
        if (!strcmp(cls, "long")) return ncmpi_rename_att(ncid, VF, "units", "unitslong");
    }
    if (!strcmp(api, "put_att")) {
        if (!strcmp(cls, "ok")) return ncmpi_put_att_text(ncid, VF, "units", 4, "wxyz");
        if (!strcmp(cls, "diff")) return ncmpi_put_att_text(ncid, VF, "units", 4, "WXYZ");
        if (!strcmp(cls, "big")) return ncmpi_put_att_text(ncid, VF, "units", 9, "wxyzwxyzw");
        if (!strcmp(cls, "badname")) return ncmpi_put_att_text(ncid, VF, "", 4, "wxyz");
        if (!strcmp(cls, "N")) return ncmpi_put_att_text(ncid, 99, "units", 4, "wxyz");
        if (!strcmp(cls, "new")) return ncmpi_put_att_text(ncid, VF, "fresh", 4, "wxyz");
    }
    if (!strcmp(api, "del_att")) {
        if (!strcmp(cls, "ok")) return ncmpi_del_att(ncid, VF, "units");
        if (!strcmp(cls, "notatt")) return ncmpi_del_att(ncid, VF, "nosuch");
        if (!strcmp(cls, "N")) return ncmpi_del_att(ncid, 99, "units");
        if (!strcmp(cls, "diff")) return ncmpi_del_att(ncid, NC_GLOBAL, "title");
    }
    if (!strcmp(api, "copy_att")) {
        if (!strcmp(cls, "ok")) return ncmpi_copy_att(ncid, VF, "units", ncid, VG);
        if (!strcmp(cls, "diff")) return ncmpi_copy_att(ncid, VF, "units", ncid, VR);
        if (!strcmp(cls, "notatt")) return ncmpi_copy_att(ncid, VF, "nosuch", ncid, VG);
        if (!strcmp(cls, "N")) return ncmpi_copy_att(ncid, 99, "units", ncid, VG);
    }
    if (!strcmp(api, "def_dim")) {
        int d;
        if (!strcmp(cls, "ok")) return ncmpi_def_dim(ncid, "nd", 5, &d);
        if (!strcmp(cls, "diffname")) return ncmpi_def_dim(ncid, "ne", 5, &d);
        if (!strcmp(cls, "diffsize")) return ncmpi_def_dim(ncid, "nd", 6, &d);
        if (!strcmp(cls, "badname")) return ncmpi_def_dim(ncid, "", 5, &d);
        if (!strcmp(cls, "inuse")) return ncmpi_def_dim(ncid, "x", 5, &d);
        if (!strcmp(cls, "neg")) return ncmpi_def_dim(ncid, "nd", -3, &d);
    }
    if (!strcmp(api, "def_var")) {
        int v, d[2]; d[0] = dim_x; d[1] = dim_c;
        if (!strcmp(cls, "ok")) return ncmpi_def_var(ncid, "nv", NC_INT, 1, d, &v);
        if (!strcmp(cls, "diffname")) return ncmpi_def_var(ncid, "nw", NC_INT, 1, d, &v);
        if (!strcmp(cls, "difftype")) return ncmpi_def_var(ncid, "nv", NC_FLOAT, 1, d, &v);
        if (!strcmp(cls, "diffndims")) return ncmpi_def_var(ncid, "nv", NC_INT, 2, d, &v);
        if (!strcmp(cls, "badtype")) return ncmpi_def_var(ncid, "nv", 77, 1, d, &v);
        if (!strcmp(cls, "inuse")) return ncmpi_def_var(ncid, "vf", NC_INT, 1, d, &v);
        if (!strcmp(cls, "baddim")) { d[0] = 99; return ncmpi_def_var(ncid, "nv", NC_INT, 1, d, &v); }
    }
    if (!strcmp(api, "set_fill")) {
        int old;
        if (!strcmp(cls, "ok")) return ncmpi_set_fill(ncid, NC_FILL, &old);
        if (!strcmp(cls, "diff")) return ncmpi_set_fill(ncid, NC_NOFILL, &old);
        if (!strcmp(cls, "bad")) return ncmpi_set_fill(ncid, 12345, &old);
    }
    if (!strcmp(api, "def_var_fill")) {
        /* on the not yet "old" variable: only allowed for new variables -> pre=new */
        int fv = 9, fw = 8;
        if (!strcmp(cls, "ok")) return ncmpi_def_var_fill(ncid, VF, 0, &fv);
        if (!strcmp(cls, "diffval")) return ncmpi_def_var_fill(ncid, VF, 0, &fw);
        if (!strcmp(cls, "diffmode")) return ncmpi_def_var_fill(ncid, VF, 1, &fv);
        if (!strcmp(cls, "diffvar")) return ncmpi_def_var_fill(ncid, VG, 0, &fv);
        if (!strcmp(cls, "N")) return ncmpi_def_var_fill(ncid, 99, 0, &fv);
    }
    if (!strcmp(api, "_enddef")) {
        if (!strcmp(cls, "ok")) rc = ncmpi__enddef(ncid, 0, 0, 0, 0);
        else if (!strcmp(cls, "neg")) rc = ncmpi__enddef(ncid, -1, 0, 0, 0);
        else if (!strcmp(cls, "diff")) rc = ncmpi__enddef(ncid, 0, 1024, 0, 0);
        if (rc == NC_NOERR) g_state = 0;
        return rc;
    }
    if (!strcmp(api, "enddef")) { rc = ncmpi_enddef(ncid); if (rc == NC_NOERR) g_state = 0; return rc; }
    if (!strcmp(api, "redef")) { rc = ncmpi_redef(ncid); if (rc == NC_NOERR) g_state = 2; return rc; }
    if (!strcmp(api, "sync")) return ncmpi_sync(ncid);
    if (!strcmp(api, "sync_numrecs")) return ncmpi_sync_numrecs(ncid);
    if (!strcmp(api, "begin_indep")) { rc = ncmpi_begin_indep_data(ncid); if (rc == NC_NOERR) g_state = 1; return rc; }
    if (!strcmp(api, "end_indep")) { rc = ncmpi_end_indep_data(ncid); if (rc == NC_NOERR) g_state = 0; return rc; }
    if (!strcmp(api, "close")) { rc = ncmpi_close(ncid); g_state = 3; return rc; }
    if (!strcmp(api, "abort")) { rc = ncmpi_abort(ncid); g_state = 3; if (g_state == 3 && !strcmp(c->pre, "new")) g_nexp = -1; return rc; }
    if (!strcmp(api, "create")) {
        /* classes: c5 (CDF-5 clobber), c2 (CDF-2 clobber: differs from root), nc (NC_NOCLOBBER on a fresh path) */
        int cmode = NC_CLOBBER | NC_64BIT_DATA; MPI_Info info = mk_info(c);
        if (!strcmp(cls, "c2")) cmode = NC_CLOBBER | NC_64BIT_OFFSET;
        if (!strcmp(cls, "nc")) cmode = NC_NOCLOBBER | NC_64BIT_DATA;
        setenv("PNETCDF_SAFE_MODE", c->safe ? "1" : "0", 1);
        g_ncid = -1;
        rc = ncmpi_create(g_comm, g_path, cmode, info, &g_ncid);
        if (info != MPI_INFO_NULL) MPI_Info_free(&info);
        g_state = (g_ncid >= 0) ? 2 : 3;
        sprintf(extra, "ncid=%d", g_ncid >= 0);
        return rc;
    }
    if (!strcmp(api, "open")) {
        /* classes: w (NC_WRITE), r (NC_NOWRITE) */
        int omode = !strcmp(cls, "r") ? NC_NOWRITE : NC_WRITE; MPI_Info info = mk_info(c);
        setenv("PNETCDF_SAFE_MODE", c->safe ? "1" : "0", 1);
        g_ncid = -1;
        rc = ncmpi_open(g_comm, g_path, omode, info, &g_ncid);
        if (info != MPI_INFO_NULL) MPI_Info_free(&info);
        g_state = (g_ncid >= 0) ? 0 : 3;
        sprintf(extra, "ncid=%d", g_ncid >= 0);
        return rc;
    }
    lg("UNKNOWN api=%s cls=%s\n", api, cls);
    return -9999;
}

static void log_layout(int ncid, const char *tag)
{
    /* facts the model's shared state needs for enddef: per variable begin offsets, record size, numrecs */
    int nv = 0, i; char b[900], *p = b; MPI_Offset recsize = 0, hsz = 0, hext = 0, nr = 0; int unl = -1;
    ncmpi_inq_nvars(ncid, &nv);
    ncmpi_inq_recsize(ncid, &recsize); ncmpi_inq_header_size(ncid, &hsz); ncmpi_inq_header_extent(ncid, &hext);
    ncmpi_inq_unlimdim(ncid, &unl); if (unl >= 0) ncmpi_inq_dimlen(ncid, unl, &nr);
    p += sprintf(p, "INFO %s nvars=%d recsize=%lld hsize=%lld hext=%lld numrecs=%lld vars=", tag, nv, (long long)recsize, (long long)hsz, (long long)hext, (long long)nr);
    for (i = 0; i < nv && i < 16; i++) {
        MPI_Offset off = 0; int nd = 0, dids[8], isrec = 0, j; MPI_Offset len = 4;
        ncmpi_inq_varoffset(ncid, i, &off); ncmpi_inq_varndims(ncid, i, &nd); ncmpi_inq_vardimid(ncid, i, dids);
        nc_type xt; ncmpi_inq_vartype(ncid, i, &xt); len = (xt == NC_CHAR || xt == NC_BYTE) ? 1 : (xt == NC_SHORT ? 2 : (xt == NC_DOUBLE || xt == NC_INT64 || xt == NC_UINT64 ? 8 : 4));
        for (j = 0; j < nd; j++) { MPI_Offset dl = 0; if (dids[j] == unl) { isrec = 1; continue; } ncmpi_inq_dimlen(ncid, dids[j], &dl); len *= dl; }
        len = (len + 3) / 4 * 4;
        p += sprintf(p, "%d:%lld:%lld,", isrec, (long long)off, (long long)len);
    }
    lg("%s\n", b);
}

/* new variables in fill mode of chosen sizes, for the fill block of enddef (fillerup_aggregate):
 * spec = comma separated items [x]s | [x]f<k> | [x]r<k>:  s scalar, f<k> fixed 1-D, r<k> record [t][k] (r0: [t] only);
 * k = 1, 2, m (nprocs-1), n (nprocs), p (nprocs+1), 0 (only r0); x = not in fill mode.
 * global != 0: ncmpi_set_fill(NC_FILL) instead of ncmpi_def_var_fill per variable */
static int define_fill_vars(int ncid, const char *spec, int global)
{
    char buf[80], *tok, *save = NULL; int i = 0, old;
    if (global) CK(ncmpi_set_fill(ncid, NC_FILL, &old));
    snprintf(buf, sizeof buf, "%s", spec);
    for (tok = strtok_r(buf, ",", &save); tok; tok = strtok_r(NULL, ",", &save), i++) {
        int nofill = 0, v, d[2], nd = 0, len = 0; char name[16], dname[16];
        if (*tok == 'x') { nofill = 1; tok++; }
        if (tok[0] == 'f' || tok[0] == 'r') {
            switch (tok[1]) { case '1': len = 1; break; case '2': len = 2; break; case 'm': len = g_np - 1; break;
                              case 'n': len = g_np; break; case 'p': len = g_np + 1; break; default: len = 0; }
        }
        if (tok[0] == 'r') d[nd++] = dim_t;
        if (len > 0) { snprintf(dname, sizeof dname, "L%d_%d", len, i); CK(ncmpi_def_dim(ncid, dname, len, &d[nd])); nd++; }
        snprintf(name, sizeof name, "e%d", i);
        CK(ncmpi_def_var(ncid, name, NC_INT, nd, d, &v));
        if (nofill) CK(ncmpi_def_var_fill(ncid, v, 1, NULL));
        else if (!global) CK(ncmpi_def_var_fill(ncid, v, 0, NULL));
    }
    return 0;
}

static int prepare_fill(const Case *c)
{
    const char *pre = c->pre; int ncid, rc, global = (pre[0] == 'g');
    if (pre[1] == 'n') {                    /* first define mode of a new file */
        rc = setup_file(c, &ncid, 0); g_ncid = ncid; g_state = 2; if (rc) return rc;
        return define_fill_vars(ncid, pre + 3, global);
    }
    rc = setup_file(c, &ncid, 1); g_ncid = ncid; if (rc) return rc;     /* define mode after redef, 2 records exist */
    log_layout(ncid, "old");
    CK(ncmpi_redef(ncid)); g_state = 2;
    return define_fill_vars(ncid, pre + 3, global);
}

/* scenario preparation beyond the standard file */
static int prepare(const Case *c, const char *cls)
{
    const char *pre = c->pre; int ncid; int rc;
    g_state = 0; g_nexp = 0; g_exp_numrecs = -1; g_nreq = 0; g_ncid = -1;
    if ((pre[0] == 'f' || pre[0] == 'g') && (pre[1] == 'n' || pre[1] == 'r') && pre[2] == ':') return prepare_fill(c);
    if (!strcmp(pre, "none")) { g_state = 3; unlink(g_path); return 0; }           /* create on a fresh path */
    if (!strcmp(pre, "new")) { rc = setup_file(c, &ncid, 0); g_ncid = ncid; g_state = 2; return rc; }
    if (!strcmp(pre, "empty")) {         /* a new file without dimensions and variables, still in define mode */
        MPI_Info info = mk_info(c);
        setenv("PNETCDF_SAFE_MODE", c->safe ? "1" : "0", 1);
        rc = ncmpi_create(g_comm, g_path, NC_CLOBBER | NC_64BIT_DATA, info, &ncid);
        if (info != MPI_INFO_NULL) MPI_Info_free(&info);
        g_ncid = ncid; g_state = 2; return rc;
    }
    rc = setup_file(c, &ncid, 1); g_ncid = ncid; if (rc) return rc;
    if (!strcmp(pre, "") || !strcmp(pre, "data")) return 0;
    if (!strcmp(pre, "closed")) { CK(ncmpi_close(ncid)); g_state = 3; return 0; }
    if (!strcmp(pre, "indep")) { CK(ncmpi_begin_indep_data(ncid)); g_state = 1; return 0; }
    if (!strcmp(pre, "indep_put")) {
        /* every rank whose class ends in '+' writes one new record independently: numrecs differ in memory */
        CK(ncmpi_begin_indep_data(ncid)); g_state = 1;
        if (strchr(cls, '+')) {
            MPI_Offset st[2], ct[2]; int buf[XPR], i; st[0] = 2 + g_rank; ct[0] = 1; st[1] = g_rank * XPR; ct[1] = XPR;
            for (i = 0; i < XPR; i++) buf[i] = 7000 + 100 * g_rank + i;
            CK(ncmpi_put_vara_int(ncid, VR, st, ct, buf)); add_exp(VR, 2, st, ct, buf);
        }
        return 0;
    }
    if (!strcmp(pre, "redef")) { CK(ncmpi_redef(ncid)); g_state = 2; return 0; }
    if (!strcmp(pre, "redef_grow") || !strcmp(pre, "redef_addrec") || !strcmp(pre, "redef_addfix")) {
        int v, d[2]; char big[700]; memset(big, 'z', sizeof big);
        log_layout(ncid, "old");
        CK(ncmpi_redef(ncid)); g_state = 2;
        if (!strcmp(pre, "redef_grow")) CK(ncmpi_put_att_text(ncid, NC_GLOBAL, "pad", 600, big));
        if (!strcmp(pre, "redef_addrec")) { d[0] = dim_t; d[1] = dim_x; CK(ncmpi_def_var(ncid, "vr3", NC_INT, 2, d, &v)); }
        if (!strcmp(pre, "redef_addfix")) { d[0] = dim_x; CK(ncmpi_def_var(ncid, "vf3", NC_INT, 1, d, &v)); CK(ncmpi_def_var_fill(ncid, v, 0, NULL)); }
        return 0;
    }
    lg("UNKNOWN pre=%s\n", pre);
    return -1;
}

/* bring the file to a closed state; every call is logged as POST */
static void cleanup(int post_abort)
{
    int rc;
    g_log = 2; g_phase = "post";
    if (g_state == 2 && post_abort) { rc = ncmpi_abort(g_ncid); lg("POST abort %d\n", rc); g_state = 3; g_nexp = -1; }
    if (g_state == 2) { rc = ncmpi_enddef(g_ncid); lg("POST enddef %d\n", rc); if (rc == NC_NOERR) g_state = 0; }
    if (g_state == 1) { rc = ncmpi_end_indep_data(g_ncid); lg("POST end_indep %d\n", rc); g_state = 0; }
    if (g_state == 0) {
        int nr = -1; ncmpi_inq_nreqs(g_ncid, &nr);
        if (nr > 0) { rc = ncmpi_cancel(g_ncid, NC_REQ_ALL, NULL, NULL); lg("POST cancel %d nreqs=%d\n", rc, nr); }
        rc = ncmpi_sync(g_ncid); lg("POST sync %d\n", rc);
        if (!strcmp("", "")) log_layout(g_ncid, "new");
        rc = ncmpi_close(g_ncid); lg("POST close %d\n", rc); g_state = 3;
    }
    g_log = 0;
}

static void verify(void)
{
    int ncid, rc, i, j, bad = 0, checked = 0; MPI_Offset nr = -1; int unl = -1;
    g_phase = "verify";
    if (g_nexp < 0) { lg("DATA none removed\n"); return; }
    setenv("PNETCDF_SAFE_MODE", "0", 1);
    rc = ncmpi_open(MPI_COMM_SELF, g_path, NC_NOWRITE, MPI_INFO_NULL, &ncid);
    if (rc != NC_NOERR) { lg("DATA %s open=%d\n", g_nexp > 0 ? "bad" : "none", rc); return; }
    ncmpi_inq_unlimdim(ncid, &unl); if (unl >= 0) ncmpi_inq_dimlen(ncid, unl, &nr);
    log_layout(ncid, "new");
    ncmpi_begin_indep_data(ncid);
    for (i = 0; i < g_nexp; i++) {
        Expect *e = &g_exp[i]; int got[64], n = 1;
        for (j = 0; j < e->nd; j++) n *= (int)e->ct[j];
        if (e->nd == 0) rc = ncmpi_get_var_int(ncid, e->varid, got);
        else rc = ncmpi_get_vara_int(ncid, e->varid, e->st, e->ct, got);
        if (rc != NC_NOERR) { bad++; continue; }
        for (j = 0; j < n && j < 64; j++) { checked++; if (got[j] != e->val[j]) bad++; }
    }
    ncmpi_close(ncid);
    lg("DATA %s checked=%d bad=%d\n", g_nexp == 0 ? "none" : (bad ? "bad" : "ok"), checked, bad);
    lg("NUMRECS %lld\n", (long long)nr);
}

static int parse_case(char *line, Case *c)
{
    char *tok, *save = NULL; int n = 0;
    memset(c, 0, sizeof *c);
    for (tok = strtok_r(line, " \t\r\n", &save); tok; tok = strtok_r(NULL, " \t\r\n", &save), n++) {
        if (n == 0) snprintf(c->id, sizeof c->id, "%s", tok);
        else if (n == 1) snprintf(c->api, sizeof c->api, "%s", tok);
        else if (!strncmp(tok, "safe=", 5)) c->safe = atoi(tok + 5);
        else if (!strncmp(tok, "hcoll=", 6)) c->hcoll = atoi(tok + 6);
        else if (!strncmp(tok, "aggr=", 5)) c->aggr = atoi(tok + 5);
        else if (!strncmp(tok, "dup=", 4)) c->dup = atoi(tok + 4);
        else if (!strncmp(tok, "mu=", 3)) c->mu = atoi(tok + 3);
        else if (!strncmp(tok, "pre=", 4)) snprintf(c->pre, sizeof c->pre, "%s", tok + 4);
        else if (!strcmp(tok, "post=abort")) c->post_abort = 1;
        else if (!strncmp(tok, "cls=", 4)) {
            char *s2 = NULL, *t2; for (t2 = strtok_r(tok + 4, ",", &s2); t2 && c->ncls < 8; t2 = strtok_r(NULL, ",", &s2))
                snprintf(c->cls[c->ncls++], 32, "%s", t2);
        }
    }
    return n >= 2;
}

int main(int argc, char **argv)
{
    char logp[512], line[1024]; FILE *f; MPI_Comm dupc = MPI_COMM_NULL;
    MPI_Init(&argc, &argv);
    PMPI_Comm_rank(MPI_COMM_WORLD, &g_rank); PMPI_Comm_size(MPI_COMM_WORLD, &g_np);
    if (argc < 3) { if (!g_rank) fprintf(stderr, "usage: c08_trace workdir casefile [watchdog]\n"); MPI_Finalize(); return 2; }
    if (argc > 3) g_wd = atoi(argv[3]);
    X = XPR * g_np;
    snprintf(logp, sizeof logp, "%s/log.%d", argv[1], g_rank);
    g_fd = open(logp, O_WRONLY | O_CREAT | O_APPEND, 0644);
    signal(SIGALRM, on_alarm);
    MPI_Comm_set_errhandler(MPI_COMM_WORLD, MPI_ERRORS_RETURN);
    f = fopen(argv[2], "r");
    if (!f) { lg("NOCASEFILE\n"); MPI_Finalize(); return 2; }
    while (fgets(line, sizeof line, f)) {
        Case c; char extra[256]; const char *cls; int rc;
        if (line[0] == '#' || !parse_case(line, &c)) continue;
        if (c.ncls != g_np) { lg("BADCASE %s ncls=%d np=%d\n", c.id, c.ncls, g_np); continue; }
        cls = c.cls[g_rank];
        snprintf(g_path, sizeof g_path, "%s/%s.nc", argv[1], c.id);
        g_comm = MPI_COMM_WORLD;
        if (c.dup) { PMPI_Comm_dup(MPI_COMM_WORLD, &dupc); g_comm = dupc; }
        lg("BEGIN %s %s %s\n", c.id, c.api, cls);
        g_phase = "setup"; g_log = 0; alarm(g_wd + 6);
        rc = prepare(&c, cls);
        PMPI_Barrier(MPI_COMM_WORLD);
        if (rc != 0) { lg("END %s setup-failed\n", c.id); alarm(0); continue; }
        g_phase = "call"; alarm(g_wd); g_log = 1;
        rc = run_call(&c, cls, extra);
        g_log = 0;
        lg("RET %d %s\n", rc, extra);
        if (rc != NC_NOERR && g_nexp > 0) g_nexp = 0;   /* a rank that got an error expects nothing stored */
        g_phase = "post"; alarm(g_wd);
        cleanup(c.post_abort);
        g_phase = "post-barrier"; alarm(g_wd);
        PMPI_Barrier(MPI_COMM_WORLD);
        alarm(g_wd + 6);
        verify();
        if (c.dup) { PMPI_Comm_free(&dupc); }
        PMPI_Barrier(MPI_COMM_WORLD);
        if (g_rank == 0) unlink(g_path);
        alarm(0);
        lg("END %s\n", c.id);
        PMPI_Barrier(MPI_COMM_WORLD);
    }
    fclose(f);
    MPI_Finalize();
    return 0;
}
