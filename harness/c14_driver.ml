(* c14_driver.ml — unverified glue around the extracted C14 model (Pnc_modes, from coq/Modes.v).
   stdin: one history per line = blank-separated call codes (Modes.call_code); the history starts from the
   closed state.  stdout: per line, per call  <rc>:<spec rc>:<dflag>:<nflags>:<4*old+2*nrecv+hasrec>:<nreqs>:<abuf>
   ("?" for an unknown code).
   argument "reach": print the table Modes.reach_table instead: <dflag>:<nflags>:<bits> | <codes of the witness path> *)
open Pnc_modes

let rec nat_of_int (n : int) : nat = if n <= 0 then O else S (nat_of_int (n - 1))
let rec int_of_nat = function O -> 0 | S n -> 1 + int_of_nat n
let rec int_of_pos = function XH -> 1 | XO p -> 2 * int_of_pos p | XI p -> 2 * int_of_pos p + 1
let int_of_z = function Z0 -> 0 | Zpos p -> int_of_pos p | Zneg p -> - (int_of_pos p)

let sig_str (((a, b), c) : (z * z) * z) = Printf.sprintf "%d:%d:%d" (int_of_z a) (int_of_z b) (int_of_z c)

let () =
  if Array.length Sys.argv > 1 && Sys.argv.(1) = "reach" then
    List.iter (fun (s, p) ->
        Printf.printf "%s | %s\n" (sig_str (core_sig s))
          (String.concat " " (List.map (fun c -> string_of_int (int_of_nat (call_code c))) p)))
      reach_table
  else if Array.length Sys.argv > 1 && Sys.argv.(1) = "calls" then
    List.iter (fun c -> Printf.printf "%d\n" (int_of_nat (call_code c))) all_calls
  else
    try
      while true do
        let line = input_line stdin in
        let toks = List.filter (fun s -> s <> "") (String.split_on_char ' ' line) in
        let codes = List.map (fun s -> nat_of_int (int_of_string s)) toks in
        let res = run_codes state0 codes in
        print_string (String.concat " " (List.map (function
            | None -> "?"
            | Some o -> Printf.sprintf "%d:%d:%s:%d:%d" (int_of_z o.o_rc) (int_of_z o.o_spec) (sig_str o.o_sig)
                          (int_of_z o.o_nreq) (int_of_z o.o_abuf)) res));
        print_newline ()
      done
    with End_of_file -> ()
