(* c04_model.ml — unverified glue around the extracted reader model (coq/Reader.v):
     c04_model <cases-file>
     c04_model --witness <dir>      writes the witness files Reader.w_* as <dir>/<name>.nc
   cases-file lines:   <tag> <chunk_hint> <mm> <maxdata> <path>
   For every case prints what harness/c04_open.c must print for that file (same text form), as
   predicted by the model, preceded by a line `case <tag>` and the model-only lines
     result ok | err <code> | crash <site>
     cost <fetches> <final offset> <get_size> <alloc bytes> <max request> <requests>
     consistent <0|1>          (Reader.consistent on an accepted header)
     valid <0|1>               (HeaderSpec.decode accepts and Reader.c04_valid holds) flat <same|diff>
   and followed by `end`. *)
module BZ = Z
open Reader_model

let rec pos_of_big (n : BZ.t) : positive =
  if BZ.equal n BZ.one then XH
  else if BZ.is_even n then XO (pos_of_big (BZ.shift_right n 1))
  else XI (pos_of_big (BZ.shift_right n 1))
let z_of_big (n : BZ.t) : z =
  if BZ.sign n = 0 then Z0 else if BZ.sign n > 0 then Zpos (pos_of_big n) else Zneg (pos_of_big (BZ.neg n))
let rec big_of_pos = function
  | XH -> BZ.one
  | XO p -> BZ.shift_left (big_of_pos p) 1
  | XI p -> BZ.succ (BZ.shift_left (big_of_pos p) 1)
let big_of_z = function Z0 -> BZ.zero | Zpos p -> big_of_pos p | Zneg p -> BZ.neg (big_of_pos p)
let zs (s : string) : z = z_of_big (BZ.of_string s)
let sz (x : z) : string = BZ.to_string (big_of_z x)
let iz (x : z) : int = BZ.to_int (big_of_z x)
let byte_tab : z array = Array.init 256 (fun i -> z_of_big (BZ.of_int i))

let read_file path : string =
  let ic = open_in_bin path in
  let n = in_channel_length ic in
  let s = really_input_string ic n in
  close_in ic; s

let zlist_of_string (s : string) : z list =
  let r = ref [] in
  for i = String.length s - 1 downto 0 do r := byte_tab.(Char.code s.[i]) :: !r done; !r

let fnv (s : string) : string =
  let h = ref (BZ.of_string "1469598103934665603") in
  let p = BZ.of_string "1099511628211" in
  let m = BZ.pred (BZ.shift_left BZ.one 64) in
  String.iter (fun c -> h := BZ.logand (BZ.mul (BZ.logxor !h (BZ.of_int (Char.code c))) p) m) s;
  BZ.format "%016x" !h

let string_of_bytes (bs : z list) : string =
  let b = Buffer.create 64 in
  List.iter (fun x -> Buffer.add_char b (Char.chr ((iz x) land 255))) bs; Buffer.contents b
let hex (s : string) : string =
  let b = Buffer.create (2 * String.length s) in
  String.iter (fun c -> Buffer.add_string b (Printf.sprintf "%02x" (Char.code c))) s; Buffer.contents b
let hexblob (s : string) : string =
  if String.length s = 0 then "-"
  else if String.length s > 512 then Printf.sprintf "fnv:%s:%d" (fnv s) (String.length s)
  else hex s
(* names are returned through strcpy: cut at the first NUL *)
let hexname (bs : z list) : string =
  let s = string_of_bytes bs in
  let s = match String.index_opt s '\000' with Some i -> String.sub s 0 i | None -> s in
  if s = "" then "-" else hex s

let site_name = function
  | S_rndup_int -> "rndup_int" | S_attr_xlen -> "attr_xlen" | S_attrV_mul -> "attrV_mul"
  | S_attr_memcpy_null -> "attr_memcpy_null" | S_var_calloc_null -> "var_calloc_null"
  | S_shape_product -> "shape_product" | S_check_vlen_mul -> "check_vlen_mul" | S_div_zero -> "div_zero"
  | S_len -> "len" | S_recsize -> "recsize" | S_begin_len -> "begin_len" | S_hdr_len -> "hdr_len"

let xsz_of t = match t with 1 | 2 | 7 -> 1 | 3 | 8 -> 2 | 4 | 5 | 9 -> 4 | 6 | 10 | 11 -> 8 | _ -> 0

let big = big_of_z
let dump_ok (o : opened) (file : string) (maxdata : BZ.t) (getsize : z) =
  let h = o.o_hdr in
  let lay = o.o_lay in
  let dims = Array.of_list h.h_dims in
  let numrecs = big h.h_numrecs in
  Printf.printf "open 0\nformat 0 %s\n" (sz h.h_format);
  let unlim = ref (-1) in
  Array.iteri (fun i d -> if BZ.sign (big d.d_size) = 0 then unlim := i) dims;
  let nvars = List.length h.h_vars in
  Printf.printf "inq 0 %d %d %d %d\n" (Array.length dims) nvars (List.length h.h_gatts) !unlim;
  Printf.printf "sizes %s %s %s %s %d %s\n" (sz lay.l_xsz) (sz lay.l_begin_var) (sz lay.l_recsize)
    (sz o.o_nrec) (nvars - iz o.o_nrec) (sz getsize);
  Array.iteri (fun i d ->
      let len = if BZ.sign (big d.d_size) = 0 then numrecs else big d.d_size in
      Printf.printf "dim %d 0 %s %s\n" i (hexname d.d_name) (BZ.to_string len)) dims;
  let att_lines varid atts =
    List.iteri (fun j a ->
        let t = iz a.a_type in
        let esz = xsz_of t in
        let n = big a.a_nelems in
        if esz = 0 || BZ.sign n < 0 || BZ.sign maxdata = 0 || BZ.gt n (BZ.div maxdata (BZ.of_int (max esz 1))) then
          Printf.printf "att %d %d 0 %s %d %s 0 skipped\n" varid j (hexname a.a_name) t (BZ.to_string n)
        else
          Printf.printf "att %d %d 0 %s %d %s 0 %s\n" varid j (hexname a.a_name) t (BZ.to_string n)
            (hexblob (string_of_bytes a.a_data))) atts in
  att_lines (-1) h.h_gatts;
  List.iteri (fun i v ->
      Printf.printf "var %d 0 %s %s %d %s %d 0 %s\n" i (hexname v.v_name) (sz v.v_type) (List.length v.v_dimids)
        (match v.v_dimids with [] -> "-" | l -> String.concat "," (List.map sz l))
        (List.length v.v_atts) (sz v.v_begin);
      att_lines i v.v_atts) h.h_vars;
  (* data reads: where the model says the bytes are *)
  let flen = BZ.of_int (String.length file) in
  List.iteri (fun i v ->
      let esz = xsz_of (iz v.v_type) in
      let shape = List.map (fun d -> if d >= 0 && d < Array.length dims then big dims.(d).d_size else BZ.minus_one)
                    (List.map iz v.v_dimids) in
      let isrec = (match shape with s0 :: _ -> BZ.sign s0 = 0 | [] -> false) in
      let lens = List.map (fun s -> if BZ.sign s = 0 then numrecs else s) shape in
      let bad = List.exists (fun s -> BZ.sign s < 0) lens || esz = 0 in
      let cap = BZ.succ maxdata in
      let nel = List.fold_left (fun acc l -> let p = BZ.mul acc l in if BZ.gt p cap then cap else p) BZ.one lens in
      if bad || BZ.sign maxdata = 0 || BZ.gt nel (BZ.div maxdata (BZ.of_int (max esz 1))) then
        Printf.printf "data %d 0 0 skipped\n" i
      else begin
        let nb = BZ.mul nel (BZ.of_int esz) in
        let bg = big v.v_begin in
        let buf = Buffer.create 64 in
        let ok = ref true in
        let grab off n =
          if BZ.sign off < 0 || BZ.gt (BZ.add off n) flen then ok := false
          else Buffer.add_string buf (String.sub file (BZ.to_int off) (BZ.to_int n)) in
        if isrec then begin
          let per = (match lens with _ :: r -> List.fold_left BZ.mul BZ.one r | [] -> BZ.one) in
          let perb = BZ.mul per (BZ.of_int esz) in
          let rs = big lay.l_recsize in
          let nr = BZ.to_int numrecs in
          for r = 0 to nr - 1 do
            if !ok then grab (BZ.add bg (BZ.mul (BZ.of_int r) rs)) perb
          done
        end else grab bg nb;
        if !ok then Printf.printf "data %d 0 %s %s\n" i (BZ.to_string nb) (hexblob (Buffer.contents buf))
        else Printf.printf "data %d ? %s ?\n" i (BZ.to_string nb);
        (* every record read separately: record r of this variable is at begin + r * recsize *)
        if isrec && BZ.geq numrecs BZ.one && BZ.leq numrecs (BZ.of_int 64) && List.length shape <= 64 then begin
          let per = (match lens with _ :: r -> List.fold_left BZ.mul BZ.one r | [] -> BZ.one) in
          let perb = BZ.mul per (BZ.of_int esz) in
          let rs = big lay.l_recsize in
          for r = 0 to BZ.to_int numrecs - 1 do
            let off = BZ.add bg (BZ.mul (BZ.of_int r) rs) in
            if BZ.sign off < 0 || BZ.gt (BZ.add off perb) flen then Printf.printf "rec %d %d ? ?\n" i r
            else Printf.printf "rec %d %d 0 %s\n" i r (hexblob (String.sub file (BZ.to_int off) (BZ.to_int perb)))
          done
        end
      end) h.h_vars;
  Printf.printf "close 0\n"

let file_cache : (string, string * z list) Hashtbl.t = Hashtbl.create 64
let dec_cache : (string * string, opened option) Hashtbl.t = Hashtbl.create 64

let witnesses = [
  "w_rndup_int", w_rndup_int; "w_attr_null", w_attr_null; "w_attrV_mul", w_attrV_mul;
  "w_attr_xlen", w_attr_xlen; "w_shape_product", w_shape_product; "w_var_calloc", w_var_calloc;
  "w_check_vlen", w_check_vlen; "w_begin_len", w_begin_len; "w_numrecs_neg", w_numrecs_neg;
  "w_dim_neg", w_dim_neg; "w_alloc_dims", w_alloc_dims; "w_read_zeros", w_read_zeros ]

let () =
  if Array.length Sys.argv >= 3 && Sys.argv.(1) = "--witness" then begin
    List.iter (fun (n, bs) ->
        let oc = open_out_bin (Filename.concat Sys.argv.(2) (n ^ ".nc")) in
        output_string oc (string_of_bytes bs); close_out oc) witnesses;
    exit 0
  end;
  let ic = open_in Sys.argv.(1) in
  (try
    while true do
      let line = input_line ic in
      match String.split_on_char ' ' (String.trim line) with
      | [tag; chunk; mm; maxdata; path] ->
          let (file, fl) =
            (match Hashtbl.find_opt file_cache path with
             | Some x -> x
             | None -> let f = read_file path in let x = (f, zlist_of_string f) in
                       Hashtbl.replace file_cache path x; x) in
          let o = open_model (zs chunk) (zs mm) fl in
          Printf.printf "case %s\n" tag;
          (match o.out_res with
           | Ok _ -> Printf.printf "result ok\n"
           | Err e -> Printf.printf "result err %s\n" (sz e)
           | Crash s -> Printf.printf "result crash %s\n" (site_name s));
          Printf.printf "cost %s %s %s %s %s %s\n" (sz o.out_fetches) (sz o.out_offset) (sz o.out_getsize)
            (sz o.out_acct.ac_alloc) (sz o.out_acct.ac_maxreq) (sz o.out_acct.ac_nalloc);
          let fr = open_flat (zs mm) fl in
          Printf.printf "flat %s\n" (if fr = o.out_res then "same" else "diff");
          let dec =
            (match Hashtbl.find_opt dec_cache (path, mm) with
             | Some x -> x
             | None ->
                 let x = (match decode fl with
                          | Some d -> if c04_valid (zs mm) d then Some (expected_open d) else None
                          | None -> None) in
                 Hashtbl.replace dec_cache (path, mm) x; x) in
          (match dec with
           | Some e ->
               Printf.printf "valid 1\n";
               Printf.printf "expected %s\n" (if o.out_res = Ok e then "same" else "diff")
           | None -> Printf.printf "valid 0\n");
          (match o.out_res with
           | Ok op ->
               Printf.printf "consistent %d\n" (if consistent op then 1 else 0);
               dump_ok op file (BZ.of_string maxdata) o.out_getsize
           | Err e -> Printf.printf "open %s\n" (sz e)
           | Crash _ -> ());
          Printf.printf "end\n%!"
      | _ -> ()
    done
  with End_of_file -> ());
  close_in ic
