/* c09_conv.c — C09 correspondence harness: runs conversion cases against the REAL library.
 *
 * usage: c09_conv <cmdfile> <scratchdir>          (single process; MPI_COMM_WORLD of size 1)
 * One command per line (same file is read by harness/c09_driver.ml for the model/spec side):
 *   V id fmt xi ii flav hasfill fillcode n c1..cn   write n values of memory type ii to a variable of
 *                                                   external type xi through the API, report the status
 *                                                   and the bytes found in the file (read with POSIX)
 *        flav: 0 ncmpi_put_var_<T>_all  1 ncmpi_put_vara_<T>_all  2 flexible ncmpi_put_vara_all(MPI type)
 *              3 independent ncmpi_put_vara_<T> in a begin_indep_data section
 *   G id fmt xi ii flav n c1..cn                    bytes c1..cn (external type xi) are planted in the file
 *                                                   with POSIX, then read through the API into memory type ii
 *   A id fmt xi ii n c1..cn                         ncmpi_put_att_<T> (global attribute), bytes read from the header
 *   B id fmt xi ii n c1..cn                         attribute bytes planted with POSIX, ncmpi_get_att_<T>
 *   L id put pad xi ii hasfill fillcode n c1..cn    direct call of ncmpix_[pad_]{putn,getn}_NC_<X>_<I>
 *   S id put pad xi ii hasfill fillcode lo hi       same with source values lo..hi
 *   N id fmt wmode k p_0..p_{k-1} {kind vslot xi ii n c1..cn}*k
 *        k nonblocking requests, each on a variable of its own (variables defined in vslot order), posted in the
 *        order given, completed by ONE ncmpi_wait_all (wmode 0) or ONE ncmpi_wait in independent mode (wmode 1)
 *        called with the request ids in the order p_0.. (indices into the posting order) and a statuses[] array.
 *        kind 0 iget (the codes are planted in the file), 1 iput, 2 bput (the codes are the user values).
 *        output: id wait_rc k { R post_rc status n code_1..code_n }*k   in posting order
 *   W id fmt coll xi ii n c1..cn                    blocking ncmpi_put_varn_<T>[_all] (2 segments covering n elements)
 *   M id fmt coll xi ii nv n c1..c(nv*n)            blocking ncmpi_mput_var_<T>[_all] on nv variables of n elements
 *        output of W/M: id rc pending_requests close_rc n code_1..   (bytes found in the file afterwards)
 * xi: 0 BYTE 1 UBYTE 2 SHORT 3 USHORT 4 INT 5 UINT 6 FLOAT 7 DOUBLE 8 INT64 9 UINT64 10 CHAR
 * ii: 0 schar 1 uchar 2 short 3 ushort 4 int 5 uint 6 long 7 float 8 double 9 longlong 10 ulonglong 11 text
 * values ("codes"): integer types in decimal, float/double as the decimal value of their bit pattern.
 * output line:  id status n code_1 .. code_n      (n = 0 when nothing can be observed)
 * Destination buffers are pre-set to the byte 0x5A so that an element the library leaves
 * untouched is visible.
 */
#include <stdio.h>
#include <stdlib.h>
#include <string.h>
#include <unistd.h>
#include <fcntl.h>
#include <mpi.h>
#include <pnetcdf.h>

typedef unsigned long long u64;
typedef long long i64;

/* ---- type descriptors ---- */
static const int xsize[11] = {1, 1, 2, 2, 4, 4, 4, 8, 8, 8, 1};
static const int xsigned[11] = {1, 0, 1, 0, 1, 0, 0, 0, 1, 0, 0};   /* float types: bit patterns are unsigned codes */
static const nc_type xnc[11] = {NC_BYTE, NC_UBYTE, NC_SHORT, NC_USHORT, NC_INT, NC_UINT, NC_FLOAT, NC_DOUBLE,
                                NC_INT64, NC_UINT64, NC_CHAR};
static const int isize[12] = {1, 1, 2, 2, 4, 4, 8, 4, 8, 8, 8, 1};
static const int isigned_[12] = {1, 0, 1, 0, 1, 0, 1, 0, 0, 1, 0, 0};

static u64 parse_code(const char *s) { return (s[0] == '-') ? (u64)strtoll(s, NULL, 10) : strtoull(s, NULL, 10); }

/* native little-endian memory element <-> code */
static void mem_store(void *buf, size_t k, int size, u64 c) { memcpy((char *)buf + k * size, &c, size); }
static u64 mem_load(const void *buf, size_t k, int size, int sg)
{
    u64 c = 0;
    memcpy(&c, (const char *)buf + k * size, size);
    if (sg && size < 8 && (c >> (8 * size - 1))) c |= ~0ULL << (8 * size);
    return c;
}
/* big-endian file element <-> code */
static void be_store(unsigned char *p, int size, u64 c) { int i; for (i = 0; i < size; i++) p[i] = (unsigned char)(c >> (8 * (size - 1 - i))); }
static u64 be_load(const unsigned char *p, int size, int sg)
{
    u64 c = 0; int i;
    for (i = 0; i < size; i++) c = (c << 8) | p[i];
    if (sg && size < 8 && (c >> (8 * size - 1))) c |= ~0ULL << (8 * size);
    return c;
}
static void print_code(u64 c, int sg) { if (sg) printf(" %lld", (i64)c); else printf(" %llu", c); }

/* ---- typed API dispatch ---- */
#define ITYPES(M) M(0, schar, signed char) M(1, uchar, unsigned char) M(2, short, short) M(3, ushort, unsigned short) \
    M(4, int, int) M(5, uint, unsigned int) M(6, long, long) M(7, float, float) M(8, double, double) \
    M(9, longlong, long long) M(10, ulonglong, unsigned long long) M(11, text, char)

static MPI_Datatype mpitype(int ii)
{
    switch (ii) {
    case 0: return MPI_SIGNED_CHAR; case 1: return MPI_UNSIGNED_CHAR; case 2: return MPI_SHORT;
    case 3: return MPI_UNSIGNED_SHORT; case 4: return MPI_INT; case 5: return MPI_UNSIGNED; case 6: return MPI_LONG;
    case 7: return MPI_FLOAT; case 8: return MPI_DOUBLE; case 9: return MPI_LONG_LONG_INT;
    case 10: return MPI_UNSIGNED_LONG_LONG; default: return MPI_CHAR;
    }
}

static int api_put_var(int ncid, int varid, int ii, int flav, MPI_Offset n, const void *buf)
{
    MPI_Offset start[1] = {0}, count[1];
    int rc = -9999, e;
    count[0] = n;
    if (flav == 2) return ncmpi_put_vara_all(ncid, varid, start, count, buf, n, mpitype(ii));
    if (flav == 3) { e = ncmpi_begin_indep_data(ncid); if (e) return -9000 + e; }
    switch (ii) {
#define M(k, nm, ct) case k: rc = (flav == 0) ? ncmpi_put_var_##nm##_all(ncid, varid, (const ct *)buf) : \
                               (flav == 1) ? ncmpi_put_vara_##nm##_all(ncid, varid, start, count, (const ct *)buf) : \
                                             ncmpi_put_vara_##nm(ncid, varid, start, count, (const ct *)buf); break;
    ITYPES(M)
#undef M
    }
    if (flav == 3) ncmpi_end_indep_data(ncid);
    return rc;
}
static int api_get_var(int ncid, int varid, int ii, int flav, MPI_Offset n, void *buf)
{
    MPI_Offset start[1] = {0}, count[1];
    int rc = -9999, e;
    count[0] = n;
    if (flav == 2) return ncmpi_get_vara_all(ncid, varid, start, count, buf, n, mpitype(ii));
    if (flav == 3) { e = ncmpi_begin_indep_data(ncid); if (e) return -9000 + e; }
    switch (ii) {
#define M(k, nm, ct) case k: rc = (flav == 0) ? ncmpi_get_var_##nm##_all(ncid, varid, (ct *)buf) : \
                               (flav == 1) ? ncmpi_get_vara_##nm##_all(ncid, varid, start, count, (ct *)buf) : \
                                             ncmpi_get_vara_##nm(ncid, varid, start, count, (ct *)buf); break;
    ITYPES(M)
#undef M
    }
    if (flav == 3) ncmpi_end_indep_data(ncid);
    return rc;
}
static int api_put_att(int ncid, int ii, nc_type xt, MPI_Offset n, const void *buf)
{
    switch (ii) {
    case 11: return ncmpi_put_att_text(ncid, NC_GLOBAL, "a", n, (const char *)buf);
#define M(k, nm, ct) case k: return ncmpi_put_att_##nm(ncid, NC_GLOBAL, "a", xt, n, (const ct *)buf);
    M(0, schar, signed char) M(1, uchar, unsigned char) M(2, short, short) M(3, ushort, unsigned short)
    M(4, int, int) M(5, uint, unsigned int) M(6, long, long) M(7, float, float) M(8, double, double)
    M(9, longlong, long long) M(10, ulonglong, unsigned long long)
#undef M
    }
    return -9999;
}
static int api_get_att(int ncid, int ii, void *buf)
{
    switch (ii) {
#define M(k, nm, ct) case k: return ncmpi_get_att_##nm(ncid, NC_GLOBAL, "a", (ct *)buf);
    ITYPES(M)
#undef M
    }
    return -9999;
}

#define NTYPES(M) M(0, schar, signed char) M(1, uchar, unsigned char) M(2, short, short) M(3, ushort, unsigned short) \
    M(4, int, int) M(5, uint, unsigned int) M(6, long, long) M(7, float, float) M(8, double, double) \
    M(9, longlong, long long) M(10, ulonglong, unsigned long long)
static int api_nb(int kind, int ncid, int varid, int ii, void *buf, int *req)
{
    switch (ii) {
#define M(k, nm, ct) case k: return kind == 0 ? ncmpi_iget_var_##nm(ncid, varid, (ct *)buf, req) : \
                                    kind == 1 ? ncmpi_iput_var_##nm(ncid, varid, (const ct *)buf, req) : \
                                                ncmpi_bput_var_##nm(ncid, varid, (const ct *)buf, req);
    NTYPES(M)
#undef M
    }
    return -9999;
}
static int api_put_varn(int ncid, int varid, int ii, int coll, int num, MPI_Offset *const *starts, MPI_Offset *const *counts, const void *buf)
{
    switch (ii) {
#define M(k, nm, ct) case k: return coll ? ncmpi_put_varn_##nm##_all(ncid, varid, num, starts, counts, (const ct *)buf) : \
                                           ncmpi_put_varn_##nm(ncid, varid, num, starts, counts, (const ct *)buf);
    NTYPES(M)
#undef M
    }
    return -9999;
}
static int api_mput_var(int ncid, int ii, int coll, int nv, int *varids, void **bufs)
{
    switch (ii) {
#define M(k, nm, ct) case k: return coll ? ncmpi_mput_var_##nm##_all(ncid, nv, varids, (ct *const *)bufs) : \
                                           ncmpi_mput_var_##nm(ncid, nv, varids, (ct *const *)bufs);
    NTYPES(M)
#undef M
    }
    return -9999;
}

/* ---- direct access to the element-wise conversion functions of ncx.c ---- */
typedef int (*putn_t)(void **, MPI_Offset, const void *, void *);
typedef int (*getn_t)(const void **, MPI_Offset, void *);
#define DECLX(X) DECL(X, schar) DECL(X, uchar) DECL(X, short) DECL(X, ushort) DECL(X, int) DECL(X, uint) DECL(X, long) \
                 DECL(X, float) DECL(X, double) DECL(X, longlong) DECL(X, ulonglong)
#define DECL(X, I) extern int ncmpix_putn_NC_##X##_##I(); extern int ncmpix_getn_NC_##X##_##I();
DECLX(BYTE) DECLX(UBYTE) DECLX(SHORT) DECLX(USHORT) DECLX(INT) DECLX(UINT) DECLX(FLOAT) DECLX(DOUBLE) DECLX(INT64) DECLX(UINT64)
#undef DECL
#define DECL(X, I) extern int ncmpix_pad_putn_NC_##X##_##I(); extern int ncmpix_pad_getn_NC_##X##_##I();
DECLX(BYTE) DECLX(UBYTE) DECLX(SHORT) DECLX(USHORT)
#undef DECL
#define ROW(P, X) { (void *)ncmpix_##P##_NC_##X##_schar, (void *)ncmpix_##P##_NC_##X##_uchar, (void *)ncmpix_##P##_NC_##X##_short, \
    (void *)ncmpix_##P##_NC_##X##_ushort, (void *)ncmpix_##P##_NC_##X##_int, (void *)ncmpix_##P##_NC_##X##_uint, \
    (void *)ncmpix_##P##_NC_##X##_long, (void *)ncmpix_##P##_NC_##X##_float, (void *)ncmpix_##P##_NC_##X##_double, \
    (void *)ncmpix_##P##_NC_##X##_longlong, (void *)ncmpix_##P##_NC_##X##_ulonglong }
static void *putn_tab[10][11] = { ROW(putn, BYTE), ROW(putn, UBYTE), ROW(putn, SHORT), ROW(putn, USHORT), ROW(putn, INT),
    ROW(putn, UINT), ROW(putn, FLOAT), ROW(putn, DOUBLE), ROW(putn, INT64), ROW(putn, UINT64) };
static void *getn_tab[10][11] = { ROW(getn, BYTE), ROW(getn, UBYTE), ROW(getn, SHORT), ROW(getn, USHORT), ROW(getn, INT),
    ROW(getn, UINT), ROW(getn, FLOAT), ROW(getn, DOUBLE), ROW(getn, INT64), ROW(getn, UINT64) };
static void *pad_putn_tab[4][11] = { ROW(pad_putn, BYTE), ROW(pad_putn, UBYTE), ROW(pad_putn, SHORT), ROW(pad_putn, USHORT) };
static void *pad_getn_tab[4][11] = { ROW(pad_getn, BYTE), ROW(pad_getn, UBYTE), ROW(pad_getn, SHORT), ROW(pad_getn, USHORT) };

/* ---- helpers ---- */
static char path[4096];
static const char *scratch;
static int fileno_ = 0;

static int cmode_of(int fmt) { return NC_CLOBBER | (fmt == 5 ? NC_64BIT_DATA : fmt == 2 ? NC_64BIT_OFFSET : 0); }

static void fail(const char *id, const char *what, int e)
{
    printf("%s HARNESS-ERROR %s %d %s\n", id, what, e, e ? ncmpi_strerror(e) : "");
}

/* offset of the values of the single global attribute "a" in a file that has nothing else */
static long att_value_offset(int fmt) { return fmt == 5 ? 60 : 40; }

#define MAXTOK 70000
static char *tok[MAXTOK];

int main(int argc, char **argv)
{
    FILE *f;
    char *line = NULL;
    size_t cap = 0;
    MPI_Init(&argc, &argv);
    if (argc < 3) { fprintf(stderr, "usage: c09_conv cmdfile scratchdir\n"); MPI_Finalize(); return 2; }
    f = fopen(argv[1], "r");
    if (!f) { perror("cmdfile"); MPI_Finalize(); return 2; }
    scratch = argv[2];
    snprintf(path, sizeof path, "%s/c09_%d.nc", scratch, (int)getpid());

    while (getline(&line, &cap, f) > 0) {
        int nt = 0;
        char *p = strtok(line, " \n");
        while (p && nt < MAXTOK) { tok[nt++] = p; p = strtok(NULL, " \n"); }
        if (nt < 2) continue;
        const char *id = tok[1];
        char k = tok[0][0];

        if (k == 'V' || k == 'G') {
            int fmt = atoi(tok[2]), xi = atoi(tok[3]), ii = atoi(tok[4]), flav = atoi(tok[5]);
            int a = (k == 'V') ? 8 : 6;
            int hasfill = (k == 'V') ? atoi(tok[6]) : 0;
            u64 fillc = (k == 'V') ? parse_code(tok[7]) : 0;
            long n = atol(tok[a]);
            int ncid, dimid, varid, e, rc, xs = xsize[xi], is = isize[ii];
            MPI_Offset off = 0;
            long j;
            if (nt != a + 1 + n || n <= 0) { fail(id, "arity", 0); continue; }
            e = ncmpi_create(MPI_COMM_WORLD, path, cmode_of(fmt), MPI_INFO_NULL, &ncid);
            if (e) { fail(id, "create", e); continue; }
            e = ncmpi_def_dim(ncid, "d", n, &dimid);
            if (!e) e = ncmpi_def_var(ncid, "v", xnc[xi], 1, &dimid, &varid);
            if (e) { fail(id, "def", e); ncmpi_close(ncid); continue; }
            if (hasfill) {
                unsigned char fb[8];
                mem_store(fb, 0, xs, fillc);
                e = ncmpi_put_att(ncid, varid, "_FillValue", xnc[xi], 1, fb);
                if (e) { fail(id, "fillatt", e); ncmpi_close(ncid); continue; }
            }
            e = ncmpi_enddef(ncid);
            if (!e) e = ncmpi_inq_varoffset(ncid, varid, &off);
            if (e) { fail(id, "enddef", e); ncmpi_close(ncid); continue; }
            if (k == 'V') {
                void *buf = malloc((size_t)n * is + 8);
                unsigned char *raw = malloc((size_t)n * xs + 8);
                int fd;
                for (j = 0; j < n; j++) mem_store(buf, j, is, parse_code(tok[a + 1 + j]));
                /* make the region defined before the call (0x5A bytes), so that an element the
                   conversion leaves unwritten is visible and never-written bytes are not compared */
                ncmpi_close(ncid);
                memset(raw, 0x5A, (size_t)n * xs);
                fd = open(path, O_WRONLY);
                if (fd < 0 || pwrite(fd, raw, (size_t)n * xs, off) != (ssize_t)((size_t)n * xs)) { fail(id, "pwrite", 0); if (fd >= 0) close(fd); free(buf); free(raw); continue; }
                close(fd);
                e = ncmpi_open(MPI_COMM_WORLD, path, NC_WRITE, MPI_INFO_NULL, &ncid);
                if (e) { fail(id, "reopen", e); free(buf); free(raw); continue; }
                rc = api_put_var(ncid, varid, ii, flav, n, buf);
                e = ncmpi_close(ncid);
                if (e) { fail(id, "close", e); free(buf); free(raw); continue; }
                fd = open(path, O_RDONLY);
                if (fd < 0 || pread(fd, raw, (size_t)n * xs, off) != (ssize_t)((size_t)n * xs)) { fail(id, "pread", 0); if (fd >= 0) close(fd); free(buf); free(raw); continue; }
                close(fd);
                printf("%s %d %ld", id, rc, n);
                for (j = 0; j < n; j++) print_code(be_load(raw + j * xs, xs, xsigned[xi]), xsigned[xi]);
                printf("\n");
                free(buf); free(raw);
            } else {
                unsigned char *raw = malloc((size_t)n * xs + 8);
                void *buf = malloc((size_t)n * is + 8);
                int fd;
                ncmpi_close(ncid);
                for (j = 0; j < n; j++) be_store(raw + j * xs, xs, parse_code(tok[a + 1 + j]));
                fd = open(path, O_WRONLY);
                if (fd < 0 || pwrite(fd, raw, (size_t)n * xs, off) != (ssize_t)((size_t)n * xs)) { fail(id, "pwrite", 0); if (fd >= 0) close(fd); free(buf); free(raw); continue; }
                close(fd);
                e = ncmpi_open(MPI_COMM_WORLD, path, NC_NOWRITE, MPI_INFO_NULL, &ncid);
                if (e) { fail(id, "reopen", e); free(buf); free(raw); continue; }
                memset(buf, 0x5A, (size_t)n * is);
                rc = api_get_var(ncid, varid, ii, flav, n, buf);
                ncmpi_close(ncid);
                printf("%s %d %ld", id, rc, n);
                for (j = 0; j < n; j++) print_code(mem_load(buf, j, is, isigned_[ii]), isigned_[ii]);
                printf("\n");
                free(buf); free(raw);
            }
        } else if (k == 'A' || k == 'B') {
            int fmt = atoi(tok[2]), xi = atoi(tok[3]), ii = atoi(tok[4]);
            long n = atol(tok[5]), j;
            int ncid, e, rc, xs = xsize[xi], is = isize[ii], fd;
            long voff = att_value_offset(fmt);
            unsigned char hdr[64];
            if (nt != 6 + n || n <= 0) { fail(id, "arity", 0); continue; }
            e = ncmpi_create(MPI_COMM_WORLD, path, cmode_of(fmt), MPI_INFO_NULL, &ncid);
            if (e) { fail(id, "create", e); continue; }
            if (k == 'A') {
                void *buf = malloc((size_t)n * is + 8);
                unsigned char *raw = malloc((size_t)n * xs + 8);
                nc_type got_t; MPI_Offset got_n;
                for (j = 0; j < n; j++) mem_store(buf, j, is, parse_code(tok[6 + j]));
                rc = api_put_att(ncid, ii, xnc[xi], n, buf);
                e = ncmpi_inq_att(ncid, NC_GLOBAL, "a", &got_t, &got_n);
                if (e) {          /* attribute not created (NC_ECHAR ...) */
                    ncmpi_close(ncid);
                    printf("%s %d 0\n", id, rc);
                    free(buf); free(raw); continue;
                }
                e = ncmpi_close(ncid);
                if (e) { fail(id, "close", e); free(buf); free(raw); continue; }
                fd = open(path, O_RDONLY);
                if (fd < 0 || pread(fd, hdr, voff, 0) != voff || pread(fd, raw, (size_t)n * xs, voff) != (ssize_t)((size_t)n * xs)) { fail(id, "pread", 0); if (fd >= 0) close(fd); free(buf); free(raw); continue; }
                close(fd);
                /* sanity: the nc_type word that precedes nelems must be the attribute's type */
                if (be_load(hdr + voff - (fmt == 5 ? 12 : 8), 4, 0) != (u64)xnc[xi] || got_n != n) { fail(id, "header-layout", 0); free(buf); free(raw); continue; }
                printf("%s %d %ld", id, rc, n);
                for (j = 0; j < n; j++) print_code(be_load(raw + j * xs, xs, xsigned[xi]), xsigned[xi]);
                printf("\n");
                free(buf); free(raw);
            } else {
                /* create the attribute with zeros of its own type, then plant the bytes */
                unsigned char *raw = calloc((size_t)n * xs + 8, 1);
                void *buf = malloc((size_t)n * is + 8);
                e = ncmpi_put_att(ncid, NC_GLOBAL, "a", xnc[xi], n, raw);
                if (e) { fail(id, "put_att", e); ncmpi_close(ncid); free(buf); free(raw); continue; }
                e = ncmpi_close(ncid);
                if (e) { fail(id, "close", e); free(buf); free(raw); continue; }
                for (j = 0; j < n; j++) be_store(raw + j * xs, xs, parse_code(tok[6 + j]));
                fd = open(path, O_RDWR);
                if (fd < 0 || pread(fd, hdr, voff, 0) != voff ||
                    be_load(hdr + voff - (fmt == 5 ? 12 : 8), 4, 0) != (u64)xnc[xi] ||
                    pwrite(fd, raw, (size_t)n * xs, voff) != (ssize_t)((size_t)n * xs)) { fail(id, "plant", 0); if (fd >= 0) close(fd); free(buf); free(raw); continue; }
                close(fd);
                e = ncmpi_open(MPI_COMM_WORLD, path, NC_NOWRITE, MPI_INFO_NULL, &ncid);
                if (e) { fail(id, "reopen", e); free(buf); free(raw); continue; }
                memset(buf, 0x5A, (size_t)n * is);
                rc = api_get_att(ncid, ii, buf);
                ncmpi_close(ncid);
                printf("%s %d %ld", id, rc, n);
                for (j = 0; j < n; j++) print_code(mem_load(buf, j, is, isigned_[ii]), isigned_[ii]);
                printf("\n");
                free(buf); free(raw);
            }
        } else if (k == 'L' || k == 'S') {
            int put = atoi(tok[2]), pad = atoi(tok[3]), xi = atoi(tok[4]), ii = atoi(tok[5]);
            int hasfill = atoi(tok[6]);
            u64 fillc = parse_code(tok[7]);
            long n, j, lo = 0;
            int xs = xsize[xi], is = isize[ii], rc;
            unsigned char fillb[8];
            void *fn;
            if (k == 'L') { n = atol(tok[8]); if (nt != 9 + n) { fail(id, "arity", 0); continue; } }
            else { lo = atol(tok[8]); n = atol(tok[9]) - lo + 1; }
            if (xi > 9 || ii > 10 || (pad && xi > 3) || n <= 0) { fail(id, "args", 0); continue; }
            fn = put ? (pad ? pad_putn_tab[xi][ii] : putn_tab[xi][ii]) : (pad ? pad_getn_tab[xi][ii] : getn_tab[xi][ii]);
            if (put) {
                void *buf = malloc((size_t)n * is + 8);
                unsigned char *raw = malloc((size_t)n * xs + 16);
                void *xp = raw;
                for (j = 0; j < n; j++) mem_store(buf, j, is, k == 'L' ? parse_code(tok[9 + j]) : (u64)(i64)(lo + j));
                memset(raw, 0x5A, (size_t)n * xs + 16);
                mem_store(fillb, 0, xs, fillc);       /* fill value in internal (native) representation */
                rc = ((putn_t)fn)(&xp, n, buf, hasfill ? fillb : NULL);
                printf("%s %d %ld", id, rc, n);
                for (j = 0; j < n; j++) print_code(be_load(raw + j * xs, xs, xsigned[xi]), xsigned[xi]);
                printf("\n");
                free(buf); free(raw);
            } else {
                unsigned char *raw = malloc((size_t)n * xs + 16);
                void *buf = malloc((size_t)n * is + 8);
                const void *xp = raw;
                memset(raw, 0, (size_t)n * xs + 16);
                for (j = 0; j < n; j++) be_store(raw + j * xs, xs, k == 'L' ? parse_code(tok[9 + j]) : (u64)(i64)(lo + j));
                memset(buf, 0x5A, (size_t)n * is);
                rc = ((getn_t)fn)(&xp, n, buf);
                printf("%s %d %ld", id, rc, n);
                for (j = 0; j < n; j++) print_code(mem_load(buf, j, is, isigned_[ii]), isigned_[ii]);
                printf("\n");
                free(buf); free(raw);
            }
        } else if (k == 'N') {
            int fmt = atoi(tok[2]), wmode = atoi(tok[3]), nr = atoi(tok[4]);
            int perm[16], kind[16], vslot[16], rxi[16], rii[16], varid[16], req[16], st[16], post[16], wreq[16];
            long rn[16], j;
            int first[16], ncid, dimid[16], e = 0, r, t, rcw, bad = 0, anyb = 0;
            void *ubuf[16];
            MPI_Offset voff[16];
            if (nr < 1 || nr > 16) { fail(id, "args", 0); continue; }
            t = 5;
            for (r = 0; r < nr; r++) perm[r] = atoi(tok[t++]);
            for (r = 0; r < nr && !bad; r++) {
                if (t + 5 > nt) { bad = 1; break; }
                kind[r] = atoi(tok[t]); vslot[r] = atoi(tok[t + 1]); rxi[r] = atoi(tok[t + 2]); rii[r] = atoi(tok[t + 3]);
                rn[r] = atol(tok[t + 4]); first[r] = t + 5; t += 5 + rn[r];
                if (t > nt || rn[r] <= 0 || rxi[r] > 9 || rii[r] > 10 || vslot[r] < 0 || vslot[r] >= nr) bad = 1;
                if (kind[r] == 2) anyb = 1;
            }
            if (bad || t != nt) { fail(id, "arity", 0); continue; }
            e = ncmpi_create(MPI_COMM_WORLD, path, cmode_of(fmt), MPI_INFO_NULL, &ncid);
            if (e) { fail(id, "create", e); continue; }
            for (j = 0; j < nr && !e; j++) {           /* variables in slot order */
                char nm[16];
                for (r = 0; r < nr; r++) if (vslot[r] == j) break;
                if (r == nr) { e = -1; break; }
                snprintf(nm, sizeof nm, "d%ld", j);
                e = ncmpi_def_dim(ncid, nm, rn[r], &dimid[r]);
                snprintf(nm, sizeof nm, "v%ld", j);
                if (!e) e = ncmpi_def_var(ncid, nm, xnc[rxi[r]], 1, &dimid[r], &varid[r]);
            }
            if (!e) e = ncmpi_enddef(ncid);
            for (r = 0; r < nr && !e; r++) e = ncmpi_inq_varoffset(ncid, varid[r], &voff[r]);
            if (e) { fail(id, "define", e); ncmpi_close(ncid); continue; }
            ncmpi_close(ncid);
            {   /* plant: get variables hold the given external values, put variables 0x5A */
                int fd = open(path, O_WRONLY);
                for (r = 0; r < nr && fd >= 0; r++) {
                    int xs = xsize[rxi[r]];
                    unsigned char *raw = malloc((size_t)rn[r] * xs + 8);
                    memset(raw, 0x5A, (size_t)rn[r] * xs);
                    if (kind[r] == 0) for (j = 0; j < rn[r]; j++) be_store(raw + j * xs, xs, parse_code(tok[first[r] + j]));
                    if (pwrite(fd, raw, (size_t)rn[r] * xs, voff[r]) != (ssize_t)((size_t)rn[r] * xs)) e = -1;
                    free(raw);
                }
                if (fd < 0) e = -1; else close(fd);
            }
            if (e) { fail(id, "plant", 0); continue; }
            e = ncmpi_open(MPI_COMM_WORLD, path, NC_WRITE, MPI_INFO_NULL, &ncid);
            if (e) { fail(id, "reopen", e); continue; }
            if (anyb) { e = ncmpi_buffer_attach(ncid, 1 << 20); if (e) { fail(id, "attach", e); ncmpi_close(ncid); continue; } }
            if (wmode == 1) { e = ncmpi_begin_indep_data(ncid); if (e) { fail(id, "indep", e); ncmpi_close(ncid); continue; } }
            for (r = 0; r < nr; r++) {
                int is = isize[rii[r]];
                ubuf[r] = malloc((size_t)rn[r] * is + 8);
                if (kind[r] == 0) memset(ubuf[r], 0x5A, (size_t)rn[r] * is);
                else for (j = 0; j < rn[r]; j++) mem_store(ubuf[r], j, is, parse_code(tok[first[r] + j]));
                req[r] = NC_REQ_NULL;
                post[r] = api_nb(kind[r], ncid, varid[r], rii[r], ubuf[r], &req[r]);
            }
            for (r = 0; r < nr; r++) { wreq[r] = req[perm[r]]; st[r] = -7777; }
            rcw = (wmode == 1) ? ncmpi_wait(ncid, nr, wreq, st) : ncmpi_wait_all(ncid, nr, wreq, st);
            if (wmode == 1) ncmpi_end_indep_data(ncid);
            if (anyb) ncmpi_buffer_detach(ncid);
            e = ncmpi_close(ncid);
            printf("%s %d %d", id, rcw, nr);
            {
                int fd = open(path, O_RDONLY);
                for (r = 0; r < nr; r++) {
                    int w, stat = -7777;
                    for (w = 0; w < nr; w++) if (perm[w] == r) stat = st[w];
                    printf(" R %d %d %ld", post[r], stat, rn[r]);
                    if (kind[r] == 0) {
                        for (j = 0; j < rn[r]; j++) print_code(mem_load(ubuf[r], j, isize[rii[r]], isigned_[rii[r]]), isigned_[rii[r]]);
                    } else {
                        int xs = xsize[rxi[r]];
                        unsigned char *raw = malloc((size_t)rn[r] * xs + 8);
                        memset(raw, 0, (size_t)rn[r] * xs);
                        if (fd >= 0) pread(fd, raw, (size_t)rn[r] * xs, voff[r]);
                        for (j = 0; j < rn[r]; j++) print_code(be_load(raw + j * xs, xs, xsigned[rxi[r]]), xsigned[rxi[r]]);
                        free(raw);
                    }
                    free(ubuf[r]);
                }
                if (fd >= 0) close(fd);
            }
            printf(" C %d\n", e);
        } else if (k == 'W' || k == 'M') {
            int fmt = atoi(tok[2]), coll = atoi(tok[3]), xi = atoi(tok[4]), ii = atoi(tok[5]);
            int nv = (k == 'M') ? atoi(tok[6]) : 1;
            int a = (k == 'M') ? 7 : 6;
            long n = atol(tok[a]), j, tot = (long)nv * n;
            int ncid, dimid, varid[16], e = 0, rc, xs = xsize[xi], is = isize[ii], v, pend = -1, rcc, fd;
            MPI_Offset voff[16];
            void *buf;
            unsigned char *raw;
            if (nt != a + 1 + tot || n < 2 || nv < 1 || nv > 16 || xi > 9 || ii > 10) { fail(id, "arity", 0); continue; }
            e = ncmpi_create(MPI_COMM_WORLD, path, cmode_of(fmt), MPI_INFO_NULL, &ncid);
            if (e) { fail(id, "create", e); continue; }
            e = ncmpi_def_dim(ncid, "d", n, &dimid);
            for (v = 0; v < nv && !e; v++) { char nm[16]; snprintf(nm, sizeof nm, "v%d", v); e = ncmpi_def_var(ncid, nm, xnc[xi], 1, &dimid, &varid[v]); }
            if (!e) e = ncmpi_enddef(ncid);
            for (v = 0; v < nv && !e; v++) e = ncmpi_inq_varoffset(ncid, varid[v], &voff[v]);
            if (e) { fail(id, "define", e); ncmpi_close(ncid); continue; }
            ncmpi_close(ncid);
            raw = malloc((size_t)n * xs + 8);
            memset(raw, 0x5A, (size_t)n * xs);
            fd = open(path, O_WRONLY);
            for (v = 0; v < nv && fd >= 0; v++) if (pwrite(fd, raw, (size_t)n * xs, voff[v]) != (ssize_t)((size_t)n * xs)) e = -1;
            if (fd < 0) e = -1; else close(fd);
            if (e) { fail(id, "plant", 0); free(raw); continue; }
            e = ncmpi_open(MPI_COMM_WORLD, path, NC_WRITE, MPI_INFO_NULL, &ncid);
            if (e) { fail(id, "reopen", e); free(raw); continue; }
            buf = malloc((size_t)tot * is + 8);
            for (j = 0; j < tot; j++) mem_store(buf, j, is, parse_code(tok[a + 1 + j]));
            if (!coll) ncmpi_begin_indep_data(ncid);
            if (k == 'W') {
                MPI_Offset s0[1] = {0}, c0[1], s1[1], c1[1];
                MPI_Offset *starts[2] = {s0, s1}, *counts[2] = {c0, c1};
                c0[0] = n / 2; s1[0] = n / 2; c1[0] = n - n / 2;
                rc = api_put_varn(ncid, varid[0], ii, coll, 2, starts, counts, buf);
            } else {
                void *bufs[16];
                for (v = 0; v < nv; v++) bufs[v] = (char *)buf + (size_t)v * n * is;
                rc = api_mput_var(ncid, ii, coll, nv, varid, bufs);
            }
            ncmpi_inq_nreqs(ncid, &pend);
            if (!coll) ncmpi_end_indep_data(ncid);
            rcc = ncmpi_close(ncid);
            printf("%s %d %d %d %ld", id, rc, pend, rcc, tot);
            fd = open(path, O_RDONLY);
            for (v = 0; v < nv; v++) {
                memset(raw, 0, (size_t)n * xs);
                if (fd >= 0) pread(fd, raw, (size_t)n * xs, voff[v]);
                for (j = 0; j < n; j++) print_code(be_load(raw + j * xs, xs, xsigned[xi]), xsigned[xi]);
            }
            if (fd >= 0) close(fd);
            printf("\n");
            free(buf); free(raw);
        } else {
            printf("%s ?\n", id);
        }
        fflush(stdout);
        fileno_++;
    }
    unlink(path);
    fclose(f);
    MPI_Finalize();
    return 0;
}
