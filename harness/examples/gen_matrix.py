#!/usr/bin/env python3
"""Generate a round-trip script over (kind x form x memtype x api x mode) and
check the observation log of pnc_impl against expected buffers.
usage: gen_matrix.py gen > script ; gen_matrix.py check script log"""
import struct, sys

FMT = {1: 'b', 2: 'B', 3: 'h', 4: 'i', 5: 'f', 6: 'd', 7: 'B', 8: 'H', 9: 'I', 10: 'q', 11: 'Q'}
ELSZ = {1: 1, 2: 1, 3: 2, 4: 4, 5: 4, 6: 8, 7: 1, 8: 2, 9: 4, 10: 8, 11: 8}
FORMS = {
    'var':  ('', 12),
    'var1': ('2 1 2', 1),
    'vara': ('2 1 0 2 3', 6),
    'vars': ('2 0 0 2 2 2 2', 4),
    'varm': ('2 0 0 4 3 1 1 1 4', 12),
    'varn': ('2 2 0 0 1 3 2 1 2 2', 7),
}
G = b'\xa5' * 16

def lim(k):
    if k in (1, 2, 7): return 100
    if k in (3, 8): return 30000
    return 16000000

def val(seed, k, L): return 1 + ((seed * 7919 + k * 104729) % L)

def expect(k, n, seed, vec):
    out = bytearray()
    for i in range(n):
        out += struct.pack('<' + FMT[k], val(seed, i, lim(k)))
        if vec and i < n - 1:
            out += b'\xa5' * ELSZ[k]
    return (G + bytes(out) + G).hex()

def cases():
    seed = 0
    for k in range(1, 12):
        var = 1 if k == 2 else 0
        for form, (args, n) in FORMS.items():
            for api in ('t', 'xc', 'xv'):
                seed += 1
                if api == 't':   mem = 't%d c' % k
                elif api == 'xc': mem = 'x%d c %d' % (k, n)
                else:            mem = 'x%d v %d 1 2' % (k, n)
                tail = (' ' + args) if args else ''
                yield dict(k=k, var=var, form=form, mem=mem, tail=tail, n=n, seed=seed, vec=(api == 'xv'))

def gen():
    L = ['nprocs 1', '* create 0 5 1', '* def_dim 0 78 4', '* def_dim 0 79 3',
         '* def_var 0 64 6 2 0 1', '* def_var 0 63 2 2 0 1', '* enddef 0', '* attach 0 65536']
    exp = {}
    def add(line, e=None):
        L.append(line)
        if e is not None: exp[len(L)] = e
    for mode in ('c', 'i'):
        if mode == 'i': add('* begin_indep 0')
        for c in cases():
            e = expect(c['k'], c['n'], c['seed'], c['vec'])
            add('* put 0 %s %d %s %s%s pat %d' % (mode, c['var'], c['form'], c['mem'], c['tail'], c['seed']), ('put', 'same'))
            add('* get 0 %s %d %s %s%s' % (mode, c['var'], c['form'], c['mem'], c['tail']), ('get', e))
        if mode == 'i': add('* end_indep 0')
    for post in ('iput', 'bput'):
        for c in cases():
            s = c['seed'] % 64
            e = expect(c['k'], c['n'], c['seed'] + 1000, c['vec'])
            add('* %s 0 %d %d %s %s%s pat %d' % (post, s, c['var'], c['form'], c['mem'], c['tail'], c['seed'] + 1000))
            add('* wait 0 c 1 %d' % s, ('wait', 'B%d=same' % s))
            add('* iget 0 %d %d %s %s%s' % (s, c['var'], c['form'], c['mem'], c['tail']))
            add('* wait 0 c 1 %d' % s, ('wait', 'B%d=%s' % (s, e)))
    add('* detach 0'); add('* close 0')
    return L, exp

if sys.argv[1] == 'gen':
    print('\n'.join(gen()[0]))
else:
    L, exp = gen()
    log = {}
    for ln in open(sys.argv[3]):
        f = ln.split()
        log[int(f[0])] = f
    bad = 0
    for i, l in enumerate(L, 1):
        if l.startswith('nprocs'): continue
        f = log.get(i)
        if f is None: print('missing', i, l); bad += 1; continue
        if int(f[3]) != 0: print('rc', i, l, f[3]); bad += 1; continue
        if i in exp:
            kind, e = exp[i]
            if f[-1] != e:
                print('MISMATCH line', i, l, '\n  got', f[-1], '\n  exp', e); bad += 1
    print('checked', len(L), 'lines,', len(exp), 'expectations,', bad, 'bad')
