/* c17_shim.c — PMPI interposition for property C17 (resource lifecycle), linked BEFORE libpnetcdf.a / libmpi
 * into any MPI program (harness/pnc_impl.c, harness/c17_limit.c).  Counts the creation and the release of the
 * MPI objects the PnetCDF library can own:
 *   datatypes    : every MPI_Type_* constructor and MPI_Type_dup   vs  MPI_Type_free
 *   communicators: MPI_Comm_dup / MPI_Comm_split / MPI_Comm_create  vs  MPI_Comm_free
 *   info objects : MPI_Info_create / MPI_Info_dup / MPI_File_get_info  vs  MPI_Info_free
 *   file handles : MPI_File_open  vs  MPI_File_close
 * The wrapper of MPI_Finalize writes ONE report line to $C17_REPORT.<rank> (if C17_REPORT is set):
 *   C17 rank=<r> heap=<bytes or -1> files=<open ncids> types=<c>/<f> comms=<c>/<f> infos=<c>/<f> fh=<c>/<f> commits=<n>
 * heap = ncmpi_inq_malloc_size (only a library configured with --enable-debug traces it; otherwise -1); if heap > 0
 * ncmpi_inq_malloc_list() prints the residues (file, function, line) to stdout.
 * c17_report_now(tag) can be called by a harness to emit an intermediate line "C17@<tag> ...".
 * TABLE PROBE: every MPI_Barrier(MPI_COMM_WORLD) made by the program (the script op `barrier` of pnc_impl; with one
 * process the library makes none) appends a line  "C17#<k> files=<n> ids=<id,id,...>"  = ncmpi_inq_files_opened
 * count and list at that moment (k = 1, 2, ... counts the barriers).
 * The harness's own MPI objects are part of the counts; harnesses free what they create. */
#include <stdio.h>
#include <stdlib.h>
#include <string.h>
#include <mpi.h>
#include <pnetcdf.h>

static long n_type_c, n_type_f, n_type_commit, n_comm_c, n_comm_f, n_info_c, n_info_f, n_fh_c, n_fh_f;

#define TYPE_CTOR(name, proto, args)                                   \
    int name proto { int rc = P##name args;                           \
        if (rc == MPI_SUCCESS) n_type_c++; return rc; }

TYPE_CTOR(MPI_Type_contiguous, (int count, MPI_Datatype oldtype, MPI_Datatype *newtype), (count, oldtype, newtype))
TYPE_CTOR(MPI_Type_vector, (int count, int blocklength, int stride, MPI_Datatype oldtype, MPI_Datatype *newtype),
          (count, blocklength, stride, oldtype, newtype))
TYPE_CTOR(MPI_Type_create_hvector, (int count, int blocklength, MPI_Aint stride, MPI_Datatype oldtype, MPI_Datatype *newtype),
          (count, blocklength, stride, oldtype, newtype))
TYPE_CTOR(MPI_Type_indexed, (int count, const int bl[], const int disp[], MPI_Datatype oldtype, MPI_Datatype *newtype),
          (count, bl, disp, oldtype, newtype))
TYPE_CTOR(MPI_Type_create_hindexed, (int count, const int bl[], const MPI_Aint disp[], MPI_Datatype oldtype, MPI_Datatype *newtype),
          (count, bl, disp, oldtype, newtype))
TYPE_CTOR(MPI_Type_create_indexed_block, (int count, int bl, const int disp[], MPI_Datatype oldtype, MPI_Datatype *newtype),
          (count, bl, disp, oldtype, newtype))
TYPE_CTOR(MPI_Type_create_hindexed_block, (int count, int bl, const MPI_Aint disp[], MPI_Datatype oldtype, MPI_Datatype *newtype),
          (count, bl, disp, oldtype, newtype))
TYPE_CTOR(MPI_Type_create_struct, (int count, const int bl[], const MPI_Aint disp[], const MPI_Datatype types[], MPI_Datatype *newtype),
          (count, bl, disp, types, newtype))
TYPE_CTOR(MPI_Type_create_subarray, (int ndims, const int sizes[], const int subsizes[], const int starts[], int order,
                                     MPI_Datatype oldtype, MPI_Datatype *newtype),
          (ndims, sizes, subsizes, starts, order, oldtype, newtype))
TYPE_CTOR(MPI_Type_create_darray, (int size, int rank, int ndims, const int gsizes[], const int distribs[], const int dargs[],
                                   const int psizes[], int order, MPI_Datatype oldtype, MPI_Datatype *newtype),
          (size, rank, ndims, gsizes, distribs, dargs, psizes, order, oldtype, newtype))
TYPE_CTOR(MPI_Type_create_resized, (MPI_Datatype oldtype, MPI_Aint lb, MPI_Aint extent, MPI_Datatype *newtype),
          (oldtype, lb, extent, newtype))
TYPE_CTOR(MPI_Type_dup, (MPI_Datatype oldtype, MPI_Datatype *newtype), (oldtype, newtype))

int MPI_Type_commit(MPI_Datatype *t) { n_type_commit++; return PMPI_Type_commit(t); }
int MPI_Type_free(MPI_Datatype *t) { int rc = PMPI_Type_free(t); if (rc == MPI_SUCCESS) n_type_f++; return rc; }

int MPI_Comm_dup(MPI_Comm c, MPI_Comm *n) { int rc = PMPI_Comm_dup(c, n); if (rc == MPI_SUCCESS) n_comm_c++; return rc; }
int MPI_Comm_split(MPI_Comm c, int color, int key, MPI_Comm *n)
{ int rc = PMPI_Comm_split(c, color, key, n); if (rc == MPI_SUCCESS && *n != MPI_COMM_NULL) n_comm_c++; return rc; }
int MPI_Comm_create(MPI_Comm c, MPI_Group g, MPI_Comm *n)
{ int rc = PMPI_Comm_create(c, g, n); if (rc == MPI_SUCCESS && *n != MPI_COMM_NULL) n_comm_c++; return rc; }
int MPI_Comm_free(MPI_Comm *c) { int rc = PMPI_Comm_free(c); if (rc == MPI_SUCCESS) n_comm_f++; return rc; }

int MPI_Info_create(MPI_Info *i) { int rc = PMPI_Info_create(i); if (rc == MPI_SUCCESS) n_info_c++; return rc; }
int MPI_Info_dup(MPI_Info i, MPI_Info *n) { int rc = PMPI_Info_dup(i, n); if (rc == MPI_SUCCESS) n_info_c++; return rc; }
int MPI_File_get_info(MPI_File fh, MPI_Info *i)
{ int rc = PMPI_File_get_info(fh, i); if (rc == MPI_SUCCESS && *i != MPI_INFO_NULL) n_info_c++; return rc; }
int MPI_Info_free(MPI_Info *i) { int rc = PMPI_Info_free(i); if (rc == MPI_SUCCESS) n_info_f++; return rc; }

int MPI_File_open(MPI_Comm c, const char *fn, int amode, MPI_Info info, MPI_File *fh)
{ int rc = PMPI_File_open(c, fn, amode, info, fh); if (rc == MPI_SUCCESS) n_fh_c++; return rc; }
int MPI_File_close(MPI_File *fh) { int rc = PMPI_File_close(fh); if (rc == MPI_SUCCESS) n_fh_f++; return rc; }

static void c17_line(FILE *f, const char *head, int list)
{
    int rank = 0, nfiles = -1;
    MPI_Offset heap = -1;
    PMPI_Comm_rank(MPI_COMM_WORLD, &rank);
    if (ncmpi_inq_malloc_size(&heap) != NC_NOERR) heap = -1;
    ncmpi_inq_files_opened(&nfiles, NULL);
    fprintf(f, "%s rank=%d heap=%lld files=%d types=%ld/%ld comms=%ld/%ld infos=%ld/%ld fh=%ld/%ld commits=%ld\n",
            head, rank, (long long)heap, nfiles, n_type_c, n_type_f, n_comm_c, n_comm_f, n_info_c, n_info_f, n_fh_c, n_fh_f,
            n_type_commit);
    fflush(f);
    if (heap > 0 && list) { fflush(stdout); ncmpi_inq_malloc_list(); fflush(stdout); }
}

static FILE *c17_open(void)
{
    char path[4096];
    int rank = 0;
    const char *base = getenv("C17_REPORT");
    if (base == NULL) return NULL;
    PMPI_Comm_rank(MPI_COMM_WORLD, &rank);
    snprintf(path, sizeof path, "%s.%d", base, rank);
    return fopen(path, "a");
}

static long n_barrier;
int MPI_Barrier(MPI_Comm comm)
{
    if (comm == MPI_COMM_WORLD && getenv("C17_REPORT") != NULL && getenv("C17_TABLE_PROBE") != NULL) {
        FILE *f = c17_open();
        if (f != NULL) {
            int n = -1, n2 = -1, i, ids[NC_MAX_NFILES + 8];
            n_barrier++;
            ncmpi_inq_files_opened(&n, NULL);
            for (i = 0; i < NC_MAX_NFILES + 8; i++) ids[i] = -77;
            ncmpi_inq_files_opened(&n2, ids);
            fprintf(f, "C17#%ld files=%d listed=%d ids=", n_barrier, n, n2);
            for (i = 0; i < n2 && i < NC_MAX_NFILES + 8; i++) fprintf(f, "%s%d", i ? "," : "", ids[i]);
            fprintf(f, "\n");
            fclose(f);
        }
    }
    return PMPI_Barrier(comm);
}

void c17_report_now(const char *tag)
{
    char head[256];
    FILE *f = c17_open();
    if (f == NULL) return;
    snprintf(head, sizeof head, "C17@%s", tag);
    c17_line(f, head, 0);
    fclose(f);
}

int MPI_Finalize(void)
{
    FILE *f = c17_open();
    if (f != NULL) { c17_line(f, "C17", 1); fclose(f); }
    return PMPI_Finalize();
}
