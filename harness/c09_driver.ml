(* c09_driver.ml — unverified glue for C09: reads the command file of harness/c09_conv.c and
   prints, for every command, the prediction of the extracted Coq MODEL (Convert.api_model /
   leaf_model: interpreter of Gen_ncx.ncx_table) or of the extracted Coq SPEC (api_spec / leaf_spec).
   usage: c09_driver (model|spec) <cmdfile>
   output, one line per command:   <id> <status> <n> <kinds> <code_1> ... <code_n>
   (N: <id> <wait rc> <k> { R <post rc> <status word> <n> <kinds> <codes> }*k C 0 ;
    W/M: <id> <status> <pending> <close status> <n> <kinds> <codes>)
   kinds = string of n digits: 0 NOERR value, 1 ERANGE value(fill), 2 ERANGE nothing stored,
           3 undefined behaviour, 4 unrecognised function;  n = 0 prints kinds "-" .
   zarith is used only for decimal I/O of Coq's Z. *)
module BZ = Z
open C09_model

let rec pos_of_big (n : BZ.t) : positive =
  if BZ.equal n BZ.one then XH
  else if BZ.is_even n then XO (pos_of_big (BZ.shift_right n 1))
  else XI (pos_of_big (BZ.shift_right n 1))
let z_of_big (n : BZ.t) : z =
  if BZ.sign n = 0 then Z0 else if BZ.sign n > 0 then Zpos (pos_of_big n) else Zneg (pos_of_big (BZ.neg n))
let rec big_of_pos = function
  | XH -> BZ.one
  | XO p -> BZ.shift_left (big_of_pos p) 1
  | XI p -> BZ.succ (BZ.shift_left (big_of_pos p) 1)
let big_of_z = function Z0 -> BZ.zero | Zpos p -> big_of_pos p | Zneg p -> BZ.neg (big_of_pos p)
let zs (s : string) : z = z_of_big (BZ.of_string s)
let sz (x : z) : string = BZ.to_string (big_of_z x)
let zi (i : int) : z = z_of_big (BZ.of_int i)
let iz (x : z) : int = BZ.to_int (big_of_z x)

let print_result id (st, rs) =
  let b = Buffer.create 4096 in
  Buffer.add_string b id; Buffer.add_char b ' ';
  Buffer.add_string b (sz st); Buffer.add_char b ' ';
  let n = List.length rs in
  Buffer.add_string b (string_of_int n); Buffer.add_char b ' ';
  if n = 0 then Buffer.add_char b '-'
  else List.iter (fun (k, _) -> Buffer.add_string b (string_of_int (iz k))) rs;
  List.iter (fun (_, c) -> Buffer.add_char b ' '; Buffer.add_string b (sz c)) rs;
  print_endline (Buffer.contents b)

let elems_str rs =
  let b = Buffer.create 256 in
  let n = List.length rs in
  Buffer.add_string b (string_of_int n); Buffer.add_char b ' ';
  if n = 0 then Buffer.add_char b '-'
  else List.iter (fun (k, _) -> Buffer.add_string b (string_of_int (iz k))) rs;
  List.iter (fun (_, c) -> Buffer.add_char b ' '; Buffer.add_string b (sz c)) rs;
  Buffer.contents b

let rec take n l = if n = 0 then ([], l) else
  match l with x :: r -> let (a, b) = take (n - 1) r in (x :: a, b) | [] -> ([], [])

(* N id fmt wmode k p_0..p_{k-1} {kind vslot xi ii n c...}*k *)
let parse_reqs k toks =
  let rec go k toks acc =
    if k = 0 then List.rev acc else
    match toks with
    | kind :: _vslot :: xi :: ii :: n :: rest ->
        let (cs, rest') = take (int_of_string n) rest in
        go (k - 1) rest' (((((kind <> "0"), zs xi), zs ii), List.map zs cs) :: acc)
    | _ -> List.rev acc in
  go k toks []

let rec range lo hi acc = if hi < lo then acc else range lo (hi - 1) (zi hi :: acc)

let () =
  let mode = Sys.argv.(1) in
  let spec = (mode = "spec") in
  let ic = open_in Sys.argv.(2) in
  (try
     while true do
       let line = input_line ic in
       let t = List.filter (fun s -> s <> "") (String.split_on_char ' ' line) in
       match t with
       | [] -> ()
       | k :: id :: rest ->
           let b s = (s = "1") in
           (match k, rest with
            | "V", fmt :: xi :: ii :: _flav :: hf :: fc :: _n :: cs ->
                let cs = List.map zs cs in
                print_result id
                  (if spec then api_spec true (zs fmt) (zs xi) (zs ii) (b hf) (zs fc) cs
                   else api_model false true (zs fmt) (zs xi) (zs ii) (b hf) (zs fc) cs)
            | "G", fmt :: xi :: ii :: _flav :: _n :: cs ->
                let cs = List.map zs cs in
                print_result id
                  (if spec then api_spec false (zs fmt) (zs xi) (zs ii) false Z0 cs
                   else api_model false false (zs fmt) (zs xi) (zs ii) false Z0 cs)
            | "A", fmt :: xi :: ii :: _n :: cs ->
                let cs = List.map zs cs in
                print_result id
                  (if spec then api_spec true (zs fmt) (zs xi) (zs ii) false Z0 cs
                   else api_model true true (zs fmt) (zs xi) (zs ii) false Z0 cs)
            | "B", fmt :: xi :: ii :: _n :: cs ->
                let cs = List.map zs cs in
                print_result id
                  (if spec then api_spec false (zs fmt) (zs xi) (zs ii) false Z0 cs
                   else api_model true false (zs fmt) (zs xi) (zs ii) false Z0 cs)
            | "L", put :: pad :: xi :: ii :: hf :: fc :: _n :: cs ->
                let cs = List.map zs cs in
                print_result id
                  (if spec then leaf_spec (b put) (zs xi) (zs ii) (b hf) (zs fc) cs
                   else leaf_model (b put) (b pad) (zs xi) (zs ii) (b hf) (zs fc) cs)
            | "S", put :: pad :: xi :: ii :: hf :: fc :: lo :: hi :: [] ->
                let cs = range (int_of_string lo) (int_of_string hi) [] in
                print_result id
                  (if spec then leaf_spec (b put) (zs xi) (zs ii) (b hf) (zs fc) cs
                   else leaf_model (b put) (b pad) (zs xi) (zs ii) (b hf) (zs fc) cs)
            | "N", fmt :: _wmode :: k :: rest ->
                let k = int_of_string k in
                let (_perm, rest) = take k rest in
                let reqs = parse_reqs k rest in
                let (rc, rs) = if spec then nb_spec (zs fmt) reqs else nb_model (zs fmt) reqs in
                let b = Buffer.create 1024 in
                Buffer.add_string b (Printf.sprintf "%s %s %d" id (sz rc) (List.length rs));
                List.iter (fun ((post, st), el) ->
                  Buffer.add_string b (Printf.sprintf " R %s %s %s" (sz post) (sz st) (elems_str el))) rs;
                Buffer.add_string b " C 0";
                print_endline (Buffer.contents b)
            | "W", fmt :: coll :: xi :: ii :: _n :: cs ->
                let cs = List.map zs cs in
                let (((rc, pend), rcc), el) =
                  if spec then varn_spec (zs fmt) (zs xi) (zs ii) cs
                  else varn_model (coll = "0") (zs fmt) (zs xi) (zs ii) cs in
                print_endline (Printf.sprintf "%s %s %s %s %s" id (sz rc) (sz pend) (sz rcc) (elems_str el))
            | "M", fmt :: _coll :: xi :: ii :: nv :: n :: cs ->
                let nv = int_of_string nv and n = int_of_string n in
                let rec split i l = if i = 0 then [] else let (a, r) = take n l in a :: split (i - 1) r in
                let vars = split nv (List.map zs cs) in
                let (((rc, pend), rcc), el) =
                  if spec then mput_spec (zs fmt) (zs xi) (zs ii) vars
                  else mput_model (zs fmt) (zs xi) (zs ii) vars in
                print_endline (Printf.sprintf "%s %s %s %s %s" id (sz rc) (sz pend) (sz rcc) (elems_str el))
            | _ -> print_endline (id ^ " ?"))
       | _ -> ()
     done
   with End_of_file -> ());
  close_in ic
