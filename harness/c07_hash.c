/* c07_hash.c — prints the value of the library's HASH_FUNC macro (ncmpio_NC.h) for each input line
 * "<hsize> <hexname>" of the file given as argv[1]; output "<key>" per line.  Used by checks/C07.py to tie
 * Meta.bernstein to the hash function that the library really uses (whatever HASH_FUNC selects). */
#include <stdio.h>
#include <stdlib.h>
#include <string.h>
#include <mpi.h>
#include <pnetcdf.h>
#include "ncmpio_NC.h"

int main(int argc, char **argv)
{
    char line[4096], name[2048];
    FILE *f;
    if (argc < 2 || (f = fopen(argv[1], "r")) == NULL) return 2;
    while (fgets(line, sizeof line, f)) {
        int hsize; char hex[4000]; size_t i, n;
        if (sscanf(line, "%d %3999s", &hsize, hex) != 2) continue;
        n = strlen(hex) / 2;
        for (i = 0; i < n; i++) { unsigned v; sscanf(hex + 2 * i, "%2x", &v); name[i] = (char)v; }
        name[n] = 0;
        printf("%d\n", HASH_FUNC(name, hsize));
    }
    fclose(f);
    return 0;
}
