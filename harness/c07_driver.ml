(* c07_driver.ml — unverified I/O glue for the extracted metadata model (coq/Meta.v, m_run).
   usage: c07_model <file>   file = whitespace separated decimal integers; the first integer is
   the number of file slots, the rest is the flat item stream decoded by Meta.dec_items (in Coq).
   Output: one line of decimal integers per item (the model's observation). *)
module BZ = Z   (* zarith, before the extracted module Z shadows it *)
open C07_model

let rec pos_of_big (n : BZ.t) : positive =
  if BZ.equal n BZ.one then XH
  else if BZ.is_even n then XO (pos_of_big (BZ.shift_right n 1))
  else XI (pos_of_big (BZ.shift_right n 1))
let z_of_big (n : BZ.t) : z =
  if BZ.sign n = 0 then Z0 else if BZ.sign n > 0 then Zpos (pos_of_big n) else Zneg (pos_of_big (BZ.neg n))
let rec big_of_pos = function
  | XH -> BZ.one
  | XO p -> BZ.shift_left (big_of_pos p) 1
  | XI p -> BZ.succ (BZ.shift_left (big_of_pos p) 1)
let big_of_z = function Z0 -> BZ.zero | Zpos p -> big_of_pos p | Zneg p -> BZ.neg (big_of_pos p)

let () =
  let ic = open_in Sys.argv.(1) in
  let n = in_channel_length ic in
  let s = really_input_string ic n in
  close_in ic;
  let toks = List.filter (fun t -> t <> "") (String.split_on_char ' ' (String.map (fun c -> if c = '\n' || c = '\t' || c = '\r' then ' ' else c) s)) in
  match List.map (fun t -> z_of_big (BZ.of_string t)) toks with
  | [] -> prerr_endline "empty input"; exit 2
  | nslots :: input ->
      let out = m_run nslots input in
      let b = Buffer.create 65536 in
      List.iter (fun line ->
          List.iteri (fun i x -> if i > 0 then Buffer.add_char b ' '; Buffer.add_string b (BZ.to_string (big_of_z x))) line;
          Buffer.add_char b '\n') out;
      print_string (Buffer.contents b)
