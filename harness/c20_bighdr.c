/* c20_bighdr.c — writes, with the public PnetCDF API only, a small file whose HEADER is large:
 * the first global attribute "pad" is a text attribute of <padlen> bytes, so every header field
 * that follows it (further global attributes of several types, the variable list with names of
 * several lengths, dimids, variable attributes, nc_type, vsize, begin) can be slid across a
 * 1 MiB (or 2 MiB) file offset by choosing padlen.  Used by checks/C20.py (family "large header").
 *
 * usage: c20_bighdr <file> <fmt 1|2|5> <padlen> [h_align]
 * exit 0 = written, closed, re-opened and the pad attribute + one variable read back correctly. */
#include <stdio.h>
#include <stdlib.h>
#include <string.h>
#include <mpi.h>
#include <pnetcdf.h>

#define CHK(e) do { int _e = (e); if (_e != NC_NOERR) { \
    fprintf(stderr, "c20_bighdr line %d: %s\n", __LINE__, ncmpi_strerror(_e)); \
    MPI_Abort(MPI_COMM_WORLD, 3); } } while (0)

int main(int argc, char **argv)
{
    int ncid, dt, dx, dy, va, vb, vc, vd, cmode, dims[2], i;
    MPI_Offset padlen, k, start[2], count[2], len;
    char *pad, *rpad;
    short sv[3] = {-3, 7, 300}, vr[2] = {1, 9}, bdat[6] = {1, 2, 3, 4, 5, 6}, rb[6];
    double dv[2] = {0.5, -123456789.0}, ddat[3] = {1.5, 2.5, -3.5};
    float fdat[3] = {10, 20, 30};
    int idat = 31677;
    MPI_Info info = MPI_INFO_NULL;

    MPI_Init(&argc, &argv);
    if (argc < 4) { fprintf(stderr, "usage: %s file fmt padlen [h_align]\n", argv[0]); MPI_Finalize(); return 2; }
    padlen = atoll(argv[3]);
    cmode = NC_CLOBBER | (atoi(argv[2]) == 5 ? NC_64BIT_DATA : atoi(argv[2]) == 2 ? NC_64BIT_OFFSET : 0);
    if (argc > 4) {
        MPI_Info_create(&info);
        MPI_Info_set(info, "nc_header_align_size", argv[4]);
    }
    pad = (char *) malloc(padlen + 1);
    rpad = (char *) malloc(padlen + 1);
    for (k = 0; k < padlen; k++) pad[k] = (char) ('a' + (k * 7 + k / 26) % 26);

    CHK(ncmpi_create(MPI_COMM_WORLD, argv[1], cmode, info, &ncid));
    CHK(ncmpi_def_dim(ncid, "t", NC_UNLIMITED, &dt));
    CHK(ncmpi_def_dim(ncid, "x", 3, &dx));
    CHK(ncmpi_def_dim(ncid, "y", 2, &dy));
    CHK(ncmpi_put_att_text(ncid, NC_GLOBAL, "pad", padlen, pad));
    CHK(ncmpi_put_att_short(ncid, NC_GLOBAL, "ga", NC_SHORT, 3, sv));
    CHK(ncmpi_put_att_text(ncid, NC_GLOBAL, "gtext", 5, "hello"));
    CHK(ncmpi_put_att_double(ncid, NC_GLOBAL, "gb_double", NC_DOUBLE, 2, dv));
    dims[0] = dt; dims[1] = dx;
    CHK(ncmpi_def_var(ncid, "va", NC_FLOAT, 2, dims, &va));
    CHK(ncmpi_put_att_text(ncid, va, "units", 3, "m/s"));
    CHK(ncmpi_put_att_short(ncid, va, "vr", NC_SHORT, 2, vr));
    dims[0] = dx; dims[1] = dy;
    CHK(ncmpi_def_var(ncid, "vb", NC_SHORT, 2, dims, &vb));
    CHK(ncmpi_def_var(ncid, "vc", NC_INT, 0, NULL, &vc));
    CHK(ncmpi_def_var(ncid, "vlongname_abcdefghijk", NC_DOUBLE, 1, &dx, &vd));
    CHK(ncmpi_put_att_double(ncid, vd, "scale", NC_DOUBLE, 1, dv));
    CHK(ncmpi_enddef(ncid));
    start[0] = 0; start[1] = 0; count[0] = 1; count[1] = 3;
    CHK(ncmpi_put_vara_float_all(ncid, va, start, count, fdat));
    CHK(ncmpi_put_var_short_all(ncid, vb, bdat));
    CHK(ncmpi_put_var_int_all(ncid, vc, &idat));
    CHK(ncmpi_put_var_double_all(ncid, vd, ddat));
    CHK(ncmpi_close(ncid));

    CHK(ncmpi_open(MPI_COMM_WORLD, argv[1], NC_NOWRITE, MPI_INFO_NULL, &ncid));
    CHK(ncmpi_inq_attlen(ncid, NC_GLOBAL, "pad", &len));
    if (len != padlen) { fprintf(stderr, "pad length %lld != %lld\n", (long long) len, (long long) padlen); return 4; }
    CHK(ncmpi_get_att_text(ncid, NC_GLOBAL, "pad", rpad));
    if (memcmp(pad, rpad, padlen)) { fprintf(stderr, "pad attribute read back differs\n"); return 4; }
    CHK(ncmpi_get_var_short_all(ncid, vb, rb));
    for (i = 0; i < 6; i++) if (rb[i] != bdat[i]) { fprintf(stderr, "vb read back differs\n"); return 4; }
    CHK(ncmpi_close(ncid));
    if (info != MPI_INFO_NULL) MPI_Info_free(&info);
    free(pad); free(rpad);
    MPI_Finalize();
    return 0;
}
