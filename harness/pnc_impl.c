/*
 * pnc_impl.c -- script interpreter driving the real PnetCDF library.
 *
 * Language and observation-log format: see SCRIPT.md (same directory).
 * Interpretation choices taken where SCRIPT.md is silent: see IMPL_NOTES.md.
 *
 *   mpiexec -n N ./pnc_impl script.txt      (env: PNC_DIR, PNC_OUT)
 *
 * Driver-internal return codes that can appear in the <rc> column:
 *   -9999  unknown op name
 *   -9998  the driver refused to issue the library call (unparsable line,
 *          slot out of range, request too large to be backed by a real
 *          buffer, ...); followed by one token `refused:<reason>`
 */
#define _GNU_SOURCE
#include <stdio.h>
#include <stdlib.h>
#include <string.h>
#include <errno.h>
#include <limits.h>
#include <unistd.h>
#include <sys/stat.h>
#include <mpi.h>
#include <pnetcdf.h>

/* ------------------------------------------------------------------ */
/* constants                                                           */
/* ------------------------------------------------------------------ */
#define G           16                      /* visible guard bytes each side */
#define PRE_HID     64                      /* hidden slack before the buffer */
#define POST_HID    4096                    /* minimal hidden slack after it  */
#define FILLBYTE    0xA5
#define CAP_ELEMS   (4LL * 1024 * 1024)     /* max elements of one buffer     */
#define CAP_BYTES   (CAP_ELEMS * 8)
#define CAP_LIST    100000                  /* max nreq / ndims / n(wait)     */
#define MAXND       1024
#define MAXF        8
#define MAXSLOT     64
#define UNSET       (-99)
#define RC_UNKNOWN  (-9999)
#define RC_REFUSED  (-9998)
#define SAT         (1LL << 61)             /* saturation bound for products  */

#ifndef PAT_ON_GET
#define PAT_ON_GET 0    /* 1: `pat` on get/iget pre-fills the buffer as for put */
#endif

enum { K_PUT, K_GET, K_IPUT, K_IGET, K_BPUT };
enum { F_VAR, F_VAR1, F_VARA, F_VARS, F_VARM, F_VARN };

static const int elsz[12] = { 0, 1, 1, 2, 4, 4, 8, 1, 2, 4, 8, 8 };

/* ------------------------------------------------------------------ */
/* global state                                                        */
/* ------------------------------------------------------------------ */
static int      g_rank, g_size;
static FILE    *g_log;
static const char *g_dir;
static int      g_ncid[MAXF];
static MPI_Info g_info = MPI_INFO_NULL;

typedef struct {
    unsigned char *alloc;   size_t alloc_sz;    /* whole allocation          */
    unsigned char *vis;     size_t vis_sz;      /* G + extent + G            */
    unsigned char *user;                        /* pointer given to library  */
} mbuf_t;

typedef struct {
    int live, f, kind, id;
    mbuf_t mb;
    unsigned char *shadow;      /* content at previous dump / after post */
} slot_t;
static slot_t g_slot[MAXSLOT];

typedef struct zombie { void *p; struct zombie *next; } zombie_t;
static zombie_t *g_zombies;

/* per-line arena: everything allocated with xalloc is freed by arena_free */
static void **g_arena; static int g_narena, g_caparena;

static void die(const char *msg)
{
    fprintf(stderr, "pnc_impl[%d]: %s\n", g_rank, msg);
    MPI_Abort(MPI_COMM_WORLD, 2);
    exit(2);
}
static void *xmalloc(size_t n)
{
    void *p = malloc(n ? n : 1);
    if (!p) die("out of memory");
    return p;
}
static void *xalloc(size_t n)
{
    void *p = xmalloc(n);
    memset(p, 0, n ? n : 1);
    if (g_narena == g_caparena) {
        g_caparena = g_caparena ? 2 * g_caparena : 64;
        g_arena = realloc(g_arena, (size_t)g_caparena * sizeof(void *));
        if (!g_arena) die("out of memory");
    }
    g_arena[g_narena++] = p;
    return p;
}
static void arena_free(void)
{
    int i;
    for (i = 0; i < g_narena; i++) free(g_arena[i]);
    g_narena = 0;
}

/* ------------------------------------------------------------------ */
/* log helpers: every token is written with a leading blank           */
/* ------------------------------------------------------------------ */
static void lg_begin(int lineno, const char *op)
{
    fprintf(g_log, "%d %d %s", lineno, g_rank, op);
    fflush(g_log);      /* a crash inside the library leaves this prefix */
}
static void lg_int(long long v) { fprintf(g_log, " %lld", v); }
static void lg_str(const char *s) { fprintf(g_log, " %s", s); }
static void lg_E(int rc) { fprintf(g_log, " E%d", rc); }
static void lg_end(void) { fputc('\n', g_log); fflush(g_log); }

static void lg_hexraw(const void *p, size_t n)  /* no leading blank */
{
    static const char hx[] = "0123456789abcdef";
    const unsigned char *b = (const unsigned char *)p;
    char tmp[8192];
    size_t i = 0;
    if (n == 0) { fputc('-', g_log); return; }
    while (i < n) {
        size_t j, m = n - i; if (m > 4096) m = 4096;
        for (j = 0; j < m; j++) {
            tmp[2 * j]     = hx[b[i + j] >> 4];
            tmp[2 * j + 1] = hx[b[i + j] & 15];
        }
        fwrite(tmp, 1, 2 * m, g_log);
        i += m;
    }
}
static void lg_hex(const void *p, size_t n) { fputc(' ', g_log); lg_hexraw(p, n); }
static void lg_hexname(const char *s) { lg_hex(s, strlen(s)); }
static void lg_refused(const char *why)
{
    lg_int(RC_REFUSED);
    fprintf(g_log, " refused:%s", why);
    lg_end();
}

/* ------------------------------------------------------------------ */
/* tokens                                                              */
/* ------------------------------------------------------------------ */
typedef struct { char **tok; int n, pos, bad; } toks_t;

static const char *tk_peek(toks_t *t) { return t->pos < t->n ? t->tok[t->pos] : NULL; }
static const char *tk_next(toks_t *t)
{
    if (t->pos < t->n) return t->tok[t->pos++];
    t->bad = 1;
    return "";
}
static int is_num(const char *s, long long *out)
{
    char *e; long long v;
    if (!s || !*s) return 0;
    errno = 0;
    v = strtoll(s, &e, 10);
    if (errno || *e) return 0;
    if (out) *out = v;
    return 1;
}
static long long tk_ll(toks_t *t)
{
    long long v = 0;
    const char *s = tk_next(t);
    if (!is_num(s, &v)) { t->bad = 1; return 0; }
    return v;
}
static int tk_int(toks_t *t)
{
    long long v = tk_ll(t);
    if (v > INT_MAX || v < INT_MIN) { t->bad = 1; return 0; }
    return (int)v;
}
static int tk_f(toks_t *t)      /* file slot 0..7 */
{
    long long v = tk_ll(t);
    if (v < 0 || v >= MAXF) { t->bad = 1; return 0; }
    return (int)v;
}
static int hexval(int c)
{
    if (c >= '0' && c <= '9') return c - '0';
    if (c >= 'a' && c <= 'f') return c - 'a' + 10;
    if (c >= 'A' && c <= 'F') return c - 'A' + 10;
    return -1;
}
/* name token: hex of the bytes, `-` = empty.  A token that is not valid hex
 * is taken literally. */
static char *tk_name(toks_t *t)
{
    const char *s = tk_next(t);
    size_t i, n = strlen(s);
    char *r = xalloc(n + 1);
    if (strcmp(s, "-") == 0) return r;
    if (n % 2 == 0) {
        for (i = 0; i < n; i++) if (hexval(s[i]) < 0) break;
        if (i == n) {
            for (i = 0; i < n / 2; i++)
                r[i] = (char)(hexval(s[2 * i]) * 16 + hexval(s[2 * i + 1]));
            r[n / 2] = 0;
            return r;
        }
    }
    memcpy(r, s, n + 1);
    return r;
}

/* ------------------------------------------------------------------ */
/* saturating arithmetic on non-negative values                        */
/* ------------------------------------------------------------------ */
static long long sat_mul(long long a, long long b)
{
    if (a < 0 || b < 0) return SAT;
    if (a == 0 || b == 0) return 0;
    if (a >= SAT || b >= SAT || a > SAT / b) return SAT;
    return a * b;
}
static long long sat_add(long long a, long long b)
{
    if (a < 0 || b < 0) return SAT;
    if (a >= SAT || b >= SAT || a + b >= SAT) return SAT;
    return a + b;
}

/* ------------------------------------------------------------------ */
/* buffers                                                             */
/* ------------------------------------------------------------------ */
/* extent/lb in bytes; post = hidden slack after the trailing guard */
static void mbuf_make(mbuf_t *m, size_t extent, long long lb, size_t post)
{
    m->vis_sz   = G + extent + G;
    m->alloc_sz = PRE_HID + m->vis_sz + post;
    m->alloc    = xmalloc(m->alloc_sz);
    memset(m->alloc, FILLBYTE, m->alloc_sz);
    m->vis      = m->alloc + PRE_HID;
    m->user     = m->vis + G - lb;
}
static int mbuf_overrun(const mbuf_t *m)
{
    size_t i;
    for (i = 0; i < PRE_HID; i++) if (m->alloc[i] != FILLBYTE) return 1;
    for (i = PRE_HID + m->vis_sz; i < m->alloc_sz; i++)
        if (m->alloc[i] != FILLBYTE) return 1;
    return 0;
}
static void zombie_add(void *p)
{
    zombie_t *z = xmalloc(sizeof *z);
    z->p = p; z->next = g_zombies; g_zombies = z;
}

/* release a slot.  The buffer is freed only when no pending request can
 * still reference it; otherwise it is parked until program end. */
static void slot_release(int s, int surely_done)
{
    slot_t *sl = &g_slot[s];
    if (!sl->live) return;
    if (surely_done || sl->kind == K_BPUT || sl->id == NC_REQ_NULL)
        free(sl->mb.alloc);
    else
        zombie_add(sl->mb.alloc);
    free(sl->shadow);
    sl->mb.alloc = NULL; sl->shadow = NULL;
    sl->live = 0;               /* sl->id is kept (stale id) */
}
/* ` B<slot>=<hex|same>` for every live slot of file f */
static void dump_slots(int f)
{
    int s;
    for (s = 0; s < MAXSLOT; s++) {
        slot_t *sl = &g_slot[s];
        if (!sl->live || sl->f != f) continue;
        fprintf(g_log, " B%d=", s);
        if (memcmp(sl->shadow, sl->mb.vis, sl->mb.vis_sz) == 0)
            fputs("same", g_log);
        else {
            lg_hexraw(sl->mb.vis, sl->mb.vis_sz);
            memcpy(sl->shadow, sl->mb.vis, sl->mb.vis_sz);
        }
        if (mbuf_overrun(&sl->mb)) fputs(" !overrun", g_log);
    }
}

/* ------------------------------------------------------------------ */
/* element types                                                       */
/* ------------------------------------------------------------------ */
static MPI_Datatype mpitype(int k)
{
    switch (k) {
    case 1:  return MPI_SIGNED_CHAR;
    case 2:  return MPI_CHAR;
    case 3:  return MPI_SHORT;
    case 4:  return MPI_INT;
    case 5:  return MPI_FLOAT;
    case 6:  return MPI_DOUBLE;
    case 7:  return MPI_UNSIGNED_CHAR;
    case 8:  return MPI_UNSIGNED_SHORT;
    case 9:  return MPI_UNSIGNED;
    case 10: return MPI_LONG_LONG_INT;
    case 11: return MPI_UNSIGNED_LONG_LONG;
    }
    return MPI_DATATYPE_NULL;
}
static void store_elem(unsigned char *p, int k, long long v)
{
    switch (k) {
    case 1:  { signed char x = (signed char)v;          memcpy(p, &x, sizeof x); break; }
    case 2:  { char x = (char)v;                        memcpy(p, &x, sizeof x); break; }
    case 3:  { short x = (short)v;                      memcpy(p, &x, sizeof x); break; }
    case 4:  { int x = (int)v;                          memcpy(p, &x, sizeof x); break; }
    case 5:  { float x = (float)v;                      memcpy(p, &x, sizeof x); break; }
    case 6:  { double x = (double)v;                    memcpy(p, &x, sizeof x); break; }
    case 7:  { unsigned char x = (unsigned char)v;      memcpy(p, &x, sizeof x); break; }
    case 8:  { unsigned short x = (unsigned short)v;    memcpy(p, &x, sizeof x); break; }
    case 9:  { unsigned int x = (unsigned int)v;        memcpy(p, &x, sizeof x); break; }
    case 10: { long long x = v;                         memcpy(p, &x, sizeof x); break; }
    case 11: { unsigned long long x = (unsigned long long)v; memcpy(p, &x, sizeof x); break; }
    }
}
static int is8(int k)  { return k == 1 || k == 2 || k == 7; }
static int is16(int k) { return k == 3 || k == 8; }
static long long pat_val(long long seed, long long k, long long lim)
{
    return 1 + ((seed * 7919LL + k * 104729LL) % lim);
}

/* ------------------------------------------------------------------ */
/* the access descriptor and the typed / flexible dispatch            */
/* ------------------------------------------------------------------ */
typedef struct {
    int kind, coll, ncid, varid, form;
    MPI_Offset *start, *count, *stride, *imap;      /* may be NULL */
    int nreq; MPI_Offset **starts, **counts;        /* varn; may be NULL */
} acc_t;

#define CALL6(PFX, SFX, B) \
    switch (a->form) { \
    case F_VAR:  return PFX##var##SFX (a->ncid, a->varid, B); \
    case F_VAR1: return PFX##var1##SFX(a->ncid, a->varid, a->start, B); \
    case F_VARA: return PFX##vara##SFX(a->ncid, a->varid, a->start, a->count, B); \
    case F_VARS: return PFX##vars##SFX(a->ncid, a->varid, a->start, a->count, a->stride, B); \
    case F_VARM: return PFX##varm##SFX(a->ncid, a->varid, a->start, a->count, a->stride, a->imap, B); \
    case F_VARN: return PFX##varn##SFX(a->ncid, a->varid, a->nreq, a->starts, a->counts, B); \
    }

#define GEN_TYPED(K, N, T) \
static int typed_##N(const acc_t *a, void *buf, int *reqid) \
{ \
    T *b = (T *)buf; \
    switch (a->kind) { \
    case K_PUT: \
        if (a->coll) { CALL6(ncmpi_put_, _##N##_all, b) } \
        else         { CALL6(ncmpi_put_, _##N, b) } \
        break; \
    case K_GET: \
        if (a->coll) { CALL6(ncmpi_get_, _##N##_all, b) } \
        else         { CALL6(ncmpi_get_, _##N, b) } \
        break; \
    case K_IPUT: { CALL6(ncmpi_iput_, _##N, b COMMA reqid) } break; \
    case K_IGET: { CALL6(ncmpi_iget_, _##N, b COMMA reqid) } break; \
    case K_BPUT: { CALL6(ncmpi_bput_, _##N, b COMMA reqid) } break; \
    } \
    return RC_REFUSED; \
}
#define COMMA ,

#define ALLTYPES(X) \
    X(1, schar, signed char) X(2, text, char) X(3, short, short) X(4, int, int) \
    X(5, float, float) X(6, double, double) X(7, uchar, unsigned char) \
    X(8, ushort, unsigned short) X(9, uint, unsigned int) \
    X(10, longlong, long long) X(11, ulonglong, unsigned long long)

ALLTYPES(GEN_TYPED)

static int call_typed(int k, const acc_t *a, void *buf, int *reqid)
{
    switch (k) {
#define CASE_TYPED(K, N, T) case K: return typed_##N(a, buf, reqid);
    ALLTYPES(CASE_TYPED)
    }
    return RC_REFUSED;
}

static int call_flex(const acc_t *a, void *buf, MPI_Offset bc, MPI_Datatype bt, int *reqid)
{
#define FB  buf, bc, bt
#define FBR buf, bc, bt, reqid
    switch (a->kind) {
    case K_PUT:
        if (a->coll) { CALL6(ncmpi_put_, _all, FB) }
        else         { CALL6(ncmpi_put_, , FB) }
        break;
    case K_GET:
        if (a->coll) { CALL6(ncmpi_get_, _all, FB) }
        else         { CALL6(ncmpi_get_, , FB) }
        break;
    case K_IPUT: { CALL6(ncmpi_iput_, , FBR) } break;
    case K_IGET: { CALL6(ncmpi_iget_, , FBR) } break;
    case K_BPUT: { CALL6(ncmpi_bput_, , FBR) } break;
    }
    return RC_REFUSED;
}

/* ------------------------------------------------------------------ */
/* variable information obtained through the public inquiry API        */
/* ------------------------------------------------------------------ */
typedef struct {
    int xtype_ok; nc_type xtype;        /* ncmpi_inq_vartype */
    int ok;                             /* shape known */
    int ndims; int *dimids; MPI_Offset *dimlen; int recidx;
    long long size;                     /* number of elements (saturating) */
} vinfo_t;

static void var_info(int ncid, int varid, vinfo_t *v)
{
    int i, unlim = -1, nd = UNSET;
    memset(v, 0, sizeof *v);
    v->recidx = -1; v->size = 1;
    v->xtype = 0;
    v->xtype_ok = (ncmpi_inq_vartype(ncid, varid, &v->xtype) == NC_NOERR);
    if (ncmpi_inq_varndims(ncid, varid, &nd) != NC_NOERR) return;
    if (nd < 0 || nd > CAP_LIST) return;
    v->dimids = xalloc(((size_t)nd + 1) * sizeof(int));
    v->dimlen = xalloc(((size_t)nd + 1) * sizeof(MPI_Offset));
    if (ncmpi_inq_vardimid(ncid, varid, v->dimids) != NC_NOERR) return;
    if (ncmpi_inq_unlimdim(ncid, &unlim) != NC_NOERR) return;
    for (i = 0; i < nd; i++) {
        if (ncmpi_inq_dimlen(ncid, v->dimids[i], &v->dimlen[i]) != NC_NOERR) return;
        if (v->dimids[i] == unlim) v->recidx = i;
        v->size = sat_mul(v->size, v->dimlen[i]);
    }
    v->ndims = nd;
    v->ok = 1;
}

/* product of counts; *bad set when the pointer is NULL or a count < 0 */
static long long prod_counts(const MPI_Offset *c, int nd, int *bad)
{
    long long p = 1; int i;
    if (c == NULL) { *bad = 1; return 1; }
    for (i = 0; i < nd; i++) {
        if (c[i] < 0) { *bad = 1; return 1; }
        p = sat_mul(p, c[i]);
    }
    return p;
}

/* Is it certain that the library rejects this request before touching the
 * user buffer?  Only consulted for requests too large to be backed by a
 * real buffer. */
static int surely_rejected(const acc_t *a, const vinfo_t *v, int nd)
{
    int i, isput = (a->kind != K_GET && a->kind != K_IGET);
    if (!v->ok) return 1;
    if (a->form == F_VAR || a->form == F_VAR1 || a->form == F_VARN) return 0;
    if (a->count == NULL) return 0;
    for (i = 0; i < nd && i < v->ndims; i++) {
        if (a->count[i] < 0) return 1;
        if (i == v->recidx && isput) continue;
        if (a->count[i] > v->dimlen[i]) return 1;
    }
    return 0;
}

static MPI_Offset *read_arr(toks_t *t, int nd, int alloc_n, MPI_Offset pad)
{
    int i;
    MPI_Offset *r = xalloc(((size_t)alloc_n + 1) * sizeof(MPI_Offset));
    for (i = 0; i < alloc_n; i++) r[i] = pad;
    for (i = 0; i < nd; i++) r[i] = (MPI_Offset)tk_ll(t);
    return r;
}

/* ------------------------------------------------------------------ */
/* put / get / iput / iget / bput                                      */
/* ------------------------------------------------------------------ */
static void do_access(int lineno, const char *op, toks_t *t)
{
    acc_t a;
    vinfo_t vi;
    mbuf_t mb;
    int kind, f, slot = -1, typed, mk, nd = 0, alloc_n, i, j, rc, reqid = UNSET;
    int haspat = 0, cbad = 0, overs = 0, have_type = 0;
    char lay;
    long long seed = 0, bufcount = 0, vcnt = 0, vblk = 0, vstr = 0; int resized = 0;
    long long nelems, libne, libraw, imapext, npat, lim, es, need;
    long long ext_bytes, lb_bytes = 0;
    const char *s;
    MPI_Datatype bt = MPI_DATATYPE_NULL;
    MPI_Offset bc = 0;
    unsigned char *before = NULL;

    memset(&a, 0, sizeof a);
    lg_begin(lineno, op);

    if      (!strcmp(op, "put"))  kind = K_PUT;
    else if (!strcmp(op, "get"))  kind = K_GET;
    else if (!strcmp(op, "iput")) kind = K_IPUT;
    else if (!strcmp(op, "iget")) kind = K_IGET;
    else                          kind = K_BPUT;
    a.kind = kind;

    f = tk_f(t);
    if (kind == K_PUT || kind == K_GET) {
        s = tk_next(t);
        if (!strcmp(s, "c")) a.coll = 1; else if (!strcmp(s, "i")) a.coll = 0; else t->bad = 1;
    } else {
        long long sv = tk_ll(t);
        if (sv < 0 || sv >= MAXSLOT) { lg_refused("slot"); return; }
        slot = (int)sv;
    }
    a.varid = tk_int(t);
    if (t->bad) { lg_refused("parse"); return; }
    a.ncid = g_ncid[f];
    var_info(a.ncid, a.varid, &vi);

    /* form */
    s = tk_next(t);
    if      (!strcmp(s, "var"))  a.form = F_VAR;
    else if (!strcmp(s, "var1")) a.form = F_VAR1;
    else if (!strcmp(s, "vara")) a.form = F_VARA;
    else if (!strcmp(s, "vars")) a.form = F_VARS;
    else if (!strcmp(s, "varm")) a.form = F_VARM;
    else if (!strcmp(s, "varn")) a.form = F_VARN;
    else { lg_refused("form"); return; }

    /* memtype */
    s = tk_next(t);
    {
        long long kk = 0;
        if ((s[0] != 't' && s[0] != 'x') || !is_num(s + 1, &kk) || kk < 1 || kk > 11) {
            lg_refused("memtype"); return;
        }
        typed = (s[0] == 't'); mk = (int)kk;
    }

    /* buf layout */
    s = tk_next(t);
    if (strlen(s) != 1 || !strchr("cvnr", s[0])) { lg_refused("buf"); return; }
    lay = s[0];
    if (lay == 'c' && !typed) bufcount = tk_ll(t);
    if (lay == 'v' || lay == 'r') { vcnt = tk_ll(t); vblk = tk_ll(t); vstr = tk_ll(t); }
    /* 'r': the same memory layout as 'v', described as bufcount = count instances of
     * resized(contiguous(blocklen, elem), lb 0, extent stride elements) */
    if (lay == 'r') { resized = 1; lay = 'v'; }
    if (typed) lay = 'c';       /* typed API has no buftype: layout ignored */
    if (t->bad) { lg_refused("parse"); return; }

    /* form arguments */
    if (a.form == F_VARN) {
        long long nr = tk_ll(t);
        nd = tk_int(t);
        if (t->bad || nr > CAP_LIST || nr < INT_MIN || nd < -1 || nd > MAXND) {
            lg_refused("parse"); return;
        }
        a.nreq = (int)nr;
        alloc_n = nd > vi.ndims ? nd : vi.ndims;
        if (nd >= 0) {
            int n1 = a.nreq > 0 ? a.nreq : 0;
            a.starts = xalloc(((size_t)n1 + 1) * sizeof(MPI_Offset *));
            a.counts = xalloc(((size_t)n1 + 1) * sizeof(MPI_Offset *));
            for (i = 0; i < n1; i++) {
                a.starts[i] = read_arr(t, nd, alloc_n, 0);
                a.counts[i] = read_arr(t, nd, alloc_n, 1);
            }
        }
    } else if (a.form != F_VAR) {
        nd = tk_int(t);
        if (t->bad || nd < -1 || nd > MAXND) { lg_refused("parse"); return; }
        alloc_n = nd > vi.ndims ? nd : vi.ndims;
        if (nd >= 0) {
            a.start = read_arr(t, nd, alloc_n, 0);
            if (a.form != F_VAR1) a.count = read_arr(t, nd, alloc_n, 1);
            if (a.form == F_VARS || a.form == F_VARM) {
                s = tk_peek(t);
                if (s && !strcmp(s, "S")) tk_next(t);
                else a.stride = read_arr(t, nd, alloc_n, 1);
            }
            if (a.form == F_VARM) {
                s = tk_peek(t);
                if (s && !strcmp(s, "M")) tk_next(t);
                else a.imap = read_arr(t, nd, alloc_n, 1);
            }
        } else {        /* tolerate explicit S / M after nd = -1 */
            s = tk_peek(t); if (s && !strcmp(s, "S")) tk_next(t);
            s = tk_peek(t); if (s && !strcmp(s, "M")) tk_next(t);
        }
    }
    s = tk_peek(t);
    if (s && !strcmp(s, "pat")) { tk_next(t); seed = tk_ll(t); haspat = 1; }
    if (t->bad || tk_peek(t) != NULL) { lg_refused("parse"); return; }

    /* number of elements of the request, as defined by SCRIPT.md */
    imapext = -1;
    switch (a.form) {
    case F_VAR:  nelems = vi.ok ? vi.size : 1; break;
    case F_VAR1: nelems = 1; break;
    case F_VARN:
        nelems = 0;
        if (a.starts == NULL) cbad = 1;
        for (i = 0; i < a.nreq && !cbad; i++)
            nelems = sat_add(nelems, prod_counts(a.counts[i], nd, &cbad));
        if (cbad) nelems = 1;
        break;
    default:
        nelems = prod_counts(a.count, nd, &cbad);
        if (cbad) nelems = 1;
        if (a.form == F_VARM && a.imap != NULL && !cbad) {
            long long e = 1; int okm = 1;
            for (i = 0; i < nd; i++) {
                if (a.count[i] <= 0 || a.imap[i] < 0) { okm = 0; break; }
                e = sat_add(e, sat_mul(a.count[i] - 1, a.imap[i]));
            }
            if (okm) imapext = e;
        }
    }

    /* the library looks at the variable's own ndims entries of each array
     * (ours are padded up to that length): number of elements in its view */
    libne = nelems;
    if (vi.ok && !cbad) {
        if (a.form == F_VARN && a.counts != NULL) {
            libne = 0;
            for (i = 0; i < a.nreq; i++) libne = sat_add(libne, prod_counts(a.counts[i], vi.ndims, &cbad));
        } else if (a.count != NULL)
            libne = prod_counts(a.count, vi.ndims, &cbad);
        if (cbad) libne = nelems;
    }
    libraw = libne;
    if (libne < nelems) libne = nelems;

    /* memory element type */
    if (lay == 'n') { mk = (vi.xtype_ok && vi.xtype >= 1 && vi.xtype <= 11) ? (int)vi.xtype : 1; }
    es = elsz[mk];

    /* visible extent (bytes), pattern count, bytes the library may touch */
    need = sat_mul(imapext > libne ? imapext : libne, es);
    if (typed) {
        long long ne = (imapext >= 0) ? imapext : nelems;
        ext_bytes = sat_mul(ne, es); npat = ne;
    } else if (lay == 'c') {
        long long ne = (bufcount >= 0) ? bufcount : nelems;
        ext_bytes = sat_mul(ne, es); npat = ne;
        bt = mpitype(mk); bc = (MPI_Offset)bufcount;
    } else if (lay == 'n') {
        ext_bytes = sat_mul(nelems, es); npat = nelems;
        bt = MPI_DATATYPE_NULL; bc = 0;
    } else {    /* vector */
        MPI_Aint tlb = 0, text = 0;
        if (vcnt > INT_MAX || vcnt < INT_MIN || vblk > INT_MAX || vblk < INT_MIN ||
            vstr > INT_MAX || vstr < INT_MIN) { lg_refused("vector"); return; }
        if (resized) {
            MPI_Datatype ct;
            if (vcnt < 1 || vblk < 1 || vstr < vblk ||
                MPI_Type_contiguous((int)vblk, mpitype(mk), &ct) != MPI_SUCCESS) { lg_refused("vector"); return; }
            if (MPI_Type_create_resized(ct, 0, (MPI_Aint)(vstr * es), &bt) != MPI_SUCCESS) {
                MPI_Type_free(&ct); lg_refused("vector"); return;
            }
            MPI_Type_free(&ct);
        } else if (MPI_Type_vector((int)vcnt, (int)vblk, (int)vstr, mpitype(mk), &bt) != MPI_SUCCESS) {
            lg_refused("vector"); return;
        }
        have_type = 1;
        if (MPI_Type_commit(&bt) != MPI_SUCCESS ||
            MPI_Type_get_true_extent(bt, &tlb, &text) != MPI_SUCCESS) {
            MPI_Type_free(&bt); lg_refused("vector"); return;
        }
        ext_bytes = (long long)text; lb_bytes = (long long)tlb;
        npat = sat_mul(vcnt, vblk); bc = 1;
        if (resized) { ext_bytes = ((vcnt - 1) * vstr + vblk) * es; lb_bytes = 0; bc = (MPI_Offset)vcnt; }
        if (ext_bytes > need) need = ext_bytes;
        if (ext_bytes > CAP_BYTES || ext_bytes < 0 || npat > CAP_ELEMS) {
            MPI_Type_free(&bt); lg_refused("toobig"); return;
        }
    }
    if (ext_bytes > CAP_BYTES) { ext_bytes = es; npat = 1; overs = 1; }
    if (need > CAP_BYTES) overs = 1;
    /* a request too large for a real buffer is only issued when the library
     * is certain to reject it before touching the buffer (NC_EIOMISMATCH for
     * a bufcount that matches neither view of the count product, or an
     * error found by surely_rejected) */
    if (overs && !(lay == 'c' && !typed && bufcount >= 0 && bufcount != nelems && bufcount != libraw) &&
        !surely_rejected(&a, &vi, nd)) {
        if (have_type) MPI_Type_free(&bt);
        lg_refused("toobig"); return;
    }
    if (need > CAP_BYTES) need = 0;

    mbuf_make(&mb, (size_t)ext_bytes, lb_bytes, (size_t)(POST_HID + need));

    /* pattern */
    lim = 100;
    if (vi.xtype_ok && !is8(mk) && !is8((int)vi.xtype))
        lim = (is16(mk) || is16((int)vi.xtype)) ? 30000 : 16000000;
    if (haspat && (PAT_ON_GET || (kind != K_GET && kind != K_IGET))) {
        if (lay == 'v') {
            long long k = 0;
            for (i = 0; i < vcnt; i++)
                for (j = 0; j < vblk; j++, k++)
                    store_elem(mb.user + ((long long)i * vstr + j) * es, mk, pat_val(seed, k, lim));
        } else {
            long long k;
            for (k = 0; k < npat; k++)
                store_elem(mb.user + k * es, mk, pat_val(seed, k, lim));
        }
    }

    if (kind == K_PUT) { before = xalloc(mb.vis_sz); memcpy(before, mb.vis, mb.vis_sz); }

    /* the call */
    if (typed) rc = call_typed(mk, &a, mb.user, &reqid);
    else       rc = call_flex(&a, mb.user, bc, bt, &reqid);
    if (have_type) MPI_Type_free(&bt);

    lg_int(rc);
    if (kind == K_PUT || kind == K_GET) {
        if (kind == K_PUT && memcmp(before, mb.vis, mb.vis_sz) == 0) lg_str("same");
        else lg_hex(mb.vis, mb.vis_sz);
        if (mbuf_overrun(&mb)) lg_str("!overrun");
        free(mb.alloc);
    } else {
        slot_t *sl = &g_slot[slot];
        lg_int(reqid);
        if (sl->live) slot_release(slot, 0);    /* overwritten while live */
        sl->live = 1; sl->f = f; sl->kind = kind; sl->id = reqid; sl->mb = mb;
        sl->shadow = xmalloc(mb.vis_sz);
        memcpy(sl->shadow, mb.vis, mb.vis_sz);
    }
    lg_end();
}

/* ------------------------------------------------------------------ */
/* wait / cancel                                                       */
/* ------------------------------------------------------------------ */
static void do_wait(int lineno, const char *op, toks_t *t)
{
    int iscancel = !strcmp(op, "cancel");
    int f, coll = 0, n, libn, i, rc, *ids = NULL, *sts = NULL, *sl = NULL;
    long long nn;
    const char *s;

    lg_begin(lineno, op);
    f = tk_f(t);
    if (!iscancel) {
        s = tk_next(t);
        if (!strcmp(s, "c")) coll = 1; else if (!strcmp(s, "i")) coll = 0; else t->bad = 1;
    }
    nn = tk_ll(t);
    if (t->bad || nn > CAP_LIST || nn < INT_MIN) { lg_refused("parse"); return; }
    n = (int)nn;
    if (n >= 0) {
        ids = xalloc(((size_t)n + 1) * sizeof(int));
        sts = xalloc(((size_t)n + 1) * sizeof(int));
        sl  = xalloc(((size_t)n + 1) * sizeof(int));
        for (i = 0; i < n; i++) {
            sts[i] = UNSET;
            s = tk_next(t);
            if (!strcmp(s, "N")) { sl[i] = -1; ids[i] = NC_REQ_NULL; }
            else {
                long long v = 0;
                if (!is_num(s, &v) || v < 0 || v >= MAXSLOT) { t->bad = 1; break; }
                sl[i] = (int)v; ids[i] = g_slot[v].id;
            }
        }
    }
    if (t->bad || tk_peek(t) != NULL) { lg_refused("parse"); return; }

    libn = n;
    if (n == -1) libn = NC_REQ_ALL;
    else if (n == -2) libn = NC_PUT_REQ_ALL;
    else if (n == -3) libn = NC_GET_REQ_ALL;

    if (iscancel)   rc = ncmpi_cancel(g_ncid[f], libn, ids, sts);
    else if (coll)  rc = ncmpi_wait_all(g_ncid[f], libn, ids, sts);
    else            rc = ncmpi_wait(g_ncid[f], libn, ids, sts);

    lg_int(rc);
    lg_int(n);
    for (i = 0; i < n; i++) {
        if (sl[i] >= 0) g_slot[sl[i]].id = ids[i];
        fprintf(g_log, " %d:%d", sts[i], ids[i]);
    }
    dump_slots(f);
    for (i = 0; i < n; i++) if (sl[i] >= 0) slot_release(sl[i], 0);
    if (n < 0) {
        for (i = 0; i < MAXSLOT; i++) {
            slot_t *p = &g_slot[i];
            int isget = (p->kind == K_IGET);
            if (!p->live || p->f != f) continue;
            if (n == -1 || (n == -2 && !isget) || (n == -3 && isget))
                slot_release(i, rc == NC_NOERR);
        }
    }
    lg_end();
}

/* ------------------------------------------------------------------ */
/* attributes                                                          */
/* ------------------------------------------------------------------ */
/* read the attribute with the API of its own type into a fresh buffer */
static int read_att(int ncid, int varid, const char *name, nc_type ty, MPI_Offset n,
                    unsigned char **bufp, size_t *nbytes)
{
    size_t es = (ty >= 1 && ty <= 11) ? (size_t)elsz[ty] : 8;
    size_t nb;
    unsigned char *b;
    if (n < 0) n = 0;
    if ((long long)n > CAP_BYTES) { *bufp = NULL; *nbytes = 0; return RC_REFUSED; }
    nb = (size_t)n * es;
    b = xalloc(nb + 64);
    memset(b, FILLBYTE, nb + 64);
    *bufp = b; *nbytes = nb;
    switch (ty) {
    case 1:  return ncmpi_get_att_schar(ncid, varid, name, (signed char *)b);
    case 2:  return ncmpi_get_att_text(ncid, varid, name, (char *)b);
    case 3:  return ncmpi_get_att_short(ncid, varid, name, (short *)b);
    case 4:  return ncmpi_get_att_int(ncid, varid, name, (int *)b);
    case 5:  return ncmpi_get_att_float(ncid, varid, name, (float *)b);
    case 6:  return ncmpi_get_att_double(ncid, varid, name, (double *)b);
    case 7:  return ncmpi_get_att_uchar(ncid, varid, name, (unsigned char *)b);
    case 8:  return ncmpi_get_att_ushort(ncid, varid, name, (unsigned short *)b);
    case 9:  return ncmpi_get_att_uint(ncid, varid, name, (unsigned int *)b);
    case 10: return ncmpi_get_att_longlong(ncid, varid, name, (long long *)b);
    case 11: return ncmpi_get_att_ulonglong(ncid, varid, name, (unsigned long long *)b);
    default: return ncmpi_get_att(ncid, varid, name, b);
    }
}

/* ` A <hexname> <type> <n> <hex>` for attribute number attnum (inq op) */
static void inq_one_att(int ncid, int varid, int attnum)
{
    char name[NC_MAX_NAME + 8];
    nc_type ty = UNSET; MPI_Offset n = UNSET;
    unsigned char *b; size_t nb; int rc;
    lg_str("A");
    memset(name, 0, sizeof name);
    rc = ncmpi_inq_attname(ncid, varid, attnum, name);
    if (rc != NC_NOERR) { lg_E(rc); return; }
    lg_hexname(name);
    rc = ncmpi_inq_att(ncid, varid, name, &ty, &n);
    if (rc != NC_NOERR) { lg_E(rc); return; }
    lg_int(ty); lg_int(n);
    rc = read_att(ncid, varid, name, ty, n, &b, &nb);
    if (rc != NC_NOERR) { lg_E(rc); return; }
    lg_hex(b, nb);
}

static void do_inq(int ncid)
{
    int rc, nd = UNSET, nv = UNSET, ng = UNSET, ul = UNSET, i, j, fmt = UNSET;
    MPI_Offset o;

    rc = ncmpi_inq(ncid, &nd, &nv, &ng, &ul);
    lg_int(rc);
    if (rc != NC_NOERR) { lg_E(rc); nd = nv = ng = 0; }
    else { lg_int(nd); lg_int(nv); lg_int(ng); lg_int(ul); }

    for (i = 0; i < nd; i++) {
        char name[NC_MAX_NAME + 8]; MPI_Offset len = UNSET;
        memset(name, 0, sizeof name);
        lg_str("D");
        rc = ncmpi_inq_dim(ncid, i, name, &len);
        if (rc != NC_NOERR) lg_E(rc); else { lg_hexname(name); lg_int(len); }
    }
    for (i = 0; i < ng; i++) inq_one_att(ncid, NC_GLOBAL, i);
    for (i = 0; i < nv; i++) {
        char name[NC_MAX_NAME + 8]; nc_type ty = UNSET; int vnd = UNSET, na = UNSET, *dimids;
        memset(name, 0, sizeof name);
        lg_str("V");
        rc = ncmpi_inq_varndims(ncid, i, &vnd);
        if (rc != NC_NOERR || vnd < 0) { lg_E(rc); continue; }
        dimids = xalloc(((size_t)vnd + 1) * sizeof(int));
        rc = ncmpi_inq_var(ncid, i, name, &ty, &vnd, dimids, &na);
        if (rc != NC_NOERR) { lg_E(rc); continue; }
        lg_hexname(name); lg_int(ty); lg_int(vnd);
        for (j = 0; j < vnd; j++) lg_int(dimids[j]);
        lg_int(na);
        o = UNSET; rc = ncmpi_inq_varoffset(ncid, i, &o);
        if (rc != NC_NOERR) lg_E(rc); else lg_int(o);
        for (j = 0; j < na; j++) inq_one_att(ncid, i, j);
    }
    lg_str("H");
    o = UNSET; rc = ncmpi_inq_header_size(ncid, &o);   if (rc) lg_E(rc); else lg_int(o);
    o = UNSET; rc = ncmpi_inq_header_extent(ncid, &o); if (rc) lg_E(rc); else lg_int(o);
    o = UNSET; rc = ncmpi_inq_recsize(ncid, &o);       if (rc) lg_E(rc); else lg_int(o);
    ul = UNSET; rc = ncmpi_inq_unlimdim(ncid, &ul);
    if (rc) lg_E(rc);
    else if (ul == -1) lg_int(-1);
    else { o = UNSET; rc = ncmpi_inq_dimlen(ncid, ul, &o); if (rc) lg_E(rc); else lg_int(o); }
    rc = ncmpi_inq_format(ncid, &fmt);                 if (rc) lg_E(rc); else lg_int(fmt);
}

static void do_put_att(toks_t *t)
{
    int f = tk_f(t), varid = tk_int(t), ty, rc;
    char *name = tk_name(t);
    long long n, i, nalloc;
    ty = tk_int(t);
    n = tk_ll(t);
    if (t->bad) { lg_refused("parse"); return; }
    if (n > CAP_ELEMS) { lg_refused("toobig"); return; }
    nalloc = (n > 0 ? n : 0) + (t->n - t->pos) + 1;
    if (ty == 2) {
        char *v = xalloc((size_t)nalloc);
        for (i = 0; tk_peek(t); i++) v[i] = (char)tk_ll(t);
        if (t->bad) { lg_refused("parse"); return; }
        rc = ncmpi_put_att_text(g_ncid[f], varid, name, (MPI_Offset)n, v);
    } else if (ty == 5 || ty == 6) {
        double *v = xalloc((size_t)nalloc * sizeof(double));
        for (i = 0; tk_peek(t); i++) v[i] = (double)tk_ll(t);
        if (t->bad) { lg_refused("parse"); return; }
        rc = ncmpi_put_att_double(g_ncid[f], varid, name, (nc_type)ty, (MPI_Offset)n, v);
    } else if (ty == 11) {
        unsigned long long *v = xalloc((size_t)nalloc * sizeof(unsigned long long));
        for (i = 0; tk_peek(t); i++) v[i] = (unsigned long long)tk_ll(t);
        if (t->bad) { lg_refused("parse"); return; }
        rc = ncmpi_put_att_ulonglong(g_ncid[f], varid, name, (nc_type)ty, (MPI_Offset)n, v);
    } else {
        long long *v = xalloc((size_t)nalloc * sizeof(long long));
        for (i = 0; tk_peek(t); i++) v[i] = tk_ll(t);
        if (t->bad) { lg_refused("parse"); return; }
        rc = ncmpi_put_att_longlong(g_ncid[f], varid, name, (nc_type)ty, (MPI_Offset)n, v);
    }
    lg_int(rc); lg_end();
}

/* ------------------------------------------------------------------ */
/* POSIX file helpers                                                  */
/* ------------------------------------------------------------------ */
static void fpath(char *out, size_t sz, int f) { snprintf(out, sz, "%s/f%d.nc", g_dir, f); }

static void do_snapshot(int f)
{
    char path[4096]; struct stat st; FILE *fp;
    MPI_Barrier(MPI_COMM_WORLD);
    if (g_rank != 0) { lg_int(0); lg_end(); return; }
    fpath(path, sizeof path, f);
    if (stat(path, &st) != 0 || (fp = fopen(path, "rb")) == NULL) { lg_int(-1); lg_end(); return; }
    lg_int(0);
    lg_int((long long)st.st_size);
    if (st.st_size > 1024 * 1024) lg_str("big");
    else {
        size_t n = (size_t)st.st_size, got;
        unsigned char *b = xalloc(n + 1);
        got = fread(b, 1, n, fp);
        lg_hex(b, got);
    }
    fclose(fp);
    lg_end();
}

/* ------------------------------------------------------------------ */
/* one script line                                                     */
/* ------------------------------------------------------------------ */
#define PARSE_CHECK() do { if (t->bad) { lg_refused("parse"); return; } } while (0)
#define SIMPLE(NAME, CALL) \
    if (!strcmp(op, NAME)) { int f = tk_f(t); PARSE_CHECK(); (void)f; \
        rc = CALL; lg_int(rc); lg_end(); return; }

static void info_clear(void)
{
    if (g_info != MPI_INFO_NULL) MPI_Info_free(&g_info);
    g_info = MPI_INFO_NULL;
}

static void exec_op(int lineno, const char *op, toks_t *t)
{
    int rc;

    if (!strcmp(op, "put") || !strcmp(op, "get") || !strcmp(op, "iput") ||
        !strcmp(op, "iget") || !strcmp(op, "bput")) { do_access(lineno, op, t); return; }
    if (!strcmp(op, "wait") || !strcmp(op, "cancel")) { do_wait(lineno, op, t); return; }

    /* configuration lines: not logged */
    if (!strcmp(op, "hint")) {
        const char *k = tk_next(t); char val[MPI_MAX_INFO_VAL + 1]; size_t l = 0;
        val[0] = 0;
        while (tk_peek(t)) {
            const char *v = tk_next(t);
            if (l + strlen(v) + 2 >= sizeof val) break;
            if (l) val[l++] = ' ';
            strcpy(val + l, v); l += strlen(v);
        }
        if (t->bad || !*k || !l) return;
        if (g_info == MPI_INFO_NULL) MPI_Info_create(&g_info);
        MPI_Info_set(g_info, k, val);
        return;
    }
    if (!strcmp(op, "nohints")) { info_clear(); return; }

    lg_begin(lineno, op);

    if (!strcmp(op, "create") || !strcmp(op, "open")) {
        char path[4096]; int f = tk_f(t), id = UNSET, mode;
        long long a1 = tk_ll(t), a2 = 0;
        if (op[0] == 'c') a2 = tk_ll(t);
        PARSE_CHECK();
        fpath(path, sizeof path, f);
        if (op[0] == 'c') {
            mode = (a1 == 1) ? 0 : (a1 == 2) ? NC_64BIT_OFFSET : (a1 == 5) ? NC_64BIT_DATA : (int)a1;
            mode |= (a2 == 0) ? NC_NOCLOBBER : NC_CLOBBER;
            rc = ncmpi_create(MPI_COMM_WORLD, path, mode, g_info, &id);
        } else {
            mode = (a1 == 0) ? NC_NOWRITE : (a1 == 1) ? NC_WRITE : (int)a1;
            rc = ncmpi_open(MPI_COMM_WORLD, path, mode, g_info, &id);
        }
        info_clear();
        if (id >= 0) g_ncid[f] = id;    /* a failed call leaves the old (stale) id */
        lg_int(rc); lg_int(id); lg_end();
        return;
    }
    if (!strcmp(op, "close") || !strcmp(op, "abort")) {
        int f = tk_f(t), s; PARSE_CHECK();
        rc = (op[0] == 'c') ? ncmpi_close(g_ncid[f]) : ncmpi_abort(g_ncid[f]);
        lg_int(rc);
        dump_slots(f);
        for (s = 0; s < MAXSLOT; s++)
            if (g_slot[s].live && g_slot[s].f == f) slot_release(s, rc == NC_NOERR);
        lg_end();
        return;
    }
    SIMPLE("enddef",       ncmpi_enddef(g_ncid[f]))
    SIMPLE("redef",        ncmpi_redef(g_ncid[f]))
    SIMPLE("begin_indep",  ncmpi_begin_indep_data(g_ncid[f]))
    SIMPLE("end_indep",    ncmpi_end_indep_data(g_ncid[f]))
    SIMPLE("sync",         ncmpi_sync(g_ncid[f]))
    SIMPLE("sync_numrecs", ncmpi_sync_numrecs(g_ncid[f]))
    SIMPLE("flush",        ncmpi_flush(g_ncid[f]))
    SIMPLE("detach",       ncmpi_buffer_detach(g_ncid[f]))

    if (!strcmp(op, "_enddef")) {
        int f = tk_f(t); long long a = tk_ll(t), b = tk_ll(t), c = tk_ll(t), d = tk_ll(t);
        PARSE_CHECK();
        rc = ncmpi__enddef(g_ncid[f], a, b, c, d);
        lg_int(rc); lg_end(); return;
    }
    if (!strcmp(op, "setid")) {
        int f = tk_f(t), v = tk_int(t); PARSE_CHECK();
        g_ncid[f] = v; lg_int(0); lg_end(); return;
    }
    if (!strcmp(op, "def_dim")) {
        int f = tk_f(t), id = UNSET; char *name = tk_name(t); long long len = tk_ll(t);
        PARSE_CHECK();
        rc = ncmpi_def_dim(g_ncid[f], name, len == -1 ? NC_UNLIMITED : (MPI_Offset)len, &id);
        lg_int(rc); lg_int(id); lg_end(); return;
    }
    if (!strcmp(op, "def_var")) {
        int f = tk_f(t), id = UNSET, ty, nd, i, na, *dimids; char *name = tk_name(t);
        ty = tk_int(t); nd = tk_int(t);
        PARSE_CHECK();
        if (nd > CAP_LIST) { lg_refused("toobig"); return; }
        na = (nd > 0 ? nd : 0) + (t->n - t->pos) + 1;
        dimids = xalloc((size_t)na * sizeof(int));
        for (i = 0; tk_peek(t); i++) dimids[i] = tk_int(t);
        PARSE_CHECK();
        rc = ncmpi_def_var(g_ncid[f], name, (nc_type)ty, nd, dimids, &id);
        lg_int(rc); lg_int(id); lg_end(); return;
    }
    if (!strcmp(op, "rename_dim") || !strcmp(op, "rename_var")) {
        int f = tk_f(t), id = tk_int(t); char *name = tk_name(t);
        PARSE_CHECK();
        rc = (op[7] == 'd') ? ncmpi_rename_dim(g_ncid[f], id, name)
                            : ncmpi_rename_var(g_ncid[f], id, name);
        lg_int(rc); lg_end(); return;
    }
    if (!strcmp(op, "put_att")) { do_put_att(t); return; }
    if (!strcmp(op, "get_att")) {
        int f = tk_f(t), varid = tk_int(t); char *name = tk_name(t);
        nc_type ty = UNSET; MPI_Offset n = UNSET; unsigned char *b = NULL; size_t nb = 0;
        PARSE_CHECK();
        rc = ncmpi_inq_att(g_ncid[f], varid, name, &ty, &n);
        if (rc == NC_NOERR) rc = read_att(g_ncid[f], varid, name, ty, n, &b, &nb);
        lg_int(rc); lg_int(ty); lg_int(n); lg_hex(b, nb); lg_end(); return;
    }
    if (!strcmp(op, "del_att")) {
        int f = tk_f(t), varid = tk_int(t); char *name = tk_name(t);
        PARSE_CHECK();
        rc = ncmpi_del_att(g_ncid[f], varid, name);
        lg_int(rc); lg_end(); return;
    }
    if (!strcmp(op, "rename_att")) {
        int f = tk_f(t), varid = tk_int(t); char *name = tk_name(t), *nn = tk_name(t);
        PARSE_CHECK();
        rc = ncmpi_rename_att(g_ncid[f], varid, name, nn);
        lg_int(rc); lg_end(); return;
    }
    if (!strcmp(op, "copy_att")) {
        int f = tk_f(t), varid = tk_int(t); char *name = tk_name(t);
        int f2 = tk_f(t), varid2 = tk_int(t);
        PARSE_CHECK();
        rc = ncmpi_copy_att(g_ncid[f], varid, name, g_ncid[f2], varid2);
        lg_int(rc); lg_end(); return;
    }
    if (!strcmp(op, "set_fill")) {
        int f = tk_f(t), m = tk_int(t), old = UNSET; PARSE_CHECK();
        rc = ncmpi_set_fill(g_ncid[f], m == 0 ? NC_FILL : m == 1 ? NC_NOFILL : m, &old);
        lg_int(rc);
        lg_int(old == NC_FILL ? 0 : old == NC_NOFILL ? 1 : old);
        lg_end(); return;
    }
    if (!strcmp(op, "def_var_fill")) {
        int f = tk_f(t), varid = tk_int(t), nofill = tk_int(t), hasval = tk_int(t);
        long long val = tk_ll(t); nc_type ty = 0; unsigned char fv[16];
        PARSE_CHECK();
        memset(fv, 0, sizeof fv);
        if (ncmpi_inq_vartype(g_ncid[f], varid, &ty) == NC_NOERR && ty >= 1 && ty <= 11)
            store_elem(fv, (int)ty, val);
        else
            store_elem(fv, 10, val);
        rc = ncmpi_def_var_fill(g_ncid[f], varid, nofill, hasval ? fv : NULL);
        lg_int(rc); lg_end(); return;
    }
    if (!strcmp(op, "inq_var_fill")) {
        int f = tk_f(t), varid = tk_int(t), nofill = UNSET; nc_type ty = 0;
        unsigned char fv[64]; size_t xs = 0;
        PARSE_CHECK();
        memset(fv, FILLBYTE, sizeof fv);
        if (ncmpi_inq_vartype(g_ncid[f], varid, &ty) == NC_NOERR && ty >= 1 && ty <= 11)
            xs = (size_t)elsz[ty];
        rc = ncmpi_inq_var_fill(g_ncid[f], varid, &nofill, fv);
        lg_int(rc); lg_int(nofill); lg_hex(fv, xs); lg_end(); return;
    }
    if (!strcmp(op, "fill_var_rec")) {
        int f = tk_f(t), varid = tk_int(t); long long rec = tk_ll(t); PARSE_CHECK();
        rc = ncmpi_fill_var_rec(g_ncid[f], varid, (MPI_Offset)rec);
        lg_int(rc); lg_end(); return;
    }
    if (!strcmp(op, "inq")) {
        int f = tk_f(t); PARSE_CHECK();
        do_inq(g_ncid[f]); lg_end(); return;
    }
    if (!strcmp(op, "inq_name")) {
        int f = tk_f(t), id = UNSET; const char *k = tk_next(t); char *name = tk_name(t);
        PARSE_CHECK();
        if (!strcmp(k, "d"))      rc = ncmpi_inq_dimid(g_ncid[f], name, &id);
        else if (!strcmp(k, "v")) rc = ncmpi_inq_varid(g_ncid[f], name, &id);
        else { lg_refused("kind"); return; }
        lg_int(rc); lg_int(id); lg_end(); return;
    }
    if (!strcmp(op, "inq_attid")) {
        int f = tk_f(t), varid = tk_int(t), id = UNSET; char *name = tk_name(t);
        PARSE_CHECK();
        rc = ncmpi_inq_attid(g_ncid[f], varid, name, &id);
        lg_int(rc); lg_int(id); lg_end(); return;
    }
    if (!strcmp(op, "inq_numrecs")) {
        int f = tk_f(t), ul = UNSET; MPI_Offset len = UNSET; PARSE_CHECK();
        rc = ncmpi_inq_unlimdim(g_ncid[f], &ul);
        if (rc == NC_NOERR) {
            if (ul == -1) len = -1;
            else rc = ncmpi_inq_dimlen(g_ncid[f], ul, &len);
        }
        lg_int(rc); lg_int(len); lg_end(); return;
    }
    if (!strcmp(op, "inq_nreqs")) {
        int f = tk_f(t), n = UNSET; PARSE_CHECK();
        rc = ncmpi_inq_nreqs(g_ncid[f], &n);
        lg_int(rc); lg_int(n); lg_end(); return;
    }
    if (!strcmp(op, "inq_buffer")) {
        int f = tk_f(t), rc2; MPI_Offset u = UNSET, sz = UNSET; PARSE_CHECK();
        rc  = ncmpi_inq_buffer_usage(g_ncid[f], &u);
        rc2 = ncmpi_inq_buffer_size(g_ncid[f], &sz);
        lg_int(rc); lg_int(rc); lg_int(u); lg_int(rc2); lg_int(sz); lg_end(); return;
    }
    if (!strcmp(op, "attach")) {
        int f = tk_f(t); long long nb = tk_ll(t); PARSE_CHECK();
        rc = ncmpi_buffer_attach(g_ncid[f], (MPI_Offset)nb);
        lg_int(rc); lg_end(); return;
    }
    if (!strcmp(op, "bufs")) {
        int f = tk_f(t); PARSE_CHECK();
        lg_int(0); dump_slots(f); lg_end(); return;
    }
    if (!strcmp(op, "snapshot")) {
        int f = tk_f(t); PARSE_CHECK();
        do_snapshot(f); return;
    }
    if (!strcmp(op, "exists")) {
        int f = tk_f(t); char path[4096]; struct stat st; PARSE_CHECK();
        fpath(path, sizeof path, f);
        rc = (g_rank != 0 || stat(path, &st) == 0) ? 0 : -1;
        lg_int(rc); lg_end(); return;
    }
    if (!strcmp(op, "junk")) {
        int f = tk_f(t); long long n = tk_ll(t), seed = tk_ll(t), i; char path[4096];
        PARSE_CHECK();
        rc = 0;
        if (g_rank == 0) {
            FILE *fp;
            fpath(path, sizeof path, f);
            if (n < 0) n = 0;
            if (n > CAP_BYTES) n = CAP_BYTES;
            fp = fopen(path, "wb");
            if (!fp) rc = -1;
            else {
                unsigned char *b = xalloc((size_t)n + 1);
                for (i = 0; i < n; i++) b[i] = (unsigned char)((((seed + i * 13) % 251) + 251) % 251 + 1);
                if (fwrite(b, 1, (size_t)n, fp) != (size_t)n) rc = -1;
                if (fclose(fp) != 0) rc = -1;
            }
        }
        MPI_Barrier(MPI_COMM_WORLD);
        lg_int(rc); lg_end(); return;
    }
    if (!strcmp(op, "sleep_ms")) {
        long long n = tk_ll(t); PARSE_CHECK();
        if (n < 0) n = 0;
        if (n > 600000) n = 600000;
        usleep((useconds_t)(n * 1000));
        lg_int(0); lg_end(); return;
    }
    if (!strcmp(op, "barrier")) {
        MPI_Barrier(MPI_COMM_WORLD);
        lg_int(0); lg_end(); return;
    }
    lg_int(RC_UNKNOWN); lg_end();
}

/* ------------------------------------------------------------------ */
/* main                                                                */
/* ------------------------------------------------------------------ */
int main(int argc, char **argv)
{
    FILE *fp; char *line = NULL; size_t cap = 0; ssize_t len;
    int lineno = 0, seen_nprocs = 0, i;
    const char *outp;
    char path[4096];

    MPI_Init(&argc, &argv);
    MPI_Comm_rank(MPI_COMM_WORLD, &g_rank);
    MPI_Comm_size(MPI_COMM_WORLD, &g_size);
    MPI_Comm_set_errhandler(MPI_COMM_WORLD, MPI_ERRORS_RETURN);

    if (argc < 2) die("usage: pnc_impl <script>   (env PNC_DIR, PNC_OUT)");
    g_dir = getenv("PNC_DIR");
    outp  = getenv("PNC_OUT");
    if (!g_dir || !*g_dir || !outp || !*outp) die("PNC_DIR and PNC_OUT must be set");
    fp = fopen(argv[1], "r");
    if (!fp) die("cannot open script");
    snprintf(path, sizeof path, "%s.%d", outp, g_rank);
    g_log = fopen(path, "w");
    if (!g_log) die("cannot open observation log");

    for (i = 0; i < MAXF; i++) g_ncid[i] = -1;
    for (i = 0; i < MAXSLOT; i++) g_slot[i].id = -1;

    while ((len = getline(&line, &cap, fp)) >= 0) {
        char **tok = NULL, *p, *raw;
        int ntok = 0, captok = 0, mine = 1;
        long long who;
        toks_t t;
        const char *op;

        lineno++;
        while (len > 0 && (line[len - 1] == '\n' || line[len - 1] == '\r')) line[--len] = 0;
        p = line; while (*p == ' ' || *p == '\t') p++;
        if (*p == 0 || *p == '#') continue;
        raw = strdup(p);
        if (!raw) die("out of memory");

        for (p = strtok(p, " \t"); p; p = strtok(NULL, " \t")) {
            if (ntok == captok) {
                captok = captok ? 2 * captok : 32;
                tok = realloc(tok, (size_t)captok * sizeof(char *));
                if (!tok) die("out of memory");
            }
            tok[ntok++] = p;
        }
        t.tok = tok; t.n = ntok; t.pos = 0; t.bad = 0;

        op = tk_next(&t);
        if (!strcmp(op, "nprocs")) {
            long long n = tk_ll(&t);
            if (t.bad || n != g_size) {
                fprintf(stderr, "pnc_impl[%d]: script wants nprocs %lld but MPI size is %d\n",
                        g_rank, n, g_size);
                MPI_Abort(MPI_COMM_WORLD, 3);
            }
            seen_nprocs = 1;
            goto next;
        }
        if (!seen_nprocs) die("first non-comment line must be `nprocs <n>`");
        if (!strcmp(op, "env")) {
            char *kv = raw + 3, *eq;
            while (*kv == ' ' || *kv == '\t') kv++;
            eq = strchr(kv, '=');
            if (eq) { *eq = 0; setenv(kv, eq + 1, 1); }
            goto next;
        }
        if (!strcmp(op, "{") || !strcmp(op, "}")) goto next;

        /* who prefix (a line without one is executed by every rank) */
        if (!strcmp(op, "*")) op = tk_next(&t);
        else if (is_num(op, &who)) { mine = (who == g_rank); op = tk_next(&t); }
        if (!mine || t.bad) goto next;

        exec_op(lineno, op, &t);
next:
        arena_free();
        free(tok);
        free(raw);
    }
    free(line);
    fclose(fp);
    if (!seen_nprocs) die("script has no `nprocs` line");

    info_clear();
    fclose(g_log);
    MPI_Finalize();

    for (i = 0; i < MAXSLOT; i++) { free(g_slot[i].mb.alloc); free(g_slot[i].shadow); }
    while (g_zombies) { zombie_t *z = g_zombies; g_zombies = z->next; free(z->p); free(z); }
    free(g_arena);
    return 0;
}
