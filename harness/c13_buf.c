/* c13_buf.c — dedicated harness for property C13 (caller buffers are respected; bput captures at post).
 * Unlike pnc_impl.c it looks at the caller's buffer RIGHT AFTER the posting call returned, scribbles over the
 * buffer of a buffered put before the wait, and reads the variable back itself.
 *
 * usage: c13_buf <cases file> <work dir> <output file>      (1 MPI process)
 * case lines (blank separated):
 *   P <id> <fmt> <xt> <memk> <api> <n> <layout> <hint> <exit>
 *        api    : put | iput | bput | iput_varn | bput_varn | put_varn
 *        layout : c  (contiguous, typed API)  | x (contiguous, flexible API) | v<bl>_<st> (flexible, MPI_Type_vector(n/bl, bl, st))
 *                 k<k> (MPI_Type_contiguous(k, elem), bufcount n/k) | K<k1>_<k2> (nested contiguous) | q<bl> (contiguous of
 *                 vector(2, bl, bl): dense but decoded as non-contiguous) | R<bl>_<st> (bufcount n/bl instances of
 *                 resized(contiguous(bl, elem), 0, st*elsize), st > bl: padded records)
 *        hint   : auto | enable | disable          (nc_in_place_swap)
 *        exit   : wait | wait_all | cancel | close  (put / put_varn: `wait` = independent API, anything else = collective)
 *   G <id> <fmt> <xt> <memk> <api> <rows> <cols> <layout>
 *        api    : get | iget            layout : c | x | v<bl>_<st> | R<bl>_<st> | m (typed varm, transposed imap) | w<bl>_<st> (flexible vector + transposed imap)
 * The variable is 1-D [n] (P) or 2-D [rows][cols] (G) of external type xt; element k holds 1 + ((id*7919 + k*104729) % LIM).
 * output, one line per case:
 *   P <id> <rc_post> <reqid> <rc_exit> <post: same|hex of the body after the post> <exit: same|scribble|hex of the body after the exit> <guards 1|0> <file 1|0|-1>
 *   G <id> <rc> <hex of the whole buffer incl. 16 guard bytes each side>
 */
#include <stdio.h>
#include <stdlib.h>
#include <string.h>
#include <mpi.h>
#include <pnetcdf.h>

#define GUARD 16
static const int ELSZ[12] = {0, 1, 1, 2, 4, 4, 8, 1, 2, 4, 8, 8};
static MPI_Datatype mpitype(int k) {
    switch (k) {
    case 1: return MPI_SIGNED_CHAR; case 2: return MPI_CHAR; case 3: return MPI_SHORT; case 4: return MPI_INT;
    case 5: return MPI_FLOAT; case 6: return MPI_DOUBLE; case 7: return MPI_UNSIGNED_CHAR; case 8: return MPI_UNSIGNED_SHORT;
    case 9: return MPI_UNSIGNED; case 10: return MPI_LONG_LONG_INT; default: return MPI_UNSIGNED_LONG_LONG; }
}
static long long lim_of(int a, int b) {
    int e8 = (a == 1 || a == 2 || a == 7 || b == 1 || b == 2 || b == 7);
    int e16 = (a == 3 || a == 8 || b == 3 || b == 8);
    return e8 ? 100 : e16 ? 30000 : 16000000;
}
static void store(int k, void *p, long long v) {
    switch (k) {
    case 1: *(signed char *)p = (signed char)v; break; case 2: *(char *)p = (char)v; break;
    case 3: { short x = (short)v; memcpy(p, &x, 2); } break; case 4: { int x = (int)v; memcpy(p, &x, 4); } break;
    case 5: { float x = (float)v; memcpy(p, &x, 4); } break; case 6: { double x = (double)v; memcpy(p, &x, 8); } break;
    case 7: *(unsigned char *)p = (unsigned char)v; break; case 8: { unsigned short x = (unsigned short)v; memcpy(p, &x, 2); } break;
    case 9: { unsigned x = (unsigned)v; memcpy(p, &x, 4); } break; case 10: { long long x = v; memcpy(p, &x, 8); } break;
    default: { unsigned long long x = (unsigned long long)v; memcpy(p, &x, 8); } }
}
static FILE *OUT;
static void hexout(const unsigned char *p, size_t n) { size_t i; for (i = 0; i < n; i++) fprintf(OUT, "%02x", p[i]); }
static int parse_vec(const char *s, long long *bl, long long *st) { return sscanf(s + 1, "%lld_%lld", bl, st) == 2; }

int main(int argc, char **argv)
{
    char line[1024], path[1024];
    FILE *fp, *out;
    MPI_Init(&argc, &argv);
    if (argc < 4 || !(fp = fopen(argv[1], "r")) || !(out = fopen(argv[3], "w"))) { fprintf(stderr, "usage\n"); MPI_Abort(MPI_COMM_WORLD, 1); }
    OUT = out;
    snprintf(path, sizeof path, "%s/c13.nc", argv[2]);
    while (fgets(line, sizeof line, fp)) {
        char kind[8], api[32], layout[64], hint[32], ex[32];
        long long id, n, rows, cols;
        int fmt, xt, memk, ncid, dimid[2], varid, rc, reqid = -99, cmode, k;
        MPI_Info info;
        if (line[0] != 'P' && line[0] != 'G') continue;
        if (line[0] == 'P') {
            if (sscanf(line, "%7s %lld %d %d %d %31s %lld %63s %31s %31s", kind, &id, &fmt, &xt, &memk, api, &n, layout, hint, ex) != 10) continue;
        } else {
            if (sscanf(line, "%7s %lld %d %d %d %31s %lld %lld %63s", kind, &id, &fmt, &xt, &memk, api, &rows, &cols, layout) != 9) continue;
            n = rows * cols; strcpy(hint, "auto"); strcpy(ex, "wait_all");
        }
        cmode = NC_CLOBBER | (fmt == 2 ? NC_64BIT_OFFSET : fmt == 5 ? NC_64BIT_DATA : 0);
        MPI_Info_create(&info);
        MPI_Info_set(info, "nc_in_place_swap", hint);
        rc = ncmpi_create(MPI_COMM_WORLD, path, cmode, info, &ncid);
        MPI_Info_free(&info);
        if (rc) { fprintf(out, "%s %lld create-failed %d\n", kind, id, rc); continue; }
        if (line[0] == 'P') {
            ncmpi_def_dim(ncid, "x", n, &dimid[0]);
            ncmpi_def_var(ncid, "v", (nc_type)xt, 1, dimid, &varid);
        } else {
            ncmpi_def_dim(ncid, "r", rows, &dimid[0]); ncmpi_def_dim(ncid, "c", cols, &dimid[1]);
            ncmpi_def_var(ncid, "v", (nc_type)xt, 2, dimid, &varid);
        }
        ncmpi_enddef(ncid);
        {
            int es = ELSZ[memk], flex = (layout[0] != 'c' && layout[0] != 'm');
            long long bl = n, st = n, cnt = 1, extent, L = lim_of(memk, xt), i;
            MPI_Datatype el = mpitype(memk), vt = MPI_DATATYPE_NULL, vt2 = MPI_DATATYPE_NULL, buftype;
            MPI_Offset bufcount;
            unsigned char *raw, *body, *orig, *scrib;
            int transposed = (layout[0] == 'm' || layout[0] == 'w');
            if (layout[0] == 'v' || layout[0] == 'w' || layout[0] == 'R') { parse_vec(layout, &bl, &st); cnt = n / bl; }
            extent = (layout[0] == 'v' || layout[0] == 'w' || layout[0] == 'R') ? (cnt - 1) * st + bl : n;
            raw = malloc(2 * GUARD + extent * es + 64); body = raw + GUARD;
            orig = malloc(extent * es + 1); scrib = malloc(extent * es + 1);
            memset(raw, 0xA5, 2 * GUARD + extent * es);
            if (layout[0] == 'v' || layout[0] == 'w') { MPI_Type_vector((int)cnt, (int)bl, (int)st, el, &vt); MPI_Type_commit(&vt); buftype = vt; bufcount = 1; }
            else if (layout[0] == 'R') {           /* R<bl>_<st>: bufcount = n/bl instances of resized(contiguous(bl, elem), 0, st*elsize):
                                                      an array of padded records; the padding keeps the 0xA5 guard pattern */
                MPI_Type_contiguous((int)bl, el, &vt2);
                MPI_Type_create_resized(vt2, 0, (MPI_Aint)(st * es), &vt); MPI_Type_commit(&vt); buftype = vt; bufcount = cnt;
            }
            else if (layout[0] == 'k') {           /* k<k>: MPI_Type_contiguous(k, elem), bufcount = n/k */
                long long k1 = 1; sscanf(layout + 1, "%lld", &k1);
                MPI_Type_contiguous((int)k1, el, &vt); MPI_Type_commit(&vt); buftype = vt; bufcount = n / k1;
            }
            else if (layout[0] == 'K') {           /* K<k1>_<k2>: contiguous(k1, contiguous(k2, elem)), bufcount = n/(k1*k2) */
                long long k1 = 1, k2 = 1; sscanf(layout + 1, "%lld_%lld", &k1, &k2);
                MPI_Type_contiguous((int)k2, el, &vt2); MPI_Type_contiguous((int)k1, vt2, &vt); MPI_Type_commit(&vt);
                buftype = vt; bufcount = n / (k1 * k2);
            }
            else if (layout[0] == 'q') {           /* q<bl>: contiguous(n/(2*bl), vector(2, bl, bl, elem)): dense, bufcount 1 */
                long long b1 = 1; sscanf(layout + 1, "%lld", &b1);
                MPI_Type_vector(2, (int)b1, (int)b1, el, &vt2); MPI_Type_contiguous((int)(n / (2 * b1)), vt2, &vt); MPI_Type_commit(&vt);
                buftype = vt; bufcount = 1;
            }
            else { buftype = el; bufcount = n; }
            if (line[0] == 'P') {
                MPI_Offset start[1] = {0}, count[1] = {n}, s2[2][1], c2[2][1], *sp[2], *cp[2];
                int isnb = strcmp(api, "put") && strcmp(api, "put_varn"), guards, fileok = -1, rcx = 0, stt = -99;
                unsigned char *postimg = malloc(extent * es + 1);
                s2[0][0] = 0; c2[0][0] = n / 2; s2[1][0] = n / 2; c2[1][0] = n - n / 2; sp[0] = s2[0]; sp[1] = s2[1]; cp[0] = c2[0]; cp[1] = c2[1];
                for (i = 0; i < n; i++) {           /* k-th selected element */
                    long long pos = (layout[0] == 'v' || layout[0] == 'R') ? (i / bl) * st + i % bl : i;
                    store(memk, body + pos * es, 1 + ((id * 7919 + i * 104729) % L));
                }
                memcpy(orig, body, extent * es);
                if (!strcmp(api, "bput") || !strcmp(api, "bput_varn")) ncmpi_buffer_attach(ncid, n * ELSZ[xt] + 64);
                if (!strcmp(ex, "wait")) ncmpi_begin_indep_data(ncid);   /* blocking calls: exit `wait` = independent API */
                if (!flex) { bufcount = n; buftype = el; }
                if (!strcmp(api, "put"))
                    rc = strcmp(ex, "wait") ? ncmpi_put_vara_all(ncid, varid, start, count, body, bufcount, buftype)
                                            : ncmpi_put_vara(ncid, varid, start, count, body, bufcount, buftype);
                else if (!strcmp(api, "put_varn"))
                    rc = strcmp(ex, "wait") ? ncmpi_put_varn_all(ncid, varid, 2, sp, cp, body, bufcount, buftype)
                                            : ncmpi_put_varn(ncid, varid, 2, sp, cp, body, bufcount, buftype);
                else if (!strcmp(api, "iput"))
                    rc = flex ? ncmpi_iput_vara(ncid, varid, start, count, body, bufcount, buftype, &reqid)
                              : ncmpi_iput_vara(ncid, varid, start, count, body, n, el, &reqid);
                else if (!strcmp(api, "bput"))
                    rc = flex ? ncmpi_bput_vara(ncid, varid, start, count, body, bufcount, buftype, &reqid)
                              : ncmpi_bput_vara(ncid, varid, start, count, body, n, el, &reqid);
                else if (!strcmp(api, "iput_varn"))
                    rc = flex ? ncmpi_iput_varn(ncid, varid, 2, sp, cp, body, bufcount, buftype, &reqid)
                              : ncmpi_iput_varn(ncid, varid, 2, sp, cp, body, n, el, &reqid);
                else
                    rc = flex ? ncmpi_bput_varn(ncid, varid, 2, sp, cp, body, bufcount, buftype, &reqid)
                              : ncmpi_bput_varn(ncid, varid, 2, sp, cp, body, n, el, &reqid);
                fprintf(out, "P %lld %d %d ", id, rc, reqid);
                memcpy(postimg, body, extent * es);          /* the caller's buffer right after the post returned */
                /* a buffered put captured the data: the caller may reuse the buffer at once */
                if (!strncmp(api, "bput", 4)) memset(body, 0x5A, extent * es);
                memcpy(scrib, body, extent * es);
                if (isnb) {
                    if (!strcmp(ex, "wait")) rcx = ncmpi_wait(ncid, 1, &reqid, &stt);
                    else if (!strcmp(ex, "wait_all")) rcx = ncmpi_wait_all(ncid, 1, &reqid, &stt);
                    else if (!strcmp(ex, "cancel")) rcx = ncmpi_cancel(ncid, 1, &reqid, &stt);
                }
                if (!strcmp(ex, "wait")) ncmpi_end_indep_data(ncid);
                if (strcmp(ex, "close") || !isnb) {
                    /* read back through the external type */
                    int xs = ELSZ[xt];
                    unsigned char *rb = malloc(n * xs + 1), *want = malloc(n * xs + 1);
                    int r2 = ncmpi_get_vara_all(ncid, varid, start, count, rb, n, mpitype(xt));
                    for (i = 0; i < n; i++) store(xt, want + i * xs, 1 + ((id * 7919 + i * 104729) % L));
                    if (r2 == 0 || r2 == NC_ERANGE) fileok = !memcmp(rb, want, n * xs);
                    if (!strcmp(ex, "cancel") && isnb) fileok = -1;      /* nothing was written */
                    free(rb); free(want);
                }
                if (!strncmp(api, "bput", 4) && strcmp(ex, "close")) ncmpi_buffer_detach(ncid);
                rc = ncmpi_close(ncid);
                if (!strcmp(ex, "close") && isnb) rcx = rc;
                fprintf(out, "%d ", rcx);
                if (!memcmp(postimg, orig, extent * es)) fprintf(out, "same "); else { hexout(postimg, extent * es); fprintf(out, " "); }
                if (!strncmp(api, "bput", 4) && !memcmp(body, scrib, extent * es)) fprintf(out, "scribble ");
                else if (!memcmp(body, orig, extent * es)) fprintf(out, "same ");
                else { hexout(body, extent * es); fprintf(out, " "); }
                guards = 1;
                for (k = 0; k < GUARD; k++) if (raw[k] != 0xA5 || raw[GUARD + extent * es + k] != 0xA5) guards = 0;
                fprintf(out, "%d %d\n", guards, fileok);
            } else {
                MPI_Offset start[2] = {0, 0}, count[2] = {rows, cols}, stride[2] = {1, 1}, imap[2];
                int stt = -99, xs = ELSZ[xt];
                unsigned char *fill = malloc(n * xs + 1);
                long long Lx = lim_of(xt, xt) < L ? lim_of(xt, xt) : L;
                for (i = 0; i < n; i++) store(xt, fill + i * xs, 1 + ((id * 7919 + i * 104729) % Lx));
                ncmpi_put_vara_all(ncid, varid, start, count, fill, n, mpitype(xt));
                free(fill);
                imap[0] = transposed ? 1 : cols; imap[1] = transposed ? rows : 1;
                if (!strcmp(api, "get")) {
                    if (transposed) rc = flex ? ncmpi_get_varm_all(ncid, varid, start, count, stride, imap, body, bufcount, buftype)
                                              : ncmpi_get_varm_all(ncid, varid, start, count, stride, imap, body, n, el);
                    else rc = flex ? ncmpi_get_vara_all(ncid, varid, start, count, body, bufcount, buftype)
                                   : ncmpi_get_vara_all(ncid, varid, start, count, body, n, el);
                } else {
                    if (transposed) rc = flex ? ncmpi_iget_varm(ncid, varid, start, count, stride, imap, body, bufcount, buftype, &reqid)
                                              : ncmpi_iget_varm(ncid, varid, start, count, stride, imap, body, n, el, &reqid);
                    else rc = flex ? ncmpi_iget_vara(ncid, varid, start, count, body, bufcount, buftype, &reqid)
                                   : ncmpi_iget_vara(ncid, varid, start, count, body, n, el, &reqid);
                    if (rc == 0) { rc = ncmpi_wait_all(ncid, 1, &reqid, &stt); if (rc == 0) rc = stt; }
                }
                fprintf(out, "G %lld %d ", id, rc);
                hexout(raw, 2 * GUARD + extent * es);
                fprintf(out, "\n");
                ncmpi_close(ncid);
            }
            if (vt != MPI_DATATYPE_NULL) MPI_Type_free(&vt);
            if (vt2 != MPI_DATATYPE_NULL) MPI_Type_free(&vt2);
            free(raw); free(orig); free(scrib);
        }
        fflush(out);
    }
    fclose(fp); fclose(out);
    MPI_Finalize();
    return 0;
}
