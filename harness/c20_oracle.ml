(* c20_oracle.ml — unverified glue around the EXTRACTED Coq oracle of property C20
   (coq/Logical.v, coq/HeaderSpec.v, coq/Data.v via coq/ExtractLogical.v -> C20_model):
   file bytes <-> Coq byte lists, text printing/parsing.  Every verdict printed here
   (decode / strict_valid / layout_ok / logical_eq / content_eq / data_ok), the decoded
   content, the element values (Data.decode_ext) and the re-encoded files (encode_with_layout)
   are computed by the extracted Coq functions.

   usage:
     c20_oracle dump <file>                 canonical text of the decoded file
     c20_oracle valid <file>...             per file: "<file> <decode> <strict_valid> <layout_ok>"
     c20_oracle eq <file1> <file2>          "eq <logical_eq> <content_eq> <same_format>"
     c20_oracle encode <spec> <outfile>     content + layout choice (text) -> file bytes

   Text format of a content (dump prints it, encode reads it; byte strings in lower-case hex,
   "-" = empty):
     format <n>
     numrecs <n>
     dim <name> <size>                      size 0 = unlimited
     gatt <name> <type> <nelems> <data>
     var <name> <type> <ndims> <dimid>*
     vatt <name> <type> <nelems> <data>     attribute of the preceding var
     data <elem>*                           elements of the preceding var
     end
   dump adds "info ..." and "val ..." lines (ignored by encode); encode reads the layout choice
   from lines "hfree <hex>", "gap <hex>" (one per variable, in order), "recgap <hex>",
   "tail <hex>". *)
module BZ = Z
open C20_model

let rec pos_of_big (n : BZ.t) : positive =
  if BZ.equal n BZ.one then XH
  else if BZ.is_even n then XO (pos_of_big (BZ.shift_right n 1))
  else XI (pos_of_big (BZ.shift_right n 1))
let z_of_big (n : BZ.t) : z =
  if BZ.sign n = 0 then Z0 else if BZ.sign n > 0 then Zpos (pos_of_big n) else Zneg (pos_of_big (BZ.neg n))
let rec big_of_pos = function
  | XH -> BZ.one
  | XO p -> BZ.shift_left (big_of_pos p) 1
  | XI p -> BZ.succ (BZ.shift_left (big_of_pos p) 1)
let big_of_z = function Z0 -> BZ.zero | Zpos p -> big_of_pos p | Zneg p -> BZ.neg (big_of_pos p)
let zi (i : int) : z = z_of_big (BZ.of_int i)
let zs (s : string) : z = z_of_big (BZ.of_string s)
let sz (x : z) : string = BZ.to_string (big_of_z x)

(* the 256 byte values as Coq Z, built once *)
let byte_tab : z array = Array.init 256 zi

let read_file (path : string) : z list =
  let ic = open_in_bin path in
  let n = in_channel_length ic in
  let s = really_input_string ic n in
  close_in ic;
  let rec go i acc = if i < 0 then acc else go (i - 1) (byte_tab.(Char.code s.[i]) :: acc) in
  go (n - 1) []

let int_of_byte (b : z) : int = BZ.to_int (big_of_z b)

let write_file (path : string) (bs : z list) : unit =
  let oc = open_out_bin path in
  List.iter (fun b -> let v = int_of_byte b in
                      if v < 0 || v > 255 then failwith "byte out of range";
                      output_char oc (Char.chr v)) bs;
  close_out oc

let hex (bs : z list) : string =
  match bs with
  | [] -> "-"
  | _ -> let b = Buffer.create (2 * List.length bs) in
         List.iter (fun x -> Buffer.add_string b (Printf.sprintf "%02x" (int_of_byte x))) bs;
         Buffer.contents b
let unhex (s : string) : z list =
  if s = "-" then [] else
  List.init (String.length s / 2) (fun i -> byte_tab.(int_of_string ("0x" ^ String.sub s (2 * i) 2)))

let b01 b = if b then "1" else "0"

let print_att kw (a : att) =
  Printf.printf "%s %s %s %s %s\n" kw (hex a.a_name) (sz a.a_type) (sz a.a_nelems) (hex a.a_data)

let cval_str (t : z) (e : z list) : string =
  if BZ.to_int (big_of_z (zlen e)) <> BZ.to_int (big_of_z (xlen_type t)) then "short"
  else match decode_ext t e with
  | CInt v -> "i" ^ sz v
  | CFloat (s, m, ex) -> Printf.sprintf "f%s:%s:%s" (if s then "-" else "+") (sz m) (sz ex)
  | CNaN -> "nan"
  | CInf s -> if s then "-inf" else "+inf"

(* values of an attribute: chunk the data by the element size *)
let rec chunk (n : int) (l : z list) : z list list =
  if l = [] || n <= 0 then [] else
  let rec take k l acc = if k = 0 then (List.rev acc, l) else
      match l with x :: r -> take (k - 1) r (x :: acc) | [] -> (List.rev acc, []) in
  let (a, r) = take n l [] in a :: chunk n r

let print_content (c : logical) =
  Printf.printf "format %s\nnumrecs %s\n" (sz c.lg_format) (sz c.lg_numrecs);
  List.iter (fun d -> Printf.printf "dim %s %s\n" (hex d.d_name) (sz d.d_size)) c.lg_dims;
  let att_vals kw (a : att) =
    let xs = BZ.to_int (big_of_z (xlen_type a.a_type)) in
    Printf.printf "%s" kw;
    List.iter (fun e -> Printf.printf " %s" (cval_str a.a_type e)) (chunk xs a.a_data);
    print_newline () in
  List.iter (fun a -> print_att "gatt" a; att_vals "val" a) c.lg_gatts;
  List.iter (fun v ->
      Printf.printf "var %s %s %d" (hex v.lv_name) (sz v.lv_type) (List.length v.lv_dimids);
      List.iter (fun i -> Printf.printf " %s" (sz i)) v.lv_dimids;
      print_newline ();
      List.iter (fun a -> print_att "vatt" a; att_vals "val" a) v.lv_atts;
      print_string "data";
      List.iter (fun e -> print_char ' '; print_string (hex e)) v.lv_data;
      print_newline ();
      print_string "val";
      List.iter (fun e -> print_char ' '; print_string (cval_str v.lv_type e)) v.lv_data;
      print_newline ()) c.lg_vars;
  print_string "end\n"

(* guard against absurd element counts in damaged headers (unary nat in the extracted code) *)
let content_small (d : decoded) (fsize : int) : bool =
  let h = d.dc_hdr in
  let lim = BZ.of_int (4 * fsize + 4096) in
  let ok = ref (BZ.leq (big_of_z h.h_numrecs) lim) in
  List.iter (fun v ->
      let n = big_of_z (var_nelems_per_rec (var_shape h.h_dims v)) in
      let n = if is_recvar h.h_dims v then BZ.mul n (BZ.max BZ.one (big_of_z h.h_numrecs)) else n in
      if BZ.gt n lim || BZ.lt n BZ.zero then ok := false) h.h_vars;
  !ok

let cmd_dump path =
  let bs = read_file path in
  let fsize = List.length bs in
  Printf.printf "info size %d\n" fsize;
  match decode bs with
  | None -> print_string "info decode 0\n"
  | Some d ->
      let h = d.dc_hdr in
      print_string "info decode 1\n";
      Printf.printf "info strict_valid %s\n" (b01 (strict_valid d));
      Printf.printf "info layout_ok %s\n" (b01 (layout_ok h d.dc_len));
      Printf.printf "info hdr_len %s\n" (sz d.dc_len);
      Printf.printf "info raw_numrecs %s\n" (sz h.h_numrecs);
      let lay = layout_of_hdr h d.dc_len in
      Printf.printf "info begin_var %s\ninfo begin_rec %s\ninfo recsize %s\n"
        (sz lay.l_begin_var) (sz lay.l_begin_rec) (sz lay.l_recsize);
      List.iter2 (fun (v : var) (dv : dec_var) ->
          Printf.printf "info var %s begin %s vsize %s len %s isrec %s\n" (hex v.v_name) (sz v.v_begin)
            (sz dv.dv_vsize) (sz (var_len h.h_dims v)) (b01 (is_recvar h.h_dims v)))
        h.h_vars d.dc_vars;
      if content_small d fsize then begin
        let c = logical_of bs d in
        Printf.printf "info data_ok %s\n" (b01 (data_ok c));
        print_content c
      end else print_string "info content skipped\n"

let cmd_valid paths =
  List.iter (fun p ->
      let bs = read_file p in
      match decode bs with
      | None -> Printf.printf "%s 0 0 0\n" p
      | Some d -> Printf.printf "%s 1 %s %s\n" p (b01 (strict_valid d)) (b01 (layout_ok d.dc_hdr d.dc_len)))
    paths

let content_of path =
  let bs = read_file path in
  match decode bs with
  | Some d when content_small d (List.length bs) -> Some (logical_of bs d)
  | _ -> None

let cmd_eq p1 p2 =
  match content_of p1, content_of p2 with
  | Some a, Some b ->
      Printf.printf "eq %s %s %s\n" (b01 (logical_eq a b)) (b01 (content_eq a b))
        (b01 (BZ.equal (big_of_z a.lg_format) (big_of_z b.lg_format)))
  | _ -> print_string "eq undecodable\n"

(* ---- parsing a content + layout spec ---- *)
let split_ws (s : string) : string list =
  List.filter (fun x -> x <> "") (String.split_on_char ' ' (String.trim s))

let cmd_encode spec out =
  let ic = open_in spec in
  let fmt = ref Z0 and nr = ref Z0 in
  let dims = ref [] and gatts = ref [] and vars = ref [] in
  let hfree = ref [] and gaps = ref [] and recgap = ref [] and tail = ref [] in
  (* current variable under construction *)
  let cur : (z list * z * z list) option ref = ref None in
  let cur_atts = ref [] and cur_data = ref [] in
  let flush () =
    match !cur with
    | Some (nm, t, ids) ->
        vars := { lv_name = nm; lv_type = t; lv_dimids = ids; lv_atts = List.rev !cur_atts;
                  lv_data = !cur_data } :: !vars;
        cur := None; cur_atts := []; cur_data := []
    | None -> () in
  let mkatt = function
    | [n; t; k; d] -> { a_name = unhex n; a_type = zs t; a_nelems = zs k; a_data = unhex d }
    | _ -> failwith "att" in
  (try
     while true do
       let l = input_line ic in
       match split_ws l with
       | "format" :: [n] -> fmt := zs n
       | "numrecs" :: [n] -> nr := zs n
       | "dim" :: [n; s] -> dims := { d_name = unhex n; d_size = zs s } :: !dims
       | "gatt" :: r -> gatts := mkatt r :: !gatts
       | "var" :: n :: t :: _ :: ids -> flush (); cur := Some (unhex n, zs t, List.map zs ids)
       | "vatt" :: r -> cur_atts := mkatt r :: !cur_atts
       | "data" :: es -> cur_data := List.map unhex es
       | "hfree" :: [h] -> hfree := unhex h
       | "gap" :: [h] -> gaps := unhex h :: !gaps
       | "recgap" :: [h] -> recgap := unhex h
       | "tail" :: [h] -> tail := unhex h
       | _ -> ()      (* info / val / end / comments *)
     done
   with End_of_file -> ());
  close_in ic;
  flush ();
  let c = { lg_format = !fmt; lg_numrecs = !nr; lg_dims = List.rev !dims; lg_gatts = List.rev !gatts;
            lg_vars = List.rev !vars } in
  let lc = { lc_hfree = !hfree; lc_gaps = List.rev !gaps; lc_recgap = !recgap; lc_tail = !tail } in
  Printf.printf "data_ok %s\n" (b01 (data_ok c));
  print_string "begins";
  List.iter (fun b -> Printf.printf " %s" (sz b)) (layout_begins c lc);
  print_newline ();
  write_file out (encode_with_layout c lc)

let () =
  match Array.to_list Sys.argv with
  | _ :: "dump" :: [p] -> cmd_dump p
  | _ :: "valid" :: ps -> cmd_valid ps
  | _ :: "eq" :: [a; b] -> cmd_eq a b
  | _ :: "encode" :: [s; o] -> cmd_encode s o
  | _ -> prerr_string "usage: c20_oracle dump|valid|eq|encode ...\n"; exit 2
