/* c17_limit.c — property C17: the documented maximum number of files can be open at once; the next create/open
 * is refused with NC_ENFILE; ids are 0..NC_MAX_NFILES-1 in order, a closed id is reissued; and the resources
 * are balanced after the last close (link with c17_shim.c; heap only with a --enable-debug library).
 * usage: c17_limit <dir> [extra]      prints one line per observation, "key value..." ; exit 0 always unless MPI fails
 *   extra = number of refused creates/opens to attempt after the table is full (default 3)
 *        c17_limit <dir> comm         lifecycle on a communicator that is neither WORLD nor SELF (the library duplicates
 *                                     it in ncmpi_create/ncmpi_open and must free the duplicate on every exit)
 * Every refused call is issued once with MPI_INFO_NULL and once with a non-empty MPI_Info (the info is duplicated
 * inside ncmpi_create/ncmpi_open before the table is consulted). */
#include <stdio.h>
#include <stdlib.h>
#include <string.h>
#include <sys/resource.h>
#include <mpi.h>
#include <pnetcdf.h>

void c17_report_now(const char *tag);

static int run_comm(const char *dir)
{
    int err, ncid, ncid2, dimid, varid, buf[4] = {1, 2, 3, 4}, req;
    char path[4096], junk[4096];
    MPI_Comm comm;
    MPI_Info info;
    FILE *f;

    MPI_Comm_dup(MPI_COMM_WORLD, &comm);
    MPI_Info_create(&info);
    MPI_Info_set(info, "nc_var_align_size", "64");
    snprintf(path, sizeof path, "%s/C0.nc", dir);
    ncid = -99; err = ncmpi_create(comm, path, NC_CLOBBER, info, &ncid); printf("create rc %d ncid %d\n", err, ncid);
    err = ncmpi_def_dim(ncid, "x", 4, &dimid); err = ncmpi_def_var(ncid, "v", NC_INT, 1, &dimid, &varid);
    err = ncmpi_enddef(ncid); printf("enddef rc %d\n", err);
    err = ncmpi_put_var_int_all(ncid, varid, buf); printf("put rc %d\n", err);
    ncid2 = -99; err = ncmpi_create(comm, path, NC_NOCLOBBER, info, &ncid2); printf("create_noclobber rc %d ncid %d\n", err, ncid2);
    err = ncmpi_close(ncid); printf("close rc %d\n", err);
    c17_report_now("comm_after_close");
    snprintf(junk, sizeof junk, "%s/missing.nc", dir);
    ncid2 = -99; err = ncmpi_open(comm, junk, NC_NOWRITE, info, &ncid2); printf("open_missing rc %d ncid %d\n", err, ncid2);
    snprintf(junk, sizeof junk, "%s/bad.nc", dir);
    { int rank; MPI_Comm_rank(comm, &rank);
      if (rank == 0) { f = fopen(junk, "wb"); fwrite("CDF\001\377\377\377\377\377\377\377\377\377\377\377\377\377\377\377\377", 1, 20, f); fclose(f); }
      MPI_Barrier(comm); }
    ncid2 = -99; err = ncmpi_open(comm, junk, NC_NOWRITE, info, &ncid2); printf("open_corrupt rc %d ncid %d\n", err, ncid2);
    c17_report_now("comm_after_failed_opens");
    ncid = -99; err = ncmpi_open(comm, path, NC_WRITE, info, &ncid); printf("open rc %d ncid %d\n", err, ncid);
    err = ncmpi_iput_var_int(ncid, 0, buf, &req); printf("iput rc %d\n", err);
    err = ncmpi_abort(ncid); printf("abort_pending rc %d\n", err);
    c17_report_now("comm_after_abort_pending");
    ncid = -99; err = ncmpi_open(comm, path, NC_WRITE, info, &ncid); printf("open rc %d ncid %d\n", err, ncid);
    err = ncmpi_redef(ncid); printf("redef rc %d\n", err);
    err = ncmpi_abort(ncid); printf("abort_redef rc %d\n", err);
    ncid = -99; err = ncmpi_create(comm, path, NC_CLOBBER, MPI_INFO_NULL, &ncid); printf("create rc %d ncid %d\n", err, ncid);
    err = ncmpi_abort(ncid); printf("abort_new rc %d\n", err);
    MPI_Info_free(&info);
    MPI_Comm_free(&comm);
    fflush(stdout);
    return 0;
}

int main(int argc, char **argv)
{
    int i, err, ncid, n = NC_MAX_NFILES, extra = 3, nbad_rc = 0, nbad_id = 0, first_bad = -1, num;
    int *ids;
    char path[4096];
    const char *dir;
    struct rlimit rl;
    MPI_Info info;

    MPI_Init(&argc, &argv);
    if (argc < 2) { fprintf(stderr, "usage: c17_limit <dir> [extra]\n"); MPI_Finalize(); return 2; }
    dir = argv[1];
    if (argc > 2 && strcmp(argv[2], "comm") == 0) { run_comm(dir); MPI_Finalize(); return 0; }
    if (argc > 2) extra = atoi(argv[2]);
    if (getrlimit(RLIMIT_NOFILE, &rl) == 0) { rl.rlim_cur = rl.rlim_max; setrlimit(RLIMIT_NOFILE, &rl); }
    getrlimit(RLIMIT_NOFILE, &rl);
    printf("nofile %ld\n", (long)rl.rlim_cur);
    printf("max_nfiles %d\n", n);
    c17_report_now("start");

    ids = (int*) malloc(sizeof(int) * (size_t)(n + 8));
    for (i = 0; i < n; i++) {
        snprintf(path, sizeof path, "%s/L%04d.nc", dir, i);
        ncid = -99;
        err = ncmpi_create(MPI_COMM_SELF, path, NC_CLOBBER, MPI_INFO_NULL, &ncid);
        ids[i] = ncid;
        if (err != NC_NOERR) { nbad_rc++; if (first_bad < 0) { first_bad = i; printf("first_bad_create %d rc %d ncid %d\n", i, err, ncid); } }
        else if (ncid != i) nbad_id++;
    }
    printf("creates %d bad_rc %d bad_id %d\n", n, nbad_rc, nbad_id);
    ncmpi_inq_files_opened(&num, NULL);
    printf("files_opened %d\n", num);
    c17_report_now("full");

    MPI_Info_create(&info);
    MPI_Info_set(info, "nc_header_align_size", "1024");
    for (i = 0; i < extra; i++) {
        snprintf(path, sizeof path, "%s/X%04d.nc", dir, i);
        ncid = -99;
        err = ncmpi_create(MPI_COMM_SELF, path, NC_CLOBBER, (i & 1) ? info : MPI_INFO_NULL, &ncid);
        printf("extra_create %d rc %d ncid %d\n", i, err, ncid);
        if (err == NC_NOERR) ncmpi_close(ncid);
    }
    c17_report_now("after_refused_creates");
    /* a file that exists and is valid, for the refused open: close id 3, reopen it -> id 3 again; then table is full again */
    err = ncmpi_enddef(ids[3]); printf("enddef3 rc %d\n", err);
    err = ncmpi_close(ids[3]); printf("close3 rc %d\n", err);
    snprintf(path, sizeof path, "%s/L%04d.nc", dir, 3);
    ncid = -99; err = ncmpi_open(MPI_COMM_SELF, path, NC_NOWRITE, MPI_INFO_NULL, &ncid);
    printf("reopen3 rc %d ncid %d\n", err, ncid);
    /* need a second valid closed file: close id 5 after enddef, reopen refused? no: the table has a free slot then.
       Use file 3 itself: it is open read-only in slot 3; opening it again needs a slot -> refused */
    for (i = 0; i < extra; i++) {
        ncid = -99;
        err = ncmpi_open(MPI_COMM_SELF, path, NC_NOWRITE, (i & 1) ? info : MPI_INFO_NULL, &ncid);
        printf("extra_open %d rc %d ncid %d\n", i, err, ncid);
        if (err == NC_NOERR) ncmpi_close(ncid);
    }
    MPI_Info_free(&info);
    c17_report_now("after_refused_opens");
    /* reuse: close 7 and 5, the next creates get 5 then 7 */
    err = ncmpi_close(ids[7]); printf("close7 rc %d\n", err);
    err = ncmpi_close(ids[5]); printf("close5 rc %d\n", err);
    snprintf(path, sizeof path, "%s/R0.nc", dir);
    ncid = -99; err = ncmpi_create(MPI_COMM_SELF, path, NC_CLOBBER, MPI_INFO_NULL, &ncid); printf("reuse0 rc %d ncid %d\n", err, ncid); ids[5] = ncid;
    snprintf(path, sizeof path, "%s/R1.nc", dir);
    ncid = -99; err = ncmpi_create(MPI_COMM_SELF, path, NC_CLOBBER, MPI_INFO_NULL, &ncid); printf("reuse1 rc %d ncid %d\n", err, ncid); ids[7] = ncid;
    ncid = -99; err = ncmpi_create(MPI_COMM_SELF, path, NC_CLOBBER, MPI_INFO_NULL, &ncid); printf("reuse2 rc %d ncid %d\n", err, ncid);
    ncmpi_inq_files_opened(&num, NULL);
    printf("files_opened %d\n", num);
    /* close everything */
    nbad_rc = 0;
    for (i = 0; i < n; i++) {
        err = ncmpi_close(i);
        if (err != NC_NOERR) { nbad_rc++; if (nbad_rc < 4) printf("close %d rc %d\n", i, err); }
    }
    printf("closes %d bad_rc %d\n", n, nbad_rc);
    ncmpi_inq_files_opened(&num, NULL);
    printf("files_opened %d\n", num);
    err = ncmpi_close(0); printf("close_after_all rc %d\n", err);
    free(ids);
    fflush(stdout);
    MPI_Finalize();
    return 0;
}
