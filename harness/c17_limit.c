/* c17_limit.c — property C17: the documented maximum number of files can be open at once; the next create/open
 * is refused with NC_ENFILE; every id handed out is >= 0, below NC_MAX_NFILES and different from every id that is
 * currently open (NO particular allocation order is assumed); after closing a few LOW ids out of order the same
 * number of files can be opened again; ncmpi_inq_files_opened agrees with the set of ids this program holds; and
 * the resources are balanced after the last close (link with c17_shim.c; heap only with a --enable-debug library).
 * Output: one line per observation  "<key> <name>=<value> ..." , judged by checks/C17.py.
 * usage: c17_limit <dir> [extra]      prints one line per observation, "key value..." ; exit 0 always unless MPI fails
 *   extra = number of refused creates/opens to attempt after the table is full (default 3)
 *        c17_limit <dir> comm         lifecycle on a communicator that is neither WORLD nor SELF (the library duplicates
 *                                     it in ncmpi_create/ncmpi_open and must free the duplicate on every exit)
 * Every refused call is issued once with MPI_INFO_NULL and once with a non-empty MPI_Info (the info is duplicated
 * inside ncmpi_create/ncmpi_open before the table is consulted). */
#include <stdio.h>
#include <stdlib.h>
#include <string.h>
#include <sys/resource.h>
#include <mpi.h>
#include <pnetcdf.h>

void c17_report_now(const char *tag);

static int run_comm(const char *dir)
{
    int err, ncid, ncid2, dimid, varid, buf[4] = {1, 2, 3, 4}, req;
    char path[4096], junk[4096];
    MPI_Comm comm;
    MPI_Info info;
    FILE *f;

    MPI_Comm_dup(MPI_COMM_WORLD, &comm);
    MPI_Info_create(&info);
    MPI_Info_set(info, "nc_var_align_size", "64");
    snprintf(path, sizeof path, "%s/C0.nc", dir);
    ncid = -99; err = ncmpi_create(comm, path, NC_CLOBBER, info, &ncid); printf("create rc %d ncid %d\n", err, ncid);
    err = ncmpi_def_dim(ncid, "x", 4, &dimid); err = ncmpi_def_var(ncid, "v", NC_INT, 1, &dimid, &varid);
    err = ncmpi_enddef(ncid); printf("enddef rc %d\n", err);
    err = ncmpi_put_var_int_all(ncid, varid, buf); printf("put rc %d\n", err);
    ncid2 = -99; err = ncmpi_create(comm, path, NC_NOCLOBBER, info, &ncid2); printf("create_noclobber rc %d ncid %d\n", err, ncid2);
    err = ncmpi_close(ncid); printf("close rc %d\n", err);
    c17_report_now("comm_after_close");
    snprintf(junk, sizeof junk, "%s/missing.nc", dir);
    ncid2 = -99; err = ncmpi_open(comm, junk, NC_NOWRITE, info, &ncid2); printf("open_missing rc %d ncid %d\n", err, ncid2);
    snprintf(junk, sizeof junk, "%s/bad.nc", dir);
    { int rank; MPI_Comm_rank(comm, &rank);
      if (rank == 0) { f = fopen(junk, "wb"); fwrite("CDF\001\377\377\377\377\377\377\377\377\377\377\377\377\377\377\377\377", 1, 20, f); fclose(f); }
      MPI_Barrier(comm); }
    ncid2 = -99; err = ncmpi_open(comm, junk, NC_NOWRITE, info, &ncid2); printf("open_corrupt rc %d ncid %d\n", err, ncid2);
    c17_report_now("comm_after_failed_opens");
    ncid = -99; err = ncmpi_open(comm, path, NC_WRITE, info, &ncid); printf("open rc %d ncid %d\n", err, ncid);
    err = ncmpi_iput_var_int(ncid, 0, buf, &req); printf("iput rc %d\n", err);
    err = ncmpi_abort(ncid); printf("abort_pending rc %d\n", err);
    c17_report_now("comm_after_abort_pending");
    ncid = -99; err = ncmpi_open(comm, path, NC_WRITE, info, &ncid); printf("open rc %d ncid %d\n", err, ncid);
    err = ncmpi_redef(ncid); printf("redef rc %d\n", err);
    err = ncmpi_abort(ncid); printf("abort_redef rc %d\n", err);
    ncid = -99; err = ncmpi_create(comm, path, NC_CLOBBER, MPI_INFO_NULL, &ncid); printf("create rc %d ncid %d\n", err, ncid);
    err = ncmpi_abort(ncid); printf("abort_new rc %d\n", err);
    MPI_Info_free(&info);
    MPI_Comm_free(&comm);
    fflush(stdout);
    return 0;
}

static int n = NC_MAX_NFILES;
static char *held;          /* held[id] = 1: this program holds id as an open file */
static int nheld;

/* is the id just returned acceptable?  0 ok, 1 out of range, 2 already open */
static int id_bad(int ncid) { if (ncid < 0 || ncid >= n) return 1; if (held[ncid]) return 2; return 0; }

/* compare ncmpi_inq_files_opened with what we hold */
static void probe(const char *tag)
{
    int num = -1, num2 = -1, i, bad = 0, *ids = (int*) malloc(sizeof(int) * (size_t)(n + 8));
    ncmpi_inq_files_opened(&num, NULL);
    ncmpi_inq_files_opened(&num2, ids);
    if (num2 != nheld) bad++;
    for (i = 0; i < num2 && i < n + 8; i++) if (ids[i] < 0 || ids[i] >= n || !held[ids[i]]) bad++;
    printf("probe tag=%s count=%d listed=%d held=%d list_bad=%d\n", tag, num, num2, nheld, bad);
    free(ids);
}

static int open_one(const char *tag, int i, int create, const char *path, MPI_Info info)
{
    int ncid = -99, err, bad, use = -999;
    if (create) err = ncmpi_create(MPI_COMM_SELF, path, NC_CLOBBER, info, &ncid);
    else        err = ncmpi_open(MPI_COMM_SELF, path, NC_NOWRITE, info, &ncid);
    bad = (err == NC_NOERR) ? id_bad(ncid) : 0;
    if (err == NC_NOERR && !bad) { int nreq; held[ncid] = 1; nheld++; use = ncmpi_inq_nreqs(ncid, &nreq); }
    printf("%s i=%d kind=%s rc=%d ncid=%d id_bad=%d use_rc=%d\n", tag, i, create ? "create" : "open", err, ncid, bad, use);
    return (err == NC_NOERR && !bad) ? ncid : -1;
}

static void close_one(const char *tag, int ncid)
{
    int err = ncmpi_close(ncid), nreq, after;
    if (err == NC_NOERR && ncid >= 0 && ncid < n && held[ncid]) { held[ncid] = 0; nheld--; }
    after = ncmpi_inq_nreqs(ncid, &nreq);
    printf("%s ncid=%d rc=%d after_rc=%d\n", tag, ncid, err, after);
}

int main(int argc, char **argv)
{
    int i, err, ncid, extra = 3, nbad_rc = 0, nbad_id = 0, first;
    int *ids, low[3] = {17, 0, 5};
    char path[4096], path17[4096];
    const char *dir;
    struct rlimit rl;
    MPI_Info info;

    MPI_Init(&argc, &argv);
    if (argc < 2) { fprintf(stderr, "usage: c17_limit <dir> [extra|comm]\n"); MPI_Finalize(); return 2; }
    dir = argv[1];
    if (argc > 2 && strcmp(argv[2], "comm") == 0) { run_comm(dir); MPI_Finalize(); return 0; }
    if (argc > 2) extra = atoi(argv[2]);
    if (getrlimit(RLIMIT_NOFILE, &rl) == 0) { rl.rlim_cur = rl.rlim_max; setrlimit(RLIMIT_NOFILE, &rl); }
    getrlimit(RLIMIT_NOFILE, &rl);
    printf("nofile value=%ld\n", (long)rl.rlim_cur);
    printf("max_nfiles value=%d\n", n);
    held = (char*) calloc((size_t)n + 8, 1);
    ids = (int*) malloc(sizeof(int) * (size_t)(n + 8));
    c17_report_now("start");

    /* 1. fill the table completely */
    first = -1;
    for (i = 0; i < n; i++) {
        snprintf(path, sizeof path, "%s/L%04d.nc", dir, i);
        ncid = -99;
        err = ncmpi_create(MPI_COMM_SELF, path, NC_CLOBBER, MPI_INFO_NULL, &ncid);
        ids[i] = -1;
        if (err != NC_NOERR) { nbad_rc++; if (first < 0) { first = i; printf("fill_first_bad i=%d rc=%d ncid=%d\n", i, err, ncid); } }
        else if (id_bad(ncid)) { nbad_id++; if (first < 0) { first = i; printf("fill_first_bad i=%d rc=%d ncid=%d\n", i, err, ncid); } }
        else { held[ncid] = 1; nheld++; ids[i] = ncid; }
    }
    printf("fill n=%d bad_rc=%d bad_id=%d\n", n, nbad_rc, nbad_id);
    probe("full");
    c17_report_now("full");

    /* 2. the table is full: every further create/open is refused, with and without an info object */
    MPI_Info_create(&info);
    MPI_Info_set(info, "nc_header_align_size", "1024");
    for (i = 0; i < extra; i++) {
        snprintf(path, sizeof path, "%s/X%04d.nc", dir, i);
        ncid = open_one("refused", i, 1, path, (i & 1) ? info : MPI_INFO_NULL);
        if (ncid >= 0) close_one("refused_close", ncid);
    }
    /* make file 17 a valid closed file for the opens: leave define mode, close, reopen (must work: one slot is free) */
    snprintf(path17, sizeof path17, "%s/L%04d.nc", dir, 17);
    if (ids[17] >= 0) { err = ncmpi_enddef(ids[17]); printf("enddef17 rc=%d\n", err); close_one("close17", ids[17]); }
    ids[17] = open_one("reopen17", 0, 0, path17, MPI_INFO_NULL);
    for (i = 0; i < extra; i++) {
        ncid = open_one("refused", 100 + i, 0, path17, (i & 1) ? info : MPI_INFO_NULL);
        if (ncid >= 0) close_one("refused_close", ncid);
    }
    probe("after_refused");
    c17_report_now("after_refused");

    /* 3. close a few LOW ids out of order, then open that many files again: each must succeed with an unused valid id */
    for (i = 0; i < 3; i++) if (ids[low[i]] >= 0) { close_one("low_close", ids[low[i]]); ids[low[i]] = -1; }
    probe("after_low_close");
    for (i = 0; i < 3; i++) {
        snprintf(path, sizeof path, "%s/R%d.nc", dir, i);
        ids[low[i]] = open_one("again", i, (i != 1), (i != 1) ? path : path17, (i == 2) ? info : MPI_INFO_NULL);
    }
    probe("full_again");
    /* 4. full again: refused */
    snprintf(path, sizeof path, "%s/Y.nc", dir);
    ncid = open_one("refused", 200, 1, path, MPI_INFO_NULL);
    if (ncid >= 0) close_one("refused_close", ncid);
    ncid = open_one("refused", 201, 0, path17, info);
    if (ncid >= 0) close_one("refused_close", ncid);
    MPI_Info_free(&info);
    c17_report_now("full_again");

    /* 5. close everything this program holds */
    nbad_rc = 0;
    for (i = 0; i < n; i++) if (held[i]) {
        err = ncmpi_close(i);
        if (err != NC_NOERR) { nbad_rc++; if (nbad_rc < 4) printf("close_bad ncid=%d rc=%d\n", i, err); }
        else { held[i] = 0; nheld--; }
    }
    printf("close_all bad_rc=%d still_held=%d\n", nbad_rc, nheld);
    probe("empty");
    err = ncmpi_close(0); printf("close_after_all rc=%d\n", err);
    free(ids); free(held);
    fflush(stdout);
    MPI_Finalize();
    return 0;
}
