/* c10_info.c — property C10: "the effective hint values the library reports back are the ones
 * in force".  Creates a file with the given MPI_Info hints (PNETCDF_HINTS, PNETCDF_SAFE_MODE,
 * PNETCDF_VERIF_HDR_CHUNK come from the environment), defines a schema, runs (_)enddef, closes,
 * re-opens, and prints what ncmpi_inq_file_info reports at each stage together with the
 * offsets the library actually assigned.
 *
 * usage: c10_info <path> <fmt 1|2|5> <dims> <vars> <enddef> [key=value ...]
 *   dims   : name=len,name=len,...        (len 0 = NC_UNLIMITED); "-" for none
 *   vars   : name:type:dimid.dimid...,... (type = nc_type number; no dimids = scalar); "-" for none
 *   enddef : "-" (ncmpi_enddef) or "h_minfree,v_align,v_minfree,r_align" (ncmpi__enddef)
 *   key=value : entries of the MPI_Info passed to create and open; none -> MPI_INFO_NULL
 *
 * output (rank 0, one record per line):
 *   S <stage> rc=<rc>                       stage in create|define|enddef|close|open|close2
 *   I <stage> <key>=<value>                 every pnetcdf hint reported by inq_file_info
 *   L <stage> hsize=<n> hext=<n> recsize=<n> nvars=<n> off=<o0,o1,...>
 *   D done
 */
#include <stdio.h>
#include <stdlib.h>
#include <string.h>
#include <mpi.h>
#include <pnetcdf.h>

static int rank;

static const char *KEYS[] = {
    "nc_header_align_size", "nc_var_align_size", "nc_record_align_size",
    "nc_header_read_chunk_size", "nc_in_place_swap", "nc_ibuf_size",
    "pnetcdf_subfiling", "nc_num_subfiles",
    "nc_hash_size_dim", "nc_hash_size_var", "nc_hash_size_gattr", "nc_hash_size_vattr",
    "nc_num_aggrs_per_node", "romio_no_indep_rw", NULL };

static void report(int ncid, const char *stage)
{
    MPI_Info info = MPI_INFO_NULL;
    int i, err, flag, nvars = 0;
    char value[MPI_MAX_INFO_VAL + 1];
    MPI_Offset hsize = -1, hext = -1, recsize = -1;

    err = ncmpi_inq_file_info(ncid, &info);
    if (rank == 0) printf("S inq_%s rc=%d\n", stage, err);
    if (err == NC_NOERR && info != MPI_INFO_NULL) {
        for (i = 0; KEYS[i] != NULL; i++) {
            flag = 0;
            MPI_Info_get(info, KEYS[i], MPI_MAX_INFO_VAL, value, &flag);
            if (rank == 0) {
                if (flag) printf("I %s %s=%s\n", stage, KEYS[i], value);
                else      printf("I %s %s\n", stage, KEYS[i]);   /* not reported */
            }
        }
        MPI_Info_free(&info);
    }
    ncmpi_inq_header_size(ncid, &hsize);
    ncmpi_inq_header_extent(ncid, &hext);
    ncmpi_inq_recsize(ncid, &recsize);
    ncmpi_inq_nvars(ncid, &nvars);
    if (rank == 0) {
        printf("L %s hsize=%lld hext=%lld recsize=%lld nvars=%d off=", stage,
               (long long)hsize, (long long)hext, (long long)recsize, nvars);
        for (i = 0; i < nvars; i++) {
            MPI_Offset off = -1;
            ncmpi_inq_varoffset(ncid, i, &off);
            printf("%s%lld", i ? "," : "", (long long)off);
        }
        printf("\n");
    }
}

int main(int argc, char **argv)
{
    int i, err, ncid = -1, cmode, ndims = 0;
    MPI_Info info = MPI_INFO_NULL;
    char *path, *p, *q, *save1, *save2;

    MPI_Init(&argc, &argv);
    MPI_Comm_rank(MPI_COMM_WORLD, &rank);
    if (argc < 6) {
        if (rank == 0) fprintf(stderr, "usage: c10_info path fmt dims vars enddef [k=v ...]\n");
        MPI_Finalize();
        return 2;
    }
    path = argv[1];
    cmode = NC_CLOBBER;
    if (atoi(argv[2]) == 2) cmode |= NC_64BIT_OFFSET;
    if (atoi(argv[2]) == 5) cmode |= NC_64BIT_DATA;

    for (i = 6; i < argc; i++) {
        char *eq = strchr(argv[i], '=');
        if (eq == NULL) continue;
        if (info == MPI_INFO_NULL) MPI_Info_create(&info);
        *eq = '\0';
        MPI_Info_set(info, argv[i], eq + 1);
        *eq = '=';
    }

    err = ncmpi_create(MPI_COMM_WORLD, path, cmode, info, &ncid);
    if (rank == 0) printf("S create rc=%d\n", err);
    if (err != NC_NOERR) goto done;
    report(ncid, "create");

    /* dimensions */
    err = NC_NOERR;
    if (strcmp(argv[3], "-") != 0) {
        char *dims = strdup(argv[3]);
        for (p = strtok_r(dims, ",", &save1); p != NULL; p = strtok_r(NULL, ",", &save1)) {
            int dimid;
            char *eq = strchr(p, '=');
            if (eq == NULL) continue;
            *eq = '\0';
            err = ncmpi_def_dim(ncid, p, (MPI_Offset)atoll(eq + 1), &dimid);
            if (err != NC_NOERR) break;
            ndims++;
        }
        free(dims);
    }
    /* variables */
    if (err == NC_NOERR && strcmp(argv[4], "-") != 0) {
        char *vars = strdup(argv[4]);
        for (p = strtok_r(vars, ",", &save1); p != NULL; p = strtok_r(NULL, ",", &save1)) {
            int varid, nd = 0, dimids[64], xtype;
            char *name = p, *c1 = strchr(p, ':'), *c2;
            if (c1 == NULL) continue;
            *c1 = '\0';
            c2 = strchr(c1 + 1, ':');
            if (c2 != NULL) *c2 = '\0';
            xtype = atoi(c1 + 1);
            if (c2 != NULL && c2[1] != '\0')
                for (q = strtok_r(c2 + 1, ".", &save2); q != NULL && nd < 64; q = strtok_r(NULL, ".", &save2))
                    dimids[nd++] = atoi(q);
            err = ncmpi_def_var(ncid, name, (nc_type)xtype, nd, dimids, &varid);
            if (err != NC_NOERR) break;
        }
        free(vars);
    }
    if (rank == 0) printf("S define rc=%d\n", err);

    if (strcmp(argv[5], "-") == 0)
        err = ncmpi_enddef(ncid);
    else {
        long long a[4] = {0, 0, 0, 0};
        sscanf(argv[5], "%lld,%lld,%lld,%lld", &a[0], &a[1], &a[2], &a[3]);
        err = ncmpi__enddef(ncid, (MPI_Offset)a[0], (MPI_Offset)a[1], (MPI_Offset)a[2], (MPI_Offset)a[3]);
    }
    if (rank == 0) printf("S enddef rc=%d\n", err);
    if (err == NC_NOERR) report(ncid, "enddef");

    err = ncmpi_close(ncid);
    if (rank == 0) printf("S close rc=%d\n", err);

    err = ncmpi_open(MPI_COMM_WORLD, path, NC_NOWRITE, info, &ncid);
    if (rank == 0) printf("S open rc=%d\n", err);
    if (err == NC_NOERR) {
        report(ncid, "open");
        err = ncmpi_close(ncid);
        if (rank == 0) printf("S close2 rc=%d\n", err);
    }
done:
    if (info != MPI_INFO_NULL) MPI_Info_free(&info);
    if (rank == 0) printf("D done\n");
    MPI_Finalize();
    return 0;
}
