/*
 * c19_queue.c -- "queue growth" programs for checks/C19.py: VALID nonblocking programs whose pending
 * request queues cross the chunked growth points of the library (NC_REQUEST_CHUNK = 1024 entries of the
 * non-lead and of the lead get/put queues, NC_ABUF_DEFAULT_TABLE_SIZE = 128 entries of the attached
 * buffer's occupancy table), run on the ASan+UBSan build.  The general script driver cannot hold more
 * than 64 pending requests, hence this small dedicated driver.
 *
 *   [mpiexec -n N] c19_queue <file> <op> <op> ...
 *
 * File: CDF-5, dims t (unlimited), x (2 * nprocs); int variables v(t,x) = 0, w(t,x) = 1.  Rank r works
 * on columns 2r, 2r+1 only.  Ops (all ranks execute the same list; <var> is 0 or 1):
 *   W:<var>:<nrec>            blocking collective write of records 0..nrec-1
 *   ip:<var>:<start>:<nrec>   ONE ncmpi_iput_vara_int over nrec records   (bp: ncmpi_bput_vara_int)
 *   ig:<var>:<start>:<nrec>   ONE ncmpi_iget_vara_int over nrec records
 *   ips:<var>:<start>:<n>     n single-record iputs, records start..start+n-1   (bps: bputs)
 *   igs:<var>:<start>:<n>     n single-record igets
 *   ipn:<var>:<start>:<n>     ONE ncmpi_iput_varn_int with n single-record segments   (ign: iget_varn)
 *   wait                      ncmpi_wait_all(NC_REQ_ALL); then every pending get buffer is verified
 *   V:<var>                   blocking read of the whole variable, compared with what was written
 * Pending puts of one wait never overlap each other (the caller's responsibility); gets are verified
 * against the content before the wait, so the caller reads one variable while writing the other.
 * Output (rank 0): one line per op `<op> rc=<rc>`, then `RESULT ok` or `RESULT mismatch <what>`.
 */
#include <stdio.h>
#include <stdlib.h>
#include <string.h>
#include <mpi.h>
#include <pnetcdf.h>

#define MAXREC 8192
static int g_rank, g_np, g_ncid, g_x;
static int *g_exp[2];          /* expected content of my two columns: g_exp[var][rec*2 + c] */
static long g_nrec[2];
static int g_gen = 0, g_bad = 0;
static char g_badmsg[256] = "";

typedef struct { int *buf; int var; long start, nrec; int *snap; } getreq;
static getreq *g_gets = NULL;
static int g_ngets = 0, g_capgets = 0;
static int **g_putbufs = NULL;
static int g_nput = 0, g_capput = 0;

static void bad(const char *fmt, long a, long b, long c)
{
    if (!g_bad) snprintf(g_badmsg, sizeof g_badmsg, fmt, a, b, c);
    g_bad = 1;
}

static int newval(int var, long rec, int c)
{
    return (int)(1 + var * 7 + rec * 31 + c * 3 + (long)g_gen * 100003);
}

static int *putbuf(int var, long start, long nrec)
{
    int *b = (int *)malloc(sizeof(int) * 2 * nrec + 16);
    long r; int c;
    g_gen++;
    for (r = 0; r < nrec; r++)
        for (c = 0; c < 2; c++) {
            b[r * 2 + c] = newval(var, start + r, c);
            g_exp[var][(start + r) * 2 + c] = b[r * 2 + c];
        }
    if (start + nrec > g_nrec[var]) g_nrec[var] = start + nrec;
    if (g_nput == g_capput) { g_capput = g_capput * 2 + 64; g_putbufs = (int **)realloc(g_putbufs, sizeof(int *) * g_capput); }
    g_putbufs[g_nput++] = b;
    return b;
}

static int *getbuf(int var, long start, long nrec)
{
    getreq *g;
    if (g_ngets == g_capgets) { g_capgets = g_capgets * 2 + 64; g_gets = (getreq *)realloc(g_gets, sizeof(getreq) * g_capgets); }
    g = &g_gets[g_ngets++];
    g->buf = (int *)malloc(sizeof(int) * 2 * nrec + 16);
    memset(g->buf, 0xA5, sizeof(int) * 2 * nrec + 16);
    g->var = var; g->start = start; g->nrec = nrec;
    g->snap = (int *)malloc(sizeof(int) * 2 * nrec + 16);
    memcpy(g->snap, g_exp[var] + start * 2, sizeof(int) * 2 * nrec);
    return g->buf;
}

int main(int argc, char **argv)
{
    int i, rc, dimt, dimx, dims[2], vid[2], req, worst = 0;
    MPI_Offset st[2], ct[2];

    MPI_Init(&argc, &argv);
    MPI_Comm_rank(MPI_COMM_WORLD, &g_rank);
    MPI_Comm_size(MPI_COMM_WORLD, &g_np);
    if (argc < 3) { MPI_Finalize(); return 2; }
    g_x = 2 * g_np;
    for (i = 0; i < 2; i++) { g_exp[i] = (int *)calloc(MAXREC * 2, sizeof(int)); g_nrec[i] = 0; }
    rc = ncmpi_create(MPI_COMM_WORLD, argv[1], NC_CLOBBER | NC_64BIT_DATA, MPI_INFO_NULL, &g_ncid);
    if (rc) { printf("create rc=%d\n", rc); MPI_Finalize(); return 2; }
    ncmpi_def_dim(g_ncid, "t", NC_UNLIMITED, &dimt);
    ncmpi_def_dim(g_ncid, "x", g_x, &dimx);
    dims[0] = dimt; dims[1] = dimx;
    ncmpi_def_var(g_ncid, "v", NC_INT, 2, dims, &vid[0]);
    ncmpi_def_var(g_ncid, "w", NC_INT, 2, dims, &vid[1]);
    ncmpi_enddef(g_ncid);
    ncmpi_buffer_attach(g_ncid, 32 << 20);
    st[1] = 2 * g_rank; ct[1] = 2;

    for (i = 2; i < argc; i++) {
        char op[16]; long a = 0, b = 0, c = 0; int n;
        char *s = strdup(argv[i]), *p;
        for (p = s; *p; p++) if (*p == ':') *p = ' ';
        n = sscanf(s, "%15s %ld %ld %ld", op, &a, &b, &c);
        free(s);
        rc = 0;
        if (n < 1) continue;
        if (a < 0 || a > 1 || b < 0 || c < 0 || b + c > MAXREC) { if (strcmp(op, "wait")) { printf("bad op %s\n", argv[i]); break; } }
        if (!strcmp(op, "W")) {
            int *buf = putbuf((int)a, 0, b);
            st[0] = 0; ct[0] = b;
            rc = ncmpi_put_vara_int_all(g_ncid, vid[a], st, ct, buf);
        }
        else if (!strcmp(op, "ip") || !strcmp(op, "bp")) {
            int *buf = putbuf((int)a, b, c);
            st[0] = b; ct[0] = c;
            rc = (op[0] == 'i') ? ncmpi_iput_vara_int(g_ncid, vid[a], st, ct, buf, &req)
                                : ncmpi_bput_vara_int(g_ncid, vid[a], st, ct, buf, &req);
        }
        else if (!strcmp(op, "ig")) {
            int *buf = getbuf((int)a, b, c);
            st[0] = b; ct[0] = c;
            rc = ncmpi_iget_vara_int(g_ncid, vid[a], st, ct, buf, &req);
        }
        else if (!strcmp(op, "ips") || !strcmp(op, "bps")) {
            long k;
            for (k = 0; k < c && !rc; k++) {
                int *buf = putbuf((int)a, b + k, 1);
                st[0] = b + k; ct[0] = 1;
                rc = (op[0] == 'i') ? ncmpi_iput_vara_int(g_ncid, vid[a], st, ct, buf, &req)
                                    : ncmpi_bput_vara_int(g_ncid, vid[a], st, ct, buf, &req);
            }
        }
        else if (!strcmp(op, "igs")) {
            long k;
            for (k = 0; k < c && !rc; k++) {
                int *buf = getbuf((int)a, b + k, 1);
                st[0] = b + k; ct[0] = 1;
                rc = ncmpi_iget_vara_int(g_ncid, vid[a], st, ct, buf, &req);
            }
        }
        else if (!strcmp(op, "ipn") || !strcmp(op, "ign")) {
            MPI_Offset **ss = (MPI_Offset **)malloc(sizeof(MPI_Offset *) * (c + 1));
            MPI_Offset **cc = (MPI_Offset **)malloc(sizeof(MPI_Offset *) * (c + 1));
            MPI_Offset *flat = (MPI_Offset *)malloc(sizeof(MPI_Offset) * 4 * (c + 1));
            long k;
            for (k = 0; k < c; k++) {
                ss[k] = flat + 4 * k; cc[k] = flat + 4 * k + 2;
                ss[k][0] = b + k; ss[k][1] = 2 * g_rank; cc[k][0] = 1; cc[k][1] = 2;
            }
            if (op[1] == 'p') rc = ncmpi_iput_varn_int(g_ncid, vid[a], (int)c, ss, cc, putbuf((int)a, b, c), &req);
            else              rc = ncmpi_iget_varn_int(g_ncid, vid[a], (int)c, ss, cc, getbuf((int)a, b, c), &req);
            free(ss); free(cc); free(flat);
        }
        else if (!strcmp(op, "wait")) {
            int k;
            rc = ncmpi_wait_all(g_ncid, NC_REQ_ALL, NULL, NULL);
            for (k = 0; k < g_ngets; k++) {
                getreq *g = &g_gets[k];
                long j;
                for (j = 0; j < 2 * g->nrec; j++)
                    if (g->buf[j] != g->snap[j]) { bad("get var %ld record %ld: wrong value (request %ld)", g->var, g->start + j / 2, k); break; }
                free(g->buf); free(g->snap);
            }
            g_ngets = 0;
            for (k = 0; k < g_nput; k++) free(g_putbufs[k]);
            g_nput = 0;
        }
        else if (!strcmp(op, "V")) {
            long nr = g_nrec[a], j;
            int *buf = (int *)malloc(sizeof(int) * 2 * (nr + 1));
            MPI_Offset len = -1;
            ncmpi_inq_dimlen(g_ncid, dimt, &len);
            st[0] = 0; ct[0] = nr;
            rc = ncmpi_get_vara_int_all(g_ncid, vid[a], st, ct, buf);
            for (j = 0; j < 2 * nr && !rc; j++)
                if (buf[j] != g_exp[a][j]) { bad("read back var %ld record %ld: wrong value (numrecs %ld)", a, j / 2, (long)len); break; }
            free(buf);
        }
        else { printf("unknown op %s\n", argv[i]); break; }
        if (g_rank == 0) { printf("%s rc=%d\n", argv[i], rc); fflush(stdout); }
        if (rc) bad("op %ld returned an error %ld", (long)i, (long)rc, 0);
    }
    ncmpi_buffer_detach(g_ncid);
    rc = ncmpi_close(g_ncid);
    if (rc) bad("close returned %ld", (long)rc, 0, 0);
    MPI_Allreduce(&g_bad, &worst, 1, MPI_INT, MPI_MAX, MPI_COMM_WORLD);
    if (g_bad) printf("[rank %d] %s\n", g_rank, g_badmsg);
    if (g_rank == 0) printf("RESULT %s\n", worst ? "mismatch" : "ok");
    fflush(stdout);
    MPI_Finalize();
    return worst ? 3 : 0;
}
