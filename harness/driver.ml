(* driver.ml — unverified glue: parses a script (harness/SCRIPT.md), runs the extracted
   Coq model (Pnc_model) and prints its predicted observation log, one line per
   (script line, rank):   <lineno> <rank> <op> <rc> <extra...>
   Tokens the model does not predict are printed as "?" ; rc -7777 = unmodelled line. *)
module BZ = Z   (* zarith, before the extracted module Z shadows it *)
open Pnc_model

(* ---- Z conversions through zarith (driver side only) ---- *)
let rec pos_of_big (n : BZ.t) : positive =
  if BZ.equal n BZ.one then XH
  else if BZ.is_even n then XO (pos_of_big (BZ.shift_right n 1))
  else XI (pos_of_big (BZ.shift_right n 1))
let z_of_big (n : BZ.t) : z =
  if BZ.sign n = 0 then Z0 else if BZ.sign n > 0 then Zpos (pos_of_big n) else Zneg (pos_of_big (BZ.neg n))
let rec big_of_pos = function
  | XH -> BZ.one
  | XO p -> BZ.shift_left (big_of_pos p) 1
  | XI p -> BZ.succ (BZ.shift_left (big_of_pos p) 1)
let big_of_z = function Z0 -> BZ.zero | Zpos p -> big_of_pos p | Zneg p -> BZ.neg (big_of_pos p)
let zi (i : int) : z = z_of_big (BZ.of_int i)
let iz (x : z) : int = BZ.to_int (big_of_z x)
let zs (s : string) : z = z_of_big (BZ.of_string s)
let sz (x : z) : string = BZ.to_string (big_of_z x)

let hex_of_bytes (bs : z list) : string =
  match bs with
  | [] -> "-"
  | _ -> let b = Buffer.create (2 * List.length bs) in
         List.iter (fun x -> let v = iz x in
                             Buffer.add_string b (if v < 0 then "??" else Printf.sprintf "%02x" v)) bs;
         Buffer.contents b
let hexname (bs : z list) : string =
  match bs with [] -> "-" | _ -> hex_of_bytes bs
let bytes_of_hex (s : string) : z list =
  if s = "-" then [] else
  List.init (String.length s / 2) (fun i -> zi (int_of_string ("0x" ^ String.sub s (2 * i) 2)))

let tok_str = function
  | TZ x -> sz x
  | THex bs -> hex_of_bytes bs
  | TName (p, bs) -> (if iz p = 0 then "" else String.make 1 (Char.chr (iz p))) ^
                     (if iz p = 72 then "" else
                      (if iz p = 0 then hexname bs else " " ^ hexname bs))
  | TSame -> "same"
  | TBuf (s, None) -> Printf.sprintf "B%d=same" (iz s)
  | TBuf (s, Some bs) -> Printf.sprintf "B%d=%s" (iz s) (hex_of_bytes bs)
  | TStat (a, b) -> Printf.sprintf "%s:%s" (sz a) (sz b)
  | TSkip -> "?"

(* ---- parsing ---- *)
exception Parse of string
let take n l =
  let rec go n l acc = if n = 0 then (List.rev acc, l) else
    match l with x :: r -> go (n - 1) r (x :: acc) | [] -> raise (Parse "short") in
  go n l []
let zlist l = List.map zs l

let parse_access (toks : string list) : access =
  (* order: <varid> <form> <memtype> <buf> <formargs> [pat <seed>] *)
  match toks with
  | varid :: form :: memtype :: rest ->
      let flex = memtype.[0] = 'x' in
      let memt = int_of_string (String.sub memtype 1 (String.length memtype - 1)) in
      let (buf, rest) =
        match rest with
        | "c" :: r when not flex -> (BTyped, r)
        | "c" :: n :: r -> (BContig (zs n), r)
        | "v" :: c :: b :: s :: r -> (BVector (zs c, zs b, zs s), r)
        | "r" :: c :: b :: s :: r -> (BVector (zs c, zs b, zs s), r)   (* same typemap: count x resized(contiguous(b), extent s) *)
        | "n" :: r -> (BNull, r)
        | _ -> raise (Parse "buf") in
      let parse_nd rest k =
        match rest with
        | nd :: r ->
            let nd = int_of_string nd in
            if nd < 0 then (List.init k (fun _ -> None), r)
            else
              let rec go i r acc =
                if i = k then (List.rev acc, r) else
                match r with
                | "S" :: r' | "M" :: r' -> go (i + 1) r' (None :: acc)
                | _ -> let (xs, r') = take nd r in go (i + 1) r' (Some (zlist xs) :: acc) in
              go 0 r []
        | [] -> raise (Parse "nd") in
      let (fm, rest) =
        match form with
        | "var" -> (FVar, rest)
        | "var1" -> (match parse_nd rest 1 with ([s], r) -> (FVar1 s, r) | _ -> raise (Parse "var1"))
        | "vara" -> (match parse_nd rest 2 with ([s; c], r) -> (FVara (s, c), r) | _ -> raise (Parse "vara"))
        | "vars" -> (match parse_nd rest 3 with ([s; c; t], r) -> (FVars (s, c, t), r) | _ -> raise (Parse "vars"))
        | "varm" -> (match parse_nd rest 4 with ([s; c; t; m], r) -> (FVarm (s, c, t, m), r) | _ -> raise (Parse "varm"))
        | "varn" ->
            (match rest with
             | nreq :: nd :: r ->
                 let nreq = int_of_string nreq and nd = int_of_string nd in
                 let rec go i r acc =
                   if i = nreq then (List.rev acc, r) else
                   let (s, r1) = take nd r in let (c, r2) = take nd r1 in
                   go (i + 1) r2 ((zlist s, zlist c) :: acc) in
                 let (reqs, r') = go 0 r [] in (FVarn reqs, r')
             | _ -> raise (Parse "varn"))
        | _ -> raise (Parse ("form " ^ form)) in
      let seed = match rest with "pat" :: s :: _ -> zs s | _ -> Z0 in
      { ac_var = zs varid; ac_form = fm; ac_memt = zi memt; ac_flex = flex; ac_buf = buf; ac_seed = seed }
  | _ -> raise (Parse "access")

let hint_key = function
  | "nc_header_align_size" -> 0 | "nc_var_align_size" -> 1 | "nc_record_align_size" -> 2 | _ -> 99

let parse_op (toks : string list) : op =
  let z = zs in
  match toks with
  | ["create"; f; fmt; cl] -> OCreate (z f, z fmt, z cl)
  | ["open"; f; m] -> OOpen (z f, z m)
  | ["close"; f] -> OClose (z f) | ["abort"; f] -> OAbort (z f)
  | ["enddef"; f] -> OEnddef (z f)
  | ["_enddef"; f; a; b; c; d] -> OEnddefX (z f, z a, z b, z c, z d)
  | ["redef"; f] -> ORedef (z f)
  | ["begin_indep"; f] -> OBeginIndep (z f) | ["end_indep"; f] -> OEndIndep (z f)
  | ["sync"; f] -> OSync (z f) | ["sync_numrecs"; f] -> OSyncNumrecs (z f) | ["flush"; f] -> OFlush (z f)
  | ["def_dim"; f; nm; len] -> ODefDim (z f, bytes_of_hex nm, (if len = "-1" then Z0 else z len))
  | "def_var" :: f :: nm :: t :: _nd :: dimids -> ODefVar (z f, bytes_of_hex nm, z t, zlist dimids)
  | ["rename_dim"; f; id; nm] -> ORenameDim (z f, z id, bytes_of_hex nm)
  | ["rename_var"; f; id; nm] -> ORenameVar (z f, z id, bytes_of_hex nm)
  | "put_att" :: f :: v :: nm :: t :: _n :: vals -> OPutAtt (z f, z v, bytes_of_hex nm, z t, zlist vals)
  | ["get_att"; f; v; nm] -> OGetAtt (z f, z v, bytes_of_hex nm)
  | ["del_att"; f; v; nm] -> ODelAtt (z f, z v, bytes_of_hex nm)
  | ["rename_att"; f; v; nm; nm2] -> ORenameAtt (z f, z v, bytes_of_hex nm, bytes_of_hex nm2)
  | ["copy_att"; f; v; nm; f2; v2] -> OCopyAtt (z f, z v, bytes_of_hex nm, z f2, z v2)
  | ["set_fill"; f; m] -> OSetFill (z f, z m)
  | ["def_var_fill"; f; v; nf; hv; vl] -> ODefVarFill (z f, z v, z nf, z hv, z vl)
  | ["inq_var_fill"; f; v] -> OInqVarFill (z f, z v)
  | ["fill_var_rec"; f; v; r] -> OFillVarRec (z f, z v, z r)
  | ["inq"; f] -> OInq (z f)
  | ["inq_name"; f; k; nm] -> OInqName (z f, (if k = "d" then Z0 else zi 1), bytes_of_hex nm)
  | ["inq_attid"; f; v; nm] -> OInqAttid (z f, z v, bytes_of_hex nm)
  | ["inq_numrecs"; f] -> OInqNumrecs (z f) | ["inq_nreqs"; f] -> OInqNreqs (z f)
  | ["inq_buffer"; f] -> OInqBuffer (z f)
  | ["attach"; f; n] -> OAttach (z f, z n) | ["detach"; f] -> ODetach (z f)
  | ["snapshot"; f] -> OSnapshot (z f) | ["exists"; f] -> OExists (z f)
  | ["junk"; f; n; s] -> OJunk (z f, z n, z s)
  | "put" :: f :: mode :: rest -> OPut (z f, mode = "c", parse_access rest)
  | "get" :: f :: mode :: rest -> OGet (z f, mode = "c", parse_access rest)
  | "iput" :: f :: slot :: rest -> OIput (z f, z slot, parse_access rest)
  | "iget" :: f :: slot :: rest -> OIget (z f, z slot, parse_access rest)
  | "bput" :: f :: slot :: rest -> OBput (z f, z slot, parse_access rest)
  | "wait" :: f :: mode :: n :: slots ->
      OWait (z f, mode = "c", z n, List.map (fun s -> if s = "N" then zi (-1) else z s) slots)
  | "cancel" :: f :: n :: slots ->
      OCancel (z f, z n, List.map (fun s -> if s = "N" then zi (-1) else z s) slots)
  | ["bufs"; f] -> OBufs (z f)
  | ["setid"; f; n] -> OSetId (z f, z n)
  | ["hint"; k; v] -> (match int_of_string_opt v with Some _ -> OHint (zi (hint_key k), z v) | None -> OHint (zi 99, Z0))
  | ["nohints"] -> ONoHints
  | ["barrier"] -> OBarrier
  | "sleep_ms" :: _ -> OSleep
  | _ -> OUnknown

(* --decode <hexfile>: run the specification decoder (HeaderSpec.decode, written from the
   format grammar only) on a file image and print its findings in canonical text *)
let decode_mode path =
  let ic = open_in path in
  let hex = String.trim (input_line ic) in
  close_in ic;
  let bytes = bytes_of_hex hex in
  match decode bytes with
  | None -> print_endline "DECODE none"
  | Some d ->
      let h = d.dc_hdr in
      Printf.printf "H %s %s %s %s %s\n" (sz h.h_format) (sz h.h_numrecs) (sz d.dc_len)
        (if strict_valid d then "strict" else "NOTSTRICT")
        (if layout_ok h d.dc_len then "layout" else "NOLAYOUT");
      List.iter (fun dd -> Printf.printf "D %s %s\n" (hexname dd.d_name) (sz dd.d_size)) h.h_dims;
      let pa owner a = Printf.printf "A %d %s %s %s %s\n" owner (hexname a.a_name) (sz a.a_type) (sz a.a_nelems)
                         (hex_of_bytes a.a_data) in
      List.iter (pa (-1)) h.h_gatts;
      List.iteri (fun i dv ->
        let v = dv.dv_var in
        Printf.printf "V %s %s %d%s %s %s\n" (hexname v.v_name) (sz v.v_type) (List.length v.v_dimids)
          (String.concat "" (List.map (fun x -> " " ^ sz x) v.v_dimids)) (sz dv.dv_vsize) (sz v.v_begin);
        List.iter (pa i) v.v_atts) d.dc_vars

let () =
  if Array.length Sys.argv > 2 && Sys.argv.(1) = "--decode" then (decode_mode Sys.argv.(2); exit 0);
  let file = Sys.argv.(1) in
  let ic = open_in file in
  let lines = ref [] in
  (try while true do lines := input_line ic :: !lines done with End_of_file -> ());
  close_in ic;
  let lines = List.rev !lines in
  let w = ref (world0 (zi 1)) in
  let started = ref false in
  let group : (int * op * string) list ref = ref [] in
  let in_group = ref false in
  let emit lineno opname ((r, rc), ex) =
    Printf.printf "%d %d %s %s%s\n" lineno (iz r) opname (sz rc)
      (String.concat "" (List.map (fun t -> " " ^ tok_str t) ex)) in
  let opname toks = match toks with x :: _ -> x | [] -> "?" in
  List.iteri (fun i line ->
    let lineno = i + 1 in
    let line = String.trim line in
    if line = "" || line.[0] = '#' then ()
    else begin
      let toks = List.filter (fun s -> s <> "") (String.split_on_char ' ' line) in
      match toks with
      | ["nprocs"; n] -> w := world0 (zs n); started := true
      | "env" :: kv :: _ ->
          (match String.split_on_char '=' kv with
           | ["PNETCDF_VERIF_MOVE_UNIT"; v] -> w := set_move_unit !w (zs v)
           | ["PNETCDF_RELAX_COORD_BOUND"; v] -> w := set_strict !w (v = "0")
           | _ -> ())
      | ["{"] -> in_group := true; group := []
      | ["}"] ->
          in_group := false;
          let g = List.rev !group in
          let (w', out) = exec_step !w (SEach (List.map (fun (_, o, _) -> o) g)) in
          w := w';
          List.iter (fun (((r, _), _) as ob) ->
            match List.nth_opt g (iz r) with
            | Some (ln, _, nm) -> emit ln nm ob
            | None -> ()) out
      | who0 :: rest0 ->
          let is_who = who0 = "*" || (match int_of_string_opt who0 with Some _ -> true | None -> false) in
          let who = if is_who then who0 else "*" in
          let rest = if is_who then rest0 else toks in
          let o = (try parse_op rest with _ -> OUnknown) in
          if !in_group then group := (lineno, o, opname rest) :: !group
          else begin
            let st = if who = "*" then SAll o else SOne (zs who, o) in
            let (w', out) = exec_step !w st in
            w := w';
            List.iter (emit lineno (opname rest)) out
          end
      | [] -> ()
    end) lines
