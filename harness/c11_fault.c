/* c11_fault.c -- property C11 (I/O failures are never silently dropped): driver programs and
 * PMPI interposition of the MPI-IO data-transfer calls in ONE binary (PMPI interposition works
 * with the static libpnetcdf.a: the MPI_File_xxx defined here win over libmpi's weak symbols and
 * call PMPI_File_xxx).
 *
 * usage:  c11_fault <scenario> <logprefix> <ncfile>
 * env:    C11_RANK, C11_INDEX, C11_CLASS, C11_PERFORM   -- fault to inject: on rank C11_RANK the
 *         C11_INDEX-th data-transfer call (counted from the moment the scenario is armed) returns an
 *         error code of class C11_CLASS (name without MPI_ERR_, or NEWCLASS for a class created with
 *         MPI_Add_error_class); C11_PERFORM=1 performs the real call first, 0 suppresses it
 *         (collective calls are always performed: suppressing one rank would block the others by
 *         construction of the test, not of the library)
 *         C11_HCOLL=1  -> info romio_no_indep_rw=true (header I/O collective, NC_HCOLL)
 *         C11_API_ALARM=<s>: an API call that does not return within <s> seconds is logged as HANG <seq>
 *         and the rank exits (mpiexec then terminates the job)
 *         no C11_INDEX -> census run (nothing injected)
 *
 * log <logprefix>.<rank>, one line per event, flushed:
 *   IO <idx> <apiseq> <MPI function> <bytes> <injected 0/1> <return addresses of the call stack, innermost first>
 *   API <seq> <name> <return code> [request statuses]
 *   SYNC <seq> <1 if any rank saw an error in call seq>
 *   HANG <seq>      this rank did not return from call seq within C11_API_ALARM seconds
 *   DONE
 * After every API call the ranks agree (MPI_Allreduce on a private duplicate of MPI_COMM_WORLD) whether any of them saw an
 * error; if so the scenario stops there (an application that checks errors collectively).  A rank
 * that never returns from the API call keeps the others in that Allreduce: the watchdog of the
 * caller then finds, from the logs, who returned and who did not.
 */
#include <stdio.h>
#include <stdlib.h>
#include <string.h>
#include <unistd.h>
#include <signal.h>
#include <execinfo.h>
#include <mpi.h>
#include <pnetcdf.h>

static int g_rank = 0, g_np = 1;
/* the library works on its own duplicate of MPI_COMM_WORLD (PnetCDF does not duplicate MPI_COMM_WORLD itself),
 * the harness synchronises on another one: a collective the library skipped can then never be matched by a
 * collective of the harness */
static MPI_Comm g_comm = MPI_COMM_NULL, g_sync = MPI_COMM_NULL;
static FILE *g_log = NULL;
static int g_armed = 0;        /* data-transfer calls are counted/injected only while armed */
static int g_idx = 0;          /* index of the next data-transfer call on this rank */
static int g_apiseq = 0;       /* sequence number of the API call being executed */
static int f_rank = -1, f_index = -1, f_class = 0, f_perform = 1;
static int g_injected = 0;

static struct { const char *name; int cls; } g_classes[] = {
    {"BUFFER", MPI_ERR_BUFFER}, {"COUNT", MPI_ERR_COUNT}, {"TYPE", MPI_ERR_TYPE}, {"TAG", MPI_ERR_TAG},
    {"COMM", MPI_ERR_COMM}, {"RANK", MPI_ERR_RANK}, {"REQUEST", MPI_ERR_REQUEST}, {"ROOT", MPI_ERR_ROOT},
    {"GROUP", MPI_ERR_GROUP}, {"OP", MPI_ERR_OP}, {"TOPOLOGY", MPI_ERR_TOPOLOGY}, {"DIMS", MPI_ERR_DIMS},
    {"ARG", MPI_ERR_ARG}, {"UNKNOWN", MPI_ERR_UNKNOWN}, {"TRUNCATE", MPI_ERR_TRUNCATE}, {"OTHER", MPI_ERR_OTHER},
    {"INTERN", MPI_ERR_INTERN}, {"IN_STATUS", MPI_ERR_IN_STATUS}, {"PENDING", MPI_ERR_PENDING},
    {"ACCESS", MPI_ERR_ACCESS}, {"AMODE", MPI_ERR_AMODE}, {"ASSERT", MPI_ERR_ASSERT},
    {"BAD_FILE", MPI_ERR_BAD_FILE}, {"BASE", MPI_ERR_BASE}, {"CONVERSION", MPI_ERR_CONVERSION},
    {"DISP", MPI_ERR_DISP}, {"DUP_DATAREP", MPI_ERR_DUP_DATAREP}, {"FILE_EXISTS", MPI_ERR_FILE_EXISTS},
    {"FILE_IN_USE", MPI_ERR_FILE_IN_USE}, {"FILE", MPI_ERR_FILE}, {"INFO_KEY", MPI_ERR_INFO_KEY},
    {"INFO_NOKEY", MPI_ERR_INFO_NOKEY}, {"INFO_VALUE", MPI_ERR_INFO_VALUE}, {"INFO", MPI_ERR_INFO},
    {"IO", MPI_ERR_IO}, {"KEYVAL", MPI_ERR_KEYVAL}, {"LOCKTYPE", MPI_ERR_LOCKTYPE}, {"NAME", MPI_ERR_NAME},
    {"NO_MEM", MPI_ERR_NO_MEM}, {"NOT_SAME", MPI_ERR_NOT_SAME}, {"NO_SPACE", MPI_ERR_NO_SPACE},
    {"NO_SUCH_FILE", MPI_ERR_NO_SUCH_FILE}, {"PORT", MPI_ERR_PORT}, {"QUOTA", MPI_ERR_QUOTA},
    {"READ_ONLY", MPI_ERR_READ_ONLY}, {"RMA_CONFLICT", MPI_ERR_RMA_CONFLICT}, {"RMA_SYNC", MPI_ERR_RMA_SYNC},
    {"SERVICE", MPI_ERR_SERVICE}, {"SIZE", MPI_ERR_SIZE}, {"SPAWN", MPI_ERR_SPAWN},
    {"UNSUPPORTED_DATAREP", MPI_ERR_UNSUPPORTED_DATAREP}, {"UNSUPPORTED_OPERATION", MPI_ERR_UNSUPPORTED_OPERATION},
    {"WIN", MPI_ERR_WIN},
#ifdef MPI_ERR_RMA_RANGE
    {"RMA_RANGE", MPI_ERR_RMA_RANGE}, {"RMA_ATTACH", MPI_ERR_RMA_ATTACH}, {"RMA_FLAVOR", MPI_ERR_RMA_FLAVOR},
    {"RMA_SHARED", MPI_ERR_RMA_SHARED},
#endif
    {NULL, 0}};

/* ------------------------------------------------------------------ interposition */
static long type_bytes(int count, MPI_Datatype dt)
{
    int sz = 0;
    if (count <= 0) return 0;
    PMPI_Type_size(dt, &sz);
    return (long)count * sz;
}

/* returns 1 if this call is the one to fail */
static int shim_pre(const char *fname, void *retaddr, long bytes)
{
    void *bt[48];
    int n, i, start = 0, hit;
    if (!g_armed || g_log == NULL) return 0;
    hit = (g_rank == f_rank && g_idx == f_index);
    n = backtrace(bt, 48);
    for (i = 0; i < n; i++)
        if (bt[i] == retaddr) { start = i; break; }
    fprintf(g_log, "IO %d %d %s %ld %d", g_idx, g_apiseq, fname, bytes, hit);
    if (start == 0) fprintf(g_log, " %p", retaddr);   /* backtrace did not find it: at least the site */
    else for (i = start; i < n; i++) fprintf(g_log, " %p", bt[i]);
    fprintf(g_log, "\n");
    fflush(g_log);
    g_idx++;
    if (hit) g_injected = 1;
    return hit;
}

#define SHIM(NAME, PROTO, ARGS, COLLECTIVE, COUNT, DTYPE, STATUS)                          \
    int NAME PROTO                                                                          \
    {                                                                                       \
        int hit = shim_pre(#NAME, __builtin_return_address(0), type_bytes(COUNT, DTYPE));  \
        int rc = MPI_SUCCESS;                                                               \
        if (!hit || f_perform || COLLECTIVE) rc = P##NAME ARGS;                             \
        else if ((STATUS) != MPI_STATUS_IGNORE) PMPI_Status_set_elements(STATUS, MPI_BYTE, 0); \
        return hit ? f_class : rc;                                                          \
    }

SHIM(MPI_File_write_at, (MPI_File fh, MPI_Offset off, const void *buf, int count, MPI_Datatype dt, MPI_Status *st),
     (fh, off, buf, count, dt, st), 0, count, dt, st)
SHIM(MPI_File_write_at_all, (MPI_File fh, MPI_Offset off, const void *buf, int count, MPI_Datatype dt, MPI_Status *st),
     (fh, off, buf, count, dt, st), 1, count, dt, st)
SHIM(MPI_File_read_at, (MPI_File fh, MPI_Offset off, void *buf, int count, MPI_Datatype dt, MPI_Status *st),
     (fh, off, buf, count, dt, st), 0, count, dt, st)
SHIM(MPI_File_read_at_all, (MPI_File fh, MPI_Offset off, void *buf, int count, MPI_Datatype dt, MPI_Status *st),
     (fh, off, buf, count, dt, st), 1, count, dt, st)
SHIM(MPI_File_write, (MPI_File fh, const void *buf, int count, MPI_Datatype dt, MPI_Status *st),
     (fh, buf, count, dt, st), 0, count, dt, st)
SHIM(MPI_File_write_all, (MPI_File fh, const void *buf, int count, MPI_Datatype dt, MPI_Status *st),
     (fh, buf, count, dt, st), 1, count, dt, st)
SHIM(MPI_File_read, (MPI_File fh, void *buf, int count, MPI_Datatype dt, MPI_Status *st),
     (fh, buf, count, dt, st), 0, count, dt, st)
SHIM(MPI_File_read_all, (MPI_File fh, void *buf, int count, MPI_Datatype dt, MPI_Status *st),
     (fh, buf, count, dt, st), 1, count, dt, st)

/* ------------------------------------------------------------------ API logging */
static int g_stop = 0;   /* some rank saw an error: stop the scenario */

static void api_done(const char *name, int ret, int nst, const int *st)
{
    int i, mine, any = 0;
    if (g_log) {
        fprintf(g_log, "API %d %s %d", g_apiseq, name, ret);
        for (i = 0; i < nst; i++) fprintf(g_log, " %d", st[i]);
        fprintf(g_log, "\n");
        fflush(g_log);
    }
    mine = (ret != NC_NOERR);
    for (i = 0; i < nst; i++) if (st[i] != NC_NOERR) mine = 1;
    PMPI_Allreduce(&mine, &any, 1, MPI_INT, MPI_MAX, g_sync);
    if (g_log) { fprintf(g_log, "SYNC %d %d\n", g_apiseq, any); fflush(g_log); }
    g_apiseq++;
    if (any) g_stop = 1;
}

/* watchdog of one API call: a call that does not return within g_alarm seconds is a hang; the rank
 * logs HANG <seq> and exits, which makes mpiexec terminate the other ranks */
static int g_alarm = 0;
static void on_api_alarm(int sig)
{
    (void)sig;
    if (g_log) { fprintf(g_log, "HANG %d\n", g_apiseq); fflush(g_log); }
    _exit(9);
}
static void arm(void) { if (g_alarm > 0 && g_armed) { signal(SIGALRM, on_api_alarm); alarm(g_alarm); } }
static void disarm(void) { if (g_alarm > 0) alarm(0); }

#define A(name, call)  do { int _r; arm(); _r = (call); disarm(); api_done(name, _r, 0, NULL); if (g_stop) goto bail; } while (0)
#define AW(name, call, n, st)  do { int _r; arm(); _r = (call); disarm(); api_done(name, _r, n, st); if (g_stop) goto bail; } while (0)
/* preparation steps: not armed, must succeed */
#define P(call) do { int _r = (call); if (_r != NC_NOERR) { fprintf(stderr, "prep failed line %d: %s\n", __LINE__, ncmpi_strerror(_r)); MPI_Abort(MPI_COMM_WORLD, 7); } } while (0)

static void on_alarm(int sig)
{
    (void)sig;
    if (g_log) { fprintf(g_log, "CLEANUP-HANG\nDONE\n"); fflush(g_log); }
    _exit(0);
}

/* after an error the file may be in any state on any rank: try to get rid of it, bounded */
static void cleanup(int ncid, int opened)
{
    if (g_log) { fprintf(g_log, "BAIL %d\n", g_stop); fflush(g_log); }
    g_armed = 0;
    if (opened) {
        signal(SIGALRM, on_alarm);
        alarm(4);
        if (g_stop) ncmpi_abort(ncid); else ncmpi_close(ncid);
        alarm(0);
    }
}

static MPI_Info mkinfo(void)
{
    MPI_Info info;
    MPI_Info_create(&info);
    if (getenv("C11_HCOLL") && atoi(getenv("C11_HCOLL")))
        MPI_Info_set(info, "romio_no_indep_rw", "true");
    MPI_Info_set(info, "nc_var_align_size", "4");
    return info;
}

#define NX 8   /* elements per rank */

/* ------------------------------------------------------------------ scenarios */
/* create + def + enddef (header write) + close */
static void sc_create(const char *file)
{
    int ncid = -1, opened = 0, dx, dt, v1, v2, dims[2];
    MPI_Info info = mkinfo();
    g_armed = 1;
    A("ncmpi_create", ncmpi_create(g_comm, file, NC_CLOBBER | NC_64BIT_DATA, info, &ncid));
    opened = 1;
    A("ncmpi_def_dim", ncmpi_def_dim(ncid, "x", (MPI_Offset)NX * g_np, &dx));
    A("ncmpi_def_dim", ncmpi_def_dim(ncid, "t", NC_UNLIMITED, &dt));
    A("ncmpi_def_var", ncmpi_def_var(ncid, "fix", NC_INT, 1, &dx, &v1));
    dims[0] = dt; dims[1] = dx;
    A("ncmpi_def_var", ncmpi_def_var(ncid, "rec", NC_INT, 2, dims, &v2));
    A("ncmpi_put_att_text", ncmpi_put_att_text(ncid, NC_GLOBAL, "title", 5, "hello"));
    A("ncmpi_enddef", ncmpi_enddef(ncid));
    A("ncmpi_close", ncmpi_close(ncid));
    opened = 0;
bail:
    cleanup(ncid, opened);
    MPI_Info_free(&info);
}

/* collective put on a record variable: record-count update; sync; close */
static void sc_putrec(const char *file)
{
    int ncid = -1, opened = 0, dx, dt, v2, dims[2], i, buf[NX];
    MPI_Offset start[2], count[2];
    MPI_Info info = mkinfo();
    for (i = 0; i < NX; i++) buf[i] = 100 * g_rank + i;
    P(ncmpi_create(g_comm, file, NC_CLOBBER, info, &ncid));
    opened = 1;
    P(ncmpi_def_dim(ncid, "x", (MPI_Offset)NX * g_np, &dx));
    P(ncmpi_def_dim(ncid, "t", NC_UNLIMITED, &dt));
    dims[0] = dt; dims[1] = dx;
    P(ncmpi_def_var(ncid, "rec", NC_INT, 2, dims, &v2));
    P(ncmpi_enddef(ncid));
    g_armed = 1;
    start[0] = 0; start[1] = NX * g_rank; count[0] = 1; count[1] = NX;
    A("ncmpi_put_vara_int_all", ncmpi_put_vara_int_all(ncid, v2, start, count, buf));
    start[0] = 2;
    A("ncmpi_put_vara_int_all", ncmpi_put_vara_int_all(ncid, v2, start, count, buf));
    A("ncmpi_sync", ncmpi_sync(ncid));
    A("ncmpi_close", ncmpi_close(ncid));
    opened = 0;
bail:
    cleanup(ncid, opened);
    MPI_Info_free(&info);
}

/* redef that grows the header with data present: data movement (PNETCDF_VERIF_MOVE_UNIT lowers the
 * round size); variant 1 grows the header extent (records and fixed variables move), variant 2 adds a
 * fixed-size variable (only the record section moves as a whole); variants 3 and 4 start from THREE
 * records: 3 adds a record variable (the record size grows: the records are moved one at a time, last to
 * first), 4 only grows the header (the whole record section and the fixed variable move) */
static void sc_redef(const char *file, int variant)
{
    int ncid = -1, opened = 0, dx, dt, v1, v2, v3, dims[2], i, buf[3 * NX], nrec = (variant >= 3) ? 3 : 2;
    MPI_Offset start[2], count[2];
    char big[900];
    MPI_Info info = mkinfo();
    for (i = 0; i < 3 * NX; i++) buf[i] = 1000 * g_rank + i;
    memset(big, 'a', sizeof(big));
    P(ncmpi_create(g_comm, file, NC_CLOBBER, info, &ncid));
    opened = 1;
    P(ncmpi_def_dim(ncid, "x", (MPI_Offset)NX * g_np, &dx));
    P(ncmpi_def_dim(ncid, "t", NC_UNLIMITED, &dt));
    P(ncmpi_def_var(ncid, "fix", NC_INT, 1, &dx, &v1));
    dims[0] = dt; dims[1] = dx;
    P(ncmpi_def_var(ncid, "rec", NC_INT, 2, dims, &v2));
    P(ncmpi_enddef(ncid));
    start[0] = NX * g_rank; count[0] = NX;
    P(ncmpi_put_vara_int_all(ncid, v1, start, count, buf));
    start[0] = 0; start[1] = NX * g_rank; count[0] = nrec; count[1] = NX;
    P(ncmpi_put_vara_int_all(ncid, v2, start, count, buf));
    g_armed = 1;
    A("ncmpi_redef", ncmpi_redef(ncid));
    if (variant == 3)
        A("ncmpi_def_var", ncmpi_def_var(ncid, "rec2", NC_INT, 2, dims, &v3));
    else if (variant == 1 || variant == 4)
        A("ncmpi_put_att_text", ncmpi_put_att_text(ncid, NC_GLOBAL, "big", sizeof(big), big));
    else
        A("ncmpi_def_var", ncmpi_def_var(ncid, "fix2", NC_INT, 1, &dx, &v3));
    A("ncmpi_enddef", ncmpi_enddef(ncid));
    start[0] = NX * g_rank; count[0] = NX;
    A("ncmpi_get_vara_int_all", ncmpi_get_vara_int_all(ncid, v1, start, count, buf));
    if (variant >= 3) {
        start[0] = 0; start[1] = NX * g_rank; count[0] = nrec; count[1] = NX;
        A("ncmpi_get_vara_int_all", ncmpi_get_vara_int_all(ncid, v2, start, count, buf));
    }
    A("ncmpi_close", ncmpi_close(ncid));
    opened = 0;
bail:
    cleanup(ncid, opened);
    MPI_Info_free(&info);
}

/* fill mode: new variables filled at enddef (creation and redef), fill_var_rec */
static void sc_fill(const char *file)
{
    int ncid = -1, opened = 0, dx, dt, v1, v2, v3, v4, dims[2], i, buf[NX], old;
    MPI_Offset start[2], count[2];
    MPI_Info info = mkinfo();
    for (i = 0; i < NX; i++) buf[i] = 7 * g_rank + i;
    g_armed = 1;
    A("ncmpi_create", ncmpi_create(g_comm, file, NC_CLOBBER, info, &ncid));
    opened = 1;
    A("ncmpi_set_fill", ncmpi_set_fill(ncid, NC_FILL, &old));
    A("ncmpi_def_dim", ncmpi_def_dim(ncid, "x", (MPI_Offset)NX * g_np, &dx));
    A("ncmpi_def_dim", ncmpi_def_dim(ncid, "t", NC_UNLIMITED, &dt));
    A("ncmpi_def_var", ncmpi_def_var(ncid, "fix", NC_INT, 1, &dx, &v1));
    dims[0] = dt; dims[1] = dx;
    A("ncmpi_def_var", ncmpi_def_var(ncid, "rec", NC_INT, 2, dims, &v2));
    A("ncmpi_enddef", ncmpi_enddef(ncid));
    start[0] = 0; start[1] = NX * g_rank; count[0] = 1; count[1] = NX;
    A("ncmpi_put_vara_int_all", ncmpi_put_vara_int_all(ncid, v2, start, count, buf));
    A("ncmpi_redef", ncmpi_redef(ncid));
    A("ncmpi_def_var", ncmpi_def_var(ncid, "fix2", NC_SHORT, 1, &dx, &v3));
    A("ncmpi_def_var", ncmpi_def_var(ncid, "rec2", NC_DOUBLE, 2, dims, &v4));
    A("ncmpi_enddef", ncmpi_enddef(ncid));
    A("ncmpi_fill_var_rec", ncmpi_fill_var_rec(ncid, v2, 1));
    A("ncmpi_fill_var_rec", ncmpi_fill_var_rec(ncid, v4, 3));
    A("ncmpi_close", ncmpi_close(ncid));
    opened = 0;
bail:
    cleanup(ncid, opened);
    MPI_Info_free(&info);
}

/* blocking put/get, collective and independent, contiguous and noncontiguous buffers,
 * a collective call in which the last rank has an invalid request (zero-length participation) */
static void sc_rw(const char *file)
{
    int ncid = -1, opened = 0, dx, dy, v1, v2, dims[2], i, buf[4 * NX], rbuf[4 * NX];
    MPI_Offset start[2], count[2], stride[2];
    MPI_Datatype vec;
    MPI_Info info = mkinfo();
    for (i = 0; i < 4 * NX; i++) buf[i] = 10000 * g_rank + i;
    MPI_Type_vector(NX, 1, 2, MPI_INT, &vec);
    MPI_Type_commit(&vec);
    P(ncmpi_create(g_comm, file, NC_CLOBBER | NC_64BIT_OFFSET, info, &ncid));
    opened = 1;
    P(ncmpi_def_dim(ncid, "y", 4, &dy));
    P(ncmpi_def_dim(ncid, "x", (MPI_Offset)NX * g_np, &dx));
    P(ncmpi_def_var(ncid, "a", NC_INT, 1, &dx, &v1));
    dims[0] = dy; dims[1] = dx;
    P(ncmpi_def_var(ncid, "b", NC_INT, 2, dims, &v2));
    P(ncmpi_enddef(ncid));
    g_armed = 1;
    start[0] = NX * g_rank; count[0] = NX;
    A("ncmpi_put_vara_int_all", ncmpi_put_vara_int_all(ncid, v1, start, count, buf));
    A("ncmpi_get_vara_int_all", ncmpi_get_vara_int_all(ncid, v1, start, count, rbuf));
    start[0] = 0; start[1] = NX * g_rank; count[0] = 4; count[1] = NX / 2; stride[0] = 1; stride[1] = 2;
    A("ncmpi_put_vars_int_all", ncmpi_put_vars_int_all(ncid, v2, start, count, stride, buf));
    A("ncmpi_get_vars_int_all", ncmpi_get_vars_int_all(ncid, v2, start, count, stride, rbuf));
    /* flexible API, noncontiguous buffer type */
    start[0] = NX * g_rank; count[0] = NX;
    A("ncmpi_put_vara_all", ncmpi_put_vara_all(ncid, v1, start, count, buf, 1, vec));
    A("ncmpi_get_vara_all", ncmpi_get_vara_all(ncid, v1, start, count, rbuf, 1, vec));
    A("ncmpi_begin_indep_data", ncmpi_begin_indep_data(ncid));
    A("ncmpi_put_vara_int", ncmpi_put_vara_int(ncid, v1, start, count, buf));
    A("ncmpi_get_vara_int", ncmpi_get_vara_int(ncid, v1, start, count, rbuf));
    A("ncmpi_put_vara", ncmpi_put_vara(ncid, v1, start, count, buf, 1, vec));
    A("ncmpi_get_vara", ncmpi_get_vara(ncid, v1, start, count, rbuf, 1, vec));
    A("ncmpi_put_var1_int", ncmpi_put_var1_int(ncid, v1, start, buf));
    A("ncmpi_end_indep_data", ncmpi_end_indep_data(ncid));
    A("ncmpi_close", ncmpi_close(ncid));
    opened = 0;
bail:
    cleanup(ncid, opened);
    MPI_Type_free(&vec);
    MPI_Info_free(&info);
}

/* collective put/get in which the last rank passes an invalid start: that rank takes part with a
 * zero-length request (ncmpio_getput_zero_req); its own return code is the argument error */
static void sc_zero(const char *file)
{
    int ncid = -1, opened = 0, dx, v1, i, buf[NX];
    MPI_Offset start[1], count[1];
    MPI_Info info = mkinfo();
    for (i = 0; i < NX; i++) buf[i] = i;
    P(ncmpi_create(g_comm, file, NC_CLOBBER, info, &ncid));
    opened = 1;
    P(ncmpi_def_dim(ncid, "x", (MPI_Offset)NX * g_np, &dx));
    P(ncmpi_def_var(ncid, "a", NC_INT, 1, &dx, &v1));
    P(ncmpi_enddef(ncid));
    g_armed = 1;
    start[0] = NX * g_rank; count[0] = NX;
    if (g_np > 1 && g_rank == g_np - 1) start[0] = NX * g_np + 5;
    {   /* the invalid rank returns NC_EINVALCOORDS by design: do not stop the scenario for that */
        int r1;
        arm();
        r1 = ncmpi_put_vara_int_all(ncid, v1, start, count, buf);
        disarm();
        int expected = (g_np > 1 && g_rank == g_np - 1);
        if (g_log) { fprintf(g_log, "NOTE put_vara_int_all raw %d expected_arg_error %d\n", r1, expected); fflush(g_log); }
        api_done("ncmpi_put_vara_int_all(one rank invalid)", (expected && r1 == NC_EINVALCOORDS) ? 0 : r1, 0, NULL);
        if (g_log && expected) { fprintf(g_log, "MASKED %d %d\n", g_apiseq - 1, r1); fflush(g_log); }
        if (g_stop) goto bail;
        arm();
        r1 = ncmpi_get_vara_int_all(ncid, v1, start, count, buf);
        disarm();
        api_done("ncmpi_get_vara_int_all(one rank invalid)", (expected && r1 == NC_EINVALCOORDS) ? 0 : r1, 0, NULL);
        if (g_log && expected) { fprintf(g_log, "MASKED %d %d\n", g_apiseq - 1, r1); fflush(g_log); }
        if (g_stop) goto bail;
    }
    A("ncmpi_close", ncmpi_close(ncid));
    opened = 0;
bail:
    cleanup(ncid, opened);
    MPI_Info_free(&info);
}

/* nonblocking requests completed by wait_all (collective) and wait (independent) */
static void sc_nb(const char *file)
{
    int ncid = -1, opened = 0, dx, dt, v1, v2, dims[2], i, buf[NX], buf2[NX], rbuf[NX], rbuf2[NX], req[4], st[4];
    MPI_Offset start[2], count[2], s1[1], c1[1];
    MPI_Info info = mkinfo();
    for (i = 0; i < NX; i++) { buf[i] = 50 * g_rank + i; buf2[i] = -buf[i]; }
    P(ncmpi_create(g_comm, file, NC_CLOBBER | NC_64BIT_DATA, info, &ncid));
    opened = 1;
    P(ncmpi_def_dim(ncid, "x", (MPI_Offset)NX * g_np, &dx));
    P(ncmpi_def_dim(ncid, "t", NC_UNLIMITED, &dt));
    P(ncmpi_def_var(ncid, "fix", NC_INT, 1, &dx, &v1));
    dims[0] = dt; dims[1] = dx;
    P(ncmpi_def_var(ncid, "rec", NC_INT, 2, dims, &v2));
    P(ncmpi_enddef(ncid));
    g_armed = 1;
    s1[0] = NX * g_rank; c1[0] = NX;
    start[0] = 1; start[1] = NX * g_rank; count[0] = 1; count[1] = NX;
    A("ncmpi_iput_vara_int", ncmpi_iput_vara_int(ncid, v1, s1, c1, buf, &req[0]));
    A("ncmpi_iput_vara_int", ncmpi_iput_vara_int(ncid, v2, start, count, buf2, &req[1]));
    st[0] = st[1] = 0;
    AW("ncmpi_wait_all(2 puts)", ncmpi_wait_all(ncid, 2, req, st), 2, st);
    A("ncmpi_iget_vara_int", ncmpi_iget_vara_int(ncid, v1, s1, c1, rbuf, &req[0]));
    A("ncmpi_iget_vara_int", ncmpi_iget_vara_int(ncid, v2, start, count, rbuf2, &req[1]));
    st[0] = st[1] = 0;
    AW("ncmpi_wait_all(2 gets)", ncmpi_wait_all(ncid, 2, req, st), 2, st);
    /* one put and one get (different variables) completed by the same wait_all */
    A("ncmpi_iput_vara_int", ncmpi_iput_vara_int(ncid, v1, s1, c1, buf2, &req[0]));
    A("ncmpi_iget_vara_int", ncmpi_iget_vara_int(ncid, v2, start, count, rbuf2, &req[1]));
    st[0] = st[1] = 0;
    AW("ncmpi_wait_all(put+get)", ncmpi_wait_all(ncid, NC_REQ_ALL, NULL, NULL), 0, st);
    /* nothing pending: every rank takes part in the collective with a zero-length request */
    AW("ncmpi_wait_all(nothing pending)", ncmpi_wait_all(ncid, NC_REQ_ALL, NULL, NULL), 0, st);
    /* only rank 0 has requests */
    if (g_rank == 0) {
        A("ncmpi_iput_vara_int", ncmpi_iput_vara_int(ncid, v1, s1, c1, buf, &req[0]));
        A("ncmpi_iget_vara_int", ncmpi_iget_vara_int(ncid, v2, start, count, rbuf2, &req[1]));
    } else {
        A("(no request on this rank)", NC_NOERR);
        A("(no request on this rank)", NC_NOERR);
    }
    AW("ncmpi_wait_all(requests on rank 0 only)", ncmpi_wait_all(ncid, NC_REQ_ALL, NULL, NULL), 0, st);
    A("ncmpi_begin_indep_data", ncmpi_begin_indep_data(ncid));
    A("ncmpi_iput_vara_int", ncmpi_iput_vara_int(ncid, v1, s1, c1, buf, &req[0]));
    st[0] = 0;
    AW("ncmpi_wait(put)", ncmpi_wait(ncid, 1, req, st), 1, st);
    A("ncmpi_iget_vara_int", ncmpi_iget_vara_int(ncid, v1, s1, c1, rbuf, &req[0]));
    st[0] = 0;
    AW("ncmpi_wait(get)", ncmpi_wait(ncid, 1, req, st), 1, st);
    A("ncmpi_end_indep_data", ncmpi_end_indep_data(ncid));
    A("ncmpi_close", ncmpi_close(ncid));
    opened = 0;
bail:
    cleanup(ncid, opened);
    MPI_Info_free(&info);
}

/* record-count update paths outside collective put: sync, sync_numrecs, end_indep_data,
 * redef entered from independent mode, close in independent mode */
static void sc_sync(const char *file)
{
    int ncid = -1, opened = 0, dx, dt, v2, dims[2], i, buf[NX];
    MPI_Offset start[2], count[2];
    MPI_Info info = mkinfo();
    for (i = 0; i < NX; i++) buf[i] = 3 * g_rank + i;
    P(ncmpi_create(g_comm, file, NC_CLOBBER, info, &ncid));
    opened = 1;
    P(ncmpi_def_dim(ncid, "x", (MPI_Offset)NX * g_np, &dx));
    P(ncmpi_def_dim(ncid, "t", NC_UNLIMITED, &dt));
    dims[0] = dt; dims[1] = dx;
    P(ncmpi_def_var(ncid, "rec", NC_INT, 2, dims, &v2));
    P(ncmpi_enddef(ncid));
    g_armed = 1;
    start[0] = 0; start[1] = NX * g_rank; count[0] = 1; count[1] = NX;
    A("ncmpi_begin_indep_data", ncmpi_begin_indep_data(ncid));
    A("ncmpi_put_vara_int", ncmpi_put_vara_int(ncid, v2, start, count, buf));
    A("ncmpi_sync", ncmpi_sync(ncid));
    start[0] = 1;
    A("ncmpi_put_vara_int", ncmpi_put_vara_int(ncid, v2, start, count, buf));
    A("ncmpi_sync_numrecs", ncmpi_sync_numrecs(ncid));
    start[0] = 2;
    A("ncmpi_put_vara_int", ncmpi_put_vara_int(ncid, v2, start, count, buf));
    A("ncmpi_end_indep_data", ncmpi_end_indep_data(ncid));
    A("ncmpi_begin_indep_data", ncmpi_begin_indep_data(ncid));
    start[0] = 3;
    A("ncmpi_put_vara_int", ncmpi_put_vara_int(ncid, v2, start, count, buf));
    A("ncmpi_redef(from independent mode)", ncmpi_redef(ncid));
    A("ncmpi_enddef", ncmpi_enddef(ncid));
    A("ncmpi_begin_indep_data", ncmpi_begin_indep_data(ncid));
    start[0] = 4;
    A("ncmpi_put_vara_int", ncmpi_put_vara_int(ncid, v2, start, count, buf));
    A("ncmpi_close(independent mode)", ncmpi_close(ncid));
    opened = 0;
bail:
    cleanup(ncid, opened);
    MPI_Info_free(&info);
}

/* open an existing file (header read in chunks of PNETCDF_VERIF_HDR_CHUNK bytes), read, close */
static void sc_open(const char *file)
{
    int ncid = -1, opened = 0, dx, dt, dz, v[6], dims[3], i, buf[NX], nvars, range[2] = {-5, 500};
    char name[32];
    MPI_Offset start[2], count[2];
    MPI_Info info = mkinfo();
    for (i = 0; i < NX; i++) buf[i] = 9 * g_rank + i;
    P(ncmpi_create(g_comm, file, NC_CLOBBER | NC_64BIT_DATA, info, &ncid));
    P(ncmpi_def_dim(ncid, "x", (MPI_Offset)NX * g_np, &dx));
    P(ncmpi_def_dim(ncid, "t", NC_UNLIMITED, &dt));
    P(ncmpi_def_dim(ncid, "z", 3, &dz));
    P(ncmpi_put_att_text(ncid, NC_GLOBAL, "title", 26, "abcdefghijklmnopqrstuvwxyz"));
    dims[0] = dt; dims[1] = dz; dims[2] = dx;
    for (i = 0; i < 6; i++) {
        sprintf(name, "variable_number_%d", i);
        P(ncmpi_def_var(ncid, name, NC_INT, (i % 3) + 1, dims + 2 - (i % 3), &v[i]));
        P(ncmpi_put_att_int(ncid, v[i], "valid_range", NC_INT, 2, range));
        P(ncmpi_put_att_text(ncid, v[i], "units", 9, "furlongs "));
    }
    P(ncmpi_enddef(ncid));
    start[0] = NX * g_rank; count[0] = NX;
    P(ncmpi_put_vara_int_all(ncid, v[0], start, count, buf));
    P(ncmpi_close(ncid));
    g_armed = 1;
    A("ncmpi_open", ncmpi_open(g_comm, file, NC_NOWRITE, info, &ncid));
    opened = 1;
    A("ncmpi_inq_nvars", ncmpi_inq_nvars(ncid, &nvars));
    A("ncmpi_get_vara_int_all", ncmpi_get_vara_int_all(ncid, v[0], start, count, buf));
    A("ncmpi_close", ncmpi_close(ncid));
    opened = 0;
bail:
    cleanup(ncid, opened);
    MPI_Info_free(&info);
}

/* header rewritten in data mode: put_att (same size), rename_var (shorter name) */
static void sc_attr(const char *file)
{
    int ncid = -1, opened = 0, dx, v1;
    MPI_Info info = mkinfo();
    P(ncmpi_create(g_comm, file, NC_CLOBBER, info, &ncid));
    opened = 1;
    P(ncmpi_def_dim(ncid, "x", (MPI_Offset)NX * g_np, &dx));
    P(ncmpi_def_var(ncid, "a_long_variable_name", NC_INT, 1, &dx, &v1));
    P(ncmpi_put_att_text(ncid, v1, "units", 8, "12345678"));
    P(ncmpi_enddef(ncid));
    g_armed = 1;
    A("ncmpi_put_att_text(data mode)", ncmpi_put_att_text(ncid, v1, "units", 8, "abcdefgh"));
    A("ncmpi_rename_var(data mode)", ncmpi_rename_var(ncid, v1, "short"));
    A("ncmpi_rename_att(data mode)", ncmpi_rename_att(ncid, v1, "units", "unit"));
    A("ncmpi_close", ncmpi_close(ncid));
    opened = 0;
bail:
    cleanup(ncid, opened);
    MPI_Info_free(&info);
}

int main(int argc, char **argv)
{
    char path[4096];
    const char *sc, *e;
    int i;
    MPI_Init(&argc, &argv);
    MPI_Comm_rank(MPI_COMM_WORLD, &g_rank);
    MPI_Comm_size(MPI_COMM_WORLD, &g_np);
    /* errors of communicator operations are returned, not fatal (inherited by the duplicates) */
    MPI_Comm_set_errhandler(MPI_COMM_WORLD, MPI_ERRORS_RETURN);
    MPI_Comm_dup(MPI_COMM_WORLD, &g_comm);
    MPI_Comm_dup(MPI_COMM_WORLD, &g_sync);
    if (argc < 4) { fprintf(stderr, "usage: c11_fault scenario logprefix ncfile\n"); MPI_Abort(MPI_COMM_WORLD, 2); }
    sc = argv[1];
    snprintf(path, sizeof(path), "%s.%d", argv[2], g_rank);
    g_log = fopen(path, "w");
    if (!g_log) { perror(path); MPI_Abort(MPI_COMM_WORLD, 2); }
    if ((e = getenv("C11_API_ALARM")) != NULL && *e) g_alarm = atoi(e);
    if ((e = getenv("C11_INDEX")) != NULL && *e) {
        f_index = atoi(e);
        f_rank = getenv("C11_RANK") ? atoi(getenv("C11_RANK")) : 0;
        f_perform = getenv("C11_PERFORM") ? atoi(getenv("C11_PERFORM")) : 1;
        e = getenv("C11_CLASS");
        if (!e) e = "IO";
        if (strcmp(e, "NEWCLASS") == 0) {
            /* every rank creates the class so that the codes agree */
            MPI_Add_error_class(&f_class);
        } else {
            for (i = 0; g_classes[i].name; i++)
                if (strcmp(g_classes[i].name, e) == 0) f_class = g_classes[i].cls;
            if (f_class == 0) { fprintf(stderr, "unknown class %s\n", e); MPI_Abort(MPI_COMM_WORLD, 2); }
        }
    }
    fprintf(g_log, "START %s np %d rank %d fault rank %d index %d class %d perform %d\n", sc, g_np, g_rank,
            f_rank, f_index, f_class, f_perform);
    fflush(g_log);

    if (!strcmp(sc, "create")) sc_create(argv[3]);
    else if (!strcmp(sc, "putrec")) sc_putrec(argv[3]);
    else if (!strcmp(sc, "redef1")) sc_redef(argv[3], 1);
    else if (!strcmp(sc, "redef2")) sc_redef(argv[3], 2);
    else if (!strcmp(sc, "redef3")) sc_redef(argv[3], 3);
    else if (!strcmp(sc, "redef4")) sc_redef(argv[3], 4);
    else if (!strcmp(sc, "fill")) sc_fill(argv[3]);
    else if (!strcmp(sc, "rw")) sc_rw(argv[3]);
    else if (!strcmp(sc, "zero")) sc_zero(argv[3]);
    else if (!strcmp(sc, "nb")) sc_nb(argv[3]);
    else if (!strcmp(sc, "sync")) sc_sync(argv[3]);
    else if (!strcmp(sc, "open")) sc_open(argv[3]);
    else if (!strcmp(sc, "attr")) sc_attr(argv[3]);
    else { fprintf(stderr, "unknown scenario %s\n", sc); MPI_Abort(MPI_COMM_WORLD, 2); }

    fprintf(g_log, "INJECTED %d\nDONE\n", g_injected);
    fflush(g_log);
    fclose(g_log);
    g_log = NULL;
    /* a rank may still hold an open file after a bail-out: do not let MPI_Finalize wait for it */
    signal(SIGALRM, on_alarm);
    alarm(4);
    MPI_Finalize();
    return 0;
}
