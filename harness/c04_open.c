/*
 * c04_open.c -- open ONE given file with the real PnetCDF library and dump, in a canonical
 * text form, the return code of ncmpi_open and then every inquiry and (bounded) full data
 * read with its return code.  Used by checks/C04.py (specification-valid files not written
 * by PnetCDF) and checks/C19.py (malformed files, AddressSanitizer/UBSan build).
 *
 *   [mpiexec -n N] c04_open <file> [-h key=value]... [-d maxdata] [-i] [-q] [-V]
 *   [mpiexec -n N] c04_open -B <listfile>
 *        batch mode (one MPI_Init for many files; a sanitizer abort or crash ends the process and
 *        the caller restarts after the offending case).  listfile lines:
 *            <tag> <chunk|-> <maxdata> <flags: letters of iqV or -> <hint=val,hint=val|-> <path>
 *        <chunk> is exported as PNETCDF_VERIF_HDR_CHUNK for that case (`-` = unset).
 *        Output per case: `case <tag>`, the dump, `ranks..`, `endcase <wall_ms> <maxrss_kb> <cpu_ms>`
 *        (cpu_ms = user+system time of rank 0 for this case: robust against a loaded machine).
 *
 *   -h k=v     MPI_Info hint passed to ncmpi_open (repeatable)
 *   -d bytes   largest attribute / variable (in external bytes) that is read back (default 1 MiB;
 *              0 = no data reads); larger or inconsistent (negative) sizes print `skipped`
 *   -i         additionally read every variable in independent data mode and compare
 *   -q         print only the summary lines (open/rusage/ranks), not the dump
 *   -V         after the dump, call ncmpi_get_vard_all on variable 0 with a ZERO-SIZE filetype and a
 *              4-int buffer (prints `vard_zero <rc> <first word>`; run under valgrind: finding F12)
 *
 * Output (rank 0, stdout).  All names and data are lower-case hex; data is printed in the
 * EXTERNAL (big-endian) representation, i.e. exactly the bytes the file must contain:
 *   open <rc>
 *   format <rc> <NC_FORMAT_*>
 *   inq <rc> <ndims> <nvars> <ngatts> <unlimdimid>
 *   sizes <hdr_size> <hdr_extent> <recsize> <num_rec_vars> <num_fix_vars> <get_size>
 *   dim <id> <rc> <name> <len>
 *   att <varid|-1> <idx> <rc> <name> <type> <nelems> <rc_get> <data|skipped>
 *   var <id> <rc> <name> <type> <ndims> <dimid,dimid..|-> <natts> <rc_off> <begin>
 *   data <id> <rc> <nbytes> <hex | fnv:<hash> | skipped>
 *   rec <id> <record> <rc> <hex>                  every record of a record variable read SEPARATELY with
 *                                                 ncmpi_get_vara_all (start[0]=record, count[0]=1), when
 *                                                 1 <= numrecs <= 64 and the whole variable was read
 *   idata <id> <rc> same|diff|skipped          (with -i)
 *   close <rc>
 *   ranks <n> agree <0|1>                       (all ranks produced the same dump)
 *   rusage maxrss_kb <n> wall_ms <n> cpu_ms <n>
 * A data blob longer than 512 bytes is printed as fnv:<64-bit FNV-1a hash hex>:<len>.
 */
#define _GNU_SOURCE
#include <stdio.h>
#include <stdlib.h>
#include <string.h>
#include <stdarg.h>
#include <sys/time.h>
#include <sys/resource.h>
#include <mpi.h>
#include <pnetcdf.h>

static char  *g_buf = NULL;
static size_t g_len = 0, g_cap = 0;

static void out(const char *fmt, ...)
{
    va_list ap;
    char tmp[4096];
    int n;
    va_start(ap, fmt);
    n = vsnprintf(tmp, sizeof(tmp), fmt, ap);
    va_end(ap);
    if (n < 0) return;
    if ((size_t)n >= sizeof(tmp)) n = sizeof(tmp) - 1;
    if (g_len + n + 1 > g_cap) {
        g_cap = (g_cap + n + 1) * 2 + 4096;
        g_buf = (char *)realloc(g_buf, g_cap);
    }
    memcpy(g_buf + g_len, tmp, n);
    g_len += n;
    g_buf[g_len] = 0;
}

static unsigned long long fnv(const unsigned char *p, size_t n)
{
    unsigned long long h = 1469598103934665603ULL;
    size_t i;
    for (i = 0; i < n; i++) { h ^= p[i]; h *= 1099511628211ULL; }
    return h;
}

static void out_hex(const unsigned char *p, size_t n)
{
    size_t i;
    if (n == 0) { out("-"); return; }
    if (n > 512) { out("fnv:%016llx:%zu", fnv(p, n), n); return; }
    for (i = 0; i < n; i++) out("%02x", p[i]);
}

static void out_name(const char *s)
{
    size_t n = strlen(s);
    size_t i;
    if (n == 0) { out("-"); return; }
    for (i = 0; i < n; i++) out("%02x", (unsigned char)s[i]);
}

static int xsz_of(nc_type t)
{
    switch (t) {
        case NC_BYTE: case NC_CHAR: case NC_UBYTE: return 1;
        case NC_SHORT: case NC_USHORT: return 2;
        case NC_INT: case NC_UINT: case NC_FLOAT: return 4;
        case NC_DOUBLE: case NC_INT64: case NC_UINT64: return 8;
        default: return 0;
    }
}

/* native little/big endian -> big endian, in place */
static void to_be(unsigned char *p, size_t nelems, int esz)
{
    const int one = 1;
    size_t i; int j;
    if (*(const char *)&one == 0 || esz <= 1) return;   /* big-endian host */
    for (i = 0; i < nelems; i++)
        for (j = 0; j < esz / 2; j++) {
            unsigned char t = p[i * esz + j];
            p[i * esz + j] = p[i * esz + esz - 1 - j];
            p[i * esz + esz - 1 - j] = t;
        }
}

static int get_var_typed(int ncid, int varid, nc_type t, void *buf, int coll)
{
    switch (t) {
        case NC_CHAR:   return coll ? ncmpi_get_var_text_all(ncid, varid, buf) : ncmpi_get_var_text(ncid, varid, buf);
        case NC_BYTE:   return coll ? ncmpi_get_var_schar_all(ncid, varid, buf) : ncmpi_get_var_schar(ncid, varid, buf);
        case NC_UBYTE:  return coll ? ncmpi_get_var_uchar_all(ncid, varid, buf) : ncmpi_get_var_uchar(ncid, varid, buf);
        case NC_SHORT:  return coll ? ncmpi_get_var_short_all(ncid, varid, buf) : ncmpi_get_var_short(ncid, varid, buf);
        case NC_USHORT: return coll ? ncmpi_get_var_ushort_all(ncid, varid, buf) : ncmpi_get_var_ushort(ncid, varid, buf);
        case NC_INT:    return coll ? ncmpi_get_var_int_all(ncid, varid, buf) : ncmpi_get_var_int(ncid, varid, buf);
        case NC_UINT:   return coll ? ncmpi_get_var_uint_all(ncid, varid, buf) : ncmpi_get_var_uint(ncid, varid, buf);
        case NC_FLOAT:  return coll ? ncmpi_get_var_float_all(ncid, varid, buf) : ncmpi_get_var_float(ncid, varid, buf);
        case NC_DOUBLE: return coll ? ncmpi_get_var_double_all(ncid, varid, buf) : ncmpi_get_var_double(ncid, varid, buf);
        case NC_INT64:  return coll ? ncmpi_get_var_longlong_all(ncid, varid, buf) : ncmpi_get_var_longlong(ncid, varid, buf);
        case NC_UINT64: return coll ? ncmpi_get_var_ulonglong_all(ncid, varid, buf) : ncmpi_get_var_ulonglong(ncid, varid, buf);
        default: return -9998;
    }
}

static void dump_att(int ncid, int varid, int idx, long long maxdata)
{
    char name[NC_MAX_NAME + 8];
    nc_type t = 0;
    MPI_Offset nelems = 0;
    int rc, rc2, esz;
    name[0] = 0;
    rc = ncmpi_inq_attname(ncid, varid, idx, name);
    if (rc != NC_NOERR) { out("att %d %d %d - 0 0 0 skipped\n", varid, idx, rc); return; }
    rc = ncmpi_inq_att(ncid, varid, name, &t, &nelems);
    out("att %d %d %d ", varid, idx, rc);
    out_name(name);
    out(" %d %lld ", (int)t, (long long)nelems);
    esz = xsz_of(t);
    if (rc != NC_NOERR || esz == 0 || nelems < 0 || maxdata == 0 ||
        nelems > maxdata / esz) {
        out("0 skipped\n");
        return;
    }
    {
        size_t nb = (size_t)nelems * esz;
        unsigned char *b = (unsigned char *)malloc(nb + 16);
        memset(b, 0xA5, nb + 16);
        rc2 = ncmpi_get_att(ncid, varid, name, b);
        to_be(b, (size_t)nelems, esz);
        out("%d ", rc2);
        if (rc2 == NC_NOERR) out_hex(b, nb); else out("-");
        out("\n");
        free(b);
    }
}

static int g_rank, g_nprocs;

/* one file: open, dump, close; returns nothing, prints (rank 0) */
static void run_case(const char *path, MPI_Info info, long long maxdata, int indep, int quiet, int vard,
                     const char *tag)
{
    int ncid = -1, rc, i, j;
    struct timeval t0, t1;
    struct rusage ru, ru0;
    int ndims = 0, nvars = 0, ngatts = 0, unlim = -1, fmt = 0;
    int rank = g_rank, nprocs = g_nprocs;

    g_len = 0;
    if (g_buf) g_buf[0] = 0;
    if (tag && rank == 0) { printf("case %s\n", tag); fflush(stdout); }

    gettimeofday(&t0, NULL);
    getrusage(RUSAGE_SELF, &ru0);
    rc = ncmpi_open(MPI_COMM_WORLD, path, NC_NOWRITE, info, &ncid);
    out("open %d\n", rc);
    if (rc != NC_NOERR) goto done;

    rc = ncmpi_inq_format(ncid, &fmt);
    out("format %d %d\n", rc, fmt);
    rc = ncmpi_inq(ncid, &ndims, &nvars, &ngatts, &unlim);
    out("inq %d %d %d %d %d\n", rc, ndims, nvars, ngatts, unlim);
    {
        MPI_Offset hs = -1, he = -1, rs = -1, gs = -1;
        int nr = -1, nf = -1;
        ncmpi_inq_header_size(ncid, &hs);
        ncmpi_inq_header_extent(ncid, &he);
        ncmpi_inq_recsize(ncid, &rs);
        ncmpi_inq_num_rec_vars(ncid, &nr);
        ncmpi_inq_num_fix_vars(ncid, &nf);
        ncmpi_inq_get_size(ncid, &gs);
        {   /* only the root reads the header: every rank reports the root's byte count */
            long long g = (long long)gs;
            MPI_Bcast(&g, 1, MPI_LONG_LONG, 0, MPI_COMM_WORLD);
            gs = (MPI_Offset)g;
        }
        out("sizes %lld %lld %lld %d %d %lld\n", (long long)hs, (long long)he, (long long)rs, nr, nf,
            (long long)gs);
    }
    for (i = 0; i < ndims; i++) {
        char name[NC_MAX_NAME + 8];
        MPI_Offset len = -1;
        name[0] = 0;
        rc = ncmpi_inq_dim(ncid, i, name, &len);
        out("dim %d %d ", i, rc);
        out_name(name);
        out(" %lld\n", (long long)len);
    }
    for (i = 0; i < ngatts; i++) dump_att(ncid, NC_GLOBAL, i, maxdata);
    for (i = 0; i < nvars; i++) {
        char name[NC_MAX_NAME + 8];
        nc_type t = 0;
        int nd = 0, natts = 0, *dimids = NULL, rco;
        MPI_Offset off = -1;
        name[0] = 0;
        rc = ncmpi_inq_varndims(ncid, i, &nd);
        if (rc == NC_NOERR && nd >= 0) dimids = (int *)malloc(sizeof(int) * (nd + 1));
        rc = ncmpi_inq_var(ncid, i, name, &t, &nd, dimids, &natts);
        out("var %d %d ", i, rc);
        out_name(name);
        out(" %d %d ", (int)t, nd);
        if (nd <= 0 || dimids == NULL) out("-");
        else for (j = 0; j < nd; j++) out("%s%d", j ? "," : "", dimids[j]);
        rco = ncmpi_inq_varoffset(ncid, i, &off);
        out(" %d %d %lld\n", natts, rco, (long long)off);
        for (j = 0; j < natts; j++) dump_att(ncid, i, j, maxdata);
        free(dimids);
    }
    /* full data reads, collective */
    for (i = 0; i < nvars; i++) {
        nc_type t = 0;
        int nd = 0, esz, bad = 0, *dimids;
        long long nel = 1, nrecs = -1;
        MPI_Offset st[64], ct[64];
        rc = ncmpi_inq_varndims(ncid, i, &nd);
        if (rc != NC_NOERR || nd < 0) { out("data %d %d 0 skipped\n", i, rc); continue; }
        dimids = (int *)malloc(sizeof(int) * (nd + 1));
        rc = ncmpi_inq_var(ncid, i, NULL, &t, NULL, dimids, NULL);
        esz = xsz_of(t);
        if (rc != NC_NOERR || esz == 0) bad = 1;
        for (j = 0; j < nd && !bad; j++) {
            MPI_Offset len = -1;
            if (ncmpi_inq_dimlen(ncid, dimids[j], &len) != NC_NOERR || len < 0) { bad = 1; break; }
            if (j == 0 && dimids[0] == unlim) nrecs = len;
            if (j < 64) { st[j] = 0; ct[j] = len; }
            if (len != 0 && nel > (maxdata + 1) / len + 1) nel = maxdata + 1;
            else nel *= len;
            if (nel > maxdata + 1) nel = maxdata + 1;
        }
        free(dimids);
        if (bad || maxdata == 0 || nel > maxdata / esz) { out("data %d %d 0 skipped\n", i, rc); continue; }
        {
            size_t nb = (size_t)nel * esz;
            unsigned char *b = (unsigned char *)malloc(nb + 16);
            memset(b, 0xA5, nb + 16);
            rc = get_var_typed(ncid, i, t, b, 1);
            to_be(b, (size_t)nel, esz);
            out("data %d %d %zu ", i, rc, nb);
            if (rc == NC_NOERR) out_hex(b, nb); else out("-");
            out("\n");
            if (indep) {
                unsigned char *c = (unsigned char *)malloc(nb + 16);
                int rc2;
                memset(c, 0x5A, nb + 16);
                ncmpi_begin_indep_data(ncid);
                rc2 = get_var_typed(ncid, i, t, c, 0);
                ncmpi_end_indep_data(ncid);
                to_be(c, (size_t)nel, esz);
                out("idata %d %d %s\n", i, rc2, (rc2 == rc && (rc != NC_NOERR || memcmp(b, c, nb) == 0)) ? "same" : "diff");
                free(c);
            }
            /* every record separately: start[0] = r, count[0] = 1 (uses ncp->recsize as the stride) */
            if (nrecs >= 1 && nrecs <= 64 && nd <= 64) {
                long long r, per = nel / nrecs;
                MPI_Datatype bt = MPI_BYTE;
                switch (t) {
                    case NC_CHAR: bt = MPI_CHAR; break;            case NC_BYTE: bt = MPI_SIGNED_CHAR; break;
                    case NC_UBYTE: bt = MPI_UNSIGNED_CHAR; break;  case NC_SHORT: bt = MPI_SHORT; break;
                    case NC_USHORT: bt = MPI_UNSIGNED_SHORT; break; case NC_INT: bt = MPI_INT; break;
                    case NC_UINT: bt = MPI_UNSIGNED; break;        case NC_FLOAT: bt = MPI_FLOAT; break;
                    case NC_DOUBLE: bt = MPI_DOUBLE; break;        case NC_INT64: bt = MPI_LONG_LONG_INT; break;
                    case NC_UINT64: bt = MPI_UNSIGNED_LONG_LONG; break; default: break;
                }
                for (r = 0; r < nrecs; r++) {
                    int rc3;
                    st[0] = r; ct[0] = 1;
                    memset(b, 0xA5, (size_t)per * esz + 16);
                    rc3 = ncmpi_get_vara_all(ncid, i, st, ct, b, per, bt);
                    to_be(b, (size_t)per, esz);
                    out("rec %d %lld %d ", i, r, rc3);
                    if (rc3 == NC_NOERR) out_hex(b, (size_t)per * esz); else out("-");
                    out("\n");
                }
            }
            free(b);
        }
    }
    if (vard && nvars > 0) {
        MPI_Datatype ft;
        int vb[4] = { 0x11111111, 0x22222222, 0x33333333, 0x44444444 };
        MPI_Type_contiguous(0, MPI_BYTE, &ft);
        MPI_Type_commit(&ft);
        rc = ncmpi_get_vard_all(ncid, 0, ft, vb, 4, MPI_INT);
        out("vard_zero %d %08x\n", rc, (unsigned)vb[0]);
        MPI_Type_free(&ft);
    }
    rc = ncmpi_close(ncid);
    out("close %d\n", rc);

done:
    gettimeofday(&t1, NULL);
    {
        unsigned long long h = fnv((const unsigned char *)(g_buf ? g_buf : ""), g_len), hmin, hmax;
        long ms = (long)((t1.tv_sec - t0.tv_sec) * 1000 + (t1.tv_usec - t0.tv_usec) / 1000);
        long rss, rssmax, cpu;
        MPI_Allreduce(&h, &hmin, 1, MPI_UNSIGNED_LONG_LONG, MPI_MIN, MPI_COMM_WORLD);
        MPI_Allreduce(&h, &hmax, 1, MPI_UNSIGNED_LONG_LONG, MPI_MAX, MPI_COMM_WORLD);
        getrusage(RUSAGE_SELF, &ru);
        rss = ru.ru_maxrss;
        cpu = (long)((ru.ru_utime.tv_sec - ru0.ru_utime.tv_sec) * 1000 + (ru.ru_utime.tv_usec - ru0.ru_utime.tv_usec) / 1000
                     + (ru.ru_stime.tv_sec - ru0.ru_stime.tv_sec) * 1000 + (ru.ru_stime.tv_usec - ru0.ru_stime.tv_usec) / 1000);
        MPI_Allreduce(&rss, &rssmax, 1, MPI_LONG, MPI_MAX, MPI_COMM_WORLD);
        if (rank == 0) {
            if (!quiet && g_buf) fputs(g_buf, stdout);
            else if (g_buf) { char *nl = strchr(g_buf, '\n'); if (nl) { *nl = 0; } puts(g_buf); }
            printf("ranks %d agree %d\n", nprocs, hmin == hmax);
            if (tag) printf("endcase %ld %ld %ld\n", ms, rssmax, cpu);
            else printf("rusage maxrss_kb %ld wall_ms %ld cpu_ms %ld\n", rssmax, ms, cpu);
            fflush(stdout);
        }
    }
}

static MPI_Info info_of(const char *spec)      /* "k=v,k=v" or "-" */
{
    MPI_Info info = MPI_INFO_NULL;
    char *s, *tok, *save = NULL;
    if (!spec || !strcmp(spec, "-")) return info;
    s = strdup(spec);
    for (tok = strtok_r(s, ",", &save); tok; tok = strtok_r(NULL, ",", &save)) {
        char *eq = strchr(tok, '=');
        if (!eq) continue;
        *eq = 0;
        if (info == MPI_INFO_NULL) MPI_Info_create(&info);
        MPI_Info_set(info, tok, eq + 1);
    }
    free(s);
    return info;
}

int main(int argc, char **argv)
{
    int i, indep = 0, quiet = 0, vard = 0;
    long long maxdata = 1 << 20;
    MPI_Info info = MPI_INFO_NULL;

    MPI_Init(&argc, &argv);
    MPI_Comm_rank(MPI_COMM_WORLD, &g_rank);
    MPI_Comm_size(MPI_COMM_WORLD, &g_nprocs);
    if (argc < 2) { if (g_rank == 0) fprintf(stderr, "usage: c04_open file [-h k=v] [-d n] [-i] [-q] [-V] | -B list\n"); MPI_Finalize(); return 2; }
    if (!strcmp(argv[1], "-B") && argc >= 3) {
        FILE *lf = fopen(argv[2], "r");
        char tag[256], chunk[64], flags[32], hints[1024], path[4096];
        long long md;
        if (!lf) { MPI_Finalize(); return 2; }
        while (fscanf(lf, "%255s %63s %lld %31s %1023s %4095s", tag, chunk, &md, flags, hints, path) == 6) {
            MPI_Info ci = info_of(hints);
            if (strcmp(chunk, "-")) setenv("PNETCDF_VERIF_HDR_CHUNK", chunk, 1);
            else unsetenv("PNETCDF_VERIF_HDR_CHUNK");
            run_case(path, ci, md, strchr(flags, 'i') != NULL, strchr(flags, 'q') != NULL,
                     strchr(flags, 'V') != NULL, tag);
            if (ci != MPI_INFO_NULL) MPI_Info_free(&ci);
        }
        fclose(lf);
        free(g_buf);
        MPI_Finalize();
        return 0;
    }
    for (i = 2; i < argc; i++) {
        if (!strcmp(argv[i], "-h") && i + 1 < argc) {
            char *kv = strdup(argv[++i]);
            char *eq = strchr(kv, '=');
            if (eq) {
                *eq = 0;
                if (info == MPI_INFO_NULL) MPI_Info_create(&info);
                MPI_Info_set(info, kv, eq + 1);
            }
            free(kv);
        }
        else if (!strcmp(argv[i], "-d") && i + 1 < argc) maxdata = atoll(argv[++i]);
        else if (!strcmp(argv[i], "-i")) indep = 1;
        else if (!strcmp(argv[i], "-q")) quiet = 1;
        else if (!strcmp(argv[i], "-V")) vard = 1;
    }
    run_case(argv[1], info, maxdata, indep, quiet, vard, NULL);
    if (info != MPI_INFO_NULL) MPI_Info_free(&info);
    free(g_buf);
    MPI_Finalize();
    return 0;
}
