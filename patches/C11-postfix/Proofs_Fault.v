(* Proofs_Fault.v -- proofs for property C11 about the model Fault.v instantiated with the generated
   Gen_iosites.v.  Part 1 (general lemmas) is hand-written; part 2 (one lemma group per I/O site and
   per chain of the propagation table) is produced by `python3 -m checks.C11 --regen` from the current
   verdicts of the model and then kept as static text: when /repo changes the behaviour of a site,
   the corresponding lemma stops checking and the check reports it. *)
From Coq Require Export ZArith String List Bool Lia.
From Pnc Require Export Gen_consts Fault Gen_iosites.
Export ListNotations.
Open Scope string_scope.
Open Scope Z_scope.

(* closes a goal `x = y` (y a value) by one VM conversion, performed when the proof term is checked *)
Ltac by_vm := match goal with |- _ = ?y => vm_cast_no_check (eq_refl y) end.

(* ------------------------------------------------------------------------------------------ *)
(** * 1. Error classes and mpi2nc *)

Lemma all_classes_complete : forall c : errclass, In c all_classes.
Proof. intros c; destruct c; vm_compute; tauto. Qed.

Lemma forall_classes (P : errclass -> bool) :
  forallb P all_classes = true -> forall c, P c = true.
Proof.
  intros H c. rewrite forallb_forall in H. apply H. apply all_classes_complete.
Qed.

(* ncmpii_error_mpi2nc never yields NC_NOERR, always a negative code *)
Lemma mpi2nc_negative : forall c, mpi2nc c < 0.
Proof.
  intros c. apply Z.ltb_lt. revert c. apply forall_classes. vm_compute. reflexivity.
Qed.

Lemma mpi2nc_never_noerr : forall c, mpi2nc c <> NC_NOERR.
Proof. intros c. pose proof (mpi2nc_negative c). unfold NC_NOERR. lia. Qed.

(* tie of the hand-written mpi2nc to the table the translator extracts from error_mpi2nc.c *)
Fixpoint table_lookup (k : string) (t : list (string * Z)) (d : Z) : Z :=
  match t with
  | [] => d
  | (k', v) :: r => if String.eqb k k' then v else table_lookup k r d
  end.

Lemma mpi2nc_matches_source :
  forall c, mpi2nc c = table_lookup (class_name c) mpi2nc_table mpi2nc_default.
Proof.
  intros c. apply Z.eqb_eq. revert c. apply forall_classes. vm_compute. reflexivity.
Qed.

(* every class the source tests for is one of the modelled classes *)
Lemma mpi2nc_table_classes_known :
  forall k v, In (k, v) mpi2nc_table -> exists c, class_name c = k.
Proof.
  assert (H : forallb (fun kv => existsb (fun c => String.eqb (class_name c) (fst kv)) all_classes)
                      mpi2nc_table = true) by by_vm.
  intros k v Hin. rewrite forallb_forall in H. specialize (H _ Hin). cbn [fst] in H.
  apply existsb_exists in H. destruct H as [c [_ Hc]]. exists c. apply String.eqb_eq. exact Hc.
Qed.

Lemma mpi2nc_default_is_EFILE : mpi2nc_default = NC_EFILE.
Proof. by_vm. Qed.

(* the assumption "status codes are never positive": every NC constant that occurs in the generated
   continuations is <= 0, and NC_NOERR is the only zero *)
Lemma nc_codes_negative :
  forall z n, In (z, n) nc_codes -> z < 0 \/ (z = 0 /\ n = "NC_NOERR").
Proof.
  assert (H : forallb (fun zn => Z.ltb (fst zn) 0 || (Z.eqb (fst zn) 0 && String.eqb (snd zn) "NC_NOERR"))
                      nc_codes = true) by by_vm.
  intros z n Hin. rewrite forallb_forall in H. specialize (H _ Hin). cbn [fst snd] in H.
  apply orb_true_iff in H. destruct H as [H | H].
  - left. apply Z.ltb_lt. exact H.
  - right. apply andb_true_iff in H. destruct H as [H1 H2].
    split; [apply Z.eqb_eq; exact H1 | apply String.eqb_eq; exact H2].
Qed.

(* the translator's own completeness checks (textual census of the calls against the AST walk) *)
Lemma translator_census_complete : translator_problems = [].
Proof. by_vm. Qed.

(* ------------------------------------------------------------------------------------------ *)
(** * 2. Equality tests are exact *)

Lemma aval_eqb_eq a b : aval_eqb a b = true -> a = b.
Proof.
  destruct a, b; cbn; intros H; try discriminate; try reflexivity.
  apply Z.eqb_eq in H. subst. reflexivity.
Qed.

Lemma vars_eqb_eq : forall a b, vars_eqb a b = true -> a = b.
Proof.
  induction a as [| [k x] s IH]; intros [| [l y] t] H; cbn in H; try discriminate; try reflexivity.
  apply andb_true_iff in H. destruct H as [H H3]. apply andb_true_iff in H. destruct H as [H1 H2].
  apply String.eqb_eq in H1. apply aval_eqb_eq in H2. apply IH in H3. subst. reflexivity.
Qed.

Lemma optb_eqb_eq a b : optb_eqb a b = true -> a = b.
Proof.
  destruct a as [x |], b as [y |]; cbn; intros H; try discriminate; try reflexivity.
  apply Bool.eqb_prop in H. subst. reflexivity.
Qed.

Lemma state_eqb_eq a b : state_eqb a b = true -> a = b.
Proof.
  destruct a as [va ra], b as [vb rb]. unfold state_eqb. cbn. intros H.
  apply andb_true_iff in H. destruct H as [H1 H2].
  apply vars_eqb_eq in H1. apply optb_eqb_eq in H2. subst. reflexivity.
Qed.

Lemma smem_In s l : smem s l = true -> In s l.
Proof.
  induction l as [| h t IH]; cbn; intros H; [discriminate |].
  apply orb_true_iff in H. destruct H as [H | H].
  - left. symmetry. apply state_eqb_eq. exact H.
  - right. apply IH. exact H.
Qed.

Lemma aval_eqb_refl a : aval_eqb a a = true.
Proof. destruct a; cbn; try reflexivity. apply Z.eqb_refl. Qed.

Lemma vars_eqb_refl : forall a, vars_eqb a a = true.
Proof.
  induction a as [| [k x] s IH]; cbn; [reflexivity |].
  rewrite String.eqb_refl, aval_eqb_refl, IH. reflexivity.
Qed.

Lemma state_eqb_refl a : state_eqb a a = true.
Proof.
  destruct a as [va ra]. unfold state_eqb. cbn. rewrite vars_eqb_refl.
  destruct ra as [[|] |]; reflexivity.
Qed.

Lemma In_smem s l : In s l -> smem s l = true.
Proof.
  induction l as [| h t IH]; cbn; intros H; [contradiction |].
  destruct H as [H | H].
  - subst. rewrite state_eqb_refl. reflexivity.
  - rewrite (IH H). apply orb_true_r.
Qed.

(* ------------------------------------------------------------------------------------------ *)
(** * 3. Loops: the computed set of loop-head states covers every number of iterations *)

(* loop-head states after exactly n further iterations *)
Fixpoint iter_heads (next : state -> list state) (n : nat) (st : state) : list state :=
  match n with
  | O => [st]
  | S k => flat_map next (iter_heads next k st)
  end.

Lemma closed_step next hs h h' :
  closed next hs = true -> In h hs -> In h' (next h) -> In h' hs.
Proof.
  unfold closed. intros Hc Hh Hn. rewrite forallb_forall in Hc. specialize (Hc _ Hh).
  rewrite forallb_forall in Hc. apply smem_In. apply Hc. exact Hn.
Qed.

Lemma loop_heads_cover next hs st :
  closed next hs = true -> smem st hs = true ->
  forall n h, In h (iter_heads next n st) -> In h hs.
Proof.
  intros Hc Hs n. induction n as [| k IH]; cbn; intros h Hin.
  - destruct Hin as [Hin | []]. subst. apply smem_In. exact Hs.
  - apply in_flat_map in Hin. destruct Hin as [h0 [H0 H1]].
    eapply closed_step; eauto.
Qed.

(* whenever loop_exec does not fail closed, its result contains, for every number n of iterations
   and every loop-head state h reachable by n iterations: leaving the loop at h, and every way the
   body started at h leaves the loop (break, return, goto) *)
Theorem loop_exec_covers_all_iterations eb ei st hs :
  closure LOOPFUEL (heads_next eb ei) [st] [] = Some hs ->
  closed (heads_next eb ei) hs && smem st hs = true ->
  forall n h, In h (iter_heads (heads_next eb ei) n st) ->
    In (ONormal h) (loop_exec eb ei st) /\
    (forall s, In (OBreak s) (eb h) -> In (ONormal s) (loop_exec eb ei st)) /\
    (forall v, In (ORet v) (eb h) -> In (ORet v) (loop_exec eb ei st)).
Proof.
  intros Hcl Hck n h Hin.
  apply andb_true_iff in Hck. destruct Hck as [Hc Hs].
  assert (Hh : In h hs) by (eapply loop_heads_cover; eauto).
  unfold loop_exec. rewrite Hcl. rewrite Hc, Hs. cbn [andb].
  split; [| split].
  - apply in_flat_map. exists h. split; [exact Hh | left; reflexivity].
  - intros s Hb. apply in_flat_map. exists h. split; [exact Hh |]. right.
    apply in_flat_map. exists (OBreak s). split; [exact Hb | left; reflexivity].
  - intros v Hr. apply in_flat_map. exists h. split; [exact Hh |]. right.
    apply in_flat_map. exists (ORet v). split; [exact Hr | left; reflexivity].
Qed.

(* and in every other case it fails closed *)
Theorem loop_exec_fails_closed eb ei st :
  (forall hs, closure LOOPFUEL (heads_next eb ei) [st] [] = Some hs ->
              closed (heads_next eb ei) hs && smem st hs = false) ->
  exists w, loop_exec eb ei st = [OBad w].
Proof.
  intros H. unfold loop_exec.
  destruct (closure LOOPFUEL (heads_next eb ei) [st] []) as [hs |] eqn:E.
  - rewrite (H hs eq_refl). eexists; reflexivity.
  - eexists; reflexivity.
Qed.

(* ------------------------------------------------------------------------------------------ *)
(** * 4. Boolean verdicts = specification *)

Lemma is_err_nonzero v : is_err v = true <-> nonzero v.
Proof.
  destruct v; cbn; try tauto.
  - rewrite negb_true_iff, Z.eqb_neq. tauto.
  - split; [discriminate | contradiction].
Qed.

Lemma out_is_err_spec o : out_is_err o = true <-> exists v, o = ORet v /\ nonzero v.
Proof.
  split.
  - destruct o; cbn; try discriminate. intros H. exists v. split; [reflexivity | apply is_err_nonzero; exact H].
  - intros [v [E N]]. subst. cbn. apply is_err_nonzero. exact N.
Qed.

Lemma propagates_spec m z s : propagates m z s = true <-> returns_error (run m z (s_body s)).
Proof.
  unfold propagates, returns_error. cbv zeta.
  destruct (run m z (s_body s)) as [| o l] eqn:E.
  - cbn. split; [discriminate | intros [H _]; congruence].
  - cbn [negb andb]. rewrite forallb_forall. split.
    + intros H. split; [discriminate |]. intros o' Hin. apply out_is_err_spec. apply H. exact Hin.
    + intros [_ H] o' Hin. apply out_is_err_spec. apply H. exact Hin.
Qed.

Lemma io_propagates_spec s c : io_propagates s c = true <-> site_returns_error s c.
Proof. unfold io_propagates, site_returns_error. exact (propagates_spec VFail (mpi2nc c) s). Qed.

Lemma link_propagates_spec l : link_propagates l = true <-> link_returns_error l.
Proof. unfold link_propagates, link_returns_error. exact (propagates_spec VErr 0 l). Qed.

(* ------------------------------------------------------------------------------------------ *)
(** * 5. Call graph: a closed set of functions contains every caller *)

Lemma str_mem_In x l : str_mem x l = true <-> In x l.
Proof.
  induction l as [| h t IH]; cbn; [split; [discriminate | contradiction] |].
  rewrite orb_true_iff, IH, String.eqb_eq. split; intros [H | H]; auto.
Qed.

Lemma up_closed_sound links f R :
  up_closed links f R = true -> forall g, calls_up links f g -> str_mem g R = true.
Proof.
  unfold up_closed. intros H. apply andb_true_iff in H. destruct H as [Hf Hc].
  rewrite forallb_forall in Hc.
  intros g Hg. induction Hg as [| l Hl _ IH]; [exact Hf |].
  specialize (Hc _ Hl). rewrite IH in Hc. cbn in Hc. exact Hc.
Qed.

(* a path given explicitly: link sites from f upwards *)
Fixpoint path_from (f : string) (p : list site) : option string :=
  match p with
  | [] => Some f
  | l :: r => if String.eqb (s_callee l) f then path_from (s_func l) r else None
  end.

Lemma path_from_sound links : forall p f g,
  (forall l, In l p -> In l links) -> path_from f p = Some g ->
  forall f0, calls_up links f0 f -> calls_up links f0 g.
Proof.
  induction p as [| l r IH]; cbn; intros f g Hin Hp f0 H0.
  - inversion Hp. subst. exact H0.
  - destruct (String.eqb (s_callee l) f) eqn:E; [| discriminate].
    apply String.eqb_eq in E. eapply IH; [| exact Hp |].
    + intros x Hx. apply Hin. right. exact Hx.
    + apply cu_step; [apply Hin; left; reflexivity | rewrite E; exact H0].
Qed.

Definition sites_of (ids : list string) (l : list site) : list site := map (fun id => site_of id l) ids.

(* ------------------------------------------------------------------------------------------ *)
(** * 6. All link sites at once *)

(* the link sites at which the present code loses a callee's error (see the final report):
   - hdr_get_NC_var: `break` out of the dimid loop on error, then err is overwritten by the result
     of hdr_get_NC_attrarray (on the implementation the misaligned parse then fails otherwise) *)
Definition bad_link_ids : list string :=
  [ "ncmpio_header_get.c:hdr_get_NC_var:hdr_get_uint32#2";
    "ncmpio_header_get.c:hdr_get_NC_var:hdr_get_uint64#2" ].

Lemma links_propagate_except_bad :
  forall l, In l link_sites -> ~ In (s_id l) bad_link_ids -> link_returns_error l.
Proof.
  assert (H : forallb (fun l => str_mem (s_id l) bad_link_ids || link_propagates l) link_sites = true)
    by by_vm.
  intros l Hin Hnb. rewrite forallb_forall in H. specialize (H _ Hin).
  apply orb_true_iff in H. destruct H as [H | H].
  - exfalso. apply Hnb. apply str_mem_In. exact H.
  - apply link_propagates_spec. exact H.
Qed.

(* and these five really lose it in the model *)
Lemma bad_links_drop :
  forall id, In id bad_link_ids -> ~ link_returns_error (site_of id link_sites).
Proof.
  assert (H : forallb (fun id => negb (link_propagates (site_of id link_sites))) bad_link_ids = true)
    by by_vm.
  intros id Hin Hr. rewrite forallb_forall in H. specialize (H _ Hin).
  apply link_propagates_spec in Hr. rewrite Hr in H. discriminate.
Qed.

(* generic constructors of the per-site statements from boolean computations *)
Definition class_mem (c : errclass) (D : list errclass) : bool :=
  existsb (fun d => String.eqb (class_name d) (class_name c)) D.

Lemma class_name_inj : forall a b, class_name a = class_name b -> a = b.
Proof.
  intros a b; destruct a; destruct b; cbn; intros E; try reflexivity; discriminate E.
Qed.

Lemma class_mem_In c D : class_mem c D = true -> In c D.
Proof.
  unfold class_mem. intros H. apply existsb_exists in H. destruct H as [d [Hd E]].
  apply String.eqb_eq in E. apply class_name_inj in E. subst. exact Hd.
Qed.

Lemma In_class_mem c D : In c D -> class_mem c D = true.
Proof.
  intros H. unfold class_mem. apply existsb_exists. exists c. split; [exact H | apply String.eqb_refl].
Qed.

(* The generic lemmas are proved for an arbitrary list of link sites [links] and an arbitrary set
   [bad] of ids outside of which every link propagates (so that nothing about the big generated
   constants is unfolded when they are checked); they are instantiated below. *)
Section Generic.
  Variable links : list site.
  Variable bad : list string.
  Hypothesis Hall : forall l, In l links -> ~ In (s_id l) bad -> link_returns_error l.

  (* full property from: every class propagates in the function; the function's upward closure R
     is closed; no bad link is called from R *)
  Lemma no_silent_drop_intro_gen (s : site) (R : list string) :
    forallb (io_propagates s) all_classes = true ->
    up_closed links (s_func s) R = true ->
    forallb (fun l => negb (str_mem (s_callee l) R) || negb (str_mem (s_id l) bad)) links = true ->
    no_silent_drop links s.
  Proof.
    intros Hio Hcl Hnb c _. split.
    - apply io_propagates_spec. revert c. apply forall_classes. exact Hio.
    - intros l [Hin Hup]. apply Hall; [exact Hin |].
      pose proof (up_closed_sound _ _ _ Hcl _ Hup) as HR.
      rewrite forallb_forall in Hnb. specialize (Hnb _ Hin).
      apply orb_true_iff in Hnb. destruct Hnb as [H1 | H2].
      + rewrite HR in H1. discriminate.
      + intros Hbad. apply str_mem_In in Hbad. rewrite Hbad in H2. discriminate.
  Qed.

  Lemma no_silent_drop_except_intro_gen (s : site) (D : list errclass) :
    forallb (fun c => class_mem c D || io_propagates s c) all_classes = true ->
    no_silent_drop_except links s D bad.
  Proof.
    intros Hio c _. split.
    - intros HnD. apply io_propagates_spec.
      pose proof (forall_classes _ Hio c) as H. apply orb_true_iff in H. destruct H as [H | H]; [| exact H].
      exfalso. apply HnD. apply class_mem_In. exact H.
    - intros l [Hin _] Hnb. apply Hall; assumption.
  Qed.

  (* the same when no losing link site is called from the upward closure R of the function *)
  Lemma no_silent_drop_except_nolinks_intro_gen (s : site) (D : list errclass) (R : list string) :
    forallb (fun c => class_mem c D || io_propagates s c) all_classes = true ->
    up_closed links (s_func s) R = true ->
    forallb (fun l => negb (str_mem (s_callee l) R) || negb (str_mem (s_id l) bad)) links = true ->
    no_silent_drop_except links s D [].
  Proof.
    intros Hio Hcl Hnb c _. split.
    - intros HnD. apply io_propagates_spec.
      pose proof (forall_classes _ Hio c) as H. apply orb_true_iff in H. destruct H as [H | H]; [| exact H].
      exfalso. apply HnD. apply class_mem_In. exact H.
    - intros l [Hin Hup] _. apply Hall; [exact Hin |].
      pose proof (up_closed_sound _ _ _ Hcl _ Hup) as HR.
      rewrite forallb_forall in Hnb. specialize (Hnb _ Hin).
      apply orb_true_iff in Hnb. destruct Hnb as [H1 | H2].
      + rewrite HR in H1. discriminate.
      + intros Hbad. apply str_mem_In in Hbad. rewrite Hbad in H2. discriminate.
  Qed.

  (* refutation by a dropped class *)
  Lemma refute_by_class_gen (s : site) (c : errclass) :
    io_propagates s c = false -> ~ no_silent_drop links s.
  Proof.
    intros H N. destruct (N c (mpi2nc_never_noerr c)) as [Hs _].
    apply io_propagates_spec in Hs. congruence.
  Qed.

  (* refutation by a link site above the function that loses the error: explicit call path p (link
     sites, from the function of s upwards) ending at the callee of the losing link site b *)
  Lemma refute_by_link_gen (s : site) (p : list site) (b : site) :
    In b links ->
    path_from (s_func s) p = Some (s_callee b) ->
    link_propagates b = false ->
    (forall l, In l p -> In l links) ->
    ~ no_silent_drop links s.
  Proof.
    intros Hb Hp Hd Hin N.
    destruct (N E_IO (mpi2nc_never_noerr E_IO)) as [_ Hl].
    assert (Hup : calls_up links (s_func s) (s_callee b)).
    { eapply path_from_sound; [exact Hin | exact Hp | apply cu_refl]. }
    specialize (Hl b (conj Hb Hup)). apply link_propagates_spec in Hl. congruence.
  Qed.

  (* chains of the hand-written propagation table *)
  Lemma chain_reaches_api_intro_gen (fs : list string) :
    chain_in_graph links fs = true ->
    (forall caller callee l, In (caller, callee) (chain_hops fs) -> In l (hop_links links caller callee) ->
                             str_mem (s_id l) bad = false) ->
    chain_reaches_api links fs.
  Proof.
    intros Hg Hb. split; [exact Hg |]. intros caller callee l Hh Hl.
    apply Hall.
    - unfold hop_links in Hl. apply filter_In in Hl. tauto.
    - intros Hbad. apply str_mem_In in Hbad. rewrite (Hb _ _ _ Hh Hl) in Hbad. discriminate.
  Qed.

  Lemma chain_reaches_api_except_intro_gen (fs : list string) :
    chain_in_graph links fs = true ->
    chain_reaches_api_except links fs bad.
  Proof.
    intros Hg. split; [exact Hg |]. intros caller callee l Hh Hl Hnb.
    apply Hall; [| exact Hnb].
    unfold hop_links in Hl. apply filter_In in Hl. tauto.
  Qed.

  Lemma chain_refute_gen (fs : list string) (k : nat) (caller callee : string) :
    nth_error (chain_hops fs) k = Some (caller, callee) ->
    existsb (fun l => negb (link_propagates l)) (hop_links links caller callee) = true ->
    ~ chain_reaches_api links fs.
  Proof.
    intros Hk Hex [_ N]. apply nth_error_In in Hk.
    apply existsb_exists in Hex. destruct Hex as [l [Hl Hb]].
    specialize (N _ _ _ Hk Hl). apply link_propagates_spec in N. rewrite N in Hb. discriminate.
  Qed.
End Generic.

Lemma drops_classes_intro (s : site) (D : list errclass) :
  forallb (fun c => negb (io_propagates s c)) D = true -> drops_classes s D.
Proof.
  intros H c Hin Hr. rewrite forallb_forall in H. specialize (H _ Hin).
  apply io_propagates_spec in Hr. rewrite Hr in H. discriminate.
Qed.

(* decidable membership of a site in a list, by its identifying fields (ids are unique) *)
Lemma forallb_hops_bad (links : list site) (bad : list string) (fs : list string) :
  forallb (fun h : string * string =>
             forallb (fun l => negb (str_mem (s_id l) bad)) (hop_links links (fst h) (snd h)))
          (chain_hops fs) = true ->
  forall caller callee l, In (caller, callee) (chain_hops fs) -> In l (hop_links links caller callee) ->
                          str_mem (s_id l) bad = false.
Proof.
  intros H caller callee l Hh Hl. rewrite forallb_forall in H. specialize (H _ Hh).
  change (forallb (fun l => negb (str_mem (s_id l) bad)) (hop_links links caller callee) = true) in H.
  rewrite forallb_forall in H. specialize (H _ Hl). apply negb_true_iff in H. exact H.
Qed.

(* instances for the generated link sites *)
Definition no_silent_drop_intro := no_silent_drop_intro_gen link_sites bad_link_ids links_propagate_except_bad.
Definition no_silent_drop_except_intro := no_silent_drop_except_intro_gen link_sites bad_link_ids links_propagate_except_bad.
Definition no_silent_drop_except_nolinks_intro := no_silent_drop_except_nolinks_intro_gen link_sites bad_link_ids links_propagate_except_bad.
Definition refute_by_class := refute_by_class_gen link_sites.
Definition refute_by_link := refute_by_link_gen link_sites.
Definition chain_reaches_api_intro := chain_reaches_api_intro_gen link_sites bad_link_ids links_propagate_except_bad.
Definition chain_reaches_api_except_intro := chain_reaches_api_except_intro_gen link_sites bad_link_ids links_propagate_except_bad.
Definition chain_refute := chain_refute_gen link_sites.

(* membership of explicitly named sites in the generated lists *)
Lemma site_of_In (id : string) (l : list site) :
  (match find_site id l with Some _ => true | None => false end) = true -> In (site_of id l) l.
Proof.
  unfold site_of. destruct (find_site id l) as [x |] eqn:E; [| discriminate].
  intros _. unfold find_site in E. apply find_some in E. tauto.
Qed.

Lemma sites_of_In (ids : list string) (l : list site) :
  forallb (fun id => match find_site id l with Some _ => true | None => false end) ids = true ->
  forall x, In x (sites_of ids l) -> In x l.
Proof.
  intros H x Hx. unfold sites_of in Hx. apply in_map_iff in Hx. destruct Hx as [id [E Hid]].
  subst. apply site_of_In. rewrite forallb_forall in H. apply H. exact Hid.
Qed.

(* the hypotheses of the statements are satisfiable / the statements are not vacuous *)
Example mpi2nc_hypothesis_satisfiable : mpi2nc E_NO_SPACE <> NC_NOERR /\ mpi2nc E_IO <> NC_NOERR.
Proof. split; apply mpi2nc_never_noerr. Qed.

Example on_path_inhabited :
  on_path link_sites "write_NC" (site_of "ncmpio_enddef.c:ncmpio__enddef:write_NC" link_sites) /\
  on_path link_sites "write_NC" (site_of "file.c:ncmpi_enddef:ncmpio_enddef" link_sites).
Proof.
  split; split; try (apply site_of_In; by_vm).
  - apply cu_refl.
  - eapply (path_from_sound link_sites
              (sites_of ["ncmpio_enddef.c:ncmpio__enddef:write_NC"; "ncmpio_enddef.c:ncmpio_enddef:ncmpio__enddef"] link_sites)
              "write_NC").
    + apply sites_of_In; by_vm.
    + by_vm.
    + apply cu_refl.
Qed.

(* ==== PART 2: per-site and per-chain lemmas (generated by `python3 -m checks.C11 --regen`) ==== *)

Lemma up_closed_fill_var_rec : up_closed link_sites "fill_var_rec" (up_set "fill_var_rec") = true.
Proof. by_vm. Qed.
Lemma no_bad_link_above_fill_var_rec :
  forallb (fun l => negb (str_mem (s_callee l) (up_set "fill_var_rec")) || negb (str_mem (s_id l) bad_link_ids)) link_sites = true.
Proof. by_vm. Qed.

Lemma up_closed_fillerup_aggregate : up_closed link_sites "fillerup_aggregate" (up_set "fillerup_aggregate") = true.
Proof. by_vm. Qed.
Lemma no_bad_link_above_fillerup_aggregate :
  forallb (fun l => negb (str_mem (s_callee l) (up_set "fillerup_aggregate")) || negb (str_mem (s_id l) bad_link_ids)) link_sites = true.
Proof. by_vm. Qed.

Lemma up_closed_hdr_fetch : up_closed link_sites "hdr_fetch" (up_set "hdr_fetch") = true.
Proof. by_vm. Qed.

Lemma up_closed_move_file_block : up_closed link_sites "move_file_block" (up_set "move_file_block") = true.
Proof. by_vm. Qed.
Lemma no_bad_link_above_move_file_block :
  forallb (fun l => negb (str_mem (s_callee l) (up_set "move_file_block")) || negb (str_mem (s_id l) bad_link_ids)) link_sites = true.
Proof. by_vm. Qed.

Lemma up_closed_ncmpio_getput_zero_req : up_closed link_sites "ncmpio_getput_zero_req" (up_set "ncmpio_getput_zero_req") = true.
Proof. by_vm. Qed.
Lemma no_bad_link_above_ncmpio_getput_zero_req :
  forallb (fun l => negb (str_mem (s_callee l) (up_set "ncmpio_getput_zero_req")) || negb (str_mem (s_id l) bad_link_ids)) link_sites = true.
Proof. by_vm. Qed.

Lemma up_closed_ncmpio_read_write : up_closed link_sites "ncmpio_read_write" (up_set "ncmpio_read_write") = true.
Proof. by_vm. Qed.
Lemma no_bad_link_above_ncmpio_read_write :
  forallb (fun l => negb (str_mem (s_callee l) (up_set "ncmpio_read_write")) || negb (str_mem (s_id l) bad_link_ids)) link_sites = true.
Proof. by_vm. Qed.

Lemma up_closed_ncmpio_write_header : up_closed link_sites "ncmpio_write_header" (up_set "ncmpio_write_header") = true.
Proof. by_vm. Qed.
Lemma no_bad_link_above_ncmpio_write_header :
  forallb (fun l => negb (str_mem (s_callee l) (up_set "ncmpio_write_header")) || negb (str_mem (s_id l) bad_link_ids)) link_sites = true.
Proof. by_vm. Qed.

Lemma up_closed_ncmpio_write_numrecs : up_closed link_sites "ncmpio_write_numrecs" (up_set "ncmpio_write_numrecs") = true.
Proof. by_vm. Qed.
Lemma no_bad_link_above_ncmpio_write_numrecs :
  forallb (fun l => negb (str_mem (s_callee l) (up_set "ncmpio_write_numrecs")) || negb (str_mem (s_id l) bad_link_ids)) link_sites = true.
Proof. by_vm. Qed.

Lemma up_closed_write_NC : up_closed link_sites "write_NC" (up_set "write_NC") = true.
Proof. by_vm. Qed.
Lemma no_bad_link_above_write_NC :
  forallb (fun l => negb (str_mem (s_callee l) (up_set "write_NC")) || negb (str_mem (s_id l) bad_link_ids)) link_sites = true.
Proof. by_vm. Qed.

Lemma nsd_move_file_block__MPI_File_read_at_all : no_silent_drop link_sites (site_of "ncmpio_enddef.c:move_file_block:MPI_File_read_at_all" io_sites).
Proof.
  apply (no_silent_drop_intro (site_of "ncmpio_enddef.c:move_file_block:MPI_File_read_at_all" io_sites) (up_set "move_file_block")); [by_vm | exact up_closed_move_file_block | exact no_bad_link_above_move_file_block].
Qed.

Lemma nsd_move_file_block__MPI_File_write_at_all : no_silent_drop link_sites (site_of "ncmpio_enddef.c:move_file_block:MPI_File_write_at_all" io_sites).
Proof.
  apply (no_silent_drop_intro (site_of "ncmpio_enddef.c:move_file_block:MPI_File_write_at_all" io_sites) (up_set "move_file_block")); [by_vm | exact up_closed_move_file_block | exact no_bad_link_above_move_file_block].
Qed.

Lemma nsd_move_file_block__MPI_File_write_at : no_silent_drop link_sites (site_of "ncmpio_enddef.c:move_file_block:MPI_File_write_at" io_sites).
Proof.
  apply (no_silent_drop_intro (site_of "ncmpio_enddef.c:move_file_block:MPI_File_write_at" io_sites) (up_set "move_file_block")); [by_vm | exact up_closed_move_file_block | exact no_bad_link_above_move_file_block].
Qed.

Lemma nsd_write_NC__MPI_File_write_at_all_1 : no_silent_drop link_sites (site_of "ncmpio_enddef.c:write_NC:MPI_File_write_at_all#1" io_sites).
Proof.
  apply (no_silent_drop_intro (site_of "ncmpio_enddef.c:write_NC:MPI_File_write_at_all#1" io_sites) (up_set "write_NC")); [by_vm | exact up_closed_write_NC | exact no_bad_link_above_write_NC].
Qed.

Lemma nsd_write_NC__MPI_File_write_at : no_silent_drop link_sites (site_of "ncmpio_enddef.c:write_NC:MPI_File_write_at" io_sites).
Proof.
  apply (no_silent_drop_intro (site_of "ncmpio_enddef.c:write_NC:MPI_File_write_at" io_sites) (up_set "write_NC")); [by_vm | exact up_closed_write_NC | exact no_bad_link_above_write_NC].
Qed.

Lemma nsd_write_NC__MPI_File_write_at_all_2_refuted : ~ no_silent_drop link_sites (site_of "ncmpio_enddef.c:write_NC:MPI_File_write_at_all#2" io_sites).
Proof. apply (refute_by_class (site_of "ncmpio_enddef.c:write_NC:MPI_File_write_at_all#2" io_sites) E_NO_SPACE). by_vm. Qed.

Lemma nsd_write_NC__MPI_File_write_at_all_2_drops : drops_classes (site_of "ncmpio_enddef.c:write_NC:MPI_File_write_at_all#2" io_sites) [E_BUFFER; E_COUNT; E_TYPE; E_TAG; E_COMM; E_RANK; E_REQUEST; E_ROOT; E_GROUP; E_OP; E_TOPOLOGY; E_DIMS; E_ARG; E_UNKNOWN; E_TRUNCATE; E_OTHER; E_INTERN; E_IN_STATUS; E_PENDING; E_ACCESS; E_AMODE; E_ASSERT; E_BAD_FILE; E_BASE; E_CONVERSION; E_DISP; E_DUP_DATAREP; E_FILE_EXISTS; E_FILE_IN_USE; E_FILE; E_INFO_KEY; E_INFO_NOKEY; E_INFO_VALUE; E_INFO; E_IO; E_KEYVAL; E_LOCKTYPE; E_NAME; E_NO_MEM; E_NOT_SAME; E_NO_SPACE; E_NO_SUCH_FILE; E_PORT; E_QUOTA; E_READ_ONLY; E_RMA_CONFLICT; E_RMA_SYNC; E_SERVICE; E_SIZE; E_SPAWN; E_UNSUPPORTED_DATAREP; E_UNSUPPORTED_OPERATION; E_WIN; E_RMA_RANGE; E_RMA_ATTACH; E_RMA_FLAVOR; E_RMA_SHARED; E_ANY_OTHER_CLASS].
Proof. apply drops_classes_intro; by_vm. Qed.

Lemma nsd_write_NC__MPI_File_write_at_all_2_partial : no_silent_drop_except link_sites (site_of "ncmpio_enddef.c:write_NC:MPI_File_write_at_all#2" io_sites) [E_BUFFER; E_COUNT; E_TYPE; E_TAG; E_COMM; E_RANK; E_REQUEST; E_ROOT; E_GROUP; E_OP; E_TOPOLOGY; E_DIMS; E_ARG; E_UNKNOWN; E_TRUNCATE; E_OTHER; E_INTERN; E_IN_STATUS; E_PENDING; E_ACCESS; E_AMODE; E_ASSERT; E_BAD_FILE; E_BASE; E_CONVERSION; E_DISP; E_DUP_DATAREP; E_FILE_EXISTS; E_FILE_IN_USE; E_FILE; E_INFO_KEY; E_INFO_NOKEY; E_INFO_VALUE; E_INFO; E_IO; E_KEYVAL; E_LOCKTYPE; E_NAME; E_NO_MEM; E_NOT_SAME; E_NO_SPACE; E_NO_SUCH_FILE; E_PORT; E_QUOTA; E_READ_ONLY; E_RMA_CONFLICT; E_RMA_SYNC; E_SERVICE; E_SIZE; E_SPAWN; E_UNSUPPORTED_DATAREP; E_UNSUPPORTED_OPERATION; E_WIN; E_RMA_RANGE; E_RMA_ATTACH; E_RMA_FLAVOR; E_RMA_SHARED; E_ANY_OTHER_CLASS] [].
Proof.
  apply (no_silent_drop_except_nolinks_intro (site_of "ncmpio_enddef.c:write_NC:MPI_File_write_at_all#2" io_sites) [E_BUFFER; E_COUNT; E_TYPE; E_TAG; E_COMM; E_RANK; E_REQUEST; E_ROOT; E_GROUP; E_OP; E_TOPOLOGY; E_DIMS; E_ARG; E_UNKNOWN; E_TRUNCATE; E_OTHER; E_INTERN; E_IN_STATUS; E_PENDING; E_ACCESS; E_AMODE; E_ASSERT; E_BAD_FILE; E_BASE; E_CONVERSION; E_DISP; E_DUP_DATAREP; E_FILE_EXISTS; E_FILE_IN_USE; E_FILE; E_INFO_KEY; E_INFO_NOKEY; E_INFO_VALUE; E_INFO; E_IO; E_KEYVAL; E_LOCKTYPE; E_NAME; E_NO_MEM; E_NOT_SAME; E_NO_SPACE; E_NO_SUCH_FILE; E_PORT; E_QUOTA; E_READ_ONLY; E_RMA_CONFLICT; E_RMA_SYNC; E_SERVICE; E_SIZE; E_SPAWN; E_UNSUPPORTED_DATAREP; E_UNSUPPORTED_OPERATION; E_WIN; E_RMA_RANGE; E_RMA_ATTACH; E_RMA_FLAVOR; E_RMA_SHARED; E_ANY_OTHER_CLASS] (up_set "write_NC")); [by_vm | exact up_closed_write_NC | exact no_bad_link_above_write_NC].
Qed.

Lemma nsd_write_NC__MPI_File_write_at_all_2_refuted_and_partial :
  (~ no_silent_drop link_sites (site_of "ncmpio_enddef.c:write_NC:MPI_File_write_at_all#2" io_sites)) /\
  (drops_classes (site_of "ncmpio_enddef.c:write_NC:MPI_File_write_at_all#2" io_sites) [E_BUFFER; E_COUNT; E_TYPE; E_TAG; E_COMM; E_RANK; E_REQUEST; E_ROOT; E_GROUP; E_OP; E_TOPOLOGY; E_DIMS; E_ARG; E_UNKNOWN; E_TRUNCATE; E_OTHER; E_INTERN; E_IN_STATUS; E_PENDING; E_ACCESS; E_AMODE; E_ASSERT; E_BAD_FILE; E_BASE; E_CONVERSION; E_DISP; E_DUP_DATAREP; E_FILE_EXISTS; E_FILE_IN_USE; E_FILE; E_INFO_KEY; E_INFO_NOKEY; E_INFO_VALUE; E_INFO; E_IO; E_KEYVAL; E_LOCKTYPE; E_NAME; E_NO_MEM; E_NOT_SAME; E_NO_SPACE; E_NO_SUCH_FILE; E_PORT; E_QUOTA; E_READ_ONLY; E_RMA_CONFLICT; E_RMA_SYNC; E_SERVICE; E_SIZE; E_SPAWN; E_UNSUPPORTED_DATAREP; E_UNSUPPORTED_OPERATION; E_WIN; E_RMA_RANGE; E_RMA_ATTACH; E_RMA_FLAVOR; E_RMA_SHARED; E_ANY_OTHER_CLASS]) /\
  (no_silent_drop_except link_sites (site_of "ncmpio_enddef.c:write_NC:MPI_File_write_at_all#2" io_sites) [E_BUFFER; E_COUNT; E_TYPE; E_TAG; E_COMM; E_RANK; E_REQUEST; E_ROOT; E_GROUP; E_OP; E_TOPOLOGY; E_DIMS; E_ARG; E_UNKNOWN; E_TRUNCATE; E_OTHER; E_INTERN; E_IN_STATUS; E_PENDING; E_ACCESS; E_AMODE; E_ASSERT; E_BAD_FILE; E_BASE; E_CONVERSION; E_DISP; E_DUP_DATAREP; E_FILE_EXISTS; E_FILE_IN_USE; E_FILE; E_INFO_KEY; E_INFO_NOKEY; E_INFO_VALUE; E_INFO; E_IO; E_KEYVAL; E_LOCKTYPE; E_NAME; E_NO_MEM; E_NOT_SAME; E_NO_SPACE; E_NO_SUCH_FILE; E_PORT; E_QUOTA; E_READ_ONLY; E_RMA_CONFLICT; E_RMA_SYNC; E_SERVICE; E_SIZE; E_SPAWN; E_UNSUPPORTED_DATAREP; E_UNSUPPORTED_OPERATION; E_WIN; E_RMA_RANGE; E_RMA_ATTACH; E_RMA_FLAVOR; E_RMA_SHARED; E_ANY_OTHER_CLASS] []).
Proof. exact (conj nsd_write_NC__MPI_File_write_at_all_2_refuted (conj nsd_write_NC__MPI_File_write_at_all_2_drops nsd_write_NC__MPI_File_write_at_all_2_partial)). Qed.

Lemma nsd_ncmpio_read_write__MPI_File_read_at_all : no_silent_drop link_sites (site_of "ncmpio_file_io.c:ncmpio_read_write:MPI_File_read_at_all" io_sites).
Proof.
  apply (no_silent_drop_intro (site_of "ncmpio_file_io.c:ncmpio_read_write:MPI_File_read_at_all" io_sites) (up_set "ncmpio_read_write")); [by_vm | exact up_closed_ncmpio_read_write | exact no_bad_link_above_ncmpio_read_write].
Qed.

Lemma nsd_ncmpio_read_write__MPI_File_read_at : no_silent_drop link_sites (site_of "ncmpio_file_io.c:ncmpio_read_write:MPI_File_read_at" io_sites).
Proof.
  apply (no_silent_drop_intro (site_of "ncmpio_file_io.c:ncmpio_read_write:MPI_File_read_at" io_sites) (up_set "ncmpio_read_write")); [by_vm | exact up_closed_ncmpio_read_write | exact no_bad_link_above_ncmpio_read_write].
Qed.

Lemma nsd_ncmpio_read_write__MPI_File_write_at_all : no_silent_drop link_sites (site_of "ncmpio_file_io.c:ncmpio_read_write:MPI_File_write_at_all" io_sites).
Proof.
  apply (no_silent_drop_intro (site_of "ncmpio_file_io.c:ncmpio_read_write:MPI_File_write_at_all" io_sites) (up_set "ncmpio_read_write")); [by_vm | exact up_closed_ncmpio_read_write | exact no_bad_link_above_ncmpio_read_write].
Qed.

Lemma nsd_ncmpio_read_write__MPI_File_write_at : no_silent_drop link_sites (site_of "ncmpio_file_io.c:ncmpio_read_write:MPI_File_write_at" io_sites).
Proof.
  apply (no_silent_drop_intro (site_of "ncmpio_file_io.c:ncmpio_read_write:MPI_File_write_at" io_sites) (up_set "ncmpio_read_write")); [by_vm | exact up_closed_ncmpio_read_write | exact no_bad_link_above_ncmpio_read_write].
Qed.

Lemma nsd_fill_var_rec__MPI_File_write_at_all : no_silent_drop link_sites (site_of "ncmpio_fill.c:fill_var_rec:MPI_File_write_at_all" io_sites).
Proof.
  apply (no_silent_drop_intro (site_of "ncmpio_fill.c:fill_var_rec:MPI_File_write_at_all" io_sites) (up_set "fill_var_rec")); [by_vm | exact up_closed_fill_var_rec | exact no_bad_link_above_fill_var_rec].
Qed.

Lemma nsd_fill_var_rec__MPI_File_write_at : no_silent_drop link_sites (site_of "ncmpio_fill.c:fill_var_rec:MPI_File_write_at" io_sites).
Proof.
  apply (no_silent_drop_intro (site_of "ncmpio_fill.c:fill_var_rec:MPI_File_write_at" io_sites) (up_set "fill_var_rec")); [by_vm | exact up_closed_fill_var_rec | exact no_bad_link_above_fill_var_rec].
Qed.

Lemma nsd_fillerup_aggregate__MPI_File_write_at_all : no_silent_drop link_sites (site_of "ncmpio_fill.c:fillerup_aggregate:MPI_File_write_at_all" io_sites).
Proof.
  apply (no_silent_drop_intro (site_of "ncmpio_fill.c:fillerup_aggregate:MPI_File_write_at_all" io_sites) (up_set "fillerup_aggregate")); [by_vm | exact up_closed_fillerup_aggregate | exact no_bad_link_above_fillerup_aggregate].
Qed.

Lemma nsd_fillerup_aggregate__MPI_File_write_at : no_silent_drop link_sites (site_of "ncmpio_fill.c:fillerup_aggregate:MPI_File_write_at" io_sites).
Proof.
  apply (no_silent_drop_intro (site_of "ncmpio_fill.c:fillerup_aggregate:MPI_File_write_at" io_sites) (up_set "fillerup_aggregate")); [by_vm | exact up_closed_fillerup_aggregate | exact no_bad_link_above_fillerup_aggregate].
Qed.

Lemma nsd_hdr_fetch__MPI_File_read_at_all_1_refuted : ~ no_silent_drop link_sites (site_of "ncmpio_header_get.c:hdr_fetch:MPI_File_read_at_all#1" io_sites).
Proof.
  apply (refute_by_link (site_of "ncmpio_header_get.c:hdr_fetch:MPI_File_read_at_all#1" io_sites) (sites_of ["ncmpio_header_get.c:hdr_get_uint32:hdr_fetch"] link_sites) (site_of "ncmpio_header_get.c:hdr_get_NC_var:hdr_get_uint32#2" link_sites)).
  - apply site_of_In; by_vm.
  - by_vm.
  - by_vm.
  - apply sites_of_In; by_vm.
Qed.

Lemma nsd_hdr_fetch__MPI_File_read_at_all_1_partial : no_silent_drop_except link_sites (site_of "ncmpio_header_get.c:hdr_fetch:MPI_File_read_at_all#1" io_sites) [] bad_link_ids.
Proof. apply no_silent_drop_except_intro; by_vm. Qed.

Lemma nsd_hdr_fetch__MPI_File_read_at_all_1_refuted_and_partial :
  (~ no_silent_drop link_sites (site_of "ncmpio_header_get.c:hdr_fetch:MPI_File_read_at_all#1" io_sites)) /\
  (no_silent_drop_except link_sites (site_of "ncmpio_header_get.c:hdr_fetch:MPI_File_read_at_all#1" io_sites) [] bad_link_ids).
Proof. exact (conj nsd_hdr_fetch__MPI_File_read_at_all_1_refuted nsd_hdr_fetch__MPI_File_read_at_all_1_partial). Qed.

Lemma nsd_hdr_fetch__MPI_File_read_at_refuted : ~ no_silent_drop link_sites (site_of "ncmpio_header_get.c:hdr_fetch:MPI_File_read_at" io_sites).
Proof.
  apply (refute_by_link (site_of "ncmpio_header_get.c:hdr_fetch:MPI_File_read_at" io_sites) (sites_of ["ncmpio_header_get.c:hdr_get_uint32:hdr_fetch"] link_sites) (site_of "ncmpio_header_get.c:hdr_get_NC_var:hdr_get_uint32#2" link_sites)).
  - apply site_of_In; by_vm.
  - by_vm.
  - by_vm.
  - apply sites_of_In; by_vm.
Qed.

Lemma nsd_hdr_fetch__MPI_File_read_at_partial : no_silent_drop_except link_sites (site_of "ncmpio_header_get.c:hdr_fetch:MPI_File_read_at" io_sites) [] bad_link_ids.
Proof. apply no_silent_drop_except_intro; by_vm. Qed.

Lemma nsd_hdr_fetch__MPI_File_read_at_refuted_and_partial :
  (~ no_silent_drop link_sites (site_of "ncmpio_header_get.c:hdr_fetch:MPI_File_read_at" io_sites)) /\
  (no_silent_drop_except link_sites (site_of "ncmpio_header_get.c:hdr_fetch:MPI_File_read_at" io_sites) [] bad_link_ids).
Proof. exact (conj nsd_hdr_fetch__MPI_File_read_at_refuted nsd_hdr_fetch__MPI_File_read_at_partial). Qed.

Lemma nsd_hdr_fetch__MPI_File_read_at_all_2_refuted : ~ no_silent_drop link_sites (site_of "ncmpio_header_get.c:hdr_fetch:MPI_File_read_at_all#2" io_sites).
Proof. apply (refute_by_class (site_of "ncmpio_header_get.c:hdr_fetch:MPI_File_read_at_all#2" io_sites) E_NO_SPACE). by_vm. Qed.

Lemma nsd_hdr_fetch__MPI_File_read_at_all_2_drops : drops_classes (site_of "ncmpio_header_get.c:hdr_fetch:MPI_File_read_at_all#2" io_sites) [E_BUFFER; E_COUNT; E_TYPE; E_TAG; E_COMM; E_RANK; E_REQUEST; E_ROOT; E_GROUP; E_OP; E_TOPOLOGY; E_DIMS; E_ARG; E_UNKNOWN; E_TRUNCATE; E_OTHER; E_INTERN; E_IN_STATUS; E_PENDING; E_ACCESS; E_AMODE; E_ASSERT; E_BAD_FILE; E_BASE; E_CONVERSION; E_DISP; E_DUP_DATAREP; E_FILE_EXISTS; E_FILE_IN_USE; E_FILE; E_INFO_KEY; E_INFO_NOKEY; E_INFO_VALUE; E_INFO; E_IO; E_KEYVAL; E_LOCKTYPE; E_NAME; E_NO_MEM; E_NOT_SAME; E_NO_SPACE; E_NO_SUCH_FILE; E_PORT; E_QUOTA; E_READ_ONLY; E_RMA_CONFLICT; E_RMA_SYNC; E_SERVICE; E_SIZE; E_SPAWN; E_UNSUPPORTED_DATAREP; E_UNSUPPORTED_OPERATION; E_WIN; E_RMA_RANGE; E_RMA_ATTACH; E_RMA_FLAVOR; E_RMA_SHARED; E_ANY_OTHER_CLASS].
Proof. apply drops_classes_intro; by_vm. Qed.

Lemma nsd_hdr_fetch__MPI_File_read_at_all_2_partial : no_silent_drop_except link_sites (site_of "ncmpio_header_get.c:hdr_fetch:MPI_File_read_at_all#2" io_sites) [E_BUFFER; E_COUNT; E_TYPE; E_TAG; E_COMM; E_RANK; E_REQUEST; E_ROOT; E_GROUP; E_OP; E_TOPOLOGY; E_DIMS; E_ARG; E_UNKNOWN; E_TRUNCATE; E_OTHER; E_INTERN; E_IN_STATUS; E_PENDING; E_ACCESS; E_AMODE; E_ASSERT; E_BAD_FILE; E_BASE; E_CONVERSION; E_DISP; E_DUP_DATAREP; E_FILE_EXISTS; E_FILE_IN_USE; E_FILE; E_INFO_KEY; E_INFO_NOKEY; E_INFO_VALUE; E_INFO; E_IO; E_KEYVAL; E_LOCKTYPE; E_NAME; E_NO_MEM; E_NOT_SAME; E_NO_SPACE; E_NO_SUCH_FILE; E_PORT; E_QUOTA; E_READ_ONLY; E_RMA_CONFLICT; E_RMA_SYNC; E_SERVICE; E_SIZE; E_SPAWN; E_UNSUPPORTED_DATAREP; E_UNSUPPORTED_OPERATION; E_WIN; E_RMA_RANGE; E_RMA_ATTACH; E_RMA_FLAVOR; E_RMA_SHARED; E_ANY_OTHER_CLASS] bad_link_ids.
Proof. apply no_silent_drop_except_intro; by_vm. Qed.

Lemma nsd_hdr_fetch__MPI_File_read_at_all_2_refuted_and_partial :
  (~ no_silent_drop link_sites (site_of "ncmpio_header_get.c:hdr_fetch:MPI_File_read_at_all#2" io_sites)) /\
  (drops_classes (site_of "ncmpio_header_get.c:hdr_fetch:MPI_File_read_at_all#2" io_sites) [E_BUFFER; E_COUNT; E_TYPE; E_TAG; E_COMM; E_RANK; E_REQUEST; E_ROOT; E_GROUP; E_OP; E_TOPOLOGY; E_DIMS; E_ARG; E_UNKNOWN; E_TRUNCATE; E_OTHER; E_INTERN; E_IN_STATUS; E_PENDING; E_ACCESS; E_AMODE; E_ASSERT; E_BAD_FILE; E_BASE; E_CONVERSION; E_DISP; E_DUP_DATAREP; E_FILE_EXISTS; E_FILE_IN_USE; E_FILE; E_INFO_KEY; E_INFO_NOKEY; E_INFO_VALUE; E_INFO; E_IO; E_KEYVAL; E_LOCKTYPE; E_NAME; E_NO_MEM; E_NOT_SAME; E_NO_SPACE; E_NO_SUCH_FILE; E_PORT; E_QUOTA; E_READ_ONLY; E_RMA_CONFLICT; E_RMA_SYNC; E_SERVICE; E_SIZE; E_SPAWN; E_UNSUPPORTED_DATAREP; E_UNSUPPORTED_OPERATION; E_WIN; E_RMA_RANGE; E_RMA_ATTACH; E_RMA_FLAVOR; E_RMA_SHARED; E_ANY_OTHER_CLASS]) /\
  (no_silent_drop_except link_sites (site_of "ncmpio_header_get.c:hdr_fetch:MPI_File_read_at_all#2" io_sites) [E_BUFFER; E_COUNT; E_TYPE; E_TAG; E_COMM; E_RANK; E_REQUEST; E_ROOT; E_GROUP; E_OP; E_TOPOLOGY; E_DIMS; E_ARG; E_UNKNOWN; E_TRUNCATE; E_OTHER; E_INTERN; E_IN_STATUS; E_PENDING; E_ACCESS; E_AMODE; E_ASSERT; E_BAD_FILE; E_BASE; E_CONVERSION; E_DISP; E_DUP_DATAREP; E_FILE_EXISTS; E_FILE_IN_USE; E_FILE; E_INFO_KEY; E_INFO_NOKEY; E_INFO_VALUE; E_INFO; E_IO; E_KEYVAL; E_LOCKTYPE; E_NAME; E_NO_MEM; E_NOT_SAME; E_NO_SPACE; E_NO_SUCH_FILE; E_PORT; E_QUOTA; E_READ_ONLY; E_RMA_CONFLICT; E_RMA_SYNC; E_SERVICE; E_SIZE; E_SPAWN; E_UNSUPPORTED_DATAREP; E_UNSUPPORTED_OPERATION; E_WIN; E_RMA_RANGE; E_RMA_ATTACH; E_RMA_FLAVOR; E_RMA_SHARED; E_ANY_OTHER_CLASS] bad_link_ids).
Proof. exact (conj nsd_hdr_fetch__MPI_File_read_at_all_2_refuted (conj nsd_hdr_fetch__MPI_File_read_at_all_2_drops nsd_hdr_fetch__MPI_File_read_at_all_2_partial)). Qed.

Lemma nsd_ncmpio_write_header__MPI_File_write_at_all_1 : no_silent_drop link_sites (site_of "ncmpio_header_put.c:ncmpio_write_header:MPI_File_write_at_all#1" io_sites).
Proof.
  apply (no_silent_drop_intro (site_of "ncmpio_header_put.c:ncmpio_write_header:MPI_File_write_at_all#1" io_sites) (up_set "ncmpio_write_header")); [by_vm | exact up_closed_ncmpio_write_header | exact no_bad_link_above_ncmpio_write_header].
Qed.

Lemma nsd_ncmpio_write_header__MPI_File_write_at : no_silent_drop link_sites (site_of "ncmpio_header_put.c:ncmpio_write_header:MPI_File_write_at" io_sites).
Proof.
  apply (no_silent_drop_intro (site_of "ncmpio_header_put.c:ncmpio_write_header:MPI_File_write_at" io_sites) (up_set "ncmpio_write_header")); [by_vm | exact up_closed_ncmpio_write_header | exact no_bad_link_above_ncmpio_write_header].
Qed.

Lemma nsd_ncmpio_write_header__MPI_File_write_at_all_2_refuted : ~ no_silent_drop link_sites (site_of "ncmpio_header_put.c:ncmpio_write_header:MPI_File_write_at_all#2" io_sites).
Proof. apply (refute_by_class (site_of "ncmpio_header_put.c:ncmpio_write_header:MPI_File_write_at_all#2" io_sites) E_NO_SPACE). by_vm. Qed.

Lemma nsd_ncmpio_write_header__MPI_File_write_at_all_2_drops : drops_classes (site_of "ncmpio_header_put.c:ncmpio_write_header:MPI_File_write_at_all#2" io_sites) [E_BUFFER; E_COUNT; E_TYPE; E_TAG; E_COMM; E_RANK; E_REQUEST; E_ROOT; E_GROUP; E_OP; E_TOPOLOGY; E_DIMS; E_ARG; E_UNKNOWN; E_TRUNCATE; E_OTHER; E_INTERN; E_IN_STATUS; E_PENDING; E_ACCESS; E_AMODE; E_ASSERT; E_BAD_FILE; E_BASE; E_CONVERSION; E_DISP; E_DUP_DATAREP; E_FILE_EXISTS; E_FILE_IN_USE; E_FILE; E_INFO_KEY; E_INFO_NOKEY; E_INFO_VALUE; E_INFO; E_IO; E_KEYVAL; E_LOCKTYPE; E_NAME; E_NO_MEM; E_NOT_SAME; E_NO_SPACE; E_NO_SUCH_FILE; E_PORT; E_QUOTA; E_READ_ONLY; E_RMA_CONFLICT; E_RMA_SYNC; E_SERVICE; E_SIZE; E_SPAWN; E_UNSUPPORTED_DATAREP; E_UNSUPPORTED_OPERATION; E_WIN; E_RMA_RANGE; E_RMA_ATTACH; E_RMA_FLAVOR; E_RMA_SHARED; E_ANY_OTHER_CLASS].
Proof. apply drops_classes_intro; by_vm. Qed.

Lemma nsd_ncmpio_write_header__MPI_File_write_at_all_2_partial : no_silent_drop_except link_sites (site_of "ncmpio_header_put.c:ncmpio_write_header:MPI_File_write_at_all#2" io_sites) [E_BUFFER; E_COUNT; E_TYPE; E_TAG; E_COMM; E_RANK; E_REQUEST; E_ROOT; E_GROUP; E_OP; E_TOPOLOGY; E_DIMS; E_ARG; E_UNKNOWN; E_TRUNCATE; E_OTHER; E_INTERN; E_IN_STATUS; E_PENDING; E_ACCESS; E_AMODE; E_ASSERT; E_BAD_FILE; E_BASE; E_CONVERSION; E_DISP; E_DUP_DATAREP; E_FILE_EXISTS; E_FILE_IN_USE; E_FILE; E_INFO_KEY; E_INFO_NOKEY; E_INFO_VALUE; E_INFO; E_IO; E_KEYVAL; E_LOCKTYPE; E_NAME; E_NO_MEM; E_NOT_SAME; E_NO_SPACE; E_NO_SUCH_FILE; E_PORT; E_QUOTA; E_READ_ONLY; E_RMA_CONFLICT; E_RMA_SYNC; E_SERVICE; E_SIZE; E_SPAWN; E_UNSUPPORTED_DATAREP; E_UNSUPPORTED_OPERATION; E_WIN; E_RMA_RANGE; E_RMA_ATTACH; E_RMA_FLAVOR; E_RMA_SHARED; E_ANY_OTHER_CLASS] [].
Proof.
  apply (no_silent_drop_except_nolinks_intro (site_of "ncmpio_header_put.c:ncmpio_write_header:MPI_File_write_at_all#2" io_sites) [E_BUFFER; E_COUNT; E_TYPE; E_TAG; E_COMM; E_RANK; E_REQUEST; E_ROOT; E_GROUP; E_OP; E_TOPOLOGY; E_DIMS; E_ARG; E_UNKNOWN; E_TRUNCATE; E_OTHER; E_INTERN; E_IN_STATUS; E_PENDING; E_ACCESS; E_AMODE; E_ASSERT; E_BAD_FILE; E_BASE; E_CONVERSION; E_DISP; E_DUP_DATAREP; E_FILE_EXISTS; E_FILE_IN_USE; E_FILE; E_INFO_KEY; E_INFO_NOKEY; E_INFO_VALUE; E_INFO; E_IO; E_KEYVAL; E_LOCKTYPE; E_NAME; E_NO_MEM; E_NOT_SAME; E_NO_SPACE; E_NO_SUCH_FILE; E_PORT; E_QUOTA; E_READ_ONLY; E_RMA_CONFLICT; E_RMA_SYNC; E_SERVICE; E_SIZE; E_SPAWN; E_UNSUPPORTED_DATAREP; E_UNSUPPORTED_OPERATION; E_WIN; E_RMA_RANGE; E_RMA_ATTACH; E_RMA_FLAVOR; E_RMA_SHARED; E_ANY_OTHER_CLASS] (up_set "ncmpio_write_header")); [by_vm | exact up_closed_ncmpio_write_header | exact no_bad_link_above_ncmpio_write_header].
Qed.

Lemma nsd_ncmpio_write_header__MPI_File_write_at_all_2_refuted_and_partial :
  (~ no_silent_drop link_sites (site_of "ncmpio_header_put.c:ncmpio_write_header:MPI_File_write_at_all#2" io_sites)) /\
  (drops_classes (site_of "ncmpio_header_put.c:ncmpio_write_header:MPI_File_write_at_all#2" io_sites) [E_BUFFER; E_COUNT; E_TYPE; E_TAG; E_COMM; E_RANK; E_REQUEST; E_ROOT; E_GROUP; E_OP; E_TOPOLOGY; E_DIMS; E_ARG; E_UNKNOWN; E_TRUNCATE; E_OTHER; E_INTERN; E_IN_STATUS; E_PENDING; E_ACCESS; E_AMODE; E_ASSERT; E_BAD_FILE; E_BASE; E_CONVERSION; E_DISP; E_DUP_DATAREP; E_FILE_EXISTS; E_FILE_IN_USE; E_FILE; E_INFO_KEY; E_INFO_NOKEY; E_INFO_VALUE; E_INFO; E_IO; E_KEYVAL; E_LOCKTYPE; E_NAME; E_NO_MEM; E_NOT_SAME; E_NO_SPACE; E_NO_SUCH_FILE; E_PORT; E_QUOTA; E_READ_ONLY; E_RMA_CONFLICT; E_RMA_SYNC; E_SERVICE; E_SIZE; E_SPAWN; E_UNSUPPORTED_DATAREP; E_UNSUPPORTED_OPERATION; E_WIN; E_RMA_RANGE; E_RMA_ATTACH; E_RMA_FLAVOR; E_RMA_SHARED; E_ANY_OTHER_CLASS]) /\
  (no_silent_drop_except link_sites (site_of "ncmpio_header_put.c:ncmpio_write_header:MPI_File_write_at_all#2" io_sites) [E_BUFFER; E_COUNT; E_TYPE; E_TAG; E_COMM; E_RANK; E_REQUEST; E_ROOT; E_GROUP; E_OP; E_TOPOLOGY; E_DIMS; E_ARG; E_UNKNOWN; E_TRUNCATE; E_OTHER; E_INTERN; E_IN_STATUS; E_PENDING; E_ACCESS; E_AMODE; E_ASSERT; E_BAD_FILE; E_BASE; E_CONVERSION; E_DISP; E_DUP_DATAREP; E_FILE_EXISTS; E_FILE_IN_USE; E_FILE; E_INFO_KEY; E_INFO_NOKEY; E_INFO_VALUE; E_INFO; E_IO; E_KEYVAL; E_LOCKTYPE; E_NAME; E_NO_MEM; E_NOT_SAME; E_NO_SPACE; E_NO_SUCH_FILE; E_PORT; E_QUOTA; E_READ_ONLY; E_RMA_CONFLICT; E_RMA_SYNC; E_SERVICE; E_SIZE; E_SPAWN; E_UNSUPPORTED_DATAREP; E_UNSUPPORTED_OPERATION; E_WIN; E_RMA_RANGE; E_RMA_ATTACH; E_RMA_FLAVOR; E_RMA_SHARED; E_ANY_OTHER_CLASS] []).
Proof. exact (conj nsd_ncmpio_write_header__MPI_File_write_at_all_2_refuted (conj nsd_ncmpio_write_header__MPI_File_write_at_all_2_drops nsd_ncmpio_write_header__MPI_File_write_at_all_2_partial)). Qed.

Lemma nsd_ncmpio_write_numrecs__MPI_File_write_at_all_1_refuted : ~ no_silent_drop link_sites (site_of "ncmpio_sync.c:ncmpio_write_numrecs:MPI_File_write_at_all#1" io_sites).
Proof. apply (refute_by_class (site_of "ncmpio_sync.c:ncmpio_write_numrecs:MPI_File_write_at_all#1" io_sites) E_NO_SPACE). by_vm. Qed.

Lemma nsd_ncmpio_write_numrecs__MPI_File_write_at_all_1_drops : drops_classes (site_of "ncmpio_sync.c:ncmpio_write_numrecs:MPI_File_write_at_all#1" io_sites) [E_BUFFER; E_COUNT; E_TYPE; E_TAG; E_COMM; E_RANK; E_REQUEST; E_ROOT; E_GROUP; E_OP; E_TOPOLOGY; E_DIMS; E_ARG; E_UNKNOWN; E_TRUNCATE; E_OTHER; E_INTERN; E_IN_STATUS; E_PENDING; E_ACCESS; E_AMODE; E_ASSERT; E_BAD_FILE; E_BASE; E_CONVERSION; E_DISP; E_DUP_DATAREP; E_FILE_EXISTS; E_FILE_IN_USE; E_FILE; E_INFO_KEY; E_INFO_NOKEY; E_INFO_VALUE; E_INFO; E_IO; E_KEYVAL; E_LOCKTYPE; E_NAME; E_NO_MEM; E_NOT_SAME; E_NO_SPACE; E_NO_SUCH_FILE; E_PORT; E_QUOTA; E_READ_ONLY; E_RMA_CONFLICT; E_RMA_SYNC; E_SERVICE; E_SIZE; E_SPAWN; E_UNSUPPORTED_DATAREP; E_UNSUPPORTED_OPERATION; E_WIN; E_RMA_RANGE; E_RMA_ATTACH; E_RMA_FLAVOR; E_RMA_SHARED; E_ANY_OTHER_CLASS].
Proof. apply drops_classes_intro; by_vm. Qed.

Lemma nsd_ncmpio_write_numrecs__MPI_File_write_at_all_1_partial : no_silent_drop_except link_sites (site_of "ncmpio_sync.c:ncmpio_write_numrecs:MPI_File_write_at_all#1" io_sites) [E_BUFFER; E_COUNT; E_TYPE; E_TAG; E_COMM; E_RANK; E_REQUEST; E_ROOT; E_GROUP; E_OP; E_TOPOLOGY; E_DIMS; E_ARG; E_UNKNOWN; E_TRUNCATE; E_OTHER; E_INTERN; E_IN_STATUS; E_PENDING; E_ACCESS; E_AMODE; E_ASSERT; E_BAD_FILE; E_BASE; E_CONVERSION; E_DISP; E_DUP_DATAREP; E_FILE_EXISTS; E_FILE_IN_USE; E_FILE; E_INFO_KEY; E_INFO_NOKEY; E_INFO_VALUE; E_INFO; E_IO; E_KEYVAL; E_LOCKTYPE; E_NAME; E_NO_MEM; E_NOT_SAME; E_NO_SPACE; E_NO_SUCH_FILE; E_PORT; E_QUOTA; E_READ_ONLY; E_RMA_CONFLICT; E_RMA_SYNC; E_SERVICE; E_SIZE; E_SPAWN; E_UNSUPPORTED_DATAREP; E_UNSUPPORTED_OPERATION; E_WIN; E_RMA_RANGE; E_RMA_ATTACH; E_RMA_FLAVOR; E_RMA_SHARED; E_ANY_OTHER_CLASS] [].
Proof.
  apply (no_silent_drop_except_nolinks_intro (site_of "ncmpio_sync.c:ncmpio_write_numrecs:MPI_File_write_at_all#1" io_sites) [E_BUFFER; E_COUNT; E_TYPE; E_TAG; E_COMM; E_RANK; E_REQUEST; E_ROOT; E_GROUP; E_OP; E_TOPOLOGY; E_DIMS; E_ARG; E_UNKNOWN; E_TRUNCATE; E_OTHER; E_INTERN; E_IN_STATUS; E_PENDING; E_ACCESS; E_AMODE; E_ASSERT; E_BAD_FILE; E_BASE; E_CONVERSION; E_DISP; E_DUP_DATAREP; E_FILE_EXISTS; E_FILE_IN_USE; E_FILE; E_INFO_KEY; E_INFO_NOKEY; E_INFO_VALUE; E_INFO; E_IO; E_KEYVAL; E_LOCKTYPE; E_NAME; E_NO_MEM; E_NOT_SAME; E_NO_SPACE; E_NO_SUCH_FILE; E_PORT; E_QUOTA; E_READ_ONLY; E_RMA_CONFLICT; E_RMA_SYNC; E_SERVICE; E_SIZE; E_SPAWN; E_UNSUPPORTED_DATAREP; E_UNSUPPORTED_OPERATION; E_WIN; E_RMA_RANGE; E_RMA_ATTACH; E_RMA_FLAVOR; E_RMA_SHARED; E_ANY_OTHER_CLASS] (up_set "ncmpio_write_numrecs")); [by_vm | exact up_closed_ncmpio_write_numrecs | exact no_bad_link_above_ncmpio_write_numrecs].
Qed.

Lemma nsd_ncmpio_write_numrecs__MPI_File_write_at_all_1_refuted_and_partial :
  (~ no_silent_drop link_sites (site_of "ncmpio_sync.c:ncmpio_write_numrecs:MPI_File_write_at_all#1" io_sites)) /\
  (drops_classes (site_of "ncmpio_sync.c:ncmpio_write_numrecs:MPI_File_write_at_all#1" io_sites) [E_BUFFER; E_COUNT; E_TYPE; E_TAG; E_COMM; E_RANK; E_REQUEST; E_ROOT; E_GROUP; E_OP; E_TOPOLOGY; E_DIMS; E_ARG; E_UNKNOWN; E_TRUNCATE; E_OTHER; E_INTERN; E_IN_STATUS; E_PENDING; E_ACCESS; E_AMODE; E_ASSERT; E_BAD_FILE; E_BASE; E_CONVERSION; E_DISP; E_DUP_DATAREP; E_FILE_EXISTS; E_FILE_IN_USE; E_FILE; E_INFO_KEY; E_INFO_NOKEY; E_INFO_VALUE; E_INFO; E_IO; E_KEYVAL; E_LOCKTYPE; E_NAME; E_NO_MEM; E_NOT_SAME; E_NO_SPACE; E_NO_SUCH_FILE; E_PORT; E_QUOTA; E_READ_ONLY; E_RMA_CONFLICT; E_RMA_SYNC; E_SERVICE; E_SIZE; E_SPAWN; E_UNSUPPORTED_DATAREP; E_UNSUPPORTED_OPERATION; E_WIN; E_RMA_RANGE; E_RMA_ATTACH; E_RMA_FLAVOR; E_RMA_SHARED; E_ANY_OTHER_CLASS]) /\
  (no_silent_drop_except link_sites (site_of "ncmpio_sync.c:ncmpio_write_numrecs:MPI_File_write_at_all#1" io_sites) [E_BUFFER; E_COUNT; E_TYPE; E_TAG; E_COMM; E_RANK; E_REQUEST; E_ROOT; E_GROUP; E_OP; E_TOPOLOGY; E_DIMS; E_ARG; E_UNKNOWN; E_TRUNCATE; E_OTHER; E_INTERN; E_IN_STATUS; E_PENDING; E_ACCESS; E_AMODE; E_ASSERT; E_BAD_FILE; E_BASE; E_CONVERSION; E_DISP; E_DUP_DATAREP; E_FILE_EXISTS; E_FILE_IN_USE; E_FILE; E_INFO_KEY; E_INFO_NOKEY; E_INFO_VALUE; E_INFO; E_IO; E_KEYVAL; E_LOCKTYPE; E_NAME; E_NO_MEM; E_NOT_SAME; E_NO_SPACE; E_NO_SUCH_FILE; E_PORT; E_QUOTA; E_READ_ONLY; E_RMA_CONFLICT; E_RMA_SYNC; E_SERVICE; E_SIZE; E_SPAWN; E_UNSUPPORTED_DATAREP; E_UNSUPPORTED_OPERATION; E_WIN; E_RMA_RANGE; E_RMA_ATTACH; E_RMA_FLAVOR; E_RMA_SHARED; E_ANY_OTHER_CLASS] []).
Proof. exact (conj nsd_ncmpio_write_numrecs__MPI_File_write_at_all_1_refuted (conj nsd_ncmpio_write_numrecs__MPI_File_write_at_all_1_drops nsd_ncmpio_write_numrecs__MPI_File_write_at_all_1_partial)). Qed.

Lemma nsd_ncmpio_write_numrecs__MPI_File_write_at_all_2_refuted : ~ no_silent_drop link_sites (site_of "ncmpio_sync.c:ncmpio_write_numrecs:MPI_File_write_at_all#2" io_sites).
Proof. apply (refute_by_class (site_of "ncmpio_sync.c:ncmpio_write_numrecs:MPI_File_write_at_all#2" io_sites) E_NO_SPACE). by_vm. Qed.

Lemma nsd_ncmpio_write_numrecs__MPI_File_write_at_all_2_drops : drops_classes (site_of "ncmpio_sync.c:ncmpio_write_numrecs:MPI_File_write_at_all#2" io_sites) [E_ACCESS; E_AMODE; E_BAD_FILE; E_FILE_EXISTS; E_NOT_SAME; E_NO_SPACE; E_NO_SUCH_FILE; E_QUOTA; E_READ_ONLY].
Proof. apply drops_classes_intro; by_vm. Qed.

Lemma nsd_ncmpio_write_numrecs__MPI_File_write_at_all_2_partial : no_silent_drop_except link_sites (site_of "ncmpio_sync.c:ncmpio_write_numrecs:MPI_File_write_at_all#2" io_sites) [E_ACCESS; E_AMODE; E_BAD_FILE; E_FILE_EXISTS; E_NOT_SAME; E_NO_SPACE; E_NO_SUCH_FILE; E_QUOTA; E_READ_ONLY] [].
Proof.
  apply (no_silent_drop_except_nolinks_intro (site_of "ncmpio_sync.c:ncmpio_write_numrecs:MPI_File_write_at_all#2" io_sites) [E_ACCESS; E_AMODE; E_BAD_FILE; E_FILE_EXISTS; E_NOT_SAME; E_NO_SPACE; E_NO_SUCH_FILE; E_QUOTA; E_READ_ONLY] (up_set "ncmpio_write_numrecs")); [by_vm | exact up_closed_ncmpio_write_numrecs | exact no_bad_link_above_ncmpio_write_numrecs].
Qed.

Lemma nsd_ncmpio_write_numrecs__MPI_File_write_at_all_2_refuted_and_partial :
  (~ no_silent_drop link_sites (site_of "ncmpio_sync.c:ncmpio_write_numrecs:MPI_File_write_at_all#2" io_sites)) /\
  (drops_classes (site_of "ncmpio_sync.c:ncmpio_write_numrecs:MPI_File_write_at_all#2" io_sites) [E_ACCESS; E_AMODE; E_BAD_FILE; E_FILE_EXISTS; E_NOT_SAME; E_NO_SPACE; E_NO_SUCH_FILE; E_QUOTA; E_READ_ONLY]) /\
  (no_silent_drop_except link_sites (site_of "ncmpio_sync.c:ncmpio_write_numrecs:MPI_File_write_at_all#2" io_sites) [E_ACCESS; E_AMODE; E_BAD_FILE; E_FILE_EXISTS; E_NOT_SAME; E_NO_SPACE; E_NO_SUCH_FILE; E_QUOTA; E_READ_ONLY] []).
Proof. exact (conj nsd_ncmpio_write_numrecs__MPI_File_write_at_all_2_refuted (conj nsd_ncmpio_write_numrecs__MPI_File_write_at_all_2_drops nsd_ncmpio_write_numrecs__MPI_File_write_at_all_2_partial)). Qed.

Lemma nsd_ncmpio_write_numrecs__MPI_File_write_at_refuted : ~ no_silent_drop link_sites (site_of "ncmpio_sync.c:ncmpio_write_numrecs:MPI_File_write_at" io_sites).
Proof. apply (refute_by_class (site_of "ncmpio_sync.c:ncmpio_write_numrecs:MPI_File_write_at" io_sites) E_NO_SPACE). by_vm. Qed.

Lemma nsd_ncmpio_write_numrecs__MPI_File_write_at_drops : drops_classes (site_of "ncmpio_sync.c:ncmpio_write_numrecs:MPI_File_write_at" io_sites) [E_ACCESS; E_AMODE; E_BAD_FILE; E_FILE_EXISTS; E_NOT_SAME; E_NO_SPACE; E_NO_SUCH_FILE; E_QUOTA; E_READ_ONLY].
Proof. apply drops_classes_intro; by_vm. Qed.

Lemma nsd_ncmpio_write_numrecs__MPI_File_write_at_partial : no_silent_drop_except link_sites (site_of "ncmpio_sync.c:ncmpio_write_numrecs:MPI_File_write_at" io_sites) [E_ACCESS; E_AMODE; E_BAD_FILE; E_FILE_EXISTS; E_NOT_SAME; E_NO_SPACE; E_NO_SUCH_FILE; E_QUOTA; E_READ_ONLY] [].
Proof.
  apply (no_silent_drop_except_nolinks_intro (site_of "ncmpio_sync.c:ncmpio_write_numrecs:MPI_File_write_at" io_sites) [E_ACCESS; E_AMODE; E_BAD_FILE; E_FILE_EXISTS; E_NOT_SAME; E_NO_SPACE; E_NO_SUCH_FILE; E_QUOTA; E_READ_ONLY] (up_set "ncmpio_write_numrecs")); [by_vm | exact up_closed_ncmpio_write_numrecs | exact no_bad_link_above_ncmpio_write_numrecs].
Qed.

Lemma nsd_ncmpio_write_numrecs__MPI_File_write_at_refuted_and_partial :
  (~ no_silent_drop link_sites (site_of "ncmpio_sync.c:ncmpio_write_numrecs:MPI_File_write_at" io_sites)) /\
  (drops_classes (site_of "ncmpio_sync.c:ncmpio_write_numrecs:MPI_File_write_at" io_sites) [E_ACCESS; E_AMODE; E_BAD_FILE; E_FILE_EXISTS; E_NOT_SAME; E_NO_SPACE; E_NO_SUCH_FILE; E_QUOTA; E_READ_ONLY]) /\
  (no_silent_drop_except link_sites (site_of "ncmpio_sync.c:ncmpio_write_numrecs:MPI_File_write_at" io_sites) [E_ACCESS; E_AMODE; E_BAD_FILE; E_FILE_EXISTS; E_NOT_SAME; E_NO_SPACE; E_NO_SUCH_FILE; E_QUOTA; E_READ_ONLY] []).
Proof. exact (conj nsd_ncmpio_write_numrecs__MPI_File_write_at_refuted (conj nsd_ncmpio_write_numrecs__MPI_File_write_at_drops nsd_ncmpio_write_numrecs__MPI_File_write_at_partial)). Qed.

Lemma nsd_ncmpio_getput_zero_req__MPI_File_read_all : no_silent_drop link_sites (site_of "ncmpio_wait.c:ncmpio_getput_zero_req:MPI_File_read_all" io_sites).
Proof.
  apply (no_silent_drop_intro (site_of "ncmpio_wait.c:ncmpio_getput_zero_req:MPI_File_read_all" io_sites) (up_set "ncmpio_getput_zero_req")); [by_vm | exact up_closed_ncmpio_getput_zero_req | exact no_bad_link_above_ncmpio_getput_zero_req].
Qed.

Lemma nsd_ncmpio_getput_zero_req__MPI_File_read : no_silent_drop link_sites (site_of "ncmpio_wait.c:ncmpio_getput_zero_req:MPI_File_read" io_sites).
Proof.
  apply (no_silent_drop_intro (site_of "ncmpio_wait.c:ncmpio_getput_zero_req:MPI_File_read" io_sites) (up_set "ncmpio_getput_zero_req")); [by_vm | exact up_closed_ncmpio_getput_zero_req | exact no_bad_link_above_ncmpio_getput_zero_req].
Qed.

Lemma nsd_ncmpio_getput_zero_req__MPI_File_write_all : no_silent_drop link_sites (site_of "ncmpio_wait.c:ncmpio_getput_zero_req:MPI_File_write_all" io_sites).
Proof.
  apply (no_silent_drop_intro (site_of "ncmpio_wait.c:ncmpio_getput_zero_req:MPI_File_write_all" io_sites) (up_set "ncmpio_getput_zero_req")); [by_vm | exact up_closed_ncmpio_getput_zero_req | exact no_bad_link_above_ncmpio_getput_zero_req].
Qed.

Lemma nsd_ncmpio_getput_zero_req__MPI_File_write : no_silent_drop link_sites (site_of "ncmpio_wait.c:ncmpio_getput_zero_req:MPI_File_write" io_sites).
Proof.
  apply (no_silent_drop_intro (site_of "ncmpio_wait.c:ncmpio_getput_zero_req:MPI_File_write" io_sites) (up_set "ncmpio_getput_zero_req")); [by_vm | exact up_closed_ncmpio_getput_zero_req | exact no_bad_link_above_ncmpio_getput_zero_req].
Qed.

Lemma ch_enddef_header_write : chain_reaches_api link_sites (chain_of "enddef: header write").
Proof. apply chain_reaches_api_intro; [by_vm | apply forallb_hops_bad; by_vm]. Qed.

Lemma ch__enddef_header_write : chain_reaches_api link_sites (chain_of "_enddef: header write").
Proof. apply chain_reaches_api_intro; [by_vm | apply forallb_hops_bad; by_vm]. Qed.

Lemma ch_put_collective_numrecs : chain_reaches_api link_sites (chain_of "put (collective): numrecs").
Proof. apply chain_reaches_api_intro; [by_vm | apply forallb_hops_bad; by_vm]. Qed.

Lemma ch_sync_numrecs_numrecs : chain_reaches_api link_sites (chain_of "sync_numrecs: numrecs").
Proof. apply chain_reaches_api_intro; [by_vm | apply forallb_hops_bad; by_vm]. Qed.

Lemma ch_sync_numrecs : chain_reaches_api link_sites (chain_of "sync: numrecs").
Proof. apply chain_reaches_api_intro; [by_vm | apply forallb_hops_bad; by_vm]. Qed.

Lemma ch_end_indep_data_numrecs : chain_reaches_api link_sites (chain_of "end_indep_data: numrecs").
Proof. apply chain_reaches_api_intro; [by_vm | apply forallb_hops_bad; by_vm]. Qed.

Lemma ch_close_independent_mode_numrecs : chain_reaches_api link_sites (chain_of "close (independent mode): numrecs").
Proof. apply chain_reaches_api_intro; [by_vm | apply forallb_hops_bad; by_vm]. Qed.

Lemma ch_wait_all_numrecs : chain_reaches_api link_sites (chain_of "wait_all: numrecs").
Proof. apply chain_reaches_api_intro; [by_vm | apply forallb_hops_bad; by_vm]. Qed.

Lemma ch_enddef_after_redef_move_fixed : chain_reaches_api link_sites (chain_of "enddef after redef: move fixed").
Proof. apply chain_reaches_api_intro; [by_vm | apply forallb_hops_bad; by_vm]. Qed.

Lemma ch_enddef_after_redef_move_records : chain_reaches_api link_sites (chain_of "enddef after redef: move records").
Proof. apply chain_reaches_api_intro; [by_vm | apply forallb_hops_bad; by_vm]. Qed.

Lemma ch_enddef_fill_new_variables : chain_reaches_api link_sites (chain_of "enddef: fill new variables").
Proof. apply chain_reaches_api_intro; [by_vm | apply forallb_hops_bad; by_vm]. Qed.

Lemma ch_fill_var_rec : chain_reaches_api link_sites (chain_of "fill_var_rec").
Proof. apply chain_reaches_api_intro; [by_vm | apply forallb_hops_bad; by_vm]. Qed.

Lemma ch_fill_var_rec_numrecs : chain_reaches_api link_sites (chain_of "fill_var_rec: numrecs").
Proof. apply chain_reaches_api_intro; [by_vm | apply forallb_hops_bad; by_vm]. Qed.

Lemma ch_put_blocking : chain_reaches_api link_sites (chain_of "put (blocking)").
Proof. apply chain_reaches_api_intro; [by_vm | apply forallb_hops_bad; by_vm]. Qed.

Lemma ch_put_independent : chain_reaches_api link_sites (chain_of "put (independent)").
Proof. apply chain_reaches_api_intro; [by_vm | apply forallb_hops_bad; by_vm]. Qed.

Lemma ch_get_blocking : chain_reaches_api link_sites (chain_of "get (blocking)").
Proof. apply chain_reaches_api_intro; [by_vm | apply forallb_hops_bad; by_vm]. Qed.

Lemma ch_get_independent : chain_reaches_api link_sites (chain_of "get (independent)").
Proof. apply chain_reaches_api_intro; [by_vm | apply forallb_hops_bad; by_vm]. Qed.

Lemma ch_put_zero_length_participation : chain_reaches_api link_sites (chain_of "put, zero-length participation").
Proof. apply chain_reaches_api_intro; [by_vm | apply forallb_hops_bad; by_vm]. Qed.

Lemma ch_get_zero_length_participation : chain_reaches_api link_sites (chain_of "get, zero-length participation").
Proof. apply chain_reaches_api_intro; [by_vm | apply forallb_hops_bad; by_vm]. Qed.

Lemma ch_wait_all : chain_reaches_api link_sites (chain_of "wait_all").
Proof. apply chain_reaches_api_intro; [by_vm | apply forallb_hops_bad; by_vm]. Qed.

Lemma ch_wait_all_one_request_per_call : chain_reaches_api link_sites (chain_of "wait_all (one request per call)").
Proof. apply chain_reaches_api_intro; [by_vm | apply forallb_hops_bad; by_vm]. Qed.

Lemma ch_wait_independent : chain_reaches_api link_sites (chain_of "wait (independent)").
Proof. apply chain_reaches_api_intro; [by_vm | apply forallb_hops_bad; by_vm]. Qed.

Lemma ch_wait_all_zero_length_participation : chain_reaches_api link_sites (chain_of "wait_all, zero-length participation").
Proof. apply chain_reaches_api_intro; [by_vm | apply forallb_hops_bad; by_vm]. Qed.

Lemma ch_open_header_read : chain_reaches_api link_sites (chain_of "open: header read").
Proof. apply chain_reaches_api_intro; [by_vm | apply forallb_hops_bad; by_vm]. Qed.

Lemma ch_open_header_read_variables_refuted : ~ chain_reaches_api link_sites (chain_of "open: header read (variables)").
Proof. apply (chain_refute (chain_of "open: header read (variables)") 4 "hdr_get_NC_var" "hdr_get_uint32"); by_vm. Qed.

Lemma ch_open_header_read_variables_partial : chain_reaches_api_except link_sites (chain_of "open: header read (variables)") bad_link_ids.
Proof. apply chain_reaches_api_except_intro; by_vm. Qed.

Lemma ch_put_att_in_data_mode_header_write : chain_reaches_api link_sites (chain_of "put_att in data mode: header write").
Proof. apply chain_reaches_api_intro; [by_vm | apply forallb_hops_bad; by_vm]. Qed.

Lemma ch_rename_var_in_data_mode_header_write : chain_reaches_api link_sites (chain_of "rename_var in data mode: header write").
Proof. apply chain_reaches_api_intro; [by_vm | apply forallb_hops_bad; by_vm]. Qed.

Lemma chains_reach_api :
  Forall (fun name => chain_reaches_api link_sites (chain_of name))
    ["enddef: header write"; "_enddef: header write"; "put (collective): numrecs"; "sync_numrecs: numrecs"; "sync: numrecs"; "end_indep_data: numrecs"; "close (independent mode): numrecs"; "wait_all: numrecs"; "enddef after redef: move fixed"; "enddef after redef: move records"; "enddef: fill new variables"; "fill_var_rec"; "fill_var_rec: numrecs"; "put (blocking)"; "put (independent)"; "get (blocking)"; "get (independent)"; "put, zero-length participation"; "get, zero-length participation"; "wait_all"; "wait_all (one request per call)"; "wait (independent)"; "wait_all, zero-length participation"; "open: header read"; "put_att in data mode: header write"; "rename_var in data mode: header write"].
Proof. repeat (constructor; [first [exact ch_enddef_header_write | exact ch__enddef_header_write | exact ch_put_collective_numrecs | exact ch_sync_numrecs_numrecs | exact ch_sync_numrecs | exact ch_end_indep_data_numrecs | exact ch_close_independent_mode_numrecs | exact ch_wait_all_numrecs | exact ch_enddef_after_redef_move_fixed | exact ch_enddef_after_redef_move_records | exact ch_enddef_fill_new_variables | exact ch_fill_var_rec | exact ch_fill_var_rec_numrecs | exact ch_put_blocking | exact ch_put_independent | exact ch_get_blocking | exact ch_get_independent | exact ch_put_zero_length_participation | exact ch_get_zero_length_participation | exact ch_wait_all | exact ch_wait_all_one_request_per_call | exact ch_wait_independent | exact ch_wait_all_zero_length_participation | exact ch_open_header_read | exact ch_put_att_in_data_mode_header_write | exact ch_rename_var_in_data_mode_header_write] |]). constructor. Qed.

Lemma chains_refuted_and_partial :
  Forall (fun name => ~ chain_reaches_api link_sites (chain_of name) /\
                       chain_reaches_api_except link_sites (chain_of name) bad_link_ids)
    ["open: header read (variables)"].
Proof. repeat (constructor; [first [exact (conj ch_open_header_read_variables_refuted ch_open_header_read_variables_partial)] |]). constructor. Qed.

