(* Properties_C11.v — statements only: each property theorem is stated in full and closed by
   `exact <lemma>`; the lemmas live in the Proofs_*.v files.  Assembled by tools/mkprops.py. *)
(* C11 I/O failures are never silently dropped.  Model: coq/Fault.v (policy language, abstract interpreter, *)
(* mpi2nc, propagation table) instantiated with coq/Gen_iosites.v (tools/tr_iosites.py, regenerated from the *)
(* sources as built on every run).  no_silent_drop s: for every MPI error class, the function containing I/O *)
(* site s returns an error and so does every function on every static call path above it, up to the ncmpi_ entry points. *)
(* xxx_refuted: the present code loses the error (witness class or losing link site); xxx_drops: exactly which *)
(* classes are lost in the function; xxx_partial: what is propagated nevertheless. *)
From Coq Require Import ZArith List.
From Pnc Require Import Proofs_Fault.
Set Printing Width 100.
Set Printing Depth 100000.

Theorem C11_all_classes_enumerated :
  forall c : errclass, In c all_classes.
Proof. exact @all_classes_complete. Qed.
Print Assumptions C11_all_classes_enumerated.

Theorem C11_mpi2nc_matches_source :
  forall c : errclass, mpi2nc c = table_lookup (class_name c) mpi2nc_table mpi2nc_default.
Proof. exact @mpi2nc_matches_source. Qed.
Print Assumptions C11_mpi2nc_matches_source.

Theorem C11_mpi2nc_table_classes_known :
  forall (k : string) (v : Z), In (k, v) mpi2nc_table -> exists c : errclass, class_name c = k.
Proof. exact @mpi2nc_table_classes_known. Qed.
Print Assumptions C11_mpi2nc_table_classes_known.

Theorem C11_mpi2nc_default_is_EFILE :
  mpi2nc_default = NC_EFILE.
Proof. exact @mpi2nc_default_is_EFILE. Qed.
Print Assumptions C11_mpi2nc_default_is_EFILE.

Theorem C11_mpi2nc_never_noerr :
  forall c : errclass, mpi2nc c <> NC_NOERR.
Proof. exact @mpi2nc_never_noerr. Qed.
Print Assumptions C11_mpi2nc_never_noerr.

Theorem C11_nc_codes_negative :
  forall (z : Z) (n : string), In (z, n) nc_codes -> z < 0 \/ z = 0 /\ n = "NC_NOERR".
Proof. exact @nc_codes_negative. Qed.
Print Assumptions C11_nc_codes_negative.

Theorem C11_translator_census_complete :
  translator_problems = [].
Proof. exact @translator_census_complete. Qed.
Print Assumptions C11_translator_census_complete.

Theorem C11_loop_exec_covers_all_iterations :
  forall (eb ei : state -> list outcome) (st : state) (hs : list state),
         closure LOOPFUEL (heads_next eb ei) [st] [] = Some hs ->
         closed (heads_next eb ei) hs && smem st hs = true ->
         forall (n : nat) (h : state),
         In h (iter_heads (heads_next eb ei) n st) ->
         In (ONormal h) (loop_exec eb ei st) /\
         (forall s : state, In (OBreak s) (eb h) -> In (ONormal s) (loop_exec eb ei st)) /\
         (forall v : aval, In (ORet v) (eb h) -> In (ORet v) (loop_exec eb ei st)).
Proof. exact @loop_exec_covers_all_iterations. Qed.
Print Assumptions C11_loop_exec_covers_all_iterations.

Theorem C11_loop_exec_fails_closed :
  forall (eb ei : state -> list outcome) (st : state),
         (forall hs : list state,
          closure LOOPFUEL (heads_next eb ei) [st] [] = Some hs ->
          closed (heads_next eb ei) hs && smem st hs = false) ->
         exists w : string, loop_exec eb ei st = [OBad w].
Proof. exact @loop_exec_fails_closed. Qed.
Print Assumptions C11_loop_exec_fails_closed.

Theorem C11_verdict_is_specification :
  forall (m : aval) (z : Z) (s : site),
         propagates m z s = true <-> returns_error (run m z (s_body s)).
Proof. exact @propagates_spec. Qed.
Print Assumptions C11_verdict_is_specification.

Theorem C11_call_paths_stay_in_closed_set :
  forall (links : list site) (f : string) (R : list string),
         up_closed links f R = true -> forall g : string, calls_up links f g -> str_mem g R = true.
Proof. exact @up_closed_sound. Qed.
Print Assumptions C11_call_paths_stay_in_closed_set.

Theorem C11_links_propagate_except_bad :
  forall l : site, In l link_sites -> ~ In (s_id l) bad_link_ids -> link_returns_error l.
Proof. exact @links_propagate_except_bad. Qed.
Print Assumptions C11_links_propagate_except_bad.

Theorem C11_bad_links_drop :
  forall id : string, In id bad_link_ids -> ~ link_returns_error (site_of id link_sites).
Proof. exact @bad_links_drop. Qed.
Print Assumptions C11_bad_links_drop.

Theorem C11_hypothesis_satisfiable :
  mpi2nc E_NO_SPACE <> NC_NOERR /\ mpi2nc E_IO <> NC_NOERR.
Proof. exact @mpi2nc_hypothesis_satisfiable. Qed.
Print Assumptions C11_hypothesis_satisfiable.

Theorem C11_on_path_inhabited :
  on_path link_sites "write_NC" (site_of "ncmpio_enddef.c:ncmpio__enddef:write_NC" link_sites) /\
         on_path link_sites "write_NC" (site_of "file.c:ncmpi_enddef:ncmpio_enddef" link_sites).
Proof. exact @on_path_inhabited. Qed.
Print Assumptions C11_on_path_inhabited.

Theorem no_silent_drop_move_file_block__MPI_File_read_at_all :
  no_silent_drop link_sites
           (site_of "ncmpio_enddef.c:move_file_block:MPI_File_read_at_all" io_sites).
Proof. exact @nsd_move_file_block__MPI_File_read_at_all. Qed.
Print Assumptions no_silent_drop_move_file_block__MPI_File_read_at_all.

Theorem no_silent_drop_move_file_block__MPI_File_write_at_all :
  no_silent_drop link_sites
           (site_of "ncmpio_enddef.c:move_file_block:MPI_File_write_at_all" io_sites).
Proof. exact @nsd_move_file_block__MPI_File_write_at_all. Qed.
Print Assumptions no_silent_drop_move_file_block__MPI_File_write_at_all.

Theorem no_silent_drop_move_file_block__MPI_File_write_at :
  no_silent_drop link_sites
           (site_of "ncmpio_enddef.c:move_file_block:MPI_File_write_at" io_sites).
Proof. exact @nsd_move_file_block__MPI_File_write_at. Qed.
Print Assumptions no_silent_drop_move_file_block__MPI_File_write_at.

Theorem no_silent_drop_write_NC__MPI_File_write_at_all_1 :
  no_silent_drop link_sites
           (site_of "ncmpio_enddef.c:write_NC:MPI_File_write_at_all#1" io_sites).
Proof. exact @nsd_write_NC__MPI_File_write_at_all_1. Qed.
Print Assumptions no_silent_drop_write_NC__MPI_File_write_at_all_1.

Theorem no_silent_drop_write_NC__MPI_File_write_at :
  no_silent_drop link_sites (site_of "ncmpio_enddef.c:write_NC:MPI_File_write_at" io_sites).
Proof. exact @nsd_write_NC__MPI_File_write_at. Qed.
Print Assumptions no_silent_drop_write_NC__MPI_File_write_at.

Theorem no_silent_drop_write_NC__MPI_File_write_at_all_2_refuted_and_partial :
  ~
         no_silent_drop link_sites
           (site_of "ncmpio_enddef.c:write_NC:MPI_File_write_at_all#2" io_sites) /\
         drops_classes (site_of "ncmpio_enddef.c:write_NC:MPI_File_write_at_all#2" io_sites)
           [E_BUFFER; E_COUNT; E_TYPE; E_TAG; E_COMM; E_RANK; E_REQUEST; E_ROOT; E_GROUP; E_OP;
            E_TOPOLOGY; E_DIMS; E_ARG; E_UNKNOWN; E_TRUNCATE; E_OTHER; E_INTERN; E_IN_STATUS;
            E_PENDING; E_ACCESS; E_AMODE; E_ASSERT; E_BAD_FILE; E_BASE; E_CONVERSION; E_DISP;
            E_DUP_DATAREP; E_FILE_EXISTS; E_FILE_IN_USE; E_FILE; E_INFO_KEY; E_INFO_NOKEY;
            E_INFO_VALUE; E_INFO; E_IO; E_KEYVAL; E_LOCKTYPE; E_NAME; E_NO_MEM; E_NOT_SAME;
            E_NO_SPACE; E_NO_SUCH_FILE; E_PORT; E_QUOTA; E_READ_ONLY; E_RMA_CONFLICT; E_RMA_SYNC;
            E_SERVICE; E_SIZE; E_SPAWN; E_UNSUPPORTED_DATAREP; E_UNSUPPORTED_OPERATION; E_WIN;
            E_RMA_RANGE; E_RMA_ATTACH; E_RMA_FLAVOR; E_RMA_SHARED; E_ANY_OTHER_CLASS] /\
         no_silent_drop_except link_sites
           (site_of "ncmpio_enddef.c:write_NC:MPI_File_write_at_all#2" io_sites)
           [E_BUFFER; E_COUNT; E_TYPE; E_TAG; E_COMM; E_RANK; E_REQUEST; E_ROOT; E_GROUP; E_OP;
            E_TOPOLOGY; E_DIMS; E_ARG; E_UNKNOWN; E_TRUNCATE; E_OTHER; E_INTERN; E_IN_STATUS;
            E_PENDING; E_ACCESS; E_AMODE; E_ASSERT; E_BAD_FILE; E_BASE; E_CONVERSION; E_DISP;
            E_DUP_DATAREP; E_FILE_EXISTS; E_FILE_IN_USE; E_FILE; E_INFO_KEY; E_INFO_NOKEY;
            E_INFO_VALUE; E_INFO; E_IO; E_KEYVAL; E_LOCKTYPE; E_NAME; E_NO_MEM; E_NOT_SAME;
            E_NO_SPACE; E_NO_SUCH_FILE; E_PORT; E_QUOTA; E_READ_ONLY; E_RMA_CONFLICT; E_RMA_SYNC;
            E_SERVICE; E_SIZE; E_SPAWN; E_UNSUPPORTED_DATAREP; E_UNSUPPORTED_OPERATION; E_WIN;
            E_RMA_RANGE; E_RMA_ATTACH; E_RMA_FLAVOR; E_RMA_SHARED; E_ANY_OTHER_CLASS] [].
Proof. exact @nsd_write_NC__MPI_File_write_at_all_2_refuted_and_partial. Qed.
Print Assumptions no_silent_drop_write_NC__MPI_File_write_at_all_2_refuted_and_partial.

Theorem no_silent_drop_ncmpio_read_write__MPI_File_read_at_all :
  no_silent_drop link_sites
           (site_of "ncmpio_file_io.c:ncmpio_read_write:MPI_File_read_at_all" io_sites).
Proof. exact @nsd_ncmpio_read_write__MPI_File_read_at_all. Qed.
Print Assumptions no_silent_drop_ncmpio_read_write__MPI_File_read_at_all.

Theorem no_silent_drop_ncmpio_read_write__MPI_File_read_at :
  no_silent_drop link_sites
           (site_of "ncmpio_file_io.c:ncmpio_read_write:MPI_File_read_at" io_sites).
Proof. exact @nsd_ncmpio_read_write__MPI_File_read_at. Qed.
Print Assumptions no_silent_drop_ncmpio_read_write__MPI_File_read_at.

Theorem no_silent_drop_ncmpio_read_write__MPI_File_write_at_all :
  no_silent_drop link_sites
           (site_of "ncmpio_file_io.c:ncmpio_read_write:MPI_File_write_at_all" io_sites).
Proof. exact @nsd_ncmpio_read_write__MPI_File_write_at_all. Qed.
Print Assumptions no_silent_drop_ncmpio_read_write__MPI_File_write_at_all.

Theorem no_silent_drop_ncmpio_read_write__MPI_File_write_at :
  no_silent_drop link_sites
           (site_of "ncmpio_file_io.c:ncmpio_read_write:MPI_File_write_at" io_sites).
Proof. exact @nsd_ncmpio_read_write__MPI_File_write_at. Qed.
Print Assumptions no_silent_drop_ncmpio_read_write__MPI_File_write_at.

Theorem no_silent_drop_fill_var_rec__MPI_File_write_at_all :
  no_silent_drop link_sites
           (site_of "ncmpio_fill.c:fill_var_rec:MPI_File_write_at_all" io_sites).
Proof. exact @nsd_fill_var_rec__MPI_File_write_at_all. Qed.
Print Assumptions no_silent_drop_fill_var_rec__MPI_File_write_at_all.

Theorem no_silent_drop_fill_var_rec__MPI_File_write_at :
  no_silent_drop link_sites (site_of "ncmpio_fill.c:fill_var_rec:MPI_File_write_at" io_sites).
Proof. exact @nsd_fill_var_rec__MPI_File_write_at. Qed.
Print Assumptions no_silent_drop_fill_var_rec__MPI_File_write_at.

Theorem no_silent_drop_fillerup_aggregate__MPI_File_write_at_all :
  no_silent_drop link_sites
           (site_of "ncmpio_fill.c:fillerup_aggregate:MPI_File_write_at_all" io_sites).
Proof. exact @nsd_fillerup_aggregate__MPI_File_write_at_all. Qed.
Print Assumptions no_silent_drop_fillerup_aggregate__MPI_File_write_at_all.

Theorem no_silent_drop_fillerup_aggregate__MPI_File_write_at :
  no_silent_drop link_sites
           (site_of "ncmpio_fill.c:fillerup_aggregate:MPI_File_write_at" io_sites).
Proof. exact @nsd_fillerup_aggregate__MPI_File_write_at. Qed.
Print Assumptions no_silent_drop_fillerup_aggregate__MPI_File_write_at.

Theorem no_silent_drop_hdr_fetch__MPI_File_read_at_all_1_refuted_and_partial :
  ~
         no_silent_drop link_sites
           (site_of "ncmpio_header_get.c:hdr_fetch:MPI_File_read_at_all#1" io_sites) /\
         no_silent_drop_except link_sites
           (site_of "ncmpio_header_get.c:hdr_fetch:MPI_File_read_at_all#1" io_sites) [] bad_link_ids.
Proof. exact @nsd_hdr_fetch__MPI_File_read_at_all_1_refuted_and_partial. Qed.
Print Assumptions no_silent_drop_hdr_fetch__MPI_File_read_at_all_1_refuted_and_partial.

Theorem no_silent_drop_hdr_fetch__MPI_File_read_at_refuted_and_partial :
  ~
         no_silent_drop link_sites
           (site_of "ncmpio_header_get.c:hdr_fetch:MPI_File_read_at" io_sites) /\
         no_silent_drop_except link_sites
           (site_of "ncmpio_header_get.c:hdr_fetch:MPI_File_read_at" io_sites) [] bad_link_ids.
Proof. exact @nsd_hdr_fetch__MPI_File_read_at_refuted_and_partial. Qed.
Print Assumptions no_silent_drop_hdr_fetch__MPI_File_read_at_refuted_and_partial.

Theorem no_silent_drop_hdr_fetch__MPI_File_read_at_all_2_refuted_and_partial :
  ~
         no_silent_drop link_sites
           (site_of "ncmpio_header_get.c:hdr_fetch:MPI_File_read_at_all#2" io_sites) /\
         drops_classes (site_of "ncmpio_header_get.c:hdr_fetch:MPI_File_read_at_all#2" io_sites)
           [E_BUFFER; E_COUNT; E_TYPE; E_TAG; E_COMM; E_RANK; E_REQUEST; E_ROOT; E_GROUP; E_OP;
            E_TOPOLOGY; E_DIMS; E_ARG; E_UNKNOWN; E_TRUNCATE; E_OTHER; E_INTERN; E_IN_STATUS;
            E_PENDING; E_ACCESS; E_AMODE; E_ASSERT; E_BAD_FILE; E_BASE; E_CONVERSION; E_DISP;
            E_DUP_DATAREP; E_FILE_EXISTS; E_FILE_IN_USE; E_FILE; E_INFO_KEY; E_INFO_NOKEY;
            E_INFO_VALUE; E_INFO; E_IO; E_KEYVAL; E_LOCKTYPE; E_NAME; E_NO_MEM; E_NOT_SAME;
            E_NO_SPACE; E_NO_SUCH_FILE; E_PORT; E_QUOTA; E_READ_ONLY; E_RMA_CONFLICT; E_RMA_SYNC;
            E_SERVICE; E_SIZE; E_SPAWN; E_UNSUPPORTED_DATAREP; E_UNSUPPORTED_OPERATION; E_WIN;
            E_RMA_RANGE; E_RMA_ATTACH; E_RMA_FLAVOR; E_RMA_SHARED; E_ANY_OTHER_CLASS] /\
         no_silent_drop_except link_sites
           (site_of "ncmpio_header_get.c:hdr_fetch:MPI_File_read_at_all#2" io_sites)
           [E_BUFFER; E_COUNT; E_TYPE; E_TAG; E_COMM; E_RANK; E_REQUEST; E_ROOT; E_GROUP; E_OP;
            E_TOPOLOGY; E_DIMS; E_ARG; E_UNKNOWN; E_TRUNCATE; E_OTHER; E_INTERN; E_IN_STATUS;
            E_PENDING; E_ACCESS; E_AMODE; E_ASSERT; E_BAD_FILE; E_BASE; E_CONVERSION; E_DISP;
            E_DUP_DATAREP; E_FILE_EXISTS; E_FILE_IN_USE; E_FILE; E_INFO_KEY; E_INFO_NOKEY;
            E_INFO_VALUE; E_INFO; E_IO; E_KEYVAL; E_LOCKTYPE; E_NAME; E_NO_MEM; E_NOT_SAME;
            E_NO_SPACE; E_NO_SUCH_FILE; E_PORT; E_QUOTA; E_READ_ONLY; E_RMA_CONFLICT; E_RMA_SYNC;
            E_SERVICE; E_SIZE; E_SPAWN; E_UNSUPPORTED_DATAREP; E_UNSUPPORTED_OPERATION; E_WIN;
            E_RMA_RANGE; E_RMA_ATTACH; E_RMA_FLAVOR; E_RMA_SHARED; E_ANY_OTHER_CLASS] bad_link_ids.
Proof. exact @nsd_hdr_fetch__MPI_File_read_at_all_2_refuted_and_partial. Qed.
Print Assumptions no_silent_drop_hdr_fetch__MPI_File_read_at_all_2_refuted_and_partial.

Theorem no_silent_drop_ncmpio_write_header__MPI_File_write_at_all_1 :
  no_silent_drop link_sites
           (site_of "ncmpio_header_put.c:ncmpio_write_header:MPI_File_write_at_all#1" io_sites).
Proof. exact @nsd_ncmpio_write_header__MPI_File_write_at_all_1. Qed.
Print Assumptions no_silent_drop_ncmpio_write_header__MPI_File_write_at_all_1.

Theorem no_silent_drop_ncmpio_write_header__MPI_File_write_at :
  no_silent_drop link_sites
           (site_of "ncmpio_header_put.c:ncmpio_write_header:MPI_File_write_at" io_sites).
Proof. exact @nsd_ncmpio_write_header__MPI_File_write_at. Qed.
Print Assumptions no_silent_drop_ncmpio_write_header__MPI_File_write_at.

Theorem no_silent_drop_ncmpio_write_header__MPI_File_write_at_all_2_refuted_and_partial :
  ~
         no_silent_drop link_sites
           (site_of "ncmpio_header_put.c:ncmpio_write_header:MPI_File_write_at_all#2" io_sites) /\
         drops_classes
           (site_of "ncmpio_header_put.c:ncmpio_write_header:MPI_File_write_at_all#2" io_sites)
           [E_BUFFER; E_COUNT; E_TYPE; E_TAG; E_COMM; E_RANK; E_REQUEST; E_ROOT; E_GROUP; E_OP;
            E_TOPOLOGY; E_DIMS; E_ARG; E_UNKNOWN; E_TRUNCATE; E_OTHER; E_INTERN; E_IN_STATUS;
            E_PENDING; E_ACCESS; E_AMODE; E_ASSERT; E_BAD_FILE; E_BASE; E_CONVERSION; E_DISP;
            E_DUP_DATAREP; E_FILE_EXISTS; E_FILE_IN_USE; E_FILE; E_INFO_KEY; E_INFO_NOKEY;
            E_INFO_VALUE; E_INFO; E_IO; E_KEYVAL; E_LOCKTYPE; E_NAME; E_NO_MEM; E_NOT_SAME;
            E_NO_SPACE; E_NO_SUCH_FILE; E_PORT; E_QUOTA; E_READ_ONLY; E_RMA_CONFLICT; E_RMA_SYNC;
            E_SERVICE; E_SIZE; E_SPAWN; E_UNSUPPORTED_DATAREP; E_UNSUPPORTED_OPERATION; E_WIN;
            E_RMA_RANGE; E_RMA_ATTACH; E_RMA_FLAVOR; E_RMA_SHARED; E_ANY_OTHER_CLASS] /\
         no_silent_drop_except link_sites
           (site_of "ncmpio_header_put.c:ncmpio_write_header:MPI_File_write_at_all#2" io_sites)
           [E_BUFFER; E_COUNT; E_TYPE; E_TAG; E_COMM; E_RANK; E_REQUEST; E_ROOT; E_GROUP; E_OP;
            E_TOPOLOGY; E_DIMS; E_ARG; E_UNKNOWN; E_TRUNCATE; E_OTHER; E_INTERN; E_IN_STATUS;
            E_PENDING; E_ACCESS; E_AMODE; E_ASSERT; E_BAD_FILE; E_BASE; E_CONVERSION; E_DISP;
            E_DUP_DATAREP; E_FILE_EXISTS; E_FILE_IN_USE; E_FILE; E_INFO_KEY; E_INFO_NOKEY;
            E_INFO_VALUE; E_INFO; E_IO; E_KEYVAL; E_LOCKTYPE; E_NAME; E_NO_MEM; E_NOT_SAME;
            E_NO_SPACE; E_NO_SUCH_FILE; E_PORT; E_QUOTA; E_READ_ONLY; E_RMA_CONFLICT; E_RMA_SYNC;
            E_SERVICE; E_SIZE; E_SPAWN; E_UNSUPPORTED_DATAREP; E_UNSUPPORTED_OPERATION; E_WIN;
            E_RMA_RANGE; E_RMA_ATTACH; E_RMA_FLAVOR; E_RMA_SHARED; E_ANY_OTHER_CLASS] [].
Proof. exact @nsd_ncmpio_write_header__MPI_File_write_at_all_2_refuted_and_partial. Qed.
Print Assumptions no_silent_drop_ncmpio_write_header__MPI_File_write_at_all_2_refuted_and_partial.

Theorem no_silent_drop_ncmpio_write_numrecs__MPI_File_write_at_all_1_refuted_and_partial :
  ~
         no_silent_drop link_sites
           (site_of "ncmpio_sync.c:ncmpio_write_numrecs:MPI_File_write_at_all#1" io_sites) /\
         drops_classes
           (site_of "ncmpio_sync.c:ncmpio_write_numrecs:MPI_File_write_at_all#1" io_sites)
           [E_BUFFER; E_COUNT; E_TYPE; E_TAG; E_COMM; E_RANK; E_REQUEST; E_ROOT; E_GROUP; E_OP;
            E_TOPOLOGY; E_DIMS; E_ARG; E_UNKNOWN; E_TRUNCATE; E_OTHER; E_INTERN; E_IN_STATUS;
            E_PENDING; E_ACCESS; E_AMODE; E_ASSERT; E_BAD_FILE; E_BASE; E_CONVERSION; E_DISP;
            E_DUP_DATAREP; E_FILE_EXISTS; E_FILE_IN_USE; E_FILE; E_INFO_KEY; E_INFO_NOKEY;
            E_INFO_VALUE; E_INFO; E_IO; E_KEYVAL; E_LOCKTYPE; E_NAME; E_NO_MEM; E_NOT_SAME;
            E_NO_SPACE; E_NO_SUCH_FILE; E_PORT; E_QUOTA; E_READ_ONLY; E_RMA_CONFLICT; E_RMA_SYNC;
            E_SERVICE; E_SIZE; E_SPAWN; E_UNSUPPORTED_DATAREP; E_UNSUPPORTED_OPERATION; E_WIN;
            E_RMA_RANGE; E_RMA_ATTACH; E_RMA_FLAVOR; E_RMA_SHARED; E_ANY_OTHER_CLASS] /\
         no_silent_drop_except link_sites
           (site_of "ncmpio_sync.c:ncmpio_write_numrecs:MPI_File_write_at_all#1" io_sites)
           [E_BUFFER; E_COUNT; E_TYPE; E_TAG; E_COMM; E_RANK; E_REQUEST; E_ROOT; E_GROUP; E_OP;
            E_TOPOLOGY; E_DIMS; E_ARG; E_UNKNOWN; E_TRUNCATE; E_OTHER; E_INTERN; E_IN_STATUS;
            E_PENDING; E_ACCESS; E_AMODE; E_ASSERT; E_BAD_FILE; E_BASE; E_CONVERSION; E_DISP;
            E_DUP_DATAREP; E_FILE_EXISTS; E_FILE_IN_USE; E_FILE; E_INFO_KEY; E_INFO_NOKEY;
            E_INFO_VALUE; E_INFO; E_IO; E_KEYVAL; E_LOCKTYPE; E_NAME; E_NO_MEM; E_NOT_SAME;
            E_NO_SPACE; E_NO_SUCH_FILE; E_PORT; E_QUOTA; E_READ_ONLY; E_RMA_CONFLICT; E_RMA_SYNC;
            E_SERVICE; E_SIZE; E_SPAWN; E_UNSUPPORTED_DATAREP; E_UNSUPPORTED_OPERATION; E_WIN;
            E_RMA_RANGE; E_RMA_ATTACH; E_RMA_FLAVOR; E_RMA_SHARED; E_ANY_OTHER_CLASS] [].
Proof. exact @nsd_ncmpio_write_numrecs__MPI_File_write_at_all_1_refuted_and_partial. Qed.
Print Assumptions no_silent_drop_ncmpio_write_numrecs__MPI_File_write_at_all_1_refuted_and_partial.

Theorem no_silent_drop_ncmpio_write_numrecs__MPI_File_write_at_all_2_refuted_and_partial :
  ~
         no_silent_drop link_sites
           (site_of "ncmpio_sync.c:ncmpio_write_numrecs:MPI_File_write_at_all#2" io_sites) /\
         drops_classes
           (site_of "ncmpio_sync.c:ncmpio_write_numrecs:MPI_File_write_at_all#2" io_sites)
           [E_ACCESS; E_AMODE; E_BAD_FILE; E_FILE_EXISTS; E_NOT_SAME; E_NO_SPACE; E_NO_SUCH_FILE;
            E_QUOTA; E_READ_ONLY] /\
         no_silent_drop_except link_sites
           (site_of "ncmpio_sync.c:ncmpio_write_numrecs:MPI_File_write_at_all#2" io_sites)
           [E_ACCESS; E_AMODE; E_BAD_FILE; E_FILE_EXISTS; E_NOT_SAME; E_NO_SPACE; E_NO_SUCH_FILE;
            E_QUOTA; E_READ_ONLY] [].
Proof. exact @nsd_ncmpio_write_numrecs__MPI_File_write_at_all_2_refuted_and_partial. Qed.
Print Assumptions no_silent_drop_ncmpio_write_numrecs__MPI_File_write_at_all_2_refuted_and_partial.

Theorem no_silent_drop_ncmpio_write_numrecs__MPI_File_write_at_refuted_and_partial :
  ~
         no_silent_drop link_sites
           (site_of "ncmpio_sync.c:ncmpio_write_numrecs:MPI_File_write_at" io_sites) /\
         drops_classes (site_of "ncmpio_sync.c:ncmpio_write_numrecs:MPI_File_write_at" io_sites)
           [E_ACCESS; E_AMODE; E_BAD_FILE; E_FILE_EXISTS; E_NOT_SAME; E_NO_SPACE; E_NO_SUCH_FILE;
            E_QUOTA; E_READ_ONLY] /\
         no_silent_drop_except link_sites
           (site_of "ncmpio_sync.c:ncmpio_write_numrecs:MPI_File_write_at" io_sites)
           [E_ACCESS; E_AMODE; E_BAD_FILE; E_FILE_EXISTS; E_NOT_SAME; E_NO_SPACE; E_NO_SUCH_FILE;
            E_QUOTA; E_READ_ONLY] [].
Proof. exact @nsd_ncmpio_write_numrecs__MPI_File_write_at_refuted_and_partial. Qed.
Print Assumptions no_silent_drop_ncmpio_write_numrecs__MPI_File_write_at_refuted_and_partial.

Theorem no_silent_drop_ncmpio_getput_zero_req__MPI_File_read_all :
  no_silent_drop link_sites
           (site_of "ncmpio_wait.c:ncmpio_getput_zero_req:MPI_File_read_all" io_sites).
Proof. exact @nsd_ncmpio_getput_zero_req__MPI_File_read_all. Qed.
Print Assumptions no_silent_drop_ncmpio_getput_zero_req__MPI_File_read_all.

Theorem no_silent_drop_ncmpio_getput_zero_req__MPI_File_read :
  no_silent_drop link_sites
           (site_of "ncmpio_wait.c:ncmpio_getput_zero_req:MPI_File_read" io_sites).
Proof. exact @nsd_ncmpio_getput_zero_req__MPI_File_read. Qed.
Print Assumptions no_silent_drop_ncmpio_getput_zero_req__MPI_File_read.

Theorem no_silent_drop_ncmpio_getput_zero_req__MPI_File_write_all :
  no_silent_drop link_sites
           (site_of "ncmpio_wait.c:ncmpio_getput_zero_req:MPI_File_write_all" io_sites).
Proof. exact @nsd_ncmpio_getput_zero_req__MPI_File_write_all. Qed.
Print Assumptions no_silent_drop_ncmpio_getput_zero_req__MPI_File_write_all.

Theorem no_silent_drop_ncmpio_getput_zero_req__MPI_File_write :
  no_silent_drop link_sites
           (site_of "ncmpio_wait.c:ncmpio_getput_zero_req:MPI_File_write" io_sites).
Proof. exact @nsd_ncmpio_getput_zero_req__MPI_File_write. Qed.
Print Assumptions no_silent_drop_ncmpio_getput_zero_req__MPI_File_write.

Theorem chains_reach_api :
  Forall (fun name : string => chain_reaches_api link_sites (chain_of name))
           ["enddef: header write"; "_enddef: header write"; "put (collective): numrecs";
            "sync_numrecs: numrecs"; "sync: numrecs"; "end_indep_data: numrecs";
            "close (independent mode): numrecs"; "wait_all: numrecs";
            "enddef after redef: move fixed"; "enddef after redef: move records";
            "enddef: fill new variables"; "fill_var_rec"; "fill_var_rec: numrecs"; "put (blocking)";
            "put (independent)"; "get (blocking)"; "get (independent)";
            "put, zero-length participation"; "get, zero-length participation"; "wait_all";
            "wait_all (one request per call)"; "wait (independent)";
            "wait_all, zero-length participation"; "open: header read";
            "put_att in data mode: header write"; "rename_var in data mode: header write"].
Proof. exact @chains_reach_api. Qed.
Print Assumptions chains_reach_api.

Theorem chains_refuted_and_partial :
  Forall
           (fun name : string =>
            ~ chain_reaches_api link_sites (chain_of name) /\
            chain_reaches_api_except link_sites (chain_of name) bad_link_ids)
           ["open: header read (variables)"].
Proof. exact @chains_refuted_and_partial. Qed.
Print Assumptions chains_refuted_and_partial.
