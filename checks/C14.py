"""C14 API mode state machine and error precedence.

PROVED (coq/Properties_C14.v, over arbitrary call sequences): on the model coq/Modes.v of the two flag words
(dispatcher pncp->flag, driver ncp->flags, ncp->old) every history stays inside 97 enumerated cores
(reachable_closed), each reached within 6 calls (reachable_within_k); exactly one of define / collective /
independent mode holds in BOTH layers (mode_unique, layers_agree); only create/open/enddef/_enddef/redef/
begin_indep/end_indep/close/abort change the mode bits (mode_changes_only_by, mode_transitions); a rejected
call changes nothing (rejected_no_effect); the return code is the first applicable entry of the documented
precedence list (error_is_first_applicable_partial/_current) and every permitted call succeeds
(permitted_succeeds); the order of the error tests of the C sources (translator tools/tr_modes.py ->
Gen_modes.v) is the order the model uses (source_order_matches_model).

TIE: exhaustive bounded correspondence through harness/pnc_impl: every sequence of mode-changing calls up to
depth k over a 14 letter alphabet, from created / opened-rw / opened-ro files with and without record
variables, each followed by every probe of every API family; after EVERY call the mode is re-probed (four
never-succeeding calls that read the dispatcher's and the driver's mode bits), the metadata is dumped and the
file bytes are snapshotted.  Compared: every return code with the extracted model (harness/c14_driver.ml) and
with the specification column; pending-request count and attached-buffer state; for rejected calls 'no
effect' on the implementation's own observations.  Coverage of (reachable core, call) pairs is tallied
against the proved enumeration.  1 rank, plus safe-mode and 2-rank samples."""
import os, sys, time, shutil, itertools, hashlib, glob, json
import concurrent.futures as cf
from pnc import common as C, scripts as S

LEVEL = 'proof'
ASSUMPTIONS = [
    'fault-free quantifier: driver parts doing I/O or allocation succeed (ncmpio__enddef, MPI_File_open in begin_indep_data, numrecs sync, dup_NC)',
    'one handle per file in the model (PNC_check_id is EBADID for a closed handle, OK otherwise; the id table is C17)',
    'all ranks issue the same call (cross-rank consistency checks of safe mode always agree)',
    'arguments other than those named by the model calls are valid; request counters abstract the request queues',
    'MPI-IO refuses a write through an MPI_MODE_RDONLY handle and ncmpii_error_mpi2nc maps that to NC_EPERM',
    'modelled, not verified: OpenMPI/ROMIO, POSIX file system, C compiler',
]
CHECKER_CMD = ('tools/tr_consts.py + tools/tr_modes.py (regenerate Gen_consts.v, Gen_modes.v) && coq_makefile -f _CoqProject -o Makefile && '
               'make -k -j16 Properties_C14.vo && coqc -Q . Pnc Properties_C14.v (Print Assumptions)')

# ------------------------------------------------------------------ call codes (= Modes.call_code)
def CREATE(safe): return 0 + safe
def OPEN(rw, rec, safe): return 2 + 4 * rw + 2 * rec + safe
ENDDEF, ENDDEFX0, ENDDEFXN, REDEF, BEGIN, END, CLOSE, ABORT, SYNC, SYNCNR, FLUSH = range(10, 21)
def SETFILL(f): return 21 + f
DEFDIM = 23
def DEFVAR(rec): return 24 + rec
DEFVARFILL = 26
PA_NEW, PA_SAME, PA_GROW, PA_BADVAR, PA_BADTYPE = 27, 28, 29, 30, 31
def DELATT(bv): return 32 + bv
GETATT, RENVAR, RENDIM = 34, 35, 36
def PUT(cl, bv): return 37 + 2 * cl + bv
def GET(cl, bv): return 41 + 2 * cl + bv
def IPUT(bv): return 45 + bv
IGET, BPUT = 47, 48
def WAIT(cl, al): return 49 + 2 * cl + al
CANCEL, ATTACH, DETACH, INQBUF, FVR, INQ = 53, 54, 55, 56, 57, 58
NAMES = {0: 'create', 1: 'create(safe)', 10: 'enddef', 11: '_enddef(0,0,0,0)', 12: '_enddef(neg)', 13: 'redef',
         14: 'begin_indep_data', 15: 'end_indep_data', 16: 'close', 17: 'abort', 18: 'sync', 19: 'sync_numrecs',
         20: 'flush', 21: 'set_fill(NOFILL)', 22: 'set_fill(FILL)', 23: 'def_dim', 24: 'def_var(fixed)',
         25: 'def_var(record)', 26: 'def_var_fill', 27: 'put_att(new)', 28: 'put_att(same size)',
         29: 'put_att(larger)', 30: 'put_att(bad varid)', 31: 'put_att(new,bad type)', 32: 'del_att(missing)',
         33: 'del_att(bad varid)', 34: 'get_att', 35: 'rename_var(not longer)', 36: 'rename_dim(longer)',
         37: 'put(indep)', 38: 'put(indep,bad varid)', 39: 'put_all', 40: 'put_all(bad varid)',
         41: 'get(indep)', 42: 'get(indep,bad varid)', 43: 'get_all', 44: 'get_all(bad varid)',
         45: 'iput', 46: 'iput(bad varid)', 47: 'iget', 48: 'bput', 49: 'wait(0 reqs)', 50: 'wait(ALL)',
         51: 'wait_all(0 reqs)', 52: 'wait_all(ALL)', 53: 'cancel(ALL)', 54: 'buffer_attach', 55: 'buffer_detach',
         56: 'inq_buffer_usage', 57: 'fill_var_rec', 58: 'inq'}
for _rw in (0, 1):
    for _rec in (0, 1):
        for _s in (0, 1):
            NAMES[OPEN(_rw, _rec, _s)] = 'open(%s,%s%s)' % ('rw' if _rw else 'ro', 'rec' if _rec else 'norec', ',safe' if _s else '')
ALL_CODES = sorted(NAMES)

NONTERM = [ENDDEF, ENDDEFX0, ENDDEFXN, REDEF, BEGIN, END, SYNC, SYNCNR, FLUSH, SETFILL(0), SETFILL(1), DEFVAR(1)]
TERM = [CLOSE, ABORT]
ALPHABET = NONTERM + TERM
# probes, ordered so that the attached buffer and the request queues go through their states
PROBES = [INQ, GETATT, DEFDIM, DEFVAR(0), DEFVARFILL, PA_NEW, PA_SAME, PA_GROW, PA_BADVAR, PA_BADTYPE, DELATT(0), DELATT(1),
          RENVAR, RENDIM, PUT(1, 0), PUT(1, 1), PUT(0, 0), PUT(0, 1), GET(1, 0), GET(1, 1), GET(0, 0), GET(0, 1),
          INQBUF, DETACH, BPUT, ATTACH, ATTACH, BPUT, DETACH, INQBUF, WAIT(1, 1), WAIT(0, 1), DETACH,
          IPUT(0), IPUT(1), IGET, WAIT(1, 0), WAIT(0, 0), CANCEL, IPUT(0), IGET, WAIT(0, 1), WAIT(1, 1), FVR,
          ATTACH, BPUT]
# the mode re-probe: never succeed, never change anything; read dispatcher bits (get) and driver bits (wait 0)
OBS = [GET(1, 1), GET(0, 1), WAIT(1, 0), WAIT(0, 0), DELATT(0), INQBUF, INQ]
E = dict(NOERR=0, EBADID=-33, EPERM=-37, ENOTINDEFINE=-38, EINDEFINE=-39, ENOTVAR=-49, ENOTATT=-43,
         ENOTINDEP=-202, EINDEP=-203, ENULLABUF=-217)


def hx(s):
    return s.encode().hex()


# ------------------------------------------------------------------ abstract histories
class Hist:
    """codes: list of call codes from the closed state; kinds: parallel list 'setup'|'seq'|'probe'|'obs'|'end'"""
    __slots__ = ('codes', 'kinds', 'tag', 'np', 'fam')
    def __init__(self, tag, fam, np_=1):
        self.codes = []; self.kinds = []; self.tag = tag; self.np = np_; self.fam = fam
    def add(self, code, kind, obs=True):
        self.codes.append(code); self.kinds.append(kind)
        if obs:
            for o in OBS:
                self.codes.append(o); self.kinds.append('obs')


def setup_created(h, rec, safe):
    h.add(CREATE(safe), 'setup')
    for c in (DEFDIM, DEFDIM, DEFVAR(0), PA_NEW, PA_NEW):
        h.add(c, 'setup', obs=False)
    if rec:
        h.add(DEFVAR(1), 'setup', obs=False)


def start(h, st, rec, safe):
    """st: 'created' | 'rw' | 'ro'"""
    if st == 'created':
        setup_created(h, rec, safe)
    else:
        setup_created(h, rec, safe)
        h.add(ENDDEF, 'setup', obs=False)
        h.add(CLOSE, 'setup', obs=False)
        h.add(OPEN(1 if st == 'rw' else 0, rec, safe), 'setup')


def finish(h, terminal, rot, closed_probes):
    """probe block (rotated), other-handle probes, final close, EBADID probes on the closed handle"""
    if not terminal:
        n = len(PROBES)
        for i in range(n):
            h.add(PROBES[(i + rot) % n], 'probe')
        safe = 0
        h.add(CREATE(safe), 'probe')            # another file gets another handle: this one is untouched
        h.add(OPEN(rot & 1, (rot >> 1) & 1, safe), 'probe')
        h.add(CLOSE, 'end', obs=False)
    for c in closed_probes:
        h.add(c, 'end', obs=False)


CLOSED_POOL = [c for c in sorted(NAMES) if c >= 10]
def closed_sample(i):
    return [CLOSED_POOL[(i * 5 + j * 11) % len(CLOSED_POOL)] for j in range(3)]


def enum_descs(depth, starts, safe, fam, np_=1):
    """compact descriptors of the enumerated histories: (fam, start, rec, safe, seq, terminal, idx, np)"""
    idx = 0
    for st, rec in starts:
        for d in range(0, depth + 1):
            for seq in itertools.product(NONTERM, repeat=d):
                yield (fam, st, rec, safe, seq, None, idx, np_)
                idx += 1
                if d < depth:
                    for t in TERM:
                        yield (fam, st, rec, safe, seq, t, idx, np_)
                        idx += 1


def cov_descs(reach):
    for sig, path in reach:
        for c in ALL_CODES:
            yield ('cov', tuple(path), c, 1)


def desc_tag(desc):
    if desc[0] == 'cov':
        return 'cov-%s-%d' % ('.'.join(map(str, desc[1])) or 'closed', desc[2])
    fam, st, rec, safe, seq, term, idx, np_ = desc
    return '%s-%s%s-%s%s' % (fam, st, 'R' if rec else 'N', '.'.join(map(str, seq)) or 'e', ('.%d' % term) if term else '')


def build(desc):
    """descriptor -> Hist"""
    if desc[0] == 'cov':
        _, path, c, np_ = desc
        h = Hist(desc_tag(desc), 'cov', np_)
        if not path:
            h.add(c, 'probe', obs=False)
            if c < 10:
                h.add(CLOSE, 'end', obs=False)
            return h
        first = path[0]
        if first < 2:
            setup_created(h, 0, first & 1)
        else:
            rw, rec, safe = ((first - 2) >> 2) & 1, ((first - 2) >> 1) & 1, (first - 2) & 1
            setup_created(h, rec, safe)
            h.add(ENDDEF, 'setup', obs=False); h.add(CLOSE, 'setup', obs=False)
            h.add(first, 'setup')
        for p in path[1:]:
            h.add(p, 'seq')
        h.add(c, 'probe')
        if c not in (CLOSE, ABORT):
            h.add(CLOSE, 'end', obs=False)
        return h
    fam, st, rec, safe, seq, term, idx, np_ = desc
    h = Hist(desc_tag(desc), fam, np_)
    start(h, st, rec, safe)
    for c in seq:
        h.add(c, 'seq')
    if term:
        h.add(term, 'seq', obs=False)
        finish(h, True, 0, closed_sample(idx))
    else:
        finish(h, False, idx * 7, closed_sample(idx))
    return h


# ------------------------------------------------------------------ rendering to the script language
class Render:
    """turns the abstract calls of one history into pnc_impl lines, using the model's predictions only to
    keep track of ids and names (a wrong prediction shows up as a disagreement anyway)"""
    def __init__(self, who='*'):
        self.who = who
        self.ndims = 0; self.nvars = 0; self.recvid = None
        self.k = 0              # fresh-name counter
        self.rendim = 0; self.grow = 0; self.slot = 0
        self.open = False
    def fresh(self, p):
        self.k += 1
        return hx('%s%03d' % (p, self.k % 1000))
    def lines(self, code, pred_rc):
        """-> (list of script lines, index of the line whose rc is the call's rc)"""
        w = self.who
        ok = (pred_rc == 0)
        if code < 2:
            if self.open:
                return ['env PNETCDF_SAFE_MODE=%d' % (code & 1), '%s create 3 1 1' % w, '%s close 3' % w], 1
            self.open = True
            self.ndims = 0; self.nvars = 0; self.recvid = None
            return ['env PNETCDF_SAFE_MODE=%d' % (code & 1), '%s create 0 1 1' % w], 1
        if code < 10:
            rw, rec, safe = ((code - 2) >> 2) & 1, ((code - 2) >> 1) & 1, (code - 2) & 1
            if self.open:
                return ['env PNETCDF_SAFE_MODE=%d' % safe, '%s open %d %d' % (w, 2 if rec else 1, rw), '%s close %d' % (w, 2 if rec else 1)], 1
            self.open = True
            return ['env PNETCDF_SAFE_MODE=%d' % safe, '%s open 0 %d' % (w, rw)], 1
        simple = {ENDDEF: 'enddef 0', ENDDEFX0: '_enddef 0 0 0 0 0', ENDDEFXN: '_enddef 0 0 -1 0 0', REDEF: 'redef 0',
                  BEGIN: 'begin_indep 0', END: 'end_indep 0', SYNC: 'sync 0', SYNCNR: 'sync_numrecs 0', FLUSH: 'flush 0',
                  21: 'set_fill 0 1', 22: 'set_fill 0 0', GETATT: 'get_att 0 -1 ' + hx('a001'),
                  CANCEL: 'cancel 0 -1', ATTACH: 'attach 0 65536', DETACH: 'detach 0', INQBUF: 'inq_buffer 0', INQ: 'inq 0',
                  WAIT(0, 0): 'wait 0 i 0', WAIT(0, 1): 'wait 0 i -1', WAIT(1, 0): 'wait 0 c 0', WAIT(1, 1): 'wait 0 c -1',
                  DELATT(0): 'del_att 0 -1 ' + hx('zz'), DELATT(1): 'del_att 0 99 ' + hx('zz'),
                  PA_SAME: 'put_att 0 -1 %s 4 1 9' % hx('a001'), PA_BADVAR: 'put_att 0 99 %s 4 1 5' % hx('a001')}
        if code in (CLOSE, ABORT):
            self.open = False
            return ['%s %s 0' % (w, 'close' if code == CLOSE else 'abort')], 0
        if code in simple:
            return ['%s %s' % (w, simple[code])], 0
        if code == DEFDIM:
            if self.ndims == 0:
                l = 'def_dim 0 %s -1' % hx('t')
            elif self.ndims == 1:
                l = 'def_dim 0 %s 4' % hx('x')
            else:
                l = 'def_dim 0 %s 3' % self.fresh('d')
            if ok: self.ndims += 1
            return ['%s %s' % (w, l)], 0
        if code == DEFVAR(0):
            l = 'def_var 0 %s 4 1 1' % (hx('vfix') if self.nvars == 0 else self.fresh('f'))
            if ok: self.nvars += 1
            return ['%s %s' % (w, l)], 0
        if code == DEFVAR(1):
            ls = ['%s def_var 0 %s 4 2 0 1' % (w, self.fresh('r'))]
            if ok:
                ls.append('%s def_var_fill 0 %d 0 1 7' % (w, self.nvars))
                if self.recvid is None:
                    self.recvid = self.nvars
                self.nvars += 1
            return ls, 0
        if code == DEFVARFILL:
            return ['%s def_var_fill 0 0 0 0 0' % w], 0
        if code == PA_NEW:
            self.k += 1
            return ['%s put_att 0 -1 %s 4 1 5' % (w, hx('a%03d' % self.k))], 0     # first two: a001 (same-size target), a002 (grow target)
        if code == PA_GROW:
            self.grow += 1
            n = 1 + self.grow
            return ['%s put_att 0 -1 %s 4 %d %s' % (w, hx('a002'), n, ' '.join(['3'] * n))], 0
        if code == PA_BADTYPE:
            return ['%s put_att 0 -1 %s 99 1 5' % (w, self.fresh('b'))], 0
        if code == RENVAR:
            return ['%s rename_var 0 0 %s' % (w, self.fresh('v'))], 0
        if code == RENDIM:
            self.rendim += 1
            return ['%s rename_dim 0 1 %s' % (w, hx('x' + 'y' * self.rendim))], 0
        if 37 <= code <= 40:
            cl, bv = (code - 37) >> 1, (code - 37) & 1
            return ['%s put 0 %s %d vara t4 c 1 0 2 pat %d' % (w, 'c' if cl else 'i', 99 if bv else 0, self.k % 50)], 0
        if 41 <= code <= 44:
            cl, bv = (code - 41) >> 1, (code - 41) & 1
            return ['%s get 0 %s %d vara t4 c 1 0 2' % (w, 'c' if cl else 'i', 99 if bv else 0)], 0
        if code in (45, 46, 47, 48):
            self.slot = (self.slot + 1) % 64
            op = {45: 'iput', 46: 'iput', 47: 'iget', 48: 'bput'}[code]
            pat = '' if code == 47 else ' pat %d' % (self.slot)
            return ['%s %s 0 %d %d vara t4 c 1 0 2%s' % (w, op, self.slot, 99 if code == 46 else 0, pat)], 0
        if code == FVR:
            return ['%s fill_var_rec 0 %d 0' % (w, self.recvid if self.recvid is not None else 0)], 0
        raise ValueError(code)


def parse_model(line):
    out = []
    for t in line.split():
        if t == '?':
            out.append(None)
        else:
            p = t.split(':')
            out.append((int(p[0]), int(p[1]), ':'.join(p[2:5]), int(p[5]), int(p[6])))
    return out


# ------------------------------------------------------------------ one batch = one script = one process
PRELUDE = ['env PNETCDF_SAFE_MODE=0',
           '* create 1 1 1', '* def_dim 1 %s 2' % hx('x'), '* def_var 1 %s 4 1 0' % hx('v'), '* close 1',
           '* create 2 1 1', '* def_dim 2 %s -1' % hx('t'), '* def_var 2 %s 4 1 0' % hx('r'), '* close 2']
LEGAL_MODE_SIGS = (['-39'] * 4,                       # define mode: both layers say NC_EINDEFINE
                   ['-49', '-202', '0', '-202'],       # collective data mode
                   ['-203', '-49', '-203', '0'],       # independent data mode
                   ['-33'] * 4)                        # closed


def render_hist(h, pred, L, where, extra, hi, want_snap=True, upto=None):
    r = Render()
    for ci, code in enumerate(h.codes):
        if upto is not None and ci > upto and h.kinds[ci] != 'obs':
            break
        p = pred[ci]
        ls, k = r.lines(code, p[0] if p else -1)
        for j, l in enumerate(ls):
            L.append(l)
            if j == k:
                where[len(L)] = (hi, ci)
        if h.kinds[ci] == 'obs' and (ci + 1 == len(h.codes) or h.kinds[ci + 1] != 'obs'):
            L.append('* inq_nreqs 0'); a = len(L)
            b = 0
            if want_snap:
                L.append('* snapshot 0'); b = len(L)
                if h.np > 1:
                    # the snapshot is barrier-then-read on rank 0: keep the other ranks from running ahead into the
                    # next (possibly writing) call while rank 0 still reads
                    L.append('* barrier')
            extra[(hi, ci)] = (a, b)


def model_predict(model, hists):
    rc, mout = C.sh([model], inp=('\n'.join(' '.join(map(str, h.codes)) for h in hists) + '\n').encode(), timeout=900)
    mlines = mout.strip('\n').split('\n')
    if rc != 0 or len(mlines) != len(hists):
        return None, mout[-500:]
    return [parse_model(l) for l in mlines], ''


def run_batch(args):
    """worker: (batch index, descriptors, impl exe, model exe, workdir) -> summary dict"""
    bi, descs, impl, model, wd = args
    d = os.path.join(wd, 'b%d' % bi)
    os.makedirs(d, exist_ok=True)
    hists = [build(x) for x in descs]
    np_ = hists[0].np
    res = dict(batch=bi, nh=len(hists), ncalls=0, nrej=0, nacc=0, mism=[], spec=[], effect=[], modefail=[], crash=None,
               cover=set(), aux_mism=[], by_kind={}, by_rc={}, script_lines=0, nobs=0)
    preds, err = model_predict(model, hists)
    if preds is None:
        res['crash'] = dict(what='model driver failed', detail=err, desc=descs[0])
        return res
    L = ['nprocs %d' % np_] + PRELUDE
    prelude = len(L)
    where = {}           # lineno -> (hist index, call index)
    extra = {}           # (hi, ci of the last obs call of a group) -> (inq_nreqs lineno, snapshot lineno)
    for hi, h in enumerate(hists):
        L.append('# ' + h.tag)
        render_hist(h, preds[hi], L, where, extra, hi)
    res['script_lines'] = len(L)
    sp = os.path.join(d, 'script.txt')
    open(sp, 'w').write('\n'.join(L) + '\n')
    t0 = time.time()
    if np_ == 1:
        env = dict(os.environ); env.update(PNC_DIR=d, PNC_OUT=os.path.join(d, 'out'))
        rc, out = C.sh([impl, sp], timeout=1200, env=env, cwd=d)
    else:
        rc, out = C.mpirun(np_, impl, [sp], env=dict(PNC_DIR=d, PNC_OUT=os.path.join(d, 'out')), timeout=1200, cwd=d)
    res['impl_s'] = time.time() - t0
    logs = []
    for rk in range(np_):
        lg = {}
        try:
            with open(os.path.join(d, 'out.%d' % rk), errors='replace') as f:
                for line in f:
                    p = line.rstrip('\n').split(' ', 4)
                    if len(p) >= 4:
                        try:
                            lg[int(p[0])] = (p[2], p[3], p[4] if len(p) > 4 else '')
                        except ValueError:
                            pass
        except OSError:
            pass
        logs.append(lg)
    if rc != 0:
        last = max((max(lg) if lg else 0) for lg in logs)      # last completed line; the culprit is the next executed one
        cand = [ln for ln in where if ln > last]
        ln = min(cand) if cand else last
        hi, ci = where.get(ln, (None, None))
        res['crash'] = dict(what='hang' if rc == -9 else 'crash', rc=rc, line=ln, script_line=L[ln - 1] if 0 < ln <= len(L) else '',
                            desc=descs[hi] if hi is not None else None, call=ci,
                            code=hists[hi].codes[ci] if hi is not None else None, detail=out[-600:])
    per = {}
    for ln, (hi, ci) in where.items():
        per.setdefault(hi, []).append((ci, ln))
    for hi in per:
        per[hi].sort()
    for rk in range(np_):
        lg = logs[rk]
        for hi, lst in per.items():
            h = hists[hi]; pred = preds[hi]; kinds = h.kinds; codes = h.codes; desc = descs[hi]
            last_group = None    # observation signature of the latest group, None when a call without group came after it
            cand = None          # (ci, code, impl rc, core before, reference group) : call waiting for the group after it
            cur = []
            sig_before = '-1:-1:-1'
            for ci, ln in lst:
                e = lg.get(ln)
                if e is None:
                    break        # crash/hang cut the log
                op, rcs, rest = e
                try:
                    irc = int(rcs)
                except ValueError:
                    break
                p = pred[ci]
                code = codes[ci]
                isobs = kinds[ci] == 'obs'
                if not isobs:
                    res['ncalls'] += 1
                    res['by_kind'][kinds[ci]] = res['by_kind'].get(kinds[ci], 0) + 1
                    if irc == 0: res['nacc'] += 1
                    else: res['nrej'] += 1
                    res['by_rc'][irc] = res['by_rc'].get(irc, 0) + 1
                    cand = (ci, code, irc, sig_before, last_group)
                    last_group = None
                else:
                    res['nobs'] += 1
                if rk == 0:
                    res['cover'].add((sig_before, code))
                if irc != p[0]:
                    res['mism'].append(dict(desc=desc, call=ci, code=code, kind=kinds[ci], impl=irc, model=p[0], spec=p[1], rank=rk, sig=sig_before))
                if irc != p[1]:
                    res['spec'].append(dict(desc=desc, call=ci, code=code, impl=irc, spec=p[1], model=p[0], rank=rk, sig=sig_before))
                if isobs:
                    # wait lines also dump the driver's own request-slot buffers (first dump hex, later `same`;
                    # a rejected post leaves a live slot in the DRIVER): not library state, keep the rc only
                    cur.append('%s %s %s' % (op, rcs, '' if op == 'wait' else rest))
                    if (hi, ci) in extra:
                        a, b = extra[(hi, ci)]
                        ea = lg.get(a); eb = lg.get(b) if b else None
                        if ea is not None and ea[1] == '0' and ea[2].strip() != str(p[3]):
                            res['aux_mism'].append(dict(desc=desc, call=ci, impl_nreqs=ea[2].strip(), model_nreqs=p[3], rank=rk))
                        sigstr = '\n'.join(cur) + '\nNREQ ' + (' '.join(ea[1:]) if ea else '?') + '\nSNAP ' + (' '.join(eb[1:]) if eb else '-')
                        m4 = [x.split(' ')[1] for x in cur[:4]]
                        if m4 not in LEGAL_MODE_SIGS:
                            res['modefail'].append(dict(desc=desc, call=ci, obs=m4, rank=rk))
                        if cand is not None and cand[4] is not None and cand[2] != 0 and cand[1] not in (CLOSE, ABORT) and cand[4] != sigstr:
                            res['effect'].append(dict(desc=desc, call=cand[0], code=cand[1], impl=cand[2], rank=rk, sig=cand[3],
                                                      before=cand[4], after=sigstr))
                        last_group = sigstr; cur = []; cand = None
                sig_before = p[2]
    if not os.environ.get('C14_KEEP'):
        shutil.rmtree(d, ignore_errors=True)
    res['cover'] = list(res['cover'])
    for k in ('mism', 'spec', 'effect', 'modefail', 'aux_mism'):
        res['n_' + k] = len(res[k])
        if k != 'spec':
            res[k] = res[k][:(3 if k == 'effect' else 40)]
    # keep the specification deviations compact: one representative (shortest) per key and state, plus counts
    comp = {}
    for f in res['spec']:
        kk = (spec_key(f), f['sig'])
        if kk not in comp or f['call'] < comp[kk][0]['call']:
            comp[kk] = (f, comp[kk][1] + 1 if kk in comp else 1)
        else:
            comp[kk] = (comp[kk][0], comp[kk][1] + 1)
    res['spec'] = [dict(f, count=n) for f, n in comp.values()]
    return res


def history_script(desc, model, upto=None):
    """stand-alone script of one history, cut after call `upto` and its re-probe (for replay files)"""
    h = build(desc)
    preds, err = model_predict(model, [h])
    L = ['nprocs %d' % h.np] + PRELUDE
    where, extra = {}, {}
    L.append('# ' + h.tag)
    render_hist(h, preds[0], L, where, extra, 0, upto=upto)
    if not L[-1].split()[1:2] in (['close'], ['abort']):
        L.append('* close 0')
    ann = {}
    for ln, (_, ci) in where.items():
        if h.kinds[ci] != 'obs':
            ann[ln] = dict(call=NAMES.get(h.codes[ci], str(h.codes[ci])), model_rc=preds[0][ci][0], spec_rc=preds[0][ci][1])
    return '\n'.join(L) + '\n', ann


# ------------------------------------------------------------------ build of the extracted model
def modes_exe():
    srcs = [os.path.join(C.COQ, f) for f in ('Gen_consts.v', 'Gen_modes.v', 'Modes.v', 'Extract_Modes.v')] + \
           [os.path.join(C.VERIF, 'harness', 'c14_driver.ml')]
    h = hashlib.sha1()
    for s in srcs:
        h.update(open(s, 'rb').read())
    exe = os.path.join(C.BUILD, 'c14_model-' + h.hexdigest()[:12])
    if os.path.isfile(exe):
        return exe
    ok, log = C.coq_make(['Modes.vo'])
    if not ok:
        raise C.BuildFailure('Modes.vo build failed:\n' + log[-3000:])
    with C.Lock('ocaml-c14'):
        if os.path.isfile(exe):
            return exe
        for old in glob.glob(os.path.join(C.BUILD, 'c14_model-*')):
            os.remove(old)
        d = C.scratch('c14ml.')
        shutil.copy(os.path.join(C.COQ, 'Extract_Modes.v'), d)
        shutil.copy(os.path.join(C.VERIF, 'harness', 'c14_driver.ml'), d)
        rc, out = C.sh(['coqc', '-Q', C.COQ, 'Pnc', '-w', '-all', 'Extract_Modes.v'], cwd=d, timeout=600)
        if rc != 0 or not os.path.exists(os.path.join(d, 'pnc_modes.ml')):
            raise C.BuildFailure('extraction of Modes.v failed:\n' + out[-3000:])
        rc, out = C.sh('ocamlfind ocamlopt -w -a pnc_modes.mli pnc_modes.ml c14_driver.ml -o c14_model', cwd=d, timeout=600)
        if not os.path.isfile(os.path.join(d, 'c14_model')):
            raise C.BuildFailure('ocaml build of the C14 model failed:\n' + out[-3000:])
        shutil.move(os.path.join(d, 'c14_model'), exe)
    return exe


# ------------------------------------------------------------------ verdict keys
def spec_key(f):
    code = f['code']
    if code == FVR:
        return 'fill_var_rec:sanity-error-not-returned'
    return 'precedence:%s:impl=%d:spec=%d' % (NAMES.get(code, str(code)).split('(')[0], f['impl'], f['spec'])


def run(ctx):
    lib = C.libdir()
    impl = S.impl_exe(lib)
    pr = C.prove(ctx.pid, gens=('consts', 'modes'), lib=lib)
    proof_ok = ctx.add_proof(pr, CHECKER_CMD)
    ctx.cov['trusted_base'] = list(C.TRUSTED_COMMON) + [
        'translator tools/tr_modes.py (flag bits, flag updates, order of error tests, build switches, defect switches)',
        'harness/c14_driver.ml (decimal I/O around the extracted Modes.run_codes) and the rendering of abstract calls to script lines in checks/C14.py',
        'harness/pnc_impl.c (script driver) linked with libpnetcdf.a of the current tree']
    model = modes_exe()
    wd = C.scratch('c14.')
    thorough = ctx.tier == 'thorough'
    # ---- the model's own enumerations
    rc, out = C.sh([model, 'calls'], timeout=60)
    mcodes = sorted(int(x) for x in out.split())
    if mcodes != ALL_CODES:
        ctx.violation('corr_C14_codes: call codes of Modes.call_code and checks/C14.py differ', dict(model=mcodes, check=ALL_CODES), no_input=True)
        return
    rc, out = C.sh([model, 'reach'], timeout=120)
    reach = []
    for l in out.strip().split('\n'):
        a, b = l.split('|')
        reach.append((a.strip(), [int(x) for x in b.split()]))
    # ---- histories
    starts = [(s, r) for s in ('created', 'rw', 'ro') for r in (1, 0)]
    depth = 4 if thorough else 3
    # full depth from the starts with a record variable, one less from those without (they differ only in sync_numrecs / fill_var_rec)
    fams = [('enum', list(enum_descs(depth, [x for x in starts if x[1]], 0, 'enum')) +
                     list(enum_descs(depth - 1, [x for x in starts if not x[1]], 0, 'enum')), 1),
            ('safe', list(enum_descs(3 if thorough else 2, starts, 1, 'safe')), 1),
            ('cov', list(cov_descs(reach)), 1)]
    two = list(enum_descs(2, starts, 0, 'np2', 2))
    stride = 7 if thorough else 45
    two = [x for i, x in enumerate(two) if i % stride == (ctx.seed % stride)]
    fams.append(('np2', two, 2))
    batches = []
    for fam, ds, np_ in fams:
        per = 400 if fam == 'cov' else (8 if np_ == 2 else 60)
        for i in range(0, len(ds), per):
            batches.append((len(batches), ds[i:i + per], impl, model, wd))
    ctx.cov['rule'] = ('histories = start (created | opened rw | opened ro, with/without record variable; schema set-up spliced in) + every '
                       'sequence of <= %d letters (one less for the starts without record variable) of the %d-letter alphabet of mode-changing / core-changing calls (close and abort terminal) + '
                       'all %d probes (rotated order) + other-handle create/open + close + calls on the closed id; after every call the mode '
                       're-probe, inq dump, inq_nreqs and file snapshot; family cov = witness path of every proved-reachable core x every call; '
                       'family safe = PNETCDF_SAFE_MODE=1; family np2 = 2 ranks. A case = one history; non-trivial = it contains a rejected call '
                       '(all do)') % (depth, len(ALPHABET), len(PROBES))
    tot = dict(ncalls=0, nrej=0, nacc=0, nh=0, lines=0, nobs=0)
    nmis = dict(mism=0, spec=0, effect=0, modefail=0, aux_mism=0)
    mism, spec, effect, modefail, aux_mism, crashes = [], [], [], [], [], []
    cover = set()
    by_rc, by_kind, fam_count = {}, {}, {}
    t0 = time.time()
    with cf.ProcessPoolExecutor(max_workers=8) as ex:
        for r in ex.map(run_batch, batches, chunksize=1):
            for k in tot:
                tot[k] += r.get({'lines': 'script_lines'}.get(k, k), 0)
            for k in nmis:
                nmis[k] += r.get('n_' + k, 0)
            mism += r['mism']; spec += r['spec']; effect += r['effect']; modefail += r['modefail']; aux_mism += r['aux_mism']
            if r['crash']:
                crashes.append(r['crash'])
            cover.update(tuple(x) for x in r['cover'])
            for k, v in r['by_rc'].items(): by_rc[k] = by_rc.get(k, 0) + v
            for k, v in r['by_kind'].items(): by_kind[k] = by_kind.get(k, 0) + v
    for fam, ds, _ in fams:
        fam_count[fam] = len(ds)
        for x in ds:
            ctx.count(desc_tag(x), nontrivial=True)
    ctx.cov['samples'] = [history_script(fams[0][1][len(fams[0][1]) // 3], model)[0][:1500]]
    # ---- coverage of the proved enumeration
    want = {(sig, c) for sig, _ in reach for c in ALL_CODES}
    missing = sorted(want - cover)
    ctx.cov['distribution'] = dict(histories=fam_count, calls_compared=tot['ncalls'], reprobe_calls_compared=tot['nobs'],
                                   rejected=tot['nrej'], accepted=tot['nacc'],
                                   script_lines=tot['lines'], by_return_code={str(k): v for k, v in sorted(by_rc.items())},
                                   by_kind=by_kind, depth=depth, reachable_cores=len(reach), calls=len(ALL_CODES),
                                   state_call_pairs_proved=len(want), state_call_pairs_exercised=len(want & cover),
                                   state_call_pairs_beyond_enumeration=len(cover - want), tie_wall_s=round(time.time() - t0, 1),
                                   disagreements=nmis)
    # ---- verdicts
    # 1. property oracle on the implementation: specification return code, no effect of rejected calls, legal mode signature
    groups = {}
    for f in spec:
        groups.setdefault(spec_key(f), []).append(f)
    for key, fs in sorted(groups.items()):
        # representative: an ACCEPTED call that should have been rejected first, then the shortest history
        f = min(fs, key=lambda x: (x['impl'] != 0, x['call'], len(desc_tag(x['desc']))))
        script, ann = history_script(f['desc'], model, upto=f['call'])
        states = sorted({(x['sig'], x['impl'], x['spec']) for x in fs})[:16]
        ctx.violation('%s returns %d where the documented precedence gives %d (%d occurrences; states dflag:nflags:bits, impl, spec: %s)'
                      % (NAMES.get(f['code']), f['impl'], f['spec'], sum(x.get('count', 1) for x in fs), states),
                      dict(script=script, annotated=ann, history=desc_tag(f['desc']), call_index=f['call'], relation='oracle_spec_rc'), key=key)
    groups = {}
    for f in effect:
        groups.setdefault('rejected-has-effect:%s' % NAMES.get(f['code'], str(f['code'])).split('(')[0], []).append(f)
    for key, fs in sorted(groups.items()):
        f = min(fs, key=lambda x: (x['call'], len(desc_tag(x['desc']))))
        script, ann = history_script(f['desc'], model, upto=f['call'])
        ctx.violation('%s was rejected (%d) but the observations before and after differ' % (NAMES.get(f['code']), f['impl']),
                      dict(script=script, annotated=ann, history=desc_tag(f['desc']), call_index=f['call'], before=f['before'], after=f['after'],
                           relation='oracle_no_effect'), key=key)
    if modefail:
        f = modefail[0]
        script, ann = history_script(f['desc'], model, upto=f['call'])
        ctx.violation('mode re-probe shows no legal mode (dispatcher and driver disagree?): %s' % f['obs'],
                      dict(script=script, annotated=ann, history=desc_tag(f['desc']), call_index=f['call'], relation='oracle_mode_unique'),
                      key='mode:illegal-signature')
    for c in crashes:
        script = ''
        if c.get('desc') is not None and c['what'] != 'model driver failed':
            script = history_script(c['desc'], model, upto=c.get('call'))[0]
        ctx.violation('%s of the implementation in %s' % (c['what'], NAMES.get(c.get('code'), c.get('script_line'))),
                      dict(script=script, detail=c.get('detail', ''), history=desc_tag(c['desc']) if c.get('desc') else None,
                           relation='oracle_survives'),
                      key='%s:%s' % (c['what'], NAMES.get(c.get('code'), 'unknown').split('(')[0]))
    oracle_failed = bool(spec or effect or modefail or crashes)
    # 2. model vs implementation where the oracle passes, proof obligations, coverage
    mism_pure = [m for m in mism if m['impl'] == m['spec']]
    if mism_pure or aux_mism:
        rep = dict(relation='corr_C14_rc', mismatches=[dict(m, desc=desc_tag(m['desc'])) for m in mism_pure[:10]],
                   aux=[dict(m, desc=desc_tag(m['desc'])) for m in aux_mism[:10]])
        m = (mism_pure or aux_mism)[0]
        rep['script'], rep['annotated'] = history_script(m['desc'], model, upto=m['call'])
        ctx.violation('corr_C14_rc: model and implementation disagree on a return code / request count while the specification oracle passes '
                      '(%d + %d cases)' % (len(mism_pure), len(aux_mism)), rep, no_input=not oracle_failed)
    if not proof_ok:
        ctx.violation('proof obligations of Properties_C14.v do not check: %s' % pr['failed'],
                      dict(relation='proof', failed=pr['failed'], log=pr['log'][-2000:]), no_input=not oracle_failed)
    if missing:
        ctx.violation('corr_C14_coverage: %d of the %d proved-reachable (core, call) pairs were not exercised on the implementation'
                      % (len(missing), len(want)), dict(relation='corr_C14_coverage', missing=missing[:40]), no_input=True)


def replay(ctx, d):
    lib = C.libdir()
    impl = S.impl_exe(lib)
    wd = C.scratch('c14r.')
    r = S.run_script(d['script'], impl, None, wd, 'replay', timeout=120, want_model=False, keep=True)
    ann = {int(k): v for k, v in (d.get('annotated') or {}).items()}
    bad = 0
    for (ln, rk), toks in sorted(r.impl.items()):
        a = ann.get(ln)
        note = ''
        if a:
            note = '   <- %s: model %s, spec %s' % (a['call'], a['model_rc'], a['spec_rc'])
            if str(a['spec_rc']) != toks[1]:
                note += '   ***'
                bad += 1
        if a or toks[0] not in ('snapshot', 'inq'):
            print('%4d %d %s%s' % (ln, rk, ' '.join(toks)[:100], note))
    if r.crash or r.hang:
        print('implementation %s: %s' % ('hang' if r.hang else 'crash', (r.crash or '')[-400:]))
        bad += 1
    print('replay: %d deviations from the specification' % bad)
    return 1 if bad else 0
