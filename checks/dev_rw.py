#!/usr/bin/env python3
"""dev helper: python3 checks/dev_rw.py <n> [seed] — generate rw sessions, run impl+model, report"""
import sys, os, json
sys.path.insert(0, os.path.dirname(os.path.dirname(os.path.abspath(__file__))))
from pnc import common as C, scripts as S, api_gen as G, session as SS
n = int(sys.argv[1]); seed = int(sys.argv[2]) if len(sys.argv) > 2 else 1
lib = C.libdir(); impl = S.impl_exe(lib); model = C.model_exe()
wd = C.scratch()
rng = C.SplitMix64(seed)
sessions = []
for i in range(n):
    s = G.gen_rw_session(rng.fork('s%d' % i))
    sessions.append(('s%d' % i, s))
bad = 0
tot = dict(ncmp=0, nskip=0)
for (tag, text, r), (_, s) in zip(S.run_many([(t, s.text()) for t, s in sessions], impl, model, wd, jobs=6), sessions):
    fails = SS.judge(s, r)
    tot['ncmp'] += r.ncmp; tot['nskip'] += r.nskip
    if r.mism or fails or r.hang or r.crash:
        bad += 1
        if bad <= int(os.environ.get('SHOW', '3')):
            print('=====', tag, 'np', r.np, 'hang', r.hang, 'crash', bool(r.crash), 'mism', len(r.mism), 'fails', len(fails))
            for m in r.mism[:3]:
                print(' MISM line', m['line'], 'rank', m['rank'], m['why']); print('   script:', s.lines[m['line']-1] if m['line'] else ''); print('   impl :', ' '.join(m['impl'] or [])[:300]); print('   model:', ' '.join(m['model'])[:300])
            for f in fails[:3]:
                print(' FAIL', f['kind'], 'line', f['line'], 'rank', f['rank'], f['detail'][:300])
            if r.crash: print(r.crash[-500:])
            open('/tmp/bad_%s.txt' % tag, 'w').write(text)
print('sessions', n, 'bad', bad, tot)
