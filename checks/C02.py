"""C02 Nonblocking request aggregation is equivalent to blocking execution.

PROOF (coq/Properties_C02.v, lemmas in Proofs_Nonblocking.v, Proofs_NbSegs.v, Proofs_NbGeom.v, Proofs_NbQueue.v,
Proofs_NbWait.v) about the executable model coq/Nonblocking.v of ncmpio_i_getput.m4 / ncmpio_i_varn.m4 / ncmpio_wait.c:
queue invariant preserved by post / cancel / wait; writes to pairwise disjoint byte sets commute; the ONE
(file type, buffer type) pair a wait builds - for any sorted permutation qsort returns, any grouping, record/varn
splitting - moves exactly the bytes of the blocking calls when no byte is written twice (commit_stream_correct), hence
wait refines blocking execution for puts (one process and collective wait of any number of processes); numrecs after a
wait in full (F1 repaired in /repo).  The model carries BOTH variants of extract_reqs (argument fx of
Nonblocking.extract_reqs): for the snapshot shape (shortcuts by request COUNT, error return leaves the marks) status_own,
wait_subset_frame and failed_wait_no_effect are REFUTED (witnesses = findings F3, poisoned requests) and proved under
no_shortcut; for the shape of patches/F3_poison.diff they are proved IN FULL and the queue invariant holds over all
histories whatever the waits return.  For gets the full statement is refuted for both variants (F2) and proved when the
reads completed together are disjoint.
VARIANT TIE: pnc/nb_gen.detect_variant reads ncmpio_wait.c as built (shortcut conditions, third shortcut, error return of
extract_reqs, loop bound of req_commit) and runs the model with that variant; an unrecognised shape fails closed
(violation without input).

TIE: correspondence.  Random and directed histories of iput/iget/bput (all forms incl. varn, multi-record, typed and
flexible with vector buffers, imap; a profile of interleaving requests strided in a slow dimension, so that the
flatten/sort/merge path vars_flatten + merge_requests is exercised with count >= 3; a "wide pitch" profile: CDF-5 2-D
variables with rows 4 GiB / 3 GiB apart in a sparse file, columns posted in descending order, so that the segments
merge_requests sorts are >= 2^31 bytes apart - the theorems are over Z, i.e. hold for offsets of any magnitude as long as
qsort's comparator orders them (cmp_trunc32_orders_refuted: a 32-bit truncated difference does not)) and wait/wait_all/cancel (all at once, by kind, subsets, permuted, NULL and duplicated
ids, different request counts per process, collective and independent) run on the real library through
harness/pnc_impl.c and on the model through coq/NbRun.v (Eval vm_compute); compared: request ids, return codes, statuses,
ids after the call, inq_nreqs, numrecs, read buffers and put buffers incl. guard zones, file bytes of written elements.
ORACLE on the implementation alone (pnc/nb_gen.py judge): every named get buffer holds the values last written, every
named put is in the file (blocking read-back + raw snapshot), put buffers unchanged, guards intact, unnamed requests
pending and untouched, statuses by position, ids reset, numrecs."""
from pnc import nb_check

LEVEL = 'proof'
ASSUMPTIONS = [
    'MPI-IO modelled: one MPI_File_write/read per wait and kind moves the k-th byte of the buffer type map to/from the k-th byte of the file type map; processes one after the other',
    'qsort modelled as ANY function returning a sorted permutation (theorems), stable insertion sort when the model is run',
    'error paths needing an MPI failure, NC_EINTOVERFLOW or a filetype construction error (NC_REQ_SKIP) are not modelled',
    'concurrent overlapping accesses of different processes, and a put and a get of the same element pending together, are excluded (generator)',
    'never-written bytes are undefined and never compared',
]

MIX_QUICK = [('mixed', 140, {}), ('wide', 6, {'profile': 'wide'}), ('strided', 30, {'profile': 'strided'}), ('abuf', 30, {'profile': 'abuf'}), ('big', 5, {'big': True})]
MIX_THOROUGH = [('mixed', 2400, {}), ('wide', 60, {'profile': 'wide'}), ('strided', 400, {'profile': 'strided'}), ('abuf', 500, {'profile': 'abuf'}), ('big', 60, {'big': True})]


def run(ctx):
    nb_check.run_nb_check(ctx, MIX_QUICK, MIX_THOROUGH)
