"""C07 Metadata and namespace operations behave like a sequential model.

Proved (coq/Properties_C07.v, from coq/Proofs_Meta.v about coq/Meta.v): for EVERY hash function whose
range is below the table size and every NFC function, the hash-bucket implementation of the dimension /
variable / attribute name tables (hash_insert, hash_delete with renumbering, hash_replace,
update_name_lookup_table, table copy at redef, populate at open) keeps the table invariant, never
indexes out of bounds, and every API step (def_dim, def_var, put_att, rename_*, copy_att, del_att,
inquiries, enddef/redef/close/open) returns exactly what the ordered-list/linear-lookup reference model
returns (refinement => equality of all observations for every history); lookup by name agrees with
lookup by id; content persists over close/open (composition with Proofs_Header.decode_encode_full);
a data-mode update leaves encode_header(new header) at the start of the file and never grows it.

Tie (re-established on every run): (1) the model's hash function equals the library's HASH_FUNC on
generated names/sizes (harness/c07_hash.c calls the macro); (2) correspondence of the extracted model
(coq/Extract_C07.v, harness/c07_driver.ml) with the real library through the pnc_impl script driver on
long random histories with names colliding under the model's own hash, all hint sizes, UTF-8
composed/decomposed pairs, interleaved enddef/redef/close/open, 1-2 ranks: every return code, id,
inquiry dump, lookup result and the header bytes on disk; (3) oracle on the implementation alone."""
import os, sys, re, hashlib, unicodedata, threading, concurrent.futures as cf
from pnc import common as C
from pnc import scripts as S

LEVEL = 'proof'
ASSUMPTIONS = [
    'utf8proc NFC normalisation is a parameter of the theorems; when the model is run it is a fixed '
    'table of composed/decomposed pairs and the generated names use only ASCII and these pairs '
    '(cross-checked against Python unicodedata and, through the correspondence, against utf8proc)',
    'the layout (variable begin offsets) chosen by enddef is an input of the metadata model (taken from the '
    "library's own inq_varoffset after each enddef/open); layout is the subject of C03/C06",
    'attribute value conversion is modelled for the script driver\'s calls (text, longlong, ulonglong, double '
    'with |v| < 2^24); the conversion tables are the subject of C09',
    'ncid management, safe mode (PNETCDF_SAFE_MODE) consistency checks and MPI-IO are outside the model',
    'numrecs stays 0 (no data is written in these histories)',
]

NOHINT = -1000000
UB_MARK = -8888
UNMODELLED = -7777

# ------------------------------------------------------------------ model mirrors used by the generator
def u32(x): return x & 0xFFFFFFFF
def bernstein(name, hsize):
    h = u32(len(name))
    for c in name:
        sc = c if c < 128 else c - 256
        h = u32(h + (h << 6) + sc)
    r = (h ^ (h >> 10) ^ (h >> 20)) & u32(hsize - 1)
    return r if r < 2 ** 31 else r - 2 ** 32

NFC_PAIRS = [(bytes([101, 204, 129]), bytes([195, 169])), (bytes([65, 204, 138]), bytes([195, 133])),
             (bytes([226, 132, 171]), bytes([195, 133])), (bytes([111, 204, 136]), bytes([195, 182])),
             (bytes([110, 204, 131]), bytes([195, 177])),
             (bytes([225, 132, 128, 225, 133, 161]), bytes([234, 176, 128])),
             (bytes([226, 132, 166]), bytes([206, 169]))]
def nfc_tab(b):
    out = bytearray(); i = 0
    while i < len(b):
        for k, v in NFC_PAIRS:
            if b.startswith(k, i):
                out += v; i += len(k); break
        else:
            out.append(b[i]); i += 1
    return bytes(out)

def eff_size(h, dflt):
    return dflt if (h is None or h <= 0) else h

DEFAULTS = dict(dim=256, var=256, gatt=64, vatt=8)

# ------------------------------------------------------------------ model executable
def model_exe():
    srcs = [os.path.join(C.COQ, f) for f in ('Gen_consts.v', 'Base.v', 'Header.v', 'Data.v', 'HeaderSpec.v',
                                               'Meta.v', 'Extract_C07.v')] + \
           [os.path.join(C.VERIF, 'harness', 'c07_driver.ml')]
    h = hashlib.sha1()
    for s in srcs:
        h.update(open(s, 'rb').read())
    exe = os.path.join(C.BUILD, 'c07_model-' + h.hexdigest()[:12])
    if os.path.isfile(exe):
        return exe
    ok, log = C.coq_make(['Meta.vo'])
    if not ok:
        raise C.BuildFailure('Meta.vo build failed:\n' + log[-3000:])
    with C.Lock('ocaml-c07'):
        if os.path.isfile(exe):
            return exe
        import glob, shutil
        for old in glob.glob(os.path.join(C.BUILD, 'c07_model-*')):
            os.remove(old)
        d = C.scratch('c07ml.')
        shutil.copy(os.path.join(C.COQ, 'Extract_C07.v'), d)
        shutil.copy(os.path.join(C.VERIF, 'harness', 'c07_driver.ml'), d)
        rc, out = C.sh(['coqc', '-Q', C.COQ, 'Pnc', '-w', '-all', 'Extract_C07.v'], cwd=d, timeout=600)
        if rc != 0:
            raise C.BuildFailure('extraction failed:\n' + out[-3000:])
        rc, out = C.sh('ocamlfind ocamlopt -O2 -package zarith -linkpkg -w -a c07_model.mli c07_model.ml '
                       'c07_driver.ml -o c07_model', cwd=d, timeout=600)
        if not os.path.isfile(os.path.join(d, 'c07_model')):
            raise C.BuildFailure('ocaml build failed:\n' + out[-3000:])
        shutil.move(os.path.join(d, 'c07_model'), exe)
    return exe

def run_model(mexe, nslots, flat, workdir, tag):
    p = os.path.join(workdir, tag + '.in')
    with open(p, 'w') as f:
        f.write(str(nslots) + '\n' + ' '.join(str(x) for x in flat) + '\n')
    rc, out = C.sh([mexe, p], timeout=600)
    os.remove(p)
    if rc != 0:
        return None, out[-500:]
    return [[int(x) for x in l.split()] for l in out.split('\n') if l.strip()], None

# ------------------------------------------------------------------ ops: python tuples
# ('create', s, fmt, hints) ('open', s, mode, hints) ('close', s) ('enddef', s) ('redef', s)
# ('def_dim', s, name, size) ('def_var', s, name, t, dimids) ('put_att', s, v, name, t, vals)
# ('get_att', s, v, name) ('del_att', s, v, name) ('rename_dim', s, id, name) ('rename_var', s, id, name)
# ('rename_att', s, v, name, newname) ('copy_att', s, v, name, s2, v2) ('inq', s)
# ('inq_dimid', s, name) ('inq_varid', s, name) ('inq_attid', s, v, name) ('snapshot', s)
HKEYS = ('nc_hash_size_dim', 'nc_hash_size_var', 'nc_hash_size_gattr', 'nc_hash_size_vattr')

def hx(b): return b.hex() if b else '-'

def script_of(ops, nprocs):
    """script text and, per op, its (1-based) line number"""
    lines = ['nprocs %d' % nprocs]
    where = []
    for o in ops:
        k = o[0]
        if k in ('create', 'open'):
            for key, v in zip(HKEYS, o[3]):
                if v is not None:
                    lines.append('hint %s %d' % (key, v))
            if all(v is None for v in o[3]):
                lines.append('nohints')
            lines.append('* %s %d %d%s' % (k, o[1], o[2], ' 1' if k == 'create' else ''))
        elif k in ('close', 'enddef', 'redef', 'inq', 'snapshot'):
            lines.append('* %s %d' % (k, o[1]))
        elif k == 'def_dim':
            lines.append('* def_dim %d %s %d' % (o[1], hx(o[2]), o[3]))
        elif k == 'def_var':
            lines.append('* def_var %d %s %d %d %s' % (o[1], hx(o[2]), o[3], len(o[4]), ' '.join(map(str, o[4]))))
        elif k == 'put_att':
            lines.append('* put_att %d %d %s %d %d %s' % (o[1], o[2], hx(o[3]), o[4], len(o[5]), ' '.join(map(str, o[5]))))
        elif k in ('get_att', 'del_att'):
            lines.append('* %s %d %d %s' % (k, o[1], o[2], hx(o[3])))
        elif k in ('rename_dim', 'rename_var'):
            lines.append('* %s %d %d %s' % (k, o[1], o[2], hx(o[3])))
        elif k == 'rename_att':
            lines.append('* rename_att %d %d %s %s' % (o[1], o[2], hx(o[3]), hx(o[4])))
        elif k == 'copy_att':
            lines.append('* copy_att %d %d %s %d %d' % (o[1], o[2], hx(o[3]), o[4], o[5]))
        elif k == 'inq_dimid':
            lines.append('* inq_name %d d %s' % (o[1], hx(o[2])))
        elif k == 'inq_varid':
            lines.append('* inq_name %d v %s' % (o[1], hx(o[2])))
        elif k == 'inq_attid':
            lines.append('* inq_attid %d %d %s' % (o[1], o[2], hx(o[3])))
        else:
            raise ValueError(k)
        lines[-1] = lines[-1].rstrip()
        where.append(len(lines))
    return '\n'.join(lines) + '\n', where

def nm_flat(b): return [len(b)] + list(b)
def hints_flat(h): return [NOHINT if v is None else v for v in h]

def flat_of(ops, begins):
    """integer stream for Meta.dec_items; begins[i] = layout input for enddef/close op i"""
    out = []
    for i, o in enumerate(ops):
        k = o[0]
        if k == 'create': out += [1, o[1], o[2]] + hints_flat(o[3])
        elif k == 'open': out += [2, o[1], o[2]] + hints_flat(o[3])
        elif k == 'close': out += [3, o[1], len(begins.get(i, []))] + begins.get(i, [])
        elif k == 'enddef': out += [4, o[1], len(begins.get(i, []))] + begins.get(i, [])
        elif k == 'redef': out += [5, o[1]]
        elif k == 'def_dim': out += [6, o[1]] + nm_flat(o[2]) + [0 if o[3] == -1 else o[3]]
        elif k == 'def_var': out += [7, o[1]] + nm_flat(o[2]) + [o[3], len(o[4])] + list(o[4])
        elif k == 'put_att': out += [8, o[1], o[2]] + nm_flat(o[3]) + [o[4], len(o[5])] + list(o[5])
        elif k == 'get_att': out += [9, o[1], o[2]] + nm_flat(o[3])
        elif k == 'del_att': out += [10, o[1], o[2]] + nm_flat(o[3])
        elif k == 'rename_dim': out += [11, o[1], o[2]] + nm_flat(o[3])
        elif k == 'rename_var': out += [12, o[1], o[2]] + nm_flat(o[3])
        elif k == 'rename_att': out += [13, o[1], o[2]] + nm_flat(o[3]) + nm_flat(o[4])
        elif k == 'copy_att': out += [14, o[1], o[2]] + nm_flat(o[3]) + [o[4], o[5]]
        elif k == 'inq': out += [15, o[1]]
        elif k == 'inq_dimid': out += [16, o[1]] + nm_flat(o[2])
        elif k == 'inq_varid': out += [17, o[1]] + nm_flat(o[2])
        elif k == 'inq_attid': out += [18, o[1], o[2]] + nm_flat(o[3])
        elif k == 'snapshot': out += [19, o[1]]
    return out

# ------------------------------------------------------------------ parsing observations
def unhex(t): return b'' if t == '-' else bytes.fromhex(t)

def parse_impl_inq(tok):
    """tok = tokens after 'inq': rc ... ; returns dict or None when malformed / inquiry errors"""
    try:
        if any(t.startswith('E') and t[1:].lstrip('-').isdigit() for t in tok[1:]):
            return None
        it = iter(tok)
        rc = int(next(it))
        d = dict(rc=rc, nd=int(next(it)), nv=int(next(it)), ng=int(next(it)), unlim=int(next(it)),
                 dims=[], gatts=[], vars=[])
        cur = next(it)
        def att():
            return (unhex(next(it)), int(next(it)), int(next(it)), unhex(next(it)))
        while cur == 'D':
            d['dims'].append((unhex(next(it)), int(next(it)))); cur = next(it)
        while cur == 'A':
            d['gatts'].append(att()); cur = next(it)
        while cur == 'V':
            nm = unhex(next(it)); t = int(next(it)); nd = int(next(it))
            ids = [int(next(it)) for _ in range(nd)]
            na = int(next(it)); off = int(next(it))
            v = dict(name=nm, type=t, dimids=ids, natts=na, begin=off, atts=[])
            cur = next(it)
            while cur == 'A':
                v['atts'].append(att()); cur = next(it)
            d['vars'].append(v)
        assert cur == 'H'
        d['hsize'] = int(next(it)); d['extent'] = int(next(it)); d['recsize'] = int(next(it))
        d['numrecs'] = int(next(it)); d['fmt'] = int(next(it))
        return d
    except (StopIteration, ValueError, AssertionError):
        return None

def parse_model_inq(fl):
    try:
        p = [0]
        def nx():
            v = fl[p[0]]; p[0] += 1; return v
        def nm():
            n = nx(); b = bytes(fl[p[0]:p[0] + n]); p[0] += n; return b
        def att():
            a = nm(); t = nx(); n = nx(); val = nm(); return (a, t, n, val)
        d = dict(rc=nx(), indef=nx(), nd=nx(), nv=nx(), ng=nx(), unlim=nx(), dims=[], gatts=[], vars=[])
        cur = nx()
        while cur == 68:
            d['dims'].append((nm(), nx())); cur = nx()
        while cur == 65:
            d['gatts'].append(att()); cur = nx()
        while cur == 86:
            name = nm(); t = nx(); nd = nx(); ids = [nx() for _ in range(nd)]
            na = nx(); off = nx()
            v = dict(name=name, type=t, dimids=ids, natts=na, begin=off, atts=[])
            cur = nx()
            while cur == 65:
                v['atts'].append(att()); cur = nx()
            d['vars'].append(v)
        assert cur == 72
        d['hsize'] = nx(); d['numrecs'] = nx(); d['fmt'] = nx()
        assert p[0] == len(fl)
        return d
    except (IndexError, AssertionError, ValueError):
        return None

def inq_diff(di, dm):
    """field-wise comparison of an implementation dump with the model's; [] if equal"""
    bad = []
    for k in ('rc', 'nd', 'nv', 'ng', 'unlim', 'dims', 'gatts', 'numrecs', 'fmt'):
        if di[k] != dm[k]:
            bad.append('%s: impl %r model %r' % (k, di[k], dm[k]))
    if len(di['vars']) != len(dm['vars']):
        bad.append('vars: %d vs %d' % (len(di['vars']), len(dm['vars'])))
    for a, b in zip(di['vars'], dm['vars']):
        for k in ('name', 'type', 'dimids', 'natts', 'atts'):
            if a[k] != b[k]:
                bad.append('var %s: impl %r model %r' % (k, a[k], b[k]))
        if not dm['indef'] and a['begin'] != b['begin']:
            bad.append('var begin: impl %r model %r' % (a['begin'], b['begin']))
    if not dm['indef'] and di['hsize'] != dm['hsize']:
        bad.append('header size: impl %r model %r' % (di['hsize'], dm['hsize']))
    return bad

# ------------------------------------------------------------------ comparing one history
def expected_begins(ops, impl, where, rank=0):
    """layout inputs for the model: for enddef/close on slot s, the variable offsets the library reports at
    the next inq on s (the generator places one right after every enddef and after every open)"""
    begins = {}
    for i, o in enumerate(ops):
        if o[0] in ('enddef', 'close'):
            s = o[1]
            for j in range(i + 1, len(ops)):
                p = ops[j]
                if p[0] == 'inq' and p[1] == s:
                    tok = impl.get((where[j], rank))
                    d = parse_impl_inq(tok[1:]) if tok else None
                    if d:
                        begins[i] = [v['begin'] for v in d['vars']]
                    break
                if p[0] in ('create', 'enddef') and p[1] == s:
                    break
                if p[0] == 'close' and p[1] == s and o[0] == 'close':
                    break
    return begins

def compare_op(o, tok, ml, rank):
    """tok: implementation tokens [op, rc, extra...]; ml: model flat line. Returns list of mismatch texts"""
    k = o[0]
    if ml and ml[0] == UNMODELLED:
        return ['generator produced an op the model does not cover: %r' % (o,)]
    try:
        rc = int(tok[1])
    except (IndexError, ValueError):
        return ['implementation log line incomplete: %r' % (tok,)]
    if k == 'snapshot':
        if rank != 0:
            return []
        if rc != ml[0]:
            return ['snapshot rc impl %d model %d' % (rc, ml[0])]
        if rc == 0:
            if tok[3] == 'big':
                return []
            data = unhex(tok[3]); hl = ml[1]; md = bytes(ml[3:])
            # compared: the header image (hl bytes, as found by the specification decoder in the model's file)
            if data[:hl] != md[:hl]:
                n = next((i for i in range(min(hl, len(data))) if md[i] != data[i]), min(hl, len(data)))
                return ['header bytes on disk differ from encode_header(model header) at byte %d '
                        '(file %d bytes, header image %d): file %s model %s'
                        % (n, len(data), hl, data[max(0, n - 8):n + 16].hex(), md[max(0, n - 8):n + 16].hex())]
            if not hl and len(md) > 0:
                return ['the model file holds no decodable header (%d bytes)' % len(md)]
        return []
    if rc != ml[0]:
        return ['%s: rc impl %d model %d' % (k, rc, ml[0])]
    if k in ('def_dim', 'def_var', 'inq_dimid', 'inq_varid', 'inq_attid'):
        if int(tok[2]) != ml[1]:
            return ['%s: id impl %s model %d' % (k, tok[2], ml[1])]
    elif k == 'get_att':
        t, n, val = int(tok[2]), int(tok[3]), unhex(tok[4])
        if (t, n, val) != (ml[1], ml[2], bytes(ml[4:])):
            return ['get_att: impl (%d,%d,%s) model (%d,%d,%s)' % (t, n, val.hex(), ml[1], ml[2], bytes(ml[4:]).hex())]
    elif k == 'inq':
        di = parse_impl_inq(tok[1:]); dm = parse_model_inq(ml)
        if di is None or dm is None:
            return ['inq dump unparsable: impl %r model %r' % (tok[:12], ml[:12])]
        return inq_diff(di, dm)
    return []

# ------------------------------------------------------------------ oracle on the implementation alone
def oracle(ops, impl, where, rank):
    """(a) inq_name/inq_attid/get_att by name == index of the first entry with that (NFC) name in the
    implementation's own latest dump of that file (no change in between); (b) dump after close+open equals the
    dump before close (when the file was in data mode at close time or the dump was taken after the last change)"""
    bad = []
    last = {}      # slot -> (dump dict, op index) valid while no modifying op on the slot
    closed = {}    # slot -> dump at close
    MOD = ('def_dim', 'def_var', 'put_att', 'del_att', 'rename_dim', 'rename_var', 'rename_att', 'copy_att',
           'redef', 'enddef', 'create', 'open')
    for i, o in enumerate(ops):
        k = o[0]; s = o[1]
        tok = impl.get((where[i], rank))
        if not tok or len(tok) < 2:
            continue
        if k == 'inq':
            d = parse_impl_inq(tok[1:])
            if d is None and tok[1] == '0' and any(re.fullmatch(r'E-?[0-9]+', t) for t in tok[2:]):
                # the dump walks the objects by id and then asks for each by its own name (inq_att/get_att)
                bad.append(('name_id_agree', i, 'an inquiry by the name that inquiry by id just returned fails: %s'
                            % ' '.join(t for t in tok[2:] if re.fullmatch(r'E-?[0-9]+', t))))
            if d:
                if s in closed and closed[s] is not None:
                    a, b = closed[s], d
                    for key in ('dims', 'gatts', 'fmt', 'unlim', 'nd', 'nv', 'ng'):
                        if a[key] != b[key]:
                            bad.append(('persist', i, '%s before close %r after reopen %r' % (key, a[key], b[key])))
                    va = [(v['name'], v['type'], v['dimids'], v['atts']) for v in a['vars']]
                    vb = [(v['name'], v['type'], v['dimids'], v['atts']) for v in b['vars']]
                    if va != vb:
                        bad.append(('persist', i, 'vars before close %r after reopen %r' % (va, vb)))
                    closed[s] = None
                last[s] = d
            continue
        if k == 'close':
            closed[s] = last.get(s)
            last.pop(s, None)
            continue
        if k == 'copy_att':
            last.pop(o[4], None)
        if k in MOD:
            last.pop(s, None)
            if k in ('create',):
                closed.pop(s, None)
            continue
        d = last.get(s)
        if d is None:
            continue
        rc = int(tok[1])
        if k in ('inq_dimid', 'inq_varid'):
            names = [x[0] for x in d['dims']] if k == 'inq_dimid' else [v['name'] for v in d['vars']]
            nn = nfc_tab(o[2])
            exp = names.index(nn) if nn in names else None
            got = int(tok[2]) if rc == 0 else None
            if 0 < len(o[2]) <= 256 and exp != got:
                bad.append(('lookup', i, '%s(%s): by name %r, first entry with that name in its own dump %r'
                            % (k, o[2].hex(), got, exp)))
        elif k in ('inq_attid', 'get_att'):
            v = o[2]
            if v == -1: atts = d['gatts']
            elif 0 <= v < len(d['vars']): atts = d['vars'][v]['atts']
            else: continue
            names = [a[0] for a in atts]
            nn = nfc_tab(o[3])
            exp = names.index(nn) if nn in names else None
            if not (0 < len(o[3]) <= 256):
                continue
            if k == 'inq_attid':
                got = int(tok[2]) if rc == 0 else None
                if exp != got:
                    bad.append(('lookup', i, 'inq_attid(%d,%s): by name %r, own dump %r' % (v, o[3].hex(), got, exp)))
            else:
                if (exp is None) != (rc != 0):
                    bad.append(('lookup', i, 'get_att(%d,%s): rc %d, own dump index %r' % (v, o[3].hex(), rc, exp)))
                elif exp is not None:
                    a = atts[exp]
                    if (int(tok[2]), int(tok[3]), unhex(tok[4])) != (a[1], a[2], a[3]):
                        bad.append(('lookup', i, 'get_att(%d,%s) differs from the entry at its index in the dump' % (v, o[3].hex())))
    return bad

# ------------------------------------------------------------------ generator
ASCII_FIRST = b'abcdefghijklmnopqrstuvwxyzABCDEFGHIJKLMNOPQRSTUVWXYZ_0123456789'
ASCII_REST = ASCII_FIRST + b' .-+@:()[]{}#$%&*,;<=>?!~^|`\'"\\'
UTF_ATOMS = [k for k, _ in NFC_PAIRS] + [v for _, v in NFC_PAIRS] + [bytes([206, 177]), bytes([226, 130, 172]),
                                                                         bytes([240, 159, 152, 128])]
BAD_NAMES = [b'', b'-a', b'a/b', b' a', b'a ', b'a\x01b', b'\x7fa', b'\xc3', b'a\xc3\x28', b'\xed\xa0\x80',
             b'\xc0\xaf', b'\xf5\x80\x80\x80', b'.x', b'a\xe2\x82', b'x' * 257, b'y' * 300]

def rand_valid_name(rng, maxlen):
    """valid name whose table NFC equals the real NFC: ASCII plus atoms of the fixed table; a combining atom is
    never followed/preceded so that other compositions could arise (checked against unicodedata)"""
    for _ in range(50):
        n = rng.range(1, maxlen)
        parts = [bytes([rng.choice(ASCII_FIRST)])] if rng.chance(5, 6) else [rng.choice(UTF_ATOMS)]
        while sum(map(len, parts)) < n:
            if rng.chance(1, 7):
                parts.append(rng.choice(UTF_ATOMS))
            else:
                parts.append(bytes([rng.choice(ASCII_REST)]))
        b = b''.join(parts)
        while len(b) > max(maxlen, 1) and len(parts) > 1:
            parts.pop(); b = b''.join(parts)
        if b.endswith(b' '):
            b = b[:-1] + b'_'
        if len(b) == 0 or len(b) > 256:
            continue
        try:
            s = b.decode('utf-8')
        except UnicodeDecodeError:
            continue
        if unicodedata.normalize('NFC', s).encode('utf-8') != nfc_tab(b):
            continue
        return b
    return b'fallback'

def colliding_pool(rng, hsizes, count):
    """names sharing buckets under the model's own hash for each of the given table sizes"""
    pool = []
    target = {}
    tries = 0
    while len(pool) < count and tries < 60000:
        tries += 1
        ml = rng.choice([2, 3, 5, 8, 8, 16, 40, 200, 256])
        b = rand_valid_name(rng, ml)
        nb = nfc_tab(b)
        ok = True
        for h in hsizes:
            if h <= 1:
                continue
            k = bernstein(nb, h)
            t = target.setdefault(h, k if rng.chance(3, 4) else None)
            # aim: at least 2/3 of the pool in one bucket of the largest table
            if t is not None and k != t and h == max(hsizes) and len(pool) < (2 * count) // 3:
                ok = False
            if t is None:
                target[h] = k
        if ok and b not in pool:
            pool.append(b)
    return pool

class Shadow:
    """rough bookkeeping so that the generator mostly picks meaningful arguments (only affects the distribution)"""
    def __init__(self):
        self.open = False; self.indef = False; self.rdonly = False; self.exists = False
        self.dims = []; self.vars = []; self.gatts = []; self.vatts = []

def gen_history(rng, tier):
    nprocs = 2 if rng.chance(1, 5) else 1
    nslots = 2 if rng.chance(1, 3) else 1
    sizes = [None, 1, 2, 4, 6, 3, 256, 64, 8, -3, 16, 5, 0]
    def hints():
        if rng.chance(1, 6):
            return (None, None, None, None)
        return tuple(rng.choice(sizes) for _ in range(4))
    ops = []
    hs = [hints() for _ in range(nslots)]
    eff = set()
    for h in hs:
        for v, key in zip(h, ('dim', 'var', 'gatt', 'vatt')):
            eff.add(eff_size(v, DEFAULTS[key]))
    pool = colliding_pool(rng, sorted(eff), rng.range(6, 14))
    if rng.chance(1, 2):
        pool.append(b'_FillValue')
    # decomposed/composed twins of pool entries
    for k, v in NFC_PAIRS[:3]:
        if rng.chance(1, 4):
            base = bytes([rng.choice(ASCII_FIRST[:52])])
            pool.append(base + k); pool.append(base + v)
    sh = [Shadow() for _ in range(nslots)]
    fmts = [rng.choice([1, 2, 5]) for _ in range(nslots)]
    def name(existing=None):
        r = rng.below(20)
        if existing and r < 9:
            return rng.choice(existing)
        if r < 17:
            return rng.choice(pool)
        if r < 18:
            return rand_valid_name(rng, rng.choice([3, 20, 256]))
        return rng.choice(BAD_NAMES)
    def plausible(nm):
        return 0 < len(nm) <= 256 and nm not in BAD_NAMES
    def varid(st):
        r = rng.below(24)
        if r < 9 or (r < 22 and not st.vars): return -1
        if r < 22: return rng.below(len(st.vars))
        return rng.choice([-2, len(st.vars), len(st.vars) + 3])
    def atts_of(st, v):
        if v == -1: return st.gatts
        if 0 <= v < len(st.vatts): return st.vatts[v]
        return []
    def values(t, n):
        lim = {1: 127, 2: 255, 3: 32767, 4: 2 ** 31 - 1, 5: 2 ** 24 - 1, 6: 2 ** 24 - 1, 7: 255, 8: 65535,
               9: 2 ** 32 - 1, 10: 2 ** 62, 11: 2 ** 62}.get(t, 100)
        vs = []
        for _ in range(n):
            if t == 2: vs.append(rng.range(1, 255))
            elif t in (7, 8, 9, 11): vs.append(rng.range(0, lim))
            else: vs.append(rng.range(-lim, lim))
        if n and t in (1, 3, 4, 7, 8, 9) and rng.chance(1, 8):      # out of range -> NC_ERANGE, fill value
            vs[rng.below(n)] = rng.choice([lim + 1, -lim - 2, 2 ** 40])
        return vs
    nops = rng.range(30, 110) if tier == 'quick' else rng.range(30, 160)
    for s in range(nslots):
        ops.append(('create', s, fmts[s], hs[s])); sh[s].open = True; sh[s].indef = True; sh[s].exists = True
    for _ in range(nops):
        s = rng.below(nslots); st = sh[s]
        if not st.open:
            if st.exists and rng.chance(4, 5):
                mode = 0 if rng.chance(1, 6) else 1
                ops.append(('open', s, mode, hints())); st.open = True; st.indef = False; st.rdonly = (mode == 0)
                ops.append(('inq', s))
            else:
                ops.append(('create', s, fmts[s], hints())); sh[s] = st = Shadow()
                st.open = True; st.indef = True; st.exists = True
            continue
        r = rng.below(100)
        if r < 5:
            ops.append(('enddef', s)); ops.append(('inq', s))
            if st.indef: st.indef = False
        elif r < 9:
            ops.append(('redef', s))
            if not st.rdonly: st.indef = True
        elif r < 12:
            ops.append(('inq', s))
            ops.append(('close', s)); st.open = False; st.indef = False
        elif r < 17:
            ops.append(('inq', s))
        elif r < 19:
            ops.append(('snapshot', s))
        elif r < 27:
            # (a dimension beyond 2^31 is legal in CDF-5; a variable over it would make the data mover at a later
            #  enddef copy exabytes: sizes of accepted dimensions stay small, layout/moving is C03/C06)
            nm = name(); size = rng.choice([1, 2, 3, 5, 7, -1, -1, 4, -2] + ([2 ** 31 + 5] if fmts[s] < 5 else [6]))
            ops.append(('def_dim', s, nm, size))
            if st.indef and plausible(nm) and nfc_tab(nm) not in [nfc_tab(x) for x in st.dims] and \
               (size >= 1 or size == -1) and size < 2 ** 31:
                st.dims.append(nm)
        elif r < 35:
            nm = name()
            t = rng.choice([1, 2, 3, 4, 5, 6] if (fmts[s] < 5 and rng.chance(7, 8)) else
                           [1, 2, 3, 4, 5, 6, 7, 8, 9, 10, 11, 4, 6, 0, 12])
            nd = rng.choice([0, 1, 1, 2, 2, 3]) if st.dims else 0
            ids = [rng.below(max(1, len(st.dims))) if rng.chance(14, 15) else rng.choice([-1, len(st.dims) + 1])
                   for _ in range(nd)]
            ops.append(('def_var', s, nm, t, ids))
            if st.indef and plausible(nm) and nfc_tab(nm) not in [nfc_tab(x) for x in st.vars] and \
               1 <= t <= (11 if fmts[s] == 5 else 6) and all(0 <= i < len(st.dims) for i in ids):
                st.vars.append(nm); st.vatts.append([])
        elif r < 55:
            v = varid(st); nm = name(atts_of(st, v))
            t = rng.choice([1, 2, 3, 4, 5, 6, 7, 8, 9, 10, 11, 2, 4, 6, 2, 0, 13])
            n = rng.choice([0, 1, 1, 2, 3, 4, 5, 8, 9, 17, 40])
            if nm == b'_FillValue' and rng.chance(2, 3):
                n = 1
            ops.append(('put_att', s, v, nm, t, values(t, n)))
            if st.indef and plausible(nm) and nm not in atts_of(st, v) and (v == -1 or 0 <= v < len(st.vatts)) \
               and (t == 2 or 1 <= t <= (11 if fmts[s] == 5 else 6)):
                atts_of(st, v).append(nm)
        elif r < 60:
            v = varid(st); ops.append(('get_att', s, v, name(atts_of(st, v))))
        elif r < 66:
            v = varid(st); nm = name(atts_of(st, v)); ops.append(('del_att', s, v, nm))
            if st.indef and nm in atts_of(st, v): atts_of(st, v).remove(nm)
        elif r < 72:
            i = rng.below(len(st.dims)) if st.dims and rng.chance(9, 10) else rng.choice([-1, len(st.dims)])
            nm = name(st.dims); ops.append(('rename_dim', s, i, nm))
            if 0 <= i < len(st.dims): st.dims[i] = nm if rng.chance(1, 2) else st.dims[i]
        elif r < 78:
            i = rng.below(len(st.vars)) if st.vars and rng.chance(9, 10) else rng.choice([-1, len(st.vars)])
            nm = name(st.vars); ops.append(('rename_var', s, i, nm))
            if 0 <= i < len(st.vars): st.vars[i] = nm if rng.chance(1, 2) else st.vars[i]
        elif r < 86:
            v = varid(st); al = atts_of(st, v); nm = name(al); nn = name(al)
            ops.append(('rename_att', s, v, nm, nn))
            if nm in al and rng.chance(1, 2): al[al.index(nm)] = nn
        elif r < 92:
            s2 = rng.below(nslots)
            if not sh[s2].open: s2 = s
            v = varid(st); v2 = varid(sh[s2]); nm = name(atts_of(st, v))
            ops.append(('copy_att', s, v, nm, s2, v2))
            if nm in atts_of(st, v) and nm not in atts_of(sh[s2], v2) and (v2 == -1 or 0 <= v2 < len(sh[s2].vatts)):
                atts_of(sh[s2], v2).append(nm)
        elif r < 95:
            ops.append(('inq_dimid', s, name(st.dims)))
        elif r < 97:
            ops.append(('inq_varid', s, name(st.vars)))
        else:
            v = varid(st); ops.append(('inq_attid', s, v, name(atts_of(st, v))))
    # epilogue: dump, close, reopen, dump, close (persistence; also provides the layout after a close in
    # define mode)
    for s in range(nslots):
        st = sh[s]
        if st.open:
            ops.append(('inq', s)); ops.append(('close', s))
        if st.exists:
            ops.append(('open', s, 0, hints())); ops.append(('inq', s))
            for nm in (st.dims[:2]):
                ops.append(('inq_dimid', s, nm))
            ops.append(('snapshot', s)); ops.append(('close', s))
    return dict(nprocs=nprocs, nslots=nslots, ops=ops)

# ------------------------------------------------------------------ running one history on both sides
_REFRESH = threading.Lock()
def live_impl(impl):
    """the library cache entry can be evicted while the check runs (when /repo changes and other checks rebuild);
    then use the library of the current tree"""
    if os.path.exists(impl):
        return impl
    with _REFRESH:
        C._libcache.clear()
        asan = 'asan' in os.path.basename(os.path.dirname(impl)) or '_asan' in os.path.basename(impl)
        return S.impl_exe(C.libdir('asan' if asan else 'default'), asan=asan)

def run_history(hist, impl, mexe, workdir, tag, env=None, timeout=120):
    impl = live_impl(impl)
    ops = hist['ops']
    script, where = script_of(ops, hist['nprocs'])
    r = S.run_script(script, impl, None, workdir, tag, timeout=timeout, env=env, want_model=False)
    res = dict(hang=r.hang, crash=r.crash, mism=[], oracle=[], script=script, ub_at=None, model_err=None, ncmp=0,
               rcs=[], datamode_ok=0, undecodable=None)
    line2op = {l: i for i, l in enumerate(where)}
    if r.hang or r.crash:
        ll = max([k[0] for k in r.impl] or [0])
        res['last_op'] = ops[line2op[ll]][0] if ll in line2op else None
    # return codes and modes as the library itself reports them (rank 0)
    indef = {}; fmt = {}; xcopy = False
    for i, o in enumerate(ops):
        tok = r.impl.get((where[i], 0))
        try:
            rc = int(tok[1])
        except (TypeError, IndexError, ValueError):
            continue
        res['rcs'].append((i, rc))
        k = o[0]
        if k == 'create':
            fmt[o[1]] = o[2]
        if rc == 0:
            if k == 'create' or k == 'redef': indef[o[1]] = True
            elif k in ('enddef', 'open', 'close'): indef[o[1]] = False
            elif k in ('put_att', 'rename_dim', 'rename_var', 'rename_att') and not indef.get(o[1], False):
                res['datamode_ok'] += 1
            elif k == 'copy_att':
                if not indef.get(o[4], False): res['datamode_ok'] += 1
                if fmt.get(o[1]) == 5 and fmt.get(o[4], 5) < 5: xcopy = True
    begins = expected_begins(ops, r.impl, where)
    ml, err = run_model(mexe, hist['nslots'], flat_of(ops, begins), workdir, tag)
    if ml is None:
        res['model_err'] = err
        return res
    stop = len(ops)
    for i, o in enumerate(ops):
        if i >= len(ml):
            res['model_err'] = 'model produced %d lines for %d ops' % (len(ml), len(ops)); break
        if ml[i] == [UB_MARK]:
            res['ub_at'] = i; stop = i; break
        if o[0] == 'open' and ml[i][0] == -51:
            # the header the library wrote (as the model has it) is rejected by the specification decoder
            tok = r.impl.get((where[i], 0))
            res['undecodable'] = i
            res['undecodable_rc'] = tok[1] if tok and len(tok) > 1 else None
            res['undecodable_why'] = 'copy_att:cdf5-type-into-classic-file' if xcopy else 'unknown'
            if tok and len(tok) > 1 and tok[1] == '0':
                res['mism'].append((i, 0, 'library opens a file whose header the specification decoder rejects'))
            stop = i; break
        for rank in range(hist['nprocs']):
            tok = r.impl.get((where[i], rank))
            if tok is None:
                if not (r.hang or r.crash):
                    res['mism'].append((i, rank, 'no implementation log line'))
                continue
            for m in compare_op(o, tok, ml[i], rank):
                res['mism'].append((i, rank, m))
            res['ncmp'] += 1
    if res['undecodable'] is not None:
        # what follows in the script runs on a stale ncid: not part of the history
        res['hang'] = False; res['crash'] = None
    elif not (r.hang or r.crash):
        for rank in range(hist['nprocs']):
            res['oracle'] += [(k, i, rank, m) for (k, i, m) in oracle(ops, r.impl, where, rank)]
    return res

def hist_repr(hist):
    return 'np=%d slots=%d ' % (hist['nprocs'], hist['nslots']) + \
           ' ; '.join(' '.join(x.hex() if isinstance(x, bytes) else str(x) for x in o) for o in hist['ops'][:40])

def json_ops(ops):
    return [[x.hex() if isinstance(x, bytes) else (list(x) if isinstance(x, tuple) else x) for x in o] for o in ops]

def unjson_ops(l):
    out = []
    for o in l:
        k = o[0]; o = list(o)
        byte_pos = {'def_dim': [2], 'def_var': [2], 'put_att': [3], 'get_att': [3], 'del_att': [3], 'rename_dim': [3],
                    'rename_var': [3], 'rename_att': [3, 4], 'copy_att': [3], 'inq_dimid': [2], 'inq_varid': [2],
                    'inq_attid': [3]}.get(k, [])
        for p in byte_pos:
            o[p] = bytes.fromhex(o[p])
        if k in ('create', 'open'):
            o[3] = tuple(o[3])
        out.append(tuple(o))
    return out

def shrink_history(hist, fails, budget=60):
    """drop ops while the failure persists"""
    ops = list(hist['ops'])
    n = 2; steps = 0
    while len(ops) >= 2 and steps < budget:
        chunk = max(1, len(ops) // n); red = False
        for i in range(0, len(ops), chunk):
            cand = ops[:i] + ops[i + chunk:]
            steps += 1
            if cand and fails(dict(hist, ops=cand)):
                ops = cand; n = max(n - 1, 2); red = True; break
            if steps >= budget: break
        if not red:
            if chunk == 1: break
            n = min(n * 2, len(ops))
    return dict(hist, ops=ops)

# ------------------------------------------------------------------ exhaustive short histories (batched)
def small_histories(kind, depth, toggles):
    """all op sequences of length <= depth over 3 names that collide in a 2-bucket (attrs, dims) or 1-bucket
    (vars) table; each followed by a dump and the three lookups.  kind in 'att' 'dim' 'var'."""
    import itertools
    names = SMALL_NAMES
    if kind == 'att':
        alpha = [('put_att', 0, -1, n, 4, [k + 1]) for k, n in enumerate(names)] + \
                [('del_att', 0, -1, n) for n in names] + \
                [('rename_att', 0, -1, a, b) for a in names for b in names if a != b]
        probes = [('inq', 0)] + [('inq_attid', 0, -1, n) for n in names]
    elif kind == 'dim':
        alpha = [('def_dim', 0, n, k + 1) for k, n in enumerate(names)] + \
                [('rename_dim', 0, i, n) for i in range(3) for n in names]
        probes = [('inq', 0)] + [('inq_dimid', 0, n) for n in names]
    else:
        alpha = [('def_var', 0, n, 4, []) for n in names] + \
                [('rename_var', 0, i, n) for i in range(3) for n in names]
        probes = [('inq', 0)] + [('inq_varid', 0, n) for n in names]
    if toggles:
        alpha = alpha + [('enddef', 0), ('redef', 0)]
    hints = (2, 1, 2, 2)
    for d in range(1, depth + 1):
        for seq in itertools.product(alpha, repeat=d):
            yield [('create', 0, 1, hints)] + list(seq) + probes + [('close', 0)]

# ------------------------------------------------------------------ attribute-list churn (targeted family)
_COLL = {}
def colliding_names(hsize, count, rng):
    """`count` short distinct legal names in ONE bucket of a table of `hsize` entries under the model's hash"""
    key = (hsize, count)
    if key not in _COLL:
        buckets = {}
        alphabet = b'abcdefghijklmnopqrstuvwxyz0123456789_'
        for a in alphabet[:26]:
            for b in alphabet:
                for c in alphabet:
                    n = bytes([a, b, c])
                    l = buckets.setdefault(bernstein(n, hsize), [])
                    l.append(n)
                    if len(l) >= count:
                        _COLL[key] = l
                        break
                if key in _COLL: break
            if key in _COLL: break
    return list(_COLL[key])

def churn_probes(s, v, names):
    """dump by id, then every surviving (and a few dead) names by name"""
    out = [('inq', s)]
    for n in names:
        out.append(('inq_attid', s, v, n))
    for n in names[:3]:
        out.append(('get_att', s, v, n))
    return out

def churn_history(rng, fixed=None):
    """one attribute list (global or of one variable) of 4-8 attributes whose names share a bucket (tiny hash size
    hints, or colliding names under the default sizes); rename_att / del_att / put_att in random order, each followed
    by the dump by id and by-name lookups of all surviving attributes; the same again after enddef, after redef and
    after close + open.  All operations are legal, so the bookkeeping of live names is exact."""
    mode = rng.below(3)                      # 0: size 1, 1: size 2, 2: default sizes with colliding names
    isvar = rng.chance(1, 2)
    hs = [1, 2, None][mode]
    eff = hs if hs else (8 if isvar else 64)
    pool = colliding_names(eff, 14, rng)
    rng.shuffle(pool)
    hints = (None, None, None, hs) if isvar else (None, None, hs, None)
    fmt = rng.choice([1, 2, 5])
    ops = [('create', 0, fmt, hints)]
    v = -1
    if isvar:
        ops.append(('def_var', 0, b'v', 4, [])); v = 0
    k = rng.range(5 if fixed is not None else 4, 8)
    live = pool[:k]; spare = pool[k:]
    for i, n in enumerate(live):
        ops.append(('put_att', 0, v, n, 4, [i, i + 1]))
    ops += churn_probes(0, v, live)
    if fixed is not None:
        steps = fixed(live, spare)
    else:
        steps = None
    nsteps = rng.range(3, 10)
    stage = 0                                # 0 define, 1 data, 2 define again
    for t in range(nsteps if steps is None else len(steps)):
        if steps is not None:
            kind, a, b = steps[t]
        else:
            r = rng.below(10)
            indef = stage != 1
            if r < 4 and live and spare:
                kind, a, b = 'ren', rng.choice(live), rng.choice(spare)
            elif r < 7 and len(live) > 1 and indef:
                kind, a, b = 'del', rng.choice(live), None
            elif r < 8 and spare and indef:
                kind, a, b = 'new', rng.choice(spare), None
            elif live:
                kind, a, b = 'over', rng.choice(live), None
            else:
                continue
        if kind == 'ren':
            ops.append(('rename_att', 0, v, a, b)); live[live.index(a)] = b; spare.remove(b); spare.append(a)
        elif kind == 'del':
            ops.append(('del_att', 0, v, a)); live.remove(a); spare.append(a)
        elif kind == 'new':
            ops.append(('put_att', 0, v, a, 4, [7])); live.append(a); spare.remove(a)
        else:
            ops.append(('put_att', 0, v, a, 4, [t]))
        ops += churn_probes(0, v, live + spare[:1])
        if steps is None and rng.chance(1, 5):
            if stage == 0:
                ops += [('enddef', 0)] + churn_probes(0, v, live); stage = 1
            elif stage == 1:
                ops += [('redef', 0)] + churn_probes(0, v, live); stage = 2
    if stage != 1:
        ops += [('enddef', 0)] + churn_probes(0, v, live)
    ops += [('redef', 0)] + churn_probes(0, v, live)
    ops += [('close', 0), ('open', 0, 1, hints)] + churn_probes(0, v, live) + [('close', 0)]
    return ops

def churn_fixed_family():
    """every (rename x -> fresh colliding name, delete y) pair and (delete y, rename x) pair over a list of 5"""
    fam = []
    for order in (0, 1):
        for x in range(5):
            for y in range(5):
                if x == y:
                    continue
                def f(live, spare, x=x, y=y, order=order):
                    a, b, z = live[x], live[y], spare[0]
                    return [('ren', a, z), ('del', b, None)] if order == 0 else [('del', b, None), ('ren', a, z)]
                fam.append(f)
    return fam

SMALL_NAMES = None
def init_small_names():
    """three short names in the same bucket of a 2-entry table under the model's hash, one of them with a
    non-ASCII byte"""
    global SMALL_NAMES
    c = [b'a', b'b', b'c', b'd', b'e', b'f', b'\xc3\xa9', b'g', b'h']
    k0 = [n for n in c if bernstein(n, 2) == 0]
    k1 = [n for n in c if bernstein(n, 2) == 1]
    SMALL_NAMES = (k0 if len(k0) >= 3 else k1)[:3]

def run_batch(hists, impl, mexe, workdir, tag):
    """many single-slot histories in one script / one model run"""
    ops = [o for h in hists for o in h]
    hist = dict(nprocs=1, nslots=1, ops=ops)
    return hist, run_history(hist, impl, mexe, workdir, tag, timeout=900)

# ------------------------------------------------------------------ the check
def probe_hash0(ctx, workdir):
    """nc_hash_size_* = 0 is accepted by the hint code (only < 0 falls back to the default): calloc(0) table,
    mask -1 => nameT[key] out of bounds.  The model predicts UB; ASan observes it."""
    ops = [('create', 0, 1, (0, None, None, None)), ('def_dim', 0, b'x', 5), ('def_dim', 0, b'y', 7),
           ('inq_dimid', 0, b'y'), ('close', 0)]
    lib = C.libdir('asan')
    impl = S.impl_exe(lib, asan=True)
    script, where = script_of(ops, 1)
    r = S.run_script(script, impl, None, workdir, 'hash0', timeout=120, want_model=False,
                     env={'ASAN_OPTIONS': 'detect_leaks=0:abort_on_error=0'})
    asan_hit = bool(r.crash) and ('AddressSanitizer' in (r.stdout or '') or 'runtime error' in (r.stdout or ''))
    where_txt = ''
    m = re.search(r'SUMMARY: AddressSanitizer: (\S+) \S*?(src/drivers/\S+) in (\S+)', r.stdout or '')
    if m:
        where_txt = '%s in %s (%s)' % (m.group(1), m.group(3), m.group(2))
    return ops, asan_hit, where_txt, (r.stdout or '')[-1500:]

def probe_xfmt_copy(impl, mexe, workdir):
    """copy_att of an attribute with a CDF-5-only type into a CDF-1 file"""
    ops = [('create', 0, 5, (None,) * 4), ('create', 1, 1, (None,) * 4),
           ('put_att', 0, -1, b'a', 10, [7]), ('copy_att', 0, -1, b'a', 1, -1), ('inq', 1),
           ('close', 1), ('open', 1, 0, (None,) * 4), ('close', 0)]
    hist = dict(nprocs=1, nslots=2, ops=ops)
    script, where = script_of(ops, 1)
    r = S.run_script(script, impl, None, workdir, 'xfmt', timeout=60, want_model=False)
    rc_copy = int(r.impl.get((where[3], 0), ['', '-1'])[1])
    rc_close = int(r.impl.get((where[5], 0), ['', '-1'])[1])
    rc_open = int(r.impl.get((where[6], 0), ['', '-1'])[1])
    ml, err = run_model(mexe, 2, flat_of(ops, {}), workdir, 'xfmt')
    return hist, rc_copy, rc_close, rc_open, ml

def run(ctx):
    lib = C.libdir()
    impl = S.impl_exe(lib)
    hexe = C.build_c(lib, [os.path.join(C.VERIF, 'harness', 'c07_hash.c')], 'c07_hash',
                     extra=['-I' + os.path.join(lib, 'gen', 'src', 'drivers', 'ncmpio')])
    pr = C.prove(ctx.pid, gens=('consts',), lib=lib)
    proof_ok = ctx.add_proof(pr, 'make Properties_C07.vo (coqc 8.16.1, full .vo) + Print Assumptions')
    ctx.cov['trusted_base'] = list(C.TRUSTED_COMMON) + [
        'harness/c07_driver.ml (integer I/O only; the op decoder dec_items is in Coq)',
        'harness/c07_hash.c (prints HASH_FUNC), harness/pnc_impl.c (script driver)',
        'checks/C07.py: history generator, flat encoder, log parser, comparison']
    if not proof_ok:
        ctx.violation('proof obligations of Properties_C07.v not discharged: %s' % ', '.join(pr['failed'][:5]),
                      dict(log=pr['log'][-3000:]), no_input=True)
    mexe = model_exe()
    wd = C.scratch('c07.')
    rng = ctx.rng
    thorough = ctx.tier == 'thorough'
    dist = dict(ops={}, rc={}, hsizes={}, nprocs={}, fmt={}, name_len_max=0, utf8_names=0, max_bucket_occupancy={},
                datamode_updates_ok=0, ok_modifications=0, histories=0, batched_small_histories=0,
                hash_points=0, reopen_dumps_compared=0, snapshots_compared=0)

    # ---- (1) hash tie: Meta.bernstein == HASH_FUNC of the library == generator's mirror
    hr = rng.fork('hash')
    pts = []
    for i in range(3000 if thorough else 600):
        n = rand_valid_name(hr, hr.choice([1, 2, 5, 17, 100, 256])) if hr.chance(3, 4) else \
            bytes(hr.range(1, 255) for _ in range(hr.range(1, 40)))
        pts.append((hr.choice([1, 2, 3, 4, 5, 6, 7, 8, 16, 64, 256, 1000, 65536, 2 ** 30, 0]), n))
    hp = os.path.join(wd, 'hash.txt')
    open(hp, 'w').write(''.join('%d %s\n' % (h, n.hex()) for h, n in pts))
    rc, out = C.sh([hexe, hp], timeout=120)
    cvals = [int(x) for x in out.split()] if rc == 0 else []
    flat = []
    for h, n in pts:
        flat += [20, h] + nm_flat(n)
    mvals, err = run_model(mexe, 1, flat, wd, 'hash')
    bad = None
    if len(cvals) != len(pts) or mvals is None or len(mvals) != len(pts):
        bad = 'hash harness/model produced %d/%s values for %d points (%s)' % (len(cvals), mvals and len(mvals), len(pts), err)
    else:
        for (h, n), cv, mv in zip(pts, cvals, mvals):
            if not (cv == mv[0] == bernstein(n, h)):
                bad = 'HASH_FUNC(%s,%d): library %d, Meta.bernstein %d, generator %d' % (n.hex(), h, cv, mv[0], bernstein(n, h))
                break
            if h > 0 and not (0 <= cv < h):
                bad = 'HASH_FUNC(%s,%d) = %d outside [0,hsize)' % (n.hex(), h, cv)
                break
    dist['hash_points'] = len(pts)
    if bad:
        ctx.violation('corr_C07_hash: ' + bad, dict(detail=bad), no_input=True)
    # generator's NFC table == model's nfc_tab; check_name agrees on the bad-name dictionary (through def_dim below)
    nf = rng.fork('nfc')
    names = [rand_valid_name(nf, nf.choice([3, 10, 60])) for _ in range(200)] + [k for k, _ in NFC_PAIRS]
    flat = []
    for n in names:
        flat += [21] + nm_flat(n)
    mv, err = run_model(mexe, 1, flat, wd, 'nfc')
    if mv is None or len(mv) != len(names) or any(bytes(a) != nfc_tab(n) for a, n in zip(mv, names)):
        ctx.violation('corr_C07_nfc_table: generator NFC table differs from Meta.nfc_tab', dict(err=str(err)), no_input=True)

    # ---- (2) regression cases for the two defects found while building the model (repaired in /repo by
    #      c39b68a0 and 549716e0; no key suppression: if they come back they are violations)
    ops0, asan_hit, where_txt, tail = probe_hash0(ctx, wd)
    h0 = dict(nprocs=1, nslots=1, ops=ops0)
    r0 = run_history(h0, impl, mexe, wd, 'hash0m')
    ctx.count('hash-size-0 regression ' + hist_repr(h0), nontrivial=True)
    dist['hash0_regression'] = dict(model_predicts_out_of_bounds=(r0['ub_at'] is not None), asan_reports=asan_hit,
                                    where=where_txt)
    if asan_hit:
        ctx.violation('hint nc_hash_size_dim=0 is accepted; def_dim then indexes nameT[] out of bounds '
                      '(AddressSanitizer: %s)' % where_txt,
                      dict(ops=json_ops(ops0), nprocs=1, nslots=1, variant='asan', asan_tail=tail), key='hash-size-hint-0:oob')
    else:
        judge(ctx, h0, r0, impl, mexe, wd, set(), 'hash-size-0 regression case')
    hx_, rc_copy, rc_close, rc_open, mlx = probe_xfmt_copy(impl, mexe, wd)
    rx = run_history(hx_, impl, mexe, wd, 'xfmtm')
    ctx.count('cross-format copy regression ' + hist_repr(hx_), nontrivial=True)
    dist['xfmt_copy_regression'] = dict(copy_rc=rc_copy, close_rc=rc_close, reopen_rc=rc_open)
    if rc_copy == 0 and rc_close == 0 and rc_open != 0:
        ctx.violation('ncmpi_copy_att copies an attribute of a CDF-5-only type (NC_INT64) into a CDF-1 file without '
                      'NC_ESTRICTCDF2; close succeeds and the file cannot be reopened (rc %d): content is not found '
                      'after close and reopen' % rc_open,
                      dict(ops=json_ops(hx_['ops']), nprocs=1, nslots=2), key='copy_att:cdf5-type-into-classic-file')
    else:
        judge(ctx, hx_, rx, impl, mexe, wd, set(), 'cross-format copy regression case')

    # ---- (3) random long histories
    nh = 2600 if thorough else 120
    hists = []
    for k in range(nh):
        hists.append(gen_history(rng.fork('h%d' % k), ctx.tier))
    def one(kh):
        k, h = kh
        r = run_history(h, impl, mexe, wd, 'h%d' % k)
        if r['hang'] or r['crash']:
            # mpiexec under load occasionally loses a rank at MPI_Finalize: only a reproducible fault counts
            with RETRY_LOCK:
                r = run_history(h, impl, mexe, wd, 'h%dr' % k, timeout=900)
        return k, h, r
    reported = set()
    with cf.ThreadPoolExecutor(max_workers=8) as ex:
        for k, h, r in ex.map(one, enumerate(hists)):
            account(ctx, dist, h, r)
            judge(ctx, h, r, impl, mexe, wd, reported, 'random history %d' % k)

    # ---- (4) exhaustive short histories over 3 colliding names
    init_small_names()
    plans = [('att', 4, True), ('dim', 4, True), ('var', 4, False)] if thorough else \
            [('att', 3, True), ('dim', 3, False), ('var', 2, False)]
    batches = []
    for kind, depth, tog in plans:
        cur = []
        for hh in small_histories(kind, depth, tog):
            cur.append(hh)
            if len(cur) >= 700:
                batches.append((kind, depth, cur)); cur = []
        if cur:
            batches.append((kind, depth, cur))
    def oneb(x):
        i, (kind, depth, hs) = x
        hist, r = run_batch(hs, impl, mexe, wd, 'b%d' % i)
        return kind, depth, hs, hist, r
    with cf.ThreadPoolExecutor(max_workers=8) as ex:
        for kind, depth, hs, hist, r in ex.map(oneb, enumerate(batches)):
            dist['batched_small_histories'] += len(hs)
            for hh in hs[:3]:
                ctx.count('small %s ' % kind + hist_repr(dict(nprocs=1, nslots=1, ops=hh)), nontrivial=True)
            ctx.cov['evaluations'] += max(0, len(hs) - 3)
            judge(ctx, hist, r, impl, mexe, wd, reported, 'exhaustive %s histories depth<=%d' % (kind, depth), small=hs)

    # ---- (5) attribute-list churn: lists of 4-8 attributes in one bucket, rename/delete/put in random order,
    #      by-name and by-id lookups of all survivors after every step, after enddef/redef and close/open
    cr = rng.fork('churn')
    chs = [churn_history(cr.fork('f%d' % i), fixed=f) for i, f in enumerate(churn_fixed_family())
           for _ in range(2 if thorough else 1)]
    chs += [churn_history(cr.fork('c%d' % i)) for i in range(6000 if thorough else 360)]
    cb = [chs[i:i + 60] for i in range(0, len(chs), 60)]
    def onec(x):
        i, hs = x
        hist, r = run_batch(hs, impl, mexe, wd, 'c%d' % i)
        return hs, hist, r
    with cf.ThreadPoolExecutor(max_workers=8) as ex:
        for hs, hist, r in ex.map(onec, enumerate(cb)):
            dist['attr_churn_histories'] = dist.get('attr_churn_histories', 0) + len(hs)
            for hh in hs[:2]:
                ctx.count('churn ' + hist_repr(dict(nprocs=1, nslots=1, ops=hh)), nontrivial=True)
            ctx.cov['evaluations'] += max(0, len(hs) - 2)
            judge(ctx, hist, r, impl, mexe, wd, reported, 'attribute-list churn', small=hs)

    ctx.cov['rule'] = ('random histories of 30-160 API calls over 1-2 files (formats 1/2/5), 1-2 ranks, name-table hint sizes '
                       'from {none,1,2,3,4,5,6,8,16,64,256,negative}; name pool of 6-14 names searched so that most share one '
                       'bucket of the largest table under the model\'s own hash, lengths up to 256 and beyond, UTF-8 '
                       'composed/decomposed pairs, illegal names; every return code, id, inquiry dump, lookup and on-disk '
                       'header compared with the extracted Coq model; plus all histories of <= 2-3 (quick) / <= 4 (thorough) ops '
                       'over 3 colliding names for attributes, dimensions, variables; plus a targeted family: one attribute list of 4-8 names sharing a bucket (hash size 1, 2, or default size with colliding names), rename_att/del_att/put_att in random order (and every rename-then-delete / delete-then-rename pair over a list of 5), each step followed by the dump by id and by-name lookups of all survivors, repeated after enddef, redef and close+open. Non-trivial = at least one successful '
                       'rename/delete/overwrite/copy after a successful definition (from the library\'s own return codes).')
    ctx.cov['distribution'] = dist

RETRY_LOCK = threading.Lock()
MODIFY = ('rename_dim', 'rename_var', 'rename_att', 'del_att', 'copy_att')

def account(ctx, dist, h, r):
    ops = h['ops']
    dist['histories'] += 1
    dist['nprocs'][str(h['nprocs'])] = dist['nprocs'].get(str(h['nprocs']), 0) + 1
    okmod = 0; okdef = 0
    script, where = script_of(ops, h['nprocs'])
    rcs = {}
    for l in r.get('impl_rcs', []):
        pass
    for i, o in enumerate(ops):
        dist['ops'][o[0]] = dist['ops'].get(o[0], 0) + 1
        if o[0] in ('create', 'open'):
            for v, key in zip(o[3], ('dim', 'var', 'gatt', 'vatt')):
                kk = '%s=%s' % (key, 'none' if v is None else v)
                dist['hsizes'][kk] = dist['hsizes'].get(kk, 0) + 1
            if o[0] == 'create':
                dist['fmt'][str(o[2])] = dist['fmt'].get(str(o[2]), 0) + 1
        for x in o:
            if isinstance(x, bytes):
                dist['name_len_max'] = max(dist['name_len_max'], len(x))
                if any(c > 127 for c in x):
                    dist['utf8_names'] += 1
    for (i, rc) in r.get('rcs', []):
        k = ops[i][0]
        dist['rc'][str(rc)] = dist['rc'].get(str(rc), 0) + 1
        if rc == 0 and k in MODIFY: okmod += 1
        if rc == 0 and k in ('def_dim', 'def_var', 'put_att'): okdef += 1
    # collisions under the model's own hash: largest bucket among the names this history uses, per table size
    names = {nfc_tab(x) for o in ops for x in o if isinstance(x, bytes) and 0 < len(x) <= 256}
    for o in ops:
        if o[0] == 'create':
            for v, key in zip(o[3], ('dim', 'var', 'gatt', 'vatt')):
                hsz = eff_size(v, DEFAULTS[key])
                occ = {}
                for n in names:
                    k = bernstein(n, hsz); occ[k] = occ.get(k, 0) + 1
                mo = max(occ.values()) if occ else 0
                cur = dist['max_bucket_occupancy'].setdefault(str(hsz), [0, 0])
                cur[0] = max(cur[0], mo); cur[1] += 1 if mo >= 3 else 0
            break
    dist['ok_modifications'] += okmod
    dist['datamode_updates_ok'] += r.get('datamode_ok', 0)
    dist['snapshots_compared'] += sum(1 for o in ops if o[0] == 'snapshot')
    dist['reopen_dumps_compared'] += sum(1 for o in ops if o[0] == 'open')
    ctx.count(hist_repr(h), nontrivial=(okmod > 0 and okdef > 0))

def judge(ctx, h, r, impl, mexe, wd, reported, what, small=None):
    """verdict protocol for one (batched) history"""
    if small is not None:
        first = r['mism'][0][0] if r['mism'] else (r['oracle'][0][1] if r['oracle'] else r['ub_at'])
        if first is not None:
            acc = 0
            for hh in small:
                if acc <= first < acc + len(hh):
                    h1 = dict(nprocs=1, nslots=1, ops=hh)
                    r1 = run_history(h1, impl, mexe, wd, 'single')
                    if r1['mism'] or r1['oracle'] or r1['ub_at'] is not None or r1['crash'] or r1['hang']:
                        return judge(ctx, h1, r1, impl, mexe, wd, reported, what)
                    break
                acc += len(hh)
    ops = h['ops']
    rep = dict(nprocs=h['nprocs'], nslots=h['nslots'], ops=json_ops(ops))
    def shrunk(pred):
        if small is not None or len(ops) > 400:
            return rep
        try:
            hs = shrink_history(h, lambda hh: pred(run_history(hh, impl, mexe, wd, 'shr')), budget=40)
            return dict(nprocs=hs['nprocs'], nslots=hs['nslots'], ops=json_ops(hs['ops']))
        except Exception:
            return rep
    if r.get('undecodable') is not None:
        i = r['undecodable']
        key = 'reopen-fails:' + (r.get('undecodable_why') or 'unknown')
        if key not in reported:
            reported.add(key)
            ctx.violation('%s: the library wrote and closed a file without error, the format-specification decoder rejects '
                          'the header (%s); library reopen rc %s' % (what, r.get('undecodable_why'), r.get('undecodable_rc')),
                          rep, key=key)
        return
    if r['oracle']:
        kinds = sorted({m[0] for m in r['oracle']})
        key = 'oracle:' + '+'.join(kinds)
        if key not in reported:
            reported.add(key)
            ctx.violation('%s: %s' % (what, '; '.join('%s at op %d rank %d: %s' % m for m in r['oracle'][:3])),
                          shrunk(lambda rr: bool(rr['oracle'])), key=key)
        return
    if r['hang'] or r['crash']:
        last = r.get('last_op')
        key = ('hang:' if r['hang'] else 'crash:') + str(last)
        if key not in reported:
            reported.add(key)
            ctx.violation('%s: implementation %s at/after script line of op %s: %s'
                          % (what, 'hangs' if r['hang'] else 'crashes', last, (r['crash'] or '')[-400:]), rep, key=key)
        return
    if r['model_err'] or r['ub_at'] is not None or r['mism']:
        if 'corr' in reported:
            return
        reported.add('corr')
        if r['model_err']:
            txt = 'model run failed: %s' % r['model_err']
        elif r['ub_at'] is not None:
            txt = 'the model predicts an out-of-bounds access at op %d %r; the library shows no fault' % (r['ub_at'], ops[r['ub_at']])
        else:
            txt = '; '.join('op %d %r rank %d: %s' % (i, ops[i][:3], rk, m) for i, rk, m in r['mism'][:3])
        ctx.violation('corr_C07_history (%s): model and library disagree while the oracle on the library passes: %s'
                      % (what, txt), shrunk(lambda rr: same_kind(r, rr)), no_input=True)

def mism_kind(m):
    return re.sub(r'[0-9]+', '#', m.split(':')[0])[:40]

def same_kind(r, rr):
    if r['ub_at'] is not None:
        return rr['ub_at'] is not None
    if not r['mism'] or not rr['mism']:
        return False
    return mism_kind(r['mism'][0][2]) in {mism_kind(x[2]) for x in rr['mism']} and \
        not any('does not cover' in x[2] for x in rr['mism'])

def replay(ctx, d):
    lib = C.libdir(d.get('variant', 'default'))
    impl = S.impl_exe(lib, asan=(d.get('variant') == 'asan'))
    mexe = model_exe()
    wd = C.scratch('c07r.')
    h = dict(nprocs=d['nprocs'], nslots=d['nslots'], ops=unjson_ops(d['ops']))
    r = run_history(h, impl, mexe, wd, 'replay', env={'ASAN_OPTIONS': 'detect_leaks=0'} if d.get('variant') == 'asan' else None)
    print(r['script'])
    for k in ('hang', 'crash', 'mism', 'oracle', 'ub_at', 'model_err', 'undecodable', 'undecodable_rc'):
        print(k, '=', r.get(k))
    return 1 if (r['hang'] or r['crash'] or r['mism'] or r['oracle'] or r.get('undecodable') is not None) else 0
