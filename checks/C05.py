"""C05 Record count stays coherent across processes, memory and file header.

PROVED (coq/Properties_C05.v, model coq/Numrecs.v, proofs coq/Proofs_Numrecs.v; induction over
arbitrary operation lists, arbitrary number of ranks, record indices, wait subsets; independent
operations of different ranks are separate list elements, so every relative timing of the ranks
is one of the quantified lists):
  for req_commit's newnumrecs loop AS WRITTEN in the snapshot (over the queue HEAD, commit_loop, run_head):
    numrecs_monotone_head, coll_agree_head (all ranks equal = header field in collective mode, never above
    max(N0, written)), indep_sync_agree_head; coll_coherent_full / indep_then_sync_full /
    completed_write_readable_full are REFUTED (F1: witness histories replayed on the library by this
    check) and proved under the hypothesis that every wait finds its record requests among the first k
    queue entries (_partial);
  for the corrected loop (commit_fixed): coll_coherent, indep_then_sync, numrecs_monotone,
    completed_write_readable in full.
TIE: the variant (loop bound) is read from the sources as built; histories (directed witnesses, all
words of <= 3 (quick) / <= 4 (thorough) letters over a 19-letter alphabet on 2 ranks with one record
and one fixed variable, random histories on 2-4 ranks with sleeps) are executed by the real library
through harness/pnc_impl.c and by the model (vm_compute), and every observation is diffed:
inq_numrecs and inq_nreqs of every rank after every call, the header field on disk after every
collective call, return code of a read-back of the highest written record.
Puts whose data contain a value not representable in the variable's type (R is NC_SHORT, memory type int)
return NC_ERANGE and DO write: they count as completed writes (model: PRecE; put_varm's condition
`status == NC_NOERR || status == NC_ERANGE` is read from the sources as built; the variant without the disjunct,
run_noerange, is refuted by a witness and proved for histories without such puts).
ORACLE (property text only) on the implementation's observations: equality across ranks, = 1 +
highest record written, header equal, never decreasing, written records readable."""
import os, re, time, concurrent.futures as cf
from pnc import common as C, scripts as S, c05_gen as G

LEVEL = 'proof'
ASSUMPTIONS = [
    'MPI_Allreduce(MAX) and root MPI_File_write_at of the numrecs field are modelled (they succeed and are atomic); MPI-IO, file system not verified',
    'one file with a record variable, opened for writing; safe mode off, NC_HCOLL off, no intra-node aggregation, burst buffering, subfiling; vard API not modelled',
    'mode flags are single fields of the model (only collective calls change them); request ids abstracted to tags; get requests absent',
    'a wait naming a non-pending id (NC_EINVAL_REQUEST) leaves the model state unchanged; stale NC_REQ_TO_FREE flags belong to C02',
    'real timing is sampled (sleeps, 2-4 ranks); the theorems quantify over all interleavings of the per-rank programs',
]
CHECKER_CMD = 'coq_makefile -f _CoqProject -o Makefile && make -k -j16 Properties_C05.vo && coqc -Q . Pnc Properties_C05.v (Print Assumptions)'

LOOP_RE = re.compile(
    r'newnumrecs=ncp->numrecs;for\(i=0;i<([A-Za-z_>\-]+);i\+\+\)\{'
    r'if\(!IS_RECVAR\(ncp->put_lead_list\[i\]\.varp\)\|\|!fIsSet\(ncp->put_lead_list\[i\]\.flag,NC_REQ_TO_FREE\)\|\|'
    r'fIsSet\(ncp->put_lead_list\[i\]\.flag,NC_REQ_SKIP\)\)continue;'
    r'newnumrecs=MAX\(newnumrecs,ncp->put_lead_list\[i\]\.max_rec\);\}')


def detect_loop(lib):
    """which newnumrecs loop does req_commit contain in the sources as built?
    'head' (as written: i < num_w_lead_reqs), 'fixed' (i < ncp->numLeadPutReqs), None = not recognised"""
    p = os.path.join(lib, 'gen', 'src', 'drivers', 'ncmpio', 'ncmpio_wait.c')
    try:
        txt = open(p).read()
    except OSError:
        return None, 'cannot read ' + p
    txt = re.sub(r'/\*.*?\*/', '', txt, flags=re.S)
    txt = re.sub(r'\s+', '', txt)
    m = LOOP_RE.findall(txt)
    if len(m) != 1:
        return None, 'newnumrecs loop of req_commit not recognised (%d matches)' % len(m)
    if m[0] == 'num_w_lead_reqs':
        return 'head', m[0]
    if m[0] == 'ncp->numLeadPutReqs':
        return 'fixed', m[0]
    return None, 'unknown loop bound ' + m[0]


ERANGE_RE = re.compile(r'if\(nelems>0&&(\(status==NC_NOERR\|\|status==NC_ERANGE\)|status==NC_NOERR|\(status==NC_NOERR\))\)\{if\(stride==NULL\)new_numrecs=start\[0\]\+count\[0\];')


def detect_erange(lib):
    """does put_varm compute new_numrecs for a put that returns NC_ERANGE?  True (`status == NC_NOERR ||
    status == NC_ERANGE`), False (only NC_NOERR), None = condition not recognised"""
    p = os.path.join(lib, 'gen', 'src', 'drivers', 'ncmpio', 'ncmpio_getput.c')
    try:
        txt = open(p).read()
    except OSError:
        return None, 'cannot read ' + p
    txt = re.sub(r'/\*.*?\*/', '', txt, flags=re.S)
    txt = re.sub(r'\s+', '', txt)
    m = ERANGE_RE.findall(txt)
    if len(m) != 1:
        return None, 'new_numrecs condition of put_varm not recognised (%d matches)' % len(m)
    return ('ERANGE' in m[0]), m[0]


def impl_path(impl):
    """the harness binary lives in the content-addressed library cache, which a concurrent build of
    another tree may evict; rebuild it then (same tree hash -> same library)"""
    if not os.path.isfile(impl):
        with C.Lock('c05-rebuild'):
            if not os.path.isfile(impl):
                C._libcache.pop('default', None)
                lib = C.libdir()
                new = S.impl_exe(lib)
                if new != impl:
                    raise C.BuildFailure('the library of the tree under test changed while the check was running (%s -> %s)' % (impl, new))
    return impl


BASE_WATCHDOG = 90          # seconds for one history run alone (a history takes < 2 s on an idle machine)
CONFIRM_FACTOR = 4          # serial confirmation runs get BASE_WATCHDOG * CONFIRM_FACTOR
MODEL = dict(loop='fixed', er=True)   # model variant tied to the sources as built (set by run)
CONFIRMED = {}              # failure kind -> True once a failure of that kind has been confirmed in this check run


def run_alone(h, impl, wd, tag, timeout):
    """one history, one mpiexec.  status ok / hang (watchdog, partial log) / crash (partial log, launcher
    returned an error) / norun (nothing was logged: the harness never started)"""
    t1, b1 = G.batch_script([h])
    r1 = S.run_script(t1, impl_path(impl), None, wd, tag, want_model=False, timeout=timeout)
    try:
        # a history whose log is complete has run, whatever happened to the launcher afterwards
        lay, obs = G.observe(h, r1.impl, b1[0])
        return dict(h=h, status='ok', lay=lay, obs=obs)
    except (KeyError, IndexError, ValueError) as e:
        if not r1.impl:
            return dict(h=h, status='norun', lay=None, obs=None, detail='launcher produced no log: ' + (r1.stdout or '')[-300:])
        if r1.hang:
            return dict(h=h, status='hang', lay=None, obs=None,
                        detail='watchdog (%d s); last logged line: %s' % (timeout, max(r1.impl)))
        return dict(h=h, status='crash', lay=None, obs=None, detail=(r1.crash or str(e))[-500:])


def run_impl(hists, impl, wd, jobs=8, batch=30, tag='b', stats=None):
    """execute the histories on the real library; returns list of dict(h, status, lay, obs).
    Phase 1 (parallel): batches; a history whose log is incomplete is rerun alone.
    Phase 2 (serial, nothing else running): every hang / crash / start-up failure of phase 1 is a SUSPECT
    only; it is rerun alone with a CONFIRM_FACTOR times longer watchdog, twice, and reported only if it
    fails both times (a deadlock or a crash of the library is deterministic; a watchdog that expired or a
    launcher that stalled because the machine is loaded is not).  Once one failure of a kind is confirmed,
    further suspects of that kind are not confirmed again (status <kind>-unconfirmed, counted, not judged)."""
    stats = stats if stats is not None else {}
    groups = {}
    for i, h in enumerate(hists):
        groups.setdefault(h.np, []).append(i)
    batches = []
    for np_, idxs in sorted(groups.items()):
        for j in range(0, len(idxs), batch):
            batches.append(idxs[j:j + batch])
    res = [None] * len(hists)

    def one(args):
        bi, idxs = args
        hs = [hists[i] for i in idxs]
        text, bases = G.batch_script(hs)
        r = S.run_script(text, impl_path(impl), None, wd, '%s%d' % (tag, bi), want_model=False, timeout=60 + 6 * len(hs))
        out = []
        for h, i, base in zip(hs, idxs, bases):
            try:
                lay, obs = G.observe(h, r.impl, base)
                out.append((i, dict(h=h, status='ok', lay=lay, obs=obs)))
            except (KeyError, IndexError, ValueError):
                out.append((i, run_alone(h, impl, wd, '%s%d-%d' % (tag, bi, i), BASE_WATCHDOG)))
        return out

    with cf.ThreadPoolExecutor(max_workers=jobs) as ex:
        for out in ex.map(one, list(enumerate(batches))):
            for i, d in out:
                res[i] = d
    # ---- phase 2: serial confirmation of the suspects, smallest history first
    suspects = sorted([i for i, d in enumerate(res) if d['status'] != 'ok'], key=lambda i: (len(hists[i].lines), i))
    for i in suspects:
        kind = res[i]['status']
        stats['suspects_' + kind] = stats.get('suspects_' + kind, 0) + 1
        if CONFIRMED.get(kind):
            res[i]['status'] = kind + '-unconfirmed'
            continue
        last = None
        for attempt in (1, 2):
            last = run_alone(hists[i], impl, wd, '%sc%d-%d' % (tag, i, attempt), BASE_WATCHDOG * CONFIRM_FACTOR)
            if last['status'] == 'ok':
                break
        if last['status'] == 'ok':
            key = {'hang': 'not_reproduced_hangs', 'crash': 'not_reproduced_crashes', 'norun': 'not_reproduced_startup_failures'}[kind]
            stats[key] = stats.get(key, 0) + 1
            res[i] = last
        else:
            last['detail'] = 'confirmed: failed again in 2 serial reruns with a %d s watchdog; %s' % (BASE_WATCHDOG * CONFIRM_FACTOR, last.get('detail'))
            res[i] = last
            CONFIRMED[last['status']] = True
    return res


def run_model(items, wd, jobs=8, shard=300, stats=None):
    """items: list of (np, ops_term) -> list of (trace, head_ok over the history) of the model variant MODEL"""
    shards = [items[i:i + shard] for i in range(0, len(items), shard)]

    def one(args, timeout=900):
        si, its = args
        p = os.path.join(wd, 'cases_%d.v' % si)
        open(p, 'w').write(G.cases_v(its, MODEL['loop'], MODEL['er']))
        rc, out = C.sh(['coqc', '-Q', C.COQ, 'Pnc', '-w', '-all', p], timeout=timeout, cwd=wd)
        if rc == -9:
            return None                       # watchdog: confirmed serially below
        if rc != 0:
            raise C.BuildFailure('model evaluation failed (cases_%d.v):\n%s' % (si, out[-2000:]))
        r = G.parse_coq_out(out)
        if len(r) != len(its):
            raise C.BuildFailure('model evaluation: %d results for %d cases' % (len(r), len(its)))
        return r

    parts = []
    with cf.ThreadPoolExecutor(max_workers=jobs) as ex:
        for r in ex.map(one, list(enumerate(shards))):
            parts.append(r)
    for si, r in enumerate(parts):
        if r is None:
            # a shard of 300 small histories takes seconds; a watchdog here is machine load: serial rerun, 4x
            r = one((si, shards[si]), timeout=3600)
            if r is None:
                raise C.BuildFailure('model evaluation of cases_%d.v exceeded 3600 s run alone' % si)
            if stats is not None:
                stats['not_reproduced_model_timeouts'] = stats.get('not_reproduced_model_timeouts', 0) + 1
            parts[si] = r
    res = []
    for r in parts:
        res.extend(r)
    return res


def gen_spec(h):
    n = h.name
    if re.match(r'^x\d+:', n):
        v, w = n[1:].split(':', 1)
        return dict(type='exhaustive', variant=int(v), word=w.split(','), fmt=h.fmt)
    if re.match(r'^r\d+$', n):
        return dict(type='random', idx=int(n[1:]))
    return dict(type='directed', name=n)


def regen(spec, seed):
    if spec['type'] == 'exhaustive':
        return G.word_hist(spec['word'], spec['variant'], spec.get('fmt', 1))
    if spec['type'] == 'random':
        rng = C.SplitMix64(seed * 0x10001 + C.hash_str('C05')).fork('r-%d' % spec['idx'])
        return G.random_hist(rng, spec['idx'])
    for h in G.directed():
        if h.name == spec['name']:
            return h
    raise ValueError(spec)


def evaluate(ctx, hists, impl, wd, variant, stats, tag):
    """run on implementation + model, oracle + correspondence.  Returns (oracle_fails, disagreements)"""
    t0 = time.time()
    res = run_impl(hists, impl, wd, tag=tag, stats=stats)
    stats['impl_s'] = stats.get('impl_s', 0) + round(time.time() - t0, 1)
    ok = [d for d in res if d['status'] == 'ok']
    t0 = time.time()
    mres = run_model([(d['h'].np, d['h'].model_ops(d['lay'])) for d in ok], wd, stats=stats)
    stats['model_s'] = stats.get('model_s', 0) + round(time.time() - t0, 1)
    oracle_fails = []; disagreements = []
    for d in res:
        h = d['h']
        nontriv = any(any(x > 0 for x in st['done']) for st in h.steps)
        ctx.count(h.name + '\n' + '\n'.join(h.lines), nontrivial=nontriv and d['status'] == 'ok')
        stats['histories'] += 1
        stats['nprocs'][str(h.np)] = stats['nprocs'].get(str(h.np), 0) + 1
        stats['format'][str(h.fmt)] = stats['format'].get(str(h.fmt), 0) + 1
        for st in h.steps:
            stats['steps'][st['kind']] = stats['steps'].get(st['kind'], 0) + 1
            if st.get('subset'):
                stats['subset_waits'] += 1
            if st.get('erange') and any(st['erange']):
                stats['steps_with_erange_put'] = stats.get('steps_with_erange_put', 0) + 1
        if any('sleep_ms' in l for l in h.lines):
            stats['with_sleeps'] += 1
        if d['status'] != 'ok':
            stats[d['status']] = stats.get(d['status'], 0) + 1
            if d['status'] in ('hang', 'crash'):       # confirmed twice serially; norun / *-unconfirmed are counted only
                oracle_fails.append((h, [dict(kind=d['status'], step=-1, stepkind='run', detail=str(d.get('detail'))[-400:])], d))
    for d, m in zip(ok, mres):
        h = d['h']
        fails = G.oracle(h, d['obs'])
        tr, headok = m[0], m[1]
        has_erange = any(st.get('erange') and any(st['erange']) and st['kind'] in ('coll_put', 'indep_put') for st in h.steps)
        mobs = G.model_obs(h, tr)
        mism = G.compare(h, d['obs'], mobs)
        stats['observations_compared'] += sum(2 * h.np + (1 if o['hdr'] is not None else 0) + len(o['get']) for o in d['obs'])
        if not headok:
            stats['histories_outside_head_ok'] += 1
        # consistency of theorem and oracle: with the corrected loop, or when every wait is head_ok,
        # the theorems say the oracle cannot fail on the model's observations
        if fails:
            stats['oracle_failures'] += 1
            oracle_fails.append((h, fails, d))
        if mism:
            stats['model_disagreements'] += 1
            disagreements.append((h, mism, d))
        theorem_applies = (MODEL['loop'] == 'fixed' or headok) and (MODEL['er'] or not has_erange)
        if fails and not mism and theorem_applies and not any(st['misuse'] for st in h.steps):
            disagreements.append((h, [dict(step=fails[0]['step'], rel='thm_C05_partial_vs_oracle',
                                           detail='oracle fails although the proved theorem covers this history and the model agrees: ' + fails[0]['detail'])], d))
    return oracle_fails, disagreements


def report(ctx, oracle_fails, disagreements, proof_ok, pr, variant, vdetail):
    # ---- case 1: the property fails on the implementation: one violation per key, smallest history first
    by_key = {}
    for h, fails, d in oracle_fails:
        k = G.finding_key(fails[0]) if fails[0]['kind'] not in ('hang', 'crash') else 'run:' + fails[0]['kind']
        if k not in by_key or len(h.steps) < len(by_key[k][0].steps):
            by_key[k] = (h, fails, d)
    for k in sorted(by_key):
        h, fails, d = by_key[k]
        text, _ = G.batch_script([h])
        ctx.violation('%s after %s: %s' % (fails[0]['kind'], fails[0]['stepkind'], fails[0]['detail']),
                      dict(script=text, nprocs=h.np, history=h.name, gen=gen_spec(h), failures=fails[:8],
                           model_ops=h.model_ops(d['lay']) if d.get('lay') else None,
                           histories_failing_with_this_key=sum(1 for hh, ff, dd in oracle_fails if (G.finding_key(ff[0]) if ff[0]['kind'] not in ('hang', 'crash') else 'run:' + ff[0]['kind']) == k),
                           how_to_replay='./check C05 --replay <this file>   (or: save "script", run PNC_DIR=<dir> PNC_OUT=<dir>/out mpiexec -n <nprocs> <pnc_impl> <file>)'),
                      key=k)
    # ---- case 2: proof or correspondence broken and no failing input
    broken = []
    if not proof_ok:
        broken.append('theorem(s) of Properties_C05.v no longer check: %s' % ', '.join(pr['failed'])[:400])
    if variant is None:
        broken.append('tie of the model variant (Numrecs.commit_loop / part_new) to req_commit / put_varm broken: ' + vdetail)
    if disagreements:
        h, mism, d = disagreements[0]
        broken.append('correspondence %s (implementation vs model variant %s) differs in %d histories; first: %s step %d: %s'
                      % (mism[0]['rel'], variant, len(disagreements), h.name, mism[0]['step'], mism[0]['detail']))
    unknown_fail = [1 for h, fails, d in oracle_fails if not ctx.is_known(G.finding_key(fails[0]))]
    if broken and not unknown_fail:
        rep = dict(relation=broken, proof_log=pr['log'][-3000:] if not proof_ok else '',
                   note='no input was found on which the property fails on the implementation (beyond known findings); '
                        'the property is no longer shown to hold')
        if disagreements:
            h, mism, d = disagreements[0]
            rep.update(script=G.batch_script([h])[0], nprocs=h.np, mismatches=mism[:6], gen=gen_spec(h),
                       model_ops=h.model_ops(d['lay']))
        ctx.violation('; '.join(broken)[:800], rep, no_input=True)


def run(ctx):
    CONFIRMED.clear()
    lib = C.libdir()
    impl = S.impl_exe(lib)
    wd = C.scratch()
    loopv, vdetail = detect_loop(lib)
    erv, edetail = detect_erange(lib)
    MODEL.update(loop=loopv or 'head', er=True if erv is None else erv)
    variant = None if (loopv is None or erv is None) else loopv + ('' if erv else '+noerange')
    vdetail = 'req_commit loop bound: %s; put_varm new_numrecs condition: %s' % (vdetail, edetail)
    pr = C.prove('C05', gens=('consts',), lib=lib)
    proof_ok = ctx.add_proof(pr, CHECKER_CMD)
    ctx.cov['trusted_base'] = list(C.TRUSTED_COMMON) + [
        'checks/C05.py detect_loop / detect_erange (regular expressions that select commit_loop / commit_fixed from ncmpio_wait.c and the NC_ERANGE disjunct of put_varm from ncmpio_getput.c as built)',
        'pnc/c05_gen.py (script emission, rendering of histories as Coq terms, property oracle)']
    ctx.cov['model_variant'] = '%s (%s)' % (variant, vdetail)
    thorough = ctx.tier == 'thorough'
    stats = dict(histories=0, nprocs={}, format={}, steps={}, subset_waits=0, with_sleeps=0, observations_compared=0,
                 histories_outside_head_ok=0, oracle_failures=0, model_disagreements=0)
    hists = list(G.directed())
    hists += list(G.exhaustive(2, 0, 1))
    more = []
    if thorough:
        hists += list(G.exhaustive(2, 1, 5))
    else:
        # a sample of the 3-letter words
        r3 = ctx.rng.fork('w3')
        seen = set()
        while len(seen) < 800:
            w = tuple(r3.choice(G.ALPHABET) for _ in range(3))
            if w not in seen:
                seen.add(w); more.append(G.word_hist(w, 0, 1))
    nrand = 2500 if thorough else 800
    rnd = [G.random_hist(ctx.rng.fork('r-%d' % i), i) for i in range(nrand)]
    if thorough:
        hists += rnd
    else:
        # quick: the always-run part is small; the rest runs in interleaved chunks until ~90 s of wall time
        hists += rnd[:200]
        rest = rnd[200:]
        more = [x for pair in zip(more, rest) for x in pair] + more[len(rest):] + rest[len(more):]
    of, dis = evaluate(ctx, hists, impl, wd, variant or 'head', stats, 'a')
    for j in range(0, len(more), 300):
        if time.time() - ctx.t0 > 90:
            stats['quick_truncated'] = 'time budget reached after %d of %d optional histories' % (j, len(more))
            break
        of2, dis2 = evaluate(ctx, more[j:j + 300], impl, wd, variant or 'head', stats, 'm%d' % j)
        of += of2; dis += dis2
        hists += more[j:j + 300]
    # failing-input search over all words of <= 4 letters.  thorough: always (all 3-letter words, then the
    # 4-letter words without calls that the data mode rejects - such a word acts like a shorter one), in random
    # order under a time budget; quick: all words of <= 3 letters, when a proof or the correspondence is
    # broken and no failing input is known yet
    need_search = (not proof_ok or variant is None or dis) and not of
    if thorough or need_search:
        done = {h.name for h in hists}
        extra = [h for h in G.exhaustive(3, 0, 1, minlen=3) if h.name not in done]
        ctx.rng.fork('w3s').shuffle(extra)
        stats['search'] = 'all words <= 3 letters'
        if thorough:
            e4 = list(G.exhaustive(4, 0, 1, minlen=4, prune=True))
            ctx.rng.fork('w4').shuffle(e4)       # a time-limited run covers a uniform sample
            stats['search'] += ' + the %d mode-accepted words of 4 letters' % len(e4)
            extra += e4
        budget = (16 if thorough else 1.2) * 60
        covered = 0
        chunk = 4000 if thorough else 600
        for j in range(0, len(extra), chunk):
            if time.time() - ctx.t0 > budget:
                stats['search_truncated'] = 'time budget reached after %d of %d search words' % (covered, len(extra))
                break
            of2, dis2 = evaluate(ctx, extra[j:j + chunk], impl, wd, variant or 'head', stats, 's%d' % j)
            covered += len(extra[j:j + chunk])
            of += of2; dis += dis2
        stats['search_words_run'] = covered
    ctx.cov['rule'] = ('histories = directed witnesses + all words over the 19-letter alphabet %s up to the stated length '
                       '(2 ranks, record variable R + fixed variable F) + random histories (2-4 ranks, 1-2 record variables, '
                       'CDF-1/2/5, iput/bput/varn, subsets, sleeps); non-trivial = at least one record write completes and the '
                       'history ran to the end; distinct = distinct script text' % ','.join(G.ALPHABET))
    ctx.cov['distribution'] = stats
    ctx.cov['traces_validated_against_impl'] = stats['histories'] - stats.get('norun', 0)
    if stats.get('norun', 0) * 20 > stats['histories']:
        raise C.BuildFailure('the MPI launcher failed to start the harness for %d of %d histories' % (stats['norun'], stats['histories']))
    report(ctx, of, dis, proof_ok, pr, variant, vdetail)


def replay(ctx, d):
    lib = C.libdir(); impl = S.impl_exe(lib); wd = C.scratch()
    h = regen(d['gen'], int(d.get('seed', 1)))
    res = run_impl([h], impl, wd)[0]
    if res['status'] != 'ok':
        print('run status:', res['status'], res.get('detail')); return 1
    fails = G.oracle(h, res['obs'])
    for st, o in zip(h.steps, res['obs']):
        print(st['kind'], o)
    for f in fails:
        print('FAIL', f, G.finding_key(f))
    print('model ops:', h.model_ops(res['lay']))
    return 1 if fails else 0
