"""C08 Collective calls match on all ranks: no deadlock, errors stay local.

PROVED (coq/Properties_C08.v, model coq/Collective.v = per-rank sequence of MPI collective
operations of every collective API call, following dispatchers/*.c and drivers/ncmpio/*.c):
  * C08_sites_enumerated: the set of collective MPI call sites of the sources as built
    (tools/tr_collsites.py -> coq/Gen_collsites.v, regenerated on every run) equals the set of
    sites the model enumerates -- a collective added to / removed from the code breaks the proof;
  * C08_collective_match_partial: for every configuration, shared state, API, number of ranks and
    assignment of argument classes to ranks whose `sync_class` agree, all ranks execute the same
    sequence of collectives; corollaries for get, wait_all/mput/mget, puts that never reach the
    numrecs Allreduce (fixed-size variables), calls without per-rank arguments, metadata calls;
  * C08_collective_match_refuted (witness = F4) and further refutation witnesses (mixed variable
    kinds, varn scalar path, fill_var_rec, _enddef / metadata under romio_no_indep_rw);
  * C08_errors_stay_local_partial / _refuted (wait_all with an invalid request id elsewhere);
  * C08_safe_mode_uniform_partial / _refuted (fill_var_rec keeps its own error).
TIE (i) translator tr_collsites (above); (ii) correspondence: harness/c08_trace.c (PMPI
interposition + scenario driver in one binary) logs per rank and per API call the collectives with
their call site (return address -> addr2line -> site) and target; every scenario is run on the
real library (2-4 ranks) and on the model (coqc, vm_compute) and compared: per-rank site
sequences, return codes, hang prediction, stored data.  ORACLE on the implementation's own
observations: all ranks return, equal observable sequences, valid ranks get NC_NOERR and find
their data in the file, erroring ranks get their code, safe-mode codes equal on all ranks."""
import os, re, json, time, subprocess, itertools, shutil
from concurrent.futures import ThreadPoolExecutor
from pnc import common as C

LEVEL = 'proof'
ASSUMPTIONS = [
    'MPI collectives modelled: a call returns on all ranks iff all ranks of the target issue matching calls in the same order; '
    'MPI_File_{read,write}_all and _at_all on the same handle are treated as the same collective (the library pairs them by design in ncmpio_getput_zero_req)',
    'every MPI call succeeds (failures of MPI calls are property C11)',
    'burst-buffer driver and subfiling are outside the model (not compiled in the default build)',
    'intra-node aggregation: only the collective calls of the aggregated write path are modelled; under aggr=1 the correspondence compares (MPI call, target), not the call site',
    'nprocs = 1 is degenerate (no cross-rank matching); correspondence runs use 2-4 ranks',
    'real timing is sampled (one schedule per run); the model quantifies over all assignments, not over interleavings',
]

SHORT = {'MPI_Allreduce': 'AR', 'MPI_Bcast': 'BC', 'MPI_Barrier': 'BAR', 'MPI_Comm_dup': 'DUP', 'MPI_Comm_free': 'CFREE',
         'MPI_Gather': 'GA', 'MPI_Gatherv': 'GAV', 'MPI_File_open': 'FOPEN', 'MPI_File_close': 'FCLOSE',
         'MPI_File_set_view': 'SV', 'MPI_File_sync': 'FSYNC', 'MPI_File_read_all': 'RA', 'MPI_File_write_all': 'WA',
         'MPI_File_read_at_all': 'RAA', 'MPI_File_write_at_all': 'WAA'}
KIND = {'MPI_File_read_all': 'read_coll', 'MPI_File_read_at_all': 'read_coll',
        'MPI_File_write_all': 'write_coll', 'MPI_File_write_at_all': 'write_coll'}
TGT = {'W': 'TComm', 'S': 'TSelf', 'FC': 'TFhColl', 'FS': 'TFhSelf'}
GLOBAL_T = ('TComm', 'TFhColl')
WATCHDOG = 2          # seconds of the harness' per-phase alarm for scenarios the model predicts to block
WATCHDOG_OK = 8       # ... for scenarios predicted to terminate (generous: the machine may be loaded)
WATCHDOG_CONFIRM = 15 # ... when an unpredicted hang is re-run alone
SET_VIEW3 = ('S_ncmpio_file_set_view_SV1', 'S_ncmpio_file_set_view_SV2', 'S_ncmpio_file_set_view_SV3')


def site_name(func, call, n):
    return 'S_%s_%s%d' % (func, SHORT.get(call, call), n)


def err_codes(lib):
    txt = open(os.path.join(lib, 'include', 'pnetcdf.h'), errors='replace').read()
    E = {}
    for m in re.finditer(r'#define\s+(NC_E[A-Z0-9_]+)\s+\(?\s*(-?\d+)\s*\)?', txt):
        E[m.group(1)] = int(m.group(2))
    E['NC_NOERR'] = 0
    return E


# =============================================================================== scenarios
class Case:
    __slots__ = ('id', 'api', 'cls', 'safe', 'hcoll', 'aggr', 'dup', 'pre', 'mu', 'fam')

    def __init__(self, api, cls, safe=0, hcoll=0, aggr=0, dup=0, pre='', mu=0, fam=''):
        self.api, self.cls, self.safe, self.hcoll, self.aggr, self.dup, self.pre, self.mu = api, list(cls), safe, hcoll, aggr, dup, pre, mu
        self.fam = fam or api
        self.id = None

    @property
    def np(self):
        return len(self.cls)

    def line(self):
        s = '%s %s safe=%d hcoll=%d aggr=%d dup=%d' % (self.id, self.api, self.safe, self.hcoll, self.aggr, self.dup)
        if self.pre:
            s += ' pre=' + self.pre
        if self.mu:
            s += ' mu=%d' % self.mu
        if self.api in META and self.api not in ('_enddef', 'create', 'open') and self.pre in ('redef', 'new') and not self.safe and len(set(self.cls)) > 1:
            s += ' post=abort'      # the ranks' in-memory headers may differ afterwards (no safe mode): leave define mode by abort
        return s + ' cls=' + ','.join(self.cls)

    def text(self):
        return '%s safe=%d hcoll=%d aggr=%d dup=%d pre=%s mu=%d cls=%s' % (self.api, self.safe, self.hcoll, self.aggr, self.dup,
                                                                           self.pre, self.mu, ','.join(self.cls))

    def to_json(self):
        return dict(api=self.api, cls=self.cls, safe=self.safe, hcoll=self.hcoll, aggr=self.aggr, dup=self.dup, pre=self.pre, mu=self.mu)


def case_from_json(d):
    return Case(d['api'], d['cls'], d.get('safe', 0), d.get('hcoll', 0), d.get('aggr', 0), d.get('dup', 0), d.get('pre', ''), d.get('mu', 0))


DATA_KINDS = ['', '1', 'a', 's', 'm']
# classes per API: first element is the "plain valid" class used to fill the other ranks
def classes_of(api):
    if api.startswith(('put_var', 'get_var')):
        isget = api[0] == 'g'; k = api[7:]
        base = ['F.ok', 'R.ok', 'S.ok', 'N.ok', 'G.ok', 'C.ok']
        if k == '':
            return base
        if k == '1':
            return base + ['F.bs', 'R.bs'] + (['R.rb'] if isget else [])
        if k in ('a', 's', 'm'):
            c = base + ['F.z', 'R.z', 'F.bs', 'R.bs', 'F.ed', 'R.ed', 'F.nc', 'R.nc'] + (['R.rb'] if isget else [])
            if k in ('s', 'm'):
                c += ['F.st', 'R.st']
            return c
        if k == 'n':
            return base + ['F.num0', 'R.num0', 'S.num0', 'S.num2', 'F.ns', 'F.bs', 'R.bs', 'F.ed']
        if k == 'd':
            return ['F.ok', 'R.ok', 'N.ok', 'G.ok', 'F.z', 'R.z']
    if api in ('mput_vara', 'mget_vara'):
        return ['FH.ok', 'F.ok', 'FR.ok', 'R.ok', '0', 'F.bs', 'FN.ok', 'FR.bs']
    if api == 'wait_all':
        return ['F', 'R', 'f', 'Ff', 'FR', '-', 'F:all', 'R:all', 'Ff:all', '-:all', 'F:put', 'f:get', 'F:none', 'F:bad', 'R:bad', '-:bad', 'f:bad', 'F:null']
    if api == 'fill_var_rec':
        return ['R.2', 'R.0', 'Q.2', 'F.0', 'N.2', 'G.2']
    if api == 'rename_var':
        return ['ok', 'diff', 'inuse', 'N', 'long', 'other']
    if api == 'rename_dim':
        return ['ok', 'diff', 'inuse', 'N', 'long']
    if api == 'rename_att':
        return ['ok', 'diff', 'notatt', 'N', 'long']
    if api == 'put_att':
        return ['ok', 'diff', 'big', 'badname', 'N', 'new']
    if api == 'del_att':
        return ['ok', 'notatt', 'N', 'diff']
    if api == 'copy_att':
        return ['ok', 'diff', 'notatt', 'N']
    if api == 'def_dim':
        return ['ok', 'diffname', 'diffsize', 'badname', 'inuse', 'neg']
    if api == 'def_var':
        return ['ok', 'diffname', 'difftype', 'diffndims', 'badtype', 'inuse', 'baddim']
    if api == 'set_fill':
        return ['ok', 'diff']
    if api == 'def_var_fill':
        return ['ok', 'diffval', 'diffmode', 'diffvar', 'N']
    if api == '_enddef':
        return ['ok', 'neg', 'diff']
    if api == 'create':
        return ['c5', 'c2']
    if api == 'open':
        return ['w', 'r']
    return ['-']


# =============================================================================== abstraction: class -> model terms
def zc(n):
    return '(%d)' % n if n < 0 else '%d' % n


def b(x):
    return 'true' if x else 'false'


class Abs:
    """what the model is told about one rank of one case, and what the oracle expects of it"""
    def __init__(self, term, valid, rc, writes=False, reads=False, label=''):
        self.term, self.valid, self.rc, self.writes, self.reads, self.label = term, valid, rc, writes, reads, label


VK = {'F': 'VFixed', 'H': 'VFixed', 'C': 'VFixed', 'R': 'VRecord', 'Q': 'VRecord', 'S': 'VScalar', 'N': 'VFixed', 'G': 'VFixed'}
VNAME = {'F': 'fixed-var', 'H': 'fixed-var', 'C': 'char-var', 'R': 'record-var', 'Q': 'record-var', 'S': 'scalar-var', 'N': 'bad-varid', 'G': 'global-varid'}
WNAME = {'ok': 'valid', 'z': 'zero-length', 'bs': 'invalid-start', 'ed': 'invalid-count', 'nc': 'negative-count', 'st': 'invalid-stride',
         'rb': 'start-beyond-numrecs', 'num0': 'zero-requests', 'num2': 'two-requests-on-scalar', 'ns': 'null-starts'}


def abs_req(c, rank, E):
    api, cls = c.api, c.cls[rank]
    isget = api[0] == 'g'; k = api[7:]
    v, w = cls.split('.')
    err, sanity = 0, False
    nonscalar = v != 'S'
    if v == 'N':
        err, sanity = E['NC_ENOTVAR'], True
    elif v == 'G':
        err, sanity = E['NC_EGLOBAL'], True
    elif v == 'C' and k != 'd':
        err, sanity = E['NC_ECHAR'], True
    elif nonscalar:
        if w == 'bs' and k in ('1', 'a', 's', 'm', 'n'):
            err = E['NC_EINVALCOORDS']
        elif w == 'rb' and isget:
            err = E['NC_EINVALCOORDS']
        elif w == 'ed' and k in ('a', 's', 'm', 'n'):
            err = E['NC_EEDGE']
        elif w == 'nc' and k in ('a', 's', 'm'):
            err = E['NC_ENEGATIVECNT']
        elif w == 'st' and k in ('s', 'm'):
            err = E['NC_ESTRIDE']
        elif w == 'ns' and k == 'n':
            err = E['NC_ENULLSTART']
    elif w == 'num2' and k == 'n':
        err = E['NC_EINVAL']
    num0 = (w == 'num0')
    nonzero = w not in ('z', 'num0')
    drv = 0
    isrec = VK[v] == 'VRecord'
    whole = (k == '')
    newrec = 2 if (whole or isget) else 3 + rank
    if v in ('N', 'G'):
        newrec = 2
    # contiguity of the file view: a slice of a 1-D fixed variable or of one record is contiguous;
    # the whole of a record variable (2 records) is not
    contig = not (isrec and whole) and (k not in ('n', 'd') or (k == 'n' and v == 'S'))   # varn / vard build a derived filetype (varn on a scalar: put_var path)
    term = 'LReq (mkReq %s %s %s %s %s %s %s %s 1)' % (zc(err), b(sanity), VK[v], b(nonzero), zc(drv), b(contig), zc(newrec), b(num0))
    valid = (err == 0)
    lab = '%s:%s' % (VNAME[v], WNAME.get(w, w))
    return Abs(term, valid, err, writes=(valid and nonzero and not isget and v not in ('C',)),
               reads=(valid and nonzero and isget and v != 'C'), label=lab)


def abs_wait(c, rank, E):
    api, cls = c.api, c.cls[rank]
    if api in ('mput_vara', 'mget_vara'):
        isget = api[1] == 'g'
        if cls == '0':
            return Abs('LWait (mkW 0 0 0 false false 2)', True, 0, label='no-variables')
        vs, w = cls.split('.')
        err = 0
        if 'N' in vs:
            err = E['NC_ENOTVAR']
        elif w == 'bs':
            err = E['NC_EINVALCOORDS']
        n = len(vs) if err == 0 else 0
        newrec = 3 + rank if ('R' in vs and not isget and err == 0) else 2
        term = 'LWait (mkW %s %d %d false false %s)' % (zc(err), 0 if isget else n, n if isget else 0, zc(newrec))
        return Abs(term, err == 0, err, writes=(err == 0 and not isget), label=('%d-vars:%s' % (len(vs), WNAME.get(w, w)) if err == 0 else
                                                                              ('bad-varid' if 'N' in vs else WNAME.get(w, w))))
    # wait_all
    reqs, _, mode = cls.partition(':')
    nw = sum(1 for ch in reqs if ch in 'FR'); nr = sum(1 for ch in reqs if ch in 'fr')
    hasR = 'R' in reqs
    bad = (mode == 'bad')
    if mode == 'none':
        nw = nr = 0
    if mode == 'put':
        nr = 0
    if mode == 'get':
        nw = 0
    newrec = 3 + rank if (hasR and nw > 0) else 2
    term = 'LWait (mkW 0 %d %d %s false %s)' % (nw, nr, b(bad), zc(newrec))
    return Abs(term, not bad, E['NC_EINVAL_REQUEST'] if bad else 0, writes=(nw > 0 and not bad), reads=(nr > 0 and not bad),
               label=('invalid-request-id' if bad else 'pending-requests'))


def abs_fill(c, rank, E):
    cls = c.cls[rank]; v, recno = cls.split('.')
    same = (cls == c.cls[0])
    term = 'LFill (mkF %s %s %s %s %s %s)' % (b(v == 'G'), b(v not in ('N', 'G')), b(v in ('R', 'Q')), b(v != 'R'), recno, b(same))
    if v == 'G':
        rc = E['NC_EGLOBAL']
    elif v == 'N':
        rc = E['NC_ENOTVAR']
    elif v == 'F':
        rc = E['NC_ENOTRECVAR']
    elif v == 'Q':
        rc = E['NC_ENOTFILL']
    else:
        rc = 0
    return Abs(term, rc == 0, rc, label={'R': 'record-var', 'Q': 'record-var-nofill', 'F': 'fixed-var', 'N': 'bad-varid', 'G': 'global-varid'}[v])


# metadata calls: class -> (e0, e1, e3, attrs): e0/e1/e3 = this rank's own errors (names of codes) by stage (see Collective.v mreq),
# attrs = the argument values the safe-mode block compares with rank 0's, in the order of comparison
META = {
    'rename_var': dict(ok=(0, 0, 0, ('vg', 0)), diff=(0, 0, 0, ('vh', 0)), inuse=(0, 'NC_ENAMEINUSE', 0, ('vr', 0)), N=(0, 'NC_ENOTVAR', 0, ('vg', 99)),
                       long=(0, 0, 'NC_ENOTINDEFINE', ('vflong', 0)), other=(0, 0, 0, ('vg', 5))),
    'rename_dim': dict(ok=(0, 0, 0, ('y', 1)), diff=(0, 0, 0, ('z', 1)), inuse=(0, 'NC_ENAMEINUSE', 0, ('c', 1)), N=(0, 'NC_EBADDIM', 0, ('y', 99)),
                       long=(0, 0, 'NC_ENOTINDEFINE', ('xlong', 1))),
    'rename_att': dict(ok=(0, 0, 0, ('units', 'unitz', 0)), diff=(0, 0, 0, ('units', 'unity', 0)), notatt=(0, 0, 'NC_ENOTATT', ('nosuch', 'unitz', 0)),
                       N=(0, 'NC_ENOTVAR', 0, ('units', 'unitz', 99)), long=(0, 0, 'NC_ENOTINDEFINE', ('units', 'unitslong', 0))),
    'put_att': dict(ok=(0, 0, 0, ('units', 0, 2, 4, 'wxyz')), diff=(0, 0, 0, ('units', 0, 2, 4, 'WXYZ')),
                    big=(0, 0, 'NC_ENOTINDEFINE', ('units', 0, 2, 9, 'wxyzwxyzw')), badname=(0, 'NC_EBADNAME', 0, ('', 0, 2, 4, 'wxyz')),
                    N=(0, 'NC_ENOTVAR', 0, ('units', 99, 2, 4, 'wxyz')), new=(0, 0, 'NC_ENOTINDEFINE', ('fresh', 0, 2, 4, 'wxyz'))),
    'del_att': dict(ok=(0, 0, 0, ('units', 0)), notatt=(0, 0, 'NC_ENOTATT', ('nosuch', 0)), N=(0, 'NC_ENOTVAR', 0, ('units', 99)),
                    diff=(0, 0, 0, ('title', -1))),
    'copy_att': dict(ok=(0, 0, 0, ('units', (0, 5))), diff=(0, 0, 0, ('units', (0, 1))), notatt=(0, 0, 'NC_ENOTATT', ('nosuch', (0, 5))),
                     N=(0, 'NC_ENOTVAR', 0, ('units', (99, 5)))),
    'def_dim': dict(ok=(0, 0, 0, ('nd', 5)), diffname=(0, 0, 0, ('ne', 5)), diffsize=(0, 0, 0, ('nd', 6)),
                    badname=(0, 'NC_EBADNAME', 0, ('', 5)), inuse=(0, 'NC_ENAMEINUSE', 0, ('x', 5)), neg=(0, 'NC_EDIMSIZE', 0, ('nd', -3))),
    'def_var': dict(ok=(0, 0, 0, ('nv', 4, 1, 'x')), diffname=(0, 0, 0, ('nw', 4, 1, 'x')), difftype=(0, 0, 0, ('nv', 5, 1, 'x')),
                    diffndims=(0, 0, 0, ('nv', 4, 2, 'xc')), badtype=(0, 'NC_EBADTYPE', 0, ('nv', 77, 1, 'x')), inuse=(0, 'NC_ENAMEINUSE', 0, ('vf', 4, 1, 'x')),
                    baddim=(0, 'NC_EBADDIM', 0, ('nv', 4, 1, '?'))),
    'set_fill': dict(ok=(0, 0, 0, (0,)), diff=(0, 0, 0, (1,))),
    'def_var_fill': dict(ok=(0, 0, 0, ((0, 0, 0), 9)), diffval=(0, 0, 0, ((0, 0, 0), 8)), diffmode=(0, 0, 0, ((0, 1, 0), 9)),
                         diffvar=(0, 0, 0, ((5, 0, 0), 9)), N=(0, 'NC_ENOTVAR', 0, ((99, 0, 0), 9))),
    '_enddef': dict(ok=(0, 0, 0, ((0, 0, 0, 0),)), neg=(0, 'NC_EINVAL', 0, ((-1, 0, 0, 0),)), diff=(0, 0, 0, ((0, 1024, 0, 0),))),
    'create': dict(c5=(0, 0, 0, (5,)), c2=(0, 0, 0, (2,)), nc=(0, 0, 0, (6,))),
    'open': dict(w=(0, 0, 0, (1,)), r=(0, 0, 0, (0,))),
}
# code raised for the first compared attribute that differs from rank 0's
META_CMP = {
    'rename_var': ['NC_EMULTIDEFINE_VAR_NAME', 'NC_EMULTIDEFINE_FNC_ARGS'],
    'rename_dim': ['NC_EMULTIDEFINE_DIM_NAME', 'NC_EMULTIDEFINE_FNC_ARGS'],
    'rename_att': ['NC_EMULTIDEFINE_ATTR_NAME', 'NC_EMULTIDEFINE_ATTR_NAME', 'NC_EMULTIDEFINE_FNC_ARGS'],
    'put_att': ['NC_EMULTIDEFINE_ATTR_NAME', 'NC_EMULTIDEFINE_FNC_ARGS', 'NC_EMULTIDEFINE_ATTR_TYPE', 'NC_EMULTIDEFINE_ATTR_LEN', 'NC_EMULTIDEFINE_ATTR_VAL'],
    'del_att': ['NC_EMULTIDEFINE_ATTR_NAME', 'NC_EMULTIDEFINE_FNC_ARGS'],
    'copy_att': ['NC_EMULTIDEFINE_ATTR_NAME', 'NC_EMULTIDEFINE_FNC_ARGS'],
    'def_dim': ['NC_EMULTIDEFINE_DIM_NAME', 'NC_EMULTIDEFINE_DIM_SIZE'],
    'def_var': ['NC_EMULTIDEFINE_VAR_NAME', 'NC_EMULTIDEFINE_VAR_TYPE', 'NC_EMULTIDEFINE_VAR_NDIMS', 'NC_EMULTIDEFINE_VAR_DIMIDS'],
    'set_fill': ['NC_EMULTIDEFINE_FILL_MODE'],
    'def_var_fill': ['NC_EMULTIDEFINE_FNC_ARGS', 'NC_EMULTIDEFINE_VAR_FILL_VALUE'],
    '_enddef': ['NC_EMULTIDEFINE_FNC_ARGS'],
    'create': ['NC_EMULTIDEFINE_CMODE'],
    'open': ['NC_EMULTIDEFINE_OMODE'],
}
META_API = {'rename_var': 'A_meta M_rename_var', 'rename_dim': 'A_meta M_rename_dim', 'rename_att': 'A_meta M_rename_att',
            'put_att': 'A_meta M_put_att', 'del_att': 'A_meta M_del_att', 'copy_att': 'A_meta M_copy_att', 'def_dim': 'A_meta M_def_dim', 'def_var': 'A_meta M_def_var',
            'set_fill': 'A_meta M_set_fill', 'def_var_fill': 'A_meta M_def_var_fill', '_enddef': 'A__enddef', 'create': 'A_create', 'open': 'A_open'}


def abs_meta(c, rank, E):
    cls = c.cls[rank]
    e0, e1, e3, attrs = META[c.api][cls]
    root = META[c.api][c.cls[0]][3]
    e2 = 0
    for code, mine, his in zip(META_CMP[c.api], attrs, root):
        if mine != his:
            e2 = E[code]
            break
    e = [E[x] if isinstance(x, str) else x for x in (e0, e1, e2, e3)]
    if c.pre in ('redef', 'new') and e[3] == E.get('NC_ENOTINDEFINE'):
        e[3] = 0                       # growing a name / attribute is allowed in define mode
    own = e[0] or e[1] or e[3]
    if c.api in ('create', 'open') and not own:
        own = e[2]                     # the mode is compared with rank 0's in every configuration
        if c.api == 'create' and c.pre == 'closed' and c.cls[0] == 'nc':
            own = own or E['NC_EEXIST']     # root asks for NC_NOCLOBBER and the file exists: every rank gets NC_EEXIST
    term = 'LMeta (mkM %s %s %s %s)' % tuple(zc(x) for x in e)
    return Abs(term, own == 0, own, label=cls)


def abstraction(c, rank, E):
    a = c.api
    if a.startswith(('put_var', 'get_var')):
        return abs_req(c, rank, E)
    if a in ('mput_vara', 'mget_vara', 'wait_all'):
        return abs_wait(c, rank, E)
    if a == 'close_pend':
        reqs = c.cls[rank]
        nw = sum(1 for ch in reqs if ch in 'FR'); nr = sum(1 for ch in reqs if ch in 'fr')
        return Abs('LWait (mkW 0 %d %d false false 2)' % (nw, nr), nw + nr == 0, E['NC_EPENDING'] if nw + nr else 0,
                   label='pending-requests' if nw + nr else 'no-pending-requests')
    if a == 'fill_var_rec':
        return abs_fill(c, rank, E)
    if a in META:
        return abs_meta(c, rank, E)
    return Abs('LNone', True, 0, label=c.cls[rank])


def coq_api(c):
    a = c.api
    if a.startswith(('put_var', 'get_var')):
        isget = b(a[0] == 'g'); k = a[7:]
        if k == 'n':
            return 'A_varn %s' % isget
        if k == 'd':
            return 'A_vard %s' % isget
        return 'A_getput %s %s' % (isget, {'': 'AK_var', '1': 'AK_var1', 'a': 'AK_vara', 's': 'AK_vars', 'm': 'AK_varm'}[k])
    if a in ('mput_vara', 'mget_vara'):
        return 'A_mgetput %s' % b(a[1] == 'g')
    if a == 'wait_all':
        return 'A_wait_all'
    if a == 'fill_var_rec':
        return 'A_fill_var_rec'
    if a in META_API:
        return META_API[a]
    return {'enddef': 'A_enddef', 'redef': 'A_redef', 'sync': 'A_sync', 'sync_numrecs': 'A_sync_numrecs', 'begin_indep': 'A_begin_indep',
            'end_indep': 'A_end_indep', 'close': 'A_close', 'close_pend': 'A_close', 'abort': 'A_abort'}[a]


def coq_cfg(c):
    return '(mkCfg %s %s %s %s %d %d)' % (b(c.safe), b(c.hcoll), b(c.aggr), b(c.dup), c.np, c.mu)


def parse_info(line):
    d = {}
    for tok in line.split()[2:]:
        k, _, v = tok.partition('=')
        d[k] = v
    vs = []
    for t in d.get('vars', '').split(','):
        if t:
            i, o, l = t.split(':')
            vs.append((int(i), int(o), int(l)))
    d['varlist'] = vs
    return d


def is_fill_pre(pre):
    return len(pre) >= 3 and pre[0] in 'fg' and pre[1] in 'nr' and pre[2] == ':'


def fill_extras(pre, np):
    """[(isrec, fill, elements)] of the variables the harness' define_fill_vars adds for pre = <f|g><n|r>:<spec>"""
    out = []
    for tok in [t for t in pre[3:].split(',') if t]:
        nofill = tok.startswith('x')
        if nofill:
            tok = tok[1:]
        ln = {'1': 1, '2': 2, 'm': np - 1, 'n': np, 'p': np + 1}.get(tok[1:2], 0) if tok[0] in 'fr' else 0
        out.append((tok[0] == 'r', not nofill, max(ln, 1)))     # scalar and [t]-only record variable: 1 element
    return out


def coq_shared(c, info):
    """the shared state the harness prepares (harness/c08_trace.c: setup_file / prepare / prepare_fill)"""
    pre = c.pre
    X = 4 * c.np
    std = [(False, False, X), (True, True, X), (False, False, 1), (False, False, 8), (True, False, X), (False, False, X)]   # vf vr vs vc vr2 vf2
    extras = []
    if is_fill_pre(pre):
        mode = 'MDefine'
        isnew = pre[1] == 'n'
        extras = fill_extras(pre, c.np)
        if pre[0] == 'g':          # ncmpi_set_fill(NC_FILL) after the standard definitions: every variable is in fill mode
            std = [(r, True, n) for r, f, n in std]
        newvars = (std if isnew else []) + extras
        nvars = 6 + len(extras); nrec = 2 + sum(1 for r, f, n in extras if r)
    else:
        mode = {'': 'MColl', 'data': 'MColl', 'indep': 'MIndep', 'indep_put': 'MIndep', 'redef': 'MDefine', 'redef_grow': 'MDefine',
                'redef_addrec': 'MDefine', 'redef_addfix': 'MDefine', 'new': 'MDefine', 'closed': 'MColl', 'none': 'MDefine', 'empty': 'MDefine'}[pre]
        isnew = pre in ('new', 'none', 'empty')
        nvars = {'none': 0, 'empty': 0, 'redef_addrec': 7, 'redef_addfix': 7}.get(pre, 6)
        nrec = {'none': 0, 'empty': 0, 'redef_addrec': 3}.get(pre, 2)
        newvars = {'new': std, 'redef_addfix': [(False, True, X)], 'redef_addrec': [(True, False, X)]}.get(pre, [])
    if c.api == 'create':
        nvars, nrec = 0, 0
    numrecs = 0 if isnew else 2
    indep_open = pre in ('indep', 'indep_put')
    nvl = '[' + '; '.join('mkNv %s %s %d' % (b(r), b(f), n) for r, f, n in newvars) + ']'
    old = info.get('old'); new = info.get('new')
    def lay(i):
        if not i:
            return '[]'
        return '[' + '; '.join('mkVl %s %d %d' % (b(r), o, l) for r, o, l in i['varlist']) + ']'
    def fld(i, k):
        return int(i[k]) if i else 0
    def begin_var(i):
        return int(i['hext']) if i else 0
    def begin_rec(i):
        if not i:
            return 0
        recs = [o for r, o, l in i['varlist'] if r]
        return min(recs) if recs else 0
    argflag = c.api == 'def_var_fill' and c.cls[0] in ('ok', 'diffval', 'diffvar')
    noclobber = c.api == 'create' and c.cls[0] == 'nc'
    exists = noclobber and pre == 'closed'
    return ('(mkSh %s false %s %d %d %d %s 1 %s %s %s %s %s %s %d %d %d %d %d %d)' %
            (mode, b(isnew), nvars, nrec, numrecs, b(indep_open), nvl, b(exists), b(noclobber), b(argflag), lay(old), lay(new),
             begin_var(old), begin_var(new), begin_rec(old), begin_rec(new), fld(old, 'recsize'), fld(new, 'recsize')))


def needs_layout(c):
    return c.pre in ('redef_grow', 'redef_addrec', 'redef_addfix') or (is_fill_pre(c.pre) and c.pre[1] == 'r')


# =============================================================================== model runs
def run_model(cases, E, wd, infos=None, tag='m'):
    """evaluate the Coq model on the cases: {id: dict(ranks=[(trace, outcome)], match, strict)}"""
    infos = infos or {}
    res = {}
    chunks = [cases[i:i + 400] for i in range(0, len(cases), 400)]
    def one(arg):
        ci, chunk = arg
        lines = ['From Coq Require Import ZArith List String Bool.', 'From Pnc Require Import Gen_consts Gen_collsites Collective.',
                 'Import ListNotations.', 'Local Open Scope Z_scope.', 'Set Printing Width 100000.', 'Set Printing Depth 100000.']
        for j, c in enumerate(chunk):
            ls = '[' + '; '.join(abstraction(c, r, E).term for r in range(c.np)) + ']'
            lines.append('Definition r_%d := Eval vm_compute in (let res := run %s %s (%s) %s in (res, traces_match (map fst res), traces_match_strict (map fst res))).'
                         % (j, coq_cfg(c), coq_shared(c, infos.get(c.id, {})), coq_api(c), ls))
            lines.append('Print r_%d.' % j)
        d = os.path.join(wd, '%s%d' % (tag, ci)); os.makedirs(d, exist_ok=True)
        open(os.path.join(d, 'cases.v'), 'w').write('\n'.join(lines) + '\n')
        rc, out = C.sh(['coqc', '-Q', C.COQ, 'Pnc', '-w', '-all', 'cases.v'], cwd=d, timeout=900)
        if rc != 0:
            raise C.BuildFailure('model evaluation failed:\n' + out[-3000:])
        out = out.replace('\n', ' ')
        r = {}
        for m in re.finditer(r'r_(\d+) =\s*(.*?)\s*: list \(trace \* outcome\) \* bool \* bool', out):
            j = int(m.group(1)); body = m.group(2)
            ranks = []
            for rm in re.finditer(r'\((\[[^\]]*\]), (Ret \(?-?\d+\)? (?:true|false)|Crash)\)', body):
                tr = re.findall(r'\((S_\w+), (T\w+)\)', rm.group(1))
                o = rm.group(2)
                if o == 'Crash':
                    oc = ('crash', None, None)
                else:
                    mm = re.match(r'Ret \(?(-?\d+)\)? (true|false)', o)
                    oc = ('ret', int(mm.group(1)), mm.group(2) == 'true')
                ranks.append((tr, oc))
            fl = re.findall(r'\b(true|false)\b', body.rsplit(']', 1)[-1])
            r[chunk[j].id] = dict(ranks=ranks, match=(fl[-2] == 'true'), strict=(fl[-1] == 'true'))
        return r
    with ThreadPoolExecutor(max_workers=8) as ex:
        for r in ex.map(one, list(enumerate(chunks))):
            res.update(r)
    return res


# =============================================================================== implementation runs
def parse_logs(d, np):
    """{case id: {rank: obs}}"""
    res = {}
    for r in range(np):
        p = os.path.join(d, 'log.%d' % r)
        if not os.path.exists(p):
            continue
        cur = None
        for line in open(p, errors='replace'):
            t = line.split()
            if not t:
                continue
            if t[0] == 'BEGIN':
                cur = dict(ops=[], xops=[], ret=None, extra='', hang=None, post=[], data=None, numrecs=None, info={}, end=False, setupfail=None)
                res.setdefault(t[1], {})[r] = cur
            elif cur is None:
                continue
            elif t[0] == 'OP':
                cur['ops'].append([t[1], t[2], t[3], False])
            elif t[0] == 'DONE':
                if cur['ops']:
                    cur['ops'][-1][3] = True
            elif t[0] == 'XOP':
                cur['xops'].append([t[1], t[2], t[3], False])
            elif t[0] == 'XDONE':
                if cur['xops']:
                    cur['xops'][-1][3] = True
            elif t[0] == 'RET':
                cur['ret'] = int(t[1]); cur['extra'] = ' '.join(t[2:])
            elif t[0] == 'POST':
                cur['post'].append((t[1], int(t[2])))
            elif t[0] == 'DATA':
                cur['data'] = t[1]
            elif t[0] == 'NUMRECS':
                cur['numrecs'] = int(t[1])
            elif t[0] == 'INFO':
                cur['info'][t[1]] = parse_info(line)
            elif t[0] == 'HANG':
                cur['hang'] = dict(phase=t[1], inop=t[2], last=t[3].split('=')[1])
            elif t[0] == 'SETUPFAIL':
                cur['setupfail'] = ' '.join(t[1:])
            elif t[0] == 'END':
                cur['end'] = True
    return res


def run_batch(exe, cases, np, wd, name, timeout, watchdog=WATCHDOG):
    d = os.path.join(wd, name); os.makedirs(d, exist_ok=True)
    cf = os.path.join(d, 'cases.txt')
    open(cf, 'w').write('\n'.join(c.line() for c in cases) + '\n')
    env = {'OMPI_MCA_mpi_yield_when_idle': '1'}
    rc, out = C.mpirun(np, exe, [d, cf, str(watchdog)], env=env, timeout=timeout, cwd=d)
    obs = parse_logs(d, np)
    crash = None
    m = re.search(r'exited on signal (\d+)', out)
    if m:
        crash = int(m.group(1))
    shutil.rmtree(d, ignore_errors=True)
    return rc, obs, crash, out[-800:]


class Sites:
    """return address -> (function, line) -> model site constructor"""
    def __init__(self, exe, lib, wd):
        self.exe = exe
        js = os.path.join(wd, 'sites.json')
        rc, out = C.sh(['python3', os.path.join(C.VERIF, 'tools', 'tr_collsites.py'), lib, os.path.join(wd, 'Gen_collsites.check.v'), '--json', js])
        self.table = {}
        for f, call, n, fl, ln in json.load(open(js)):
            self.table.setdefault((f, call), []).append((ln, n))
        self.cache = {}

    def resolve(self, addrs):
        todo = sorted(set(a for a in addrs if a not in self.cache))
        if not todo:
            return
        args = ['%x' % (int(a, 16) - 1) for a in todo]
        rc, out = C.sh(['addr2line', '-f', '-e', self.exe] + args, timeout=120)
        ls = out.strip().split('\n')
        for i, a in enumerate(todo):
            fn = ls[2 * i] if 2 * i < len(ls) else '??'
            loc = ls[2 * i + 1] if 2 * i + 1 < len(ls) else '??:0'
            m = re.match(r'(.*):(\d+)', loc)
            self.cache[a] = (fn, int(m.group(2)) if m else 0)

    def site(self, call, addr):
        fn, line = self.cache.get(addr, ('??', 0))
        cands = self.table.get((fn, call))
        if not cands:
            return 'S_%s_%s?' % (fn, SHORT.get(call, call))
        ln, n = min(cands, key=lambda x: abs(x[0] - line))
        return site_name(fn, call, n)


def norm_ops(ops):
    """observable sequence: (matching class of the call, target) of the operations that span all ranks"""
    return [(KIND.get(call, call), tgt) for call, tgt in ops if tgt in GLOBAL_T]


# =============================================================================== keys
def varn_path(cls):
    """dispatcher path of a varn class: 'scalar' (put_var/get_var) or 'varn' (igetput_varn + wait)"""
    v, w = cls.split('.')
    return 'scalar' if (v == 'S' and w != 'num0') else 'varn'


def witness_order(c):
    """smaller = better witness: fewer ranks, all ranks on the same variable, fewer distinct classes"""
    return (c.np, len(set(x.split('.')[0] for x in c.cls if '.' in x)), len(set(c.cls)), c.text())


def key_of(c, absl, what):
    """stable key of an oracle failure: API, kind of the variables the valid ranks address, kind of the invalid argument,
    configuration; independent of rank order, of the number of ranks and of which further classes are present"""
    isdata = c.api.startswith(('put_var', 'get_var', 'mput', 'mget'))
    api = c.api + ('_all' if isdata else '')
    # the header-I/O mode only matters for the calls that write the header; aggregation changes no verdict
    cfgs = ''.join([':safe-mode' if c.safe else '', ':romio_no_indep_rw' if (c.hcoll and not isdata and c.api not in ('wait_all', 'fill_var_rec')) else ''])
    valid = sorted(set(a.label for a in absl if a.valid))
    bad = sorted(set(a.label for a in absl if not a.valid))
    # a mismatch of the collective sequences shows either as a hang or, when the unmatched operation does not block
    # (zero-length write_at_all), as differing sequences: the same finding, the same key
    tail = '' if what in ('hang', 'mismatch-without-hang') else ':' + what
    if c.api in ('put_varn', 'get_varn') and len(set(varn_path(x) for x in c.cls)) > 1:
        other = 'others-pass-zero-requests-for-the-same-variable' if all(x[0] == 'S' for x in c.cls) else 'others-address-a-non-scalar-variable'
        return '%s:scalar-variable-on-some-ranks:%s%s%s' % (api, other, cfgs, tail)
    if c.api.startswith(('put_var', 'get_var')):
        vk = sorted(set(l.split(':')[0] for l in valid))
        bw = sorted(set((l.split(':')[1] if l.split(':')[0] in ('fixed-var', 'record-var', 'scalar-var') else l.split(':')[0]) for l in bad))
        if len(vk) > 1:
            if 'record-var' in vk:       # what matters: a record variable on some ranks, another kind elsewhere
                vk = sorted(['record-var', sorted(x for x in vk if x != 'record-var')[0]])
            s = 'different-variable-kinds:' + '+'.join(vk)
        else:
            s = ('+'.join(vk) or 'no-valid-rank')
            if bw:
                s += ':' + bw[0] + '-on-one-rank'
        return '%s:%s%s%s' % (api, s, cfgs, tail)
    if c.api in META:
        mode = {'': 'data-mode', 'indep': 'independent-data-mode'}.get(c.pre, 'define-mode')
        b0 = ''
        if bad:
            b0 = ('bad-varid' if 'N' in bad else 'invalid-argument') + '-on-one-rank:'
        elif len(valid) > 1:
            b0 = 'arguments-differ:'
        return '%s:%s%s%s%s' % (api, b0, mode, cfgs, tail)
    if what == 'crash' and any(x in bad for x in ('bad-varid', 'global-varid')):
        bad = [x for x in bad if x in ('bad-varid', 'global-varid')]
    s = (bad[0] + '-on-one-rank') if bad else '+'.join(valid)
    if is_fill_pre(c.pre):
        s += ':new-fill-mode-variables:' + ('first-define-mode' if c.pre[1] == 'n' else 'after-redef')
    elif c.pre and c.pre not in ('data',):
        s += ':from-' + c.pre
    return '%s:%s%s%s' % (api, s, cfgs, tail)


# =============================================================================== evaluation of one case
def evaluate(c, obs, model, E, sites, crash_sig):
    """returns (oracle_failures [(what, detail)], correspondence_failures [(relation, detail)], nontrivial)"""
    orc, cor = [], []
    absl = [abstraction(c, r, E) for r in range(c.np)]
    ranks = [obs.get(r) for r in range(c.np)]
    if any(o is None for o in ranks):
        return [('no-observation', 'a rank produced no log for this case')], [], False
    if any(o['setupfail'] for o in ranks):
        return [], [('corr_C08_setup', 'scenario preparation failed: %s' % [o['setupfail'] for o in ranks])], False
    returned = [o['ret'] is not None for o in ranks]
    hung = [o['hang'] is not None or (o['ret'] is None) or not o['end'] for o in ranks]
    crashed = crash_sig is not None and any(o['ret'] is None and o['hang'] is None for o in ranks)
    # ---- per rank site sequences of the implementation
    addrs = [op[2] for o in ranks for op in o['ops']]
    sites.resolve(addrs)
    impl_tr = [[(sites.site(op[0], op[2]), TGT.get(op[1], op[1])) for op in o['ops']] for o in ranks]
    impl_calls = [[(op[0], TGT.get(op[1], op[1])) for op in o['ops']] for o in ranks]
    # ---- ORACLE on the implementation's observations
    if crashed:
        orc.append(('crash', 'signal %s; last observations: %s' % (crash_sig, [(r, o['ops'][-1][0] if o['ops'] else '-') for r, o in enumerate(ranks)])))
    elif any(hung):
        det = []
        for r, o in enumerate(ranks):
            h = o['hang']
            det.append('rank %d: %s' % (r, (('blocked in %s (%s phase)' if h['inop'] == 'inop=1' else 'stuck after %s (%s phase)') % (h['last'], h['phase'])) if h else
                                        ('returned %s' % o['ret'] if o['ret'] is not None else 'killed')))
        orc.append(('hang', '; '.join(det)))
    else:
        seqs = [norm_ops(x) for x in impl_calls]
        if any(s != seqs[0] for s in seqs):
            orc.append(('mismatch-without-hang', 'observable sequences differ: %s' % seqs))
        rcs = [o['ret'] for o in ranks]
        noarg = all(a.term == 'LNone' for a in absl)
        if noarg:
            # no per-rank arguments: the outcome is a function of the shared state
            if len(set(rcs)) != 1:
                orc.append(('codes-differ-without-arguments', 'return codes %s' % rcs))
        elif c.safe and c.api not in ('close_pend', 'wait_all'):
            if any(not a.valid for a in absl) or any(rc != 0 for rc in rcs):
                if len(set(rcs)) != 1:
                    orc.append(('safe-mode-codes-differ', 'return codes %s' % rcs))
        else:
            for r, (a, rc) in enumerate(zip(absl, rcs)):
                if a.valid and rc != 0:
                    orc.append(('valid-rank-got-error', 'rank %d (valid arguments) returned %d' % (r, rc)))
                if not a.valid and rc == 0:
                    orc.append(('error-not-reported', 'rank %d (invalid arguments, expected %d) returned 0' % (r, a.rc)))
            for r, (a, o) in enumerate(zip(absl, ranks)):
                if a.valid and o['ret'] == 0:
                    if a.writes and o['data'] == 'bad':
                        orc.append(('valid-rank-data-not-stored', 'rank %d returned NC_NOERR but its data is not in the file' % r))
                    if a.reads and 'getcmp=bad' in o['extra']:
                        orc.append(('valid-rank-read-wrong-data', 'rank %d' % r))
    # ---- CORRESPONDENCE with the model
    if model is None:
        cor.append(('corr_C08_model', 'no model result'))
        return orc, cor, True
    mr = model['ranks']
    predicted_bad = (not model['match']) or any(o[0] == 'crash' for _, o in mr)
    observed_bad = bool(crashed or any(hung) or any(w == 'mismatch-without-hang' for w, _ in orc))
    if predicted_bad != observed_bad:
        cor.append(('corr_C08_hang', 'model predicts %s, implementation %s' % ('mismatch' if predicted_bad else 'match',
                                                                               'hang/crash/mismatch' if observed_bad else 'terminated with equal sequences')))
    if predicted_bad and observed_bad:
        # mis-paired collectives deliver garbage: what the ranks do afterwards is not defined by the model
        return orc, cor, True
    for r in range(c.np):
        mt, mo = mr[r]
        it = impl_tr[r]
        if c.aggr:
            mt2 = [(s if s not in SET_VIEW3 else 'SV', t) for s, t in mt]; it2 = [(s if s not in SET_VIEW3 else 'SV', t) for s, t in it]
        else:
            mt2, it2 = mt, it
        if returned[r]:
            if it2 != mt2:
                cor.append(('corr_C08_trace', 'rank %d: implementation %s / model %s' % (r, it, mt)))
            if mo[0] == 'crash':
                cor.append(('corr_C08_rc', 'rank %d: model predicts a crash, implementation returned %s' % (r, ranks[r]['ret'])))
            elif ranks[r]['ret'] != mo[1]:
                cor.append(('corr_C08_rc', 'rank %d: implementation returned %s, model %s' % (r, ranks[r]['ret'], mo[1])))
            elif not any(hung) and not crashed and absl[r].writes and ranks[r]['data'] in ('ok', 'bad') and mo[1] == 0 and (ranks[r]['data'] == 'ok') != mo[2]:
                cor.append(('corr_C08_stored', 'rank %d: data %s, model stored=%s' % (r, ranks[r]['data'], mo[2])))
        else:
            if mo[0] == 'crash':
                continue
            if it2 != mt2[:len(it2)]:
                cor.append(('corr_C08_trace', 'rank %d (did not return): implementation %s is not a prefix of model %s' % (r, it, mt)))
    return orc, cor, True


# =============================================================================== case generation
def gen_cases(ctx):
    """every collective API x assignments of classes to ranks.  quick: exhaustive over ordered pairs (2 ranks) for one API of each
    family and the single-deviation assignments for the others, 3 ranks single/double deviations, sampled 4 ranks;
    thorough: exhaustive over classes x ranks <= 3 for every API of every family, sampled 4 ranks"""
    thorough = ctx.tier == 'thorough'
    rng = ctx.rng.fork('cases')
    cases = []
    def add(api, cls, **kw):
        cases.append(Case(api, cls, **kw))
    def deviations(api, np, valid, **kw):
        """all ranks `valid`, one rank each other class, at each position"""
        for cl in classes_of(api):
            for pos in range(np):
                cls = [valid] * np; cls[pos] = cl
                add(api, cls, **kw)
    def exhaustive(api, np, **kw):
        for combo in itertools.product(classes_of(api), repeat=np):
            add(api, combo, **kw)
    def sample(api, np, n, **kw):
        cl = classes_of(api)
        for _ in range(n):
            add(api, [rng.choice(cl) for _ in range(np)], **kw)
    data_apis = [p + '_var' + k for p in ('put', 'get') for k in DATA_KINDS + ['n', 'd']]
    full2 = set(['put_vara', 'get_vara', 'put_varn', 'put_vard', 'wait_all', 'fill_var_rec', 'mput_vara']) if not thorough else None
    for api in data_apis + ['mput_vara', 'mget_vara', 'wait_all', 'fill_var_rec']:
        if thorough or api in full2:
            exhaustive(api, 2)
        else:
            for v in classes_of(api)[:2]:
                deviations(api, 2, v)
        if thorough:
            if len(classes_of(api)) <= 12:
                exhaustive(api, 3)
            else:
                for v in classes_of(api)[:3]:
                    deviations(api, 3, v)
                sample(api, 3, 400)
            sample(api, 4, 120)
        else:
            deviations(api, 3, classes_of(api)[0])
            sample(api, 3, 6)
            sample(api, 4, 3)
        # safe mode: errors become collective
        if thorough:
            exhaustive(api, 2, safe=1)
            sample(api, 3, 60, safe=1)
        else:
            deviations(api, 2, classes_of(api)[0], safe=1)
            sample(api, 3, 3, safe=1)
    # header I/O collective (romio_no_indep_rw), aggregation
    for api in (['put_vara', 'put_varn', 'wait_all', 'fill_var_rec', 'get_vara'] if thorough else ['put_vara', 'wait_all', 'fill_var_rec']):
        for v in classes_of(api)[:2] if thorough else classes_of(api)[:1]:
            deviations(api, 2, v, hcoll=1)
            if thorough:
                deviations(api, 3, v, hcoll=1)
        deviations(api, 2, classes_of(api)[1], aggr=1)
        if thorough:
            deviations(api, 3, classes_of(api)[0], aggr=1)
    # metadata calls in data mode / define mode, with and without safe mode and collective header I/O
    for api, pre in [('rename_var', ''), ('rename_dim', ''), ('rename_att', ''), ('put_att', ''), ('rename_var', 'indep'), ('put_att', 'indep'),
                     ('rename_var', 'redef'), ('put_att', 'redef'), ('del_att', 'redef'), ('copy_att', 'redef'), ('def_dim', 'redef'), ('def_var', 'redef'),
                     ('set_fill', 'redef'), ('def_var_fill', 'new'), ('def_dim', 'new'), ('_enddef', 'redef'), ('_enddef', 'new'),
                     ('_enddef', 'redef_grow')]:
        for safe in (0, 1):
            for hcoll in (0, 1):
                if thorough:
                    exhaustive(api, 2, pre=pre, safe=safe, hcoll=hcoll)
                    if hcoll == 0 or api in ('rename_var', 'put_att', '_enddef'):
                        exhaustive(api, 3, pre=pre, safe=safe, hcoll=hcoll)
                else:
                    deviations(api, 2, classes_of(api)[0], pre=pre, safe=safe, hcoll=hcoll)
                    if safe and not hcoll:
                        exhaustive(api, 2, pre=pre, safe=safe, hcoll=hcoll)
                        sample(api, 3, 4, pre=pre, safe=safe, hcoll=hcoll)
    # create / open
    for api, pre in [('create', 'none'), ('open', 'closed')]:
        for safe in (0, 1):
            for dup in (0, 1):
                for hcoll in (0, 1):
                    exhaustive(api, 2, pre=pre, safe=safe, dup=dup, hcoll=hcoll)
                    if thorough or (dup == 0 and hcoll == 0):
                        exhaustive(api, 3, pre=pre, safe=safe, dup=dup, hcoll=hcoll)
        exhaustive(api, 2, pre=pre, aggr=1)
    for np in (2, 3):
        for safe in (0, 1):
            for dup in (0, 1):
                add('create', ['nc'] * np, pre='none', safe=safe, dup=dup)      # NC_NOCLOBBER, new file
                add('create', ['nc'] * np, pre='closed', safe=safe, dup=dup)    # NC_NOCLOBBER, file exists: NC_EEXIST everywhere
                add('create', ['nc'] + ['c5'] * (np - 1), pre='none', safe=safe, dup=dup)
                add('close', ['-'] * np, pre='empty', safe=safe, dup=dup)       # no variable: truncation barriers
                add('enddef', ['-'] * np, pre='empty', safe=safe, dup=dup)
    # calls without per-rank arguments, from every mode; per-rank HISTORY differs (independent puts, pending requests)
    for np in (2, 3, 4):
        for safe in (0, 1):
            for hcoll in (0, 1):
                if not thorough and np == 3 and safe != hcoll:
                    continue
                if not thorough and np == 4 and (safe or hcoll):
                    continue
                kw = dict(safe=safe, hcoll=hcoll)
                for api in ('enddef', 'close', 'abort'):
                    for pre in ('redef', 'new', 'redef_grow', 'redef_addrec', 'redef_addfix'):
                        add(api, ['-'] * np, pre=pre, **kw)
                add('enddef', ['-'] * np, pre='redef_grow', mu=16, **kw)
                add('enddef', ['-'] * np, pre='redef_addrec', mu=8, **kw)
                for api in ('redef', 'sync', 'sync_numrecs', 'begin_indep', 'end_indep', 'close', 'abort', 'enddef'):
                    for pre in ('', 'indep'):
                        add(api, ['-'] * np, pre=pre, **kw)
                    for pat in itertools.product('+-', repeat=np) if np < 4 else [('+', '-', '-', '+')]:
                        add(api, list(pat), pre='indep_put', **kw)
                for pat in ([['F', '-'], ['-', 'Rf'], ['FR', 'f']] if np == 2 else [['F', '-', 'Rf'][:np] + ['-'] * (np - 3)]):
                    add('close_pend', (pat + ['-'] * np)[:np], **kw)
        add('close', ['-'] * np, dup=1)
        add('abort', ['-'] * np, dup=1, pre='new')
        add('enddef', ['-'] * np, pre='redef', aggr=1)
    # enddef / _enddef / close from define mode with NEW variables in fill mode (fillerup_aggregate): 0, 1, 2, nprocs-1, nprocs,
    # nprocs+1 elements, fixed-size and record (2 records exist after redef), per-variable fill mode (f) or ncmpi_set_fill (g),
    # first define mode (n) or after redef (r): a rank whose share of every such variable is empty must still take part
    specs = ['', 's', 'f1', 'f2', 'fm', 'fn', 'fp', 'r0', 'r1', 'r2', 'rm', 'rn', 'rp', 'xs', 'xf2,xr0', 's,f2', 's,r0', 'xf2,r1', 'f1,xfp',
             's,f2,fm,fn,fp,r0,r2,rp']
    qspecs = ['', 's', 'f2', 'fp', 'r0', 'r2', 'xs', 's,r0', 's,f2,fm,fn,fp,r0,r2,rp']
    for np in (2, 3, 4):
        for kind in ('fn', 'fr', 'gn', 'gr'):
            for sp in (specs if thorough else qspecs):
                pre = '%s:%s' % (kind, sp)
                add('enddef', ['-'] * np, pre=pre)
                if thorough or sp in ('s', 'r0', 's,r0'):
                    add('close', ['-'] * np, pre=pre)
                    add('_enddef', ['ok'] * np, pre=pre)
                if thorough or (sp == 's' and np == 3):
                    for safe, hcoll in ((1, 0), (0, 1), (1, 1)):
                        add('enddef', ['-'] * np, pre=pre, safe=safe, hcoll=hcoll)
                        if thorough:
                            add('close', ['-'] * np, pre=pre, safe=safe, hcoll=hcoll)
    # deduplicate, name
    seen = set(); out = []
    for c in cases:
        t = c.text()
        if t in seen:
            continue
        seen.add(t); out.append(c)
    for i, c in enumerate(out):
        c.id = 'k%05d' % i
    return out


# =============================================================================== the check
def execute(ctx, exe, lib, cases, E, wd, sites, budget_s):
    """run model + implementation on the cases; returns list of (case, obs, model, crash_signal)"""
    t0 = time.time()
    simple = [c for c in cases if not needs_layout(c)]
    model = run_model(simple, E, wd, tag='ma')
    ctx.cov.setdefault('timing', {})['model_phase_a_s'] = round(time.time() - t0, 1)
    results = {}
    # schedule: predicted-safe cases in batches, predicted hang/crash each in its own mpiexec
    def predicted_bad(c):
        m = model.get(c.id)
        return m is not None and ((not m['match']) or any(o[0] == 'crash' for _, o in m['ranks']))
    batches = []
    for np in (2, 3, 4):
        good = [c for c in cases if c.np == np and not predicted_bad(c)]
        for i in range(0, len(good), 120):
            batches.append(('b%d_%d' % (np, i), np, good[i:i + 120]))
    bad = [c for c in cases if predicted_bad(c)]
    # a predicted mismatch costs one mpiexec + one watchdog period: replay per predicted key the smallest witnesses
    per_key = 3 if ctx.tier == 'thorough' else 1
    groups = {}
    for c in bad:
        k = key_of(c, [abstraction(c, r, E) for r in range(c.np)], 'hang')
        groups.setdefault(k, []).append(c)
    singles = []
    for k in sorted(groups):
        g = sorted(groups[k], key=witness_order)
        take = g[:per_key]
        if ctx.tier == 'thorough':
            take = take + [c for c in g[per_key:] if c.np == 2][:6]
        singles.extend(take)
    skipped = set(c.id for c in bad) - set(c.id for c in singles)
    ctx.cov.setdefault('distribution_exec', {}).update(predicted_mismatch=len(bad), predicted_mismatch_keys=len(groups),
                                                      predicted_mismatch_replayed=len(singles))
    jobs = [(n, np, cs, 60 + len(cs), WATCHDOG_OK) for n, np, cs in batches] + [('s' + c.id, c.np, [c], 14 + 3 * WATCHDOG, WATCHDOG) for c in singles]
    unexpected = {}      # batch chain -> number of unpredicted hangs so far
    def runjob(j):
        name, np, cs, to, wdog = j
        return j, run_batch(exe, cs, np, wd, name, to, wdog)
    pending = list(jobs)
    rounds = 0
    retries = {}
    while pending and rounds < 60:
        rounds += 1
        nxt = []
        with ThreadPoolExecutor(max_workers=8) as ex:
            for (name, np, cs, to, wdog), (rc, obs, crash, tail) in ex.map(runjob, pending):
                # cases that completed (END on all ranks), the first incomplete one, the rest is re-run
                done_upto = len(cs)
                for i, c in enumerate(cs):
                    o = obs.get(c.id, {})
                    complete = len(o) == np and all(x['end'] for x in o.values())
                    if not complete:
                        done_upto = i
                        break
                for i, c in enumerate(cs[:done_upto]):
                    results[c.id] = (obs[c.id], None)
                if done_upto < len(cs):
                    c = cs[done_upto]
                    o = obs.get(c.id, {})
                    infra = (len(o) < np) or any((x['hang'] or {}).get('phase') == 'setup' or (x['ret'] is None and x['hang'] is None and crash is None and not x['ops'])
                                               for x in o.values())
                    rest = cs[done_upto + 1:]
                    if infra and retries.get(c.id, 0) < 3:
                        retries[c.id] = retries.get(c.id, 0) + 1
                        rest = cs[done_upto:]
                    else:
                        results[c.id] = (o, crash)
                    if rest:
                        # a chain that keeps hanging (a regression, not a loaded machine) continues with the short watchdog;
                        # every unpredicted hang is re-run alone with the long one below
                        chain = name.rstrip('r')
                        unexpected[chain] = unexpected.get(chain, 0) + 1
                        nxt.append((name + 'r', np, rest, 60 + len(rest), wdog if unexpected[chain] < 3 else WATCHDOG + 1))
        pending = nxt
    # an unpredicted hang may be the watchdog firing on a loaded machine: re-run alone with a long watchdog
    def incomplete(c):
        o = results.get(c.id, ({}, None))[0]
        return len(o) < c.np or any(not x['end'] for x in o.values())
    suspects = [c for c in cases if c.id in results and incomplete(c) and not predicted_bad(c)]
    # at most 16 confirmations, one per key first (a regression can make hundreds of scenarios hang)
    seen_k = set(); first = []; later = []
    for c in sorted(suspects, key=lambda c: (c.np, len(set(c.cls)), c.text())):
        k = key_of(c, [abstraction(c, r, E) for r in range(c.np)], 'hang')
        (later if k in seen_k else first).append(c); seen_k.add(k)
    chosen = (first + later)[:16]
    still = 0
    if chosen:
        with ThreadPoolExecutor(max_workers=4) as ex:
            outs = list(ex.map(lambda c: (c, run_batch(exe, [c], c.np, wd, 'c' + c.id, 30 + 4 * WATCHDOG_CONFIRM, WATCHDOG_CONFIRM)), chosen))
        for c, (rc, obs, crash, tail) in outs:
            results[c.id] = (obs.get(c.id, {}), crash)
            still += incomplete(c)
    ctx.cov['distribution_exec'].update(unpredicted_hangs=len(suspects), unpredicted_hangs_rerun_alone=len(chosen),
                                        unpredicted_hangs_confirmed_by_rerun=still)
    ctx.cov['timing']['impl_s'] = round(time.time() - t0, 1)
    ctx.cov['distribution_exec']['infrastructure_retries'] = sum(retries.values())
    # layouts for the enddef-after-redef cases come from the implementation's own inquiries
    lay = [c for c in cases if needs_layout(c)]
    infos = {}
    for c in lay:
        o = results.get(c.id, ({}, None))[0].get(0)
        if o:
            infos[c.id] = o['info']
    if lay:
        model.update(run_model(lay, E, wd, infos=infos, tag='mb'))
    ctx.cov['timing']['total_exec_s'] = round(time.time() - t0, 1)
    return [(c, results.get(c.id, ({}, None))[0], model.get(c.id), results.get(c.id, ({}, None))[1]) for c in cases if c.id not in skipped], \
           [(c, model.get(c.id)) for c in cases if c.id in skipped]


def run(ctx):
    lib = C.libdir()
    exe = C.build_c(lib, [os.path.join(C.VERIF, 'harness', 'c08_trace.c')], 'c08_trace', extra=['-no-pie'])
    pr = C.prove(ctx.pid, gens=('consts', 'collsites'), lib=lib)
    proof_ok = ctx.add_proof(pr, 'tools/tr_consts.py + tools/tr_collsites.py <lib> -> coq/Gen_*.v; make Properties_C08.vo; coqc Properties_C08.v (Print Assumptions)')
    ctx.cov['trusted_base'] = list(C.TRUSTED_COMMON) + [
        'harness/c08_trace.c (PMPI wrappers, scenario driver), addr2line (return address -> call site)',
        'checks/C08.py: abstraction from scenario classes to model arguments (abs_req, abs_wait, abs_fill, abs_meta, coq_shared)']
    E = err_codes(lib)
    wd = C.scratch('c08.')
    sites = Sites(exe, lib, wd)
    if not proof_ok:
        ctx.violation('proof obligations of C08 do not check (generated call-site list or constants changed, or a proof broke): %s'
                      % pr['failed'][:6], dict(relation='proof', failed=pr['failed'][:20], log=pr['log'][-2500:],
                                              gen_changed=pr['gen_changed']), no_input=True)
    cases = gen_cases(ctx)
    res, model_only = execute(ctx, exe, lib, cases, E, wd, sites, 0)
    for c, m in model_only:
        ctx.count(c.text(), nontrivial=False)        # evaluated on the model only (same predicted key as a replayed witness)
    report(ctx, res, E, sites)


def report(ctx, res, E, sites):
    dist = dict(cases=0, by_family={}, by_np={}, safe=0, hcoll=0, aggr=0, predicted_mismatch=0, hangs=0, crashes=0, oracle_failures=0,
                correspondence_failures=0, ops_compared=0)
    by_key = {}
    cor_fail = []
    for c, obs, model, crash in res:
        orc, cor, nontriv = evaluate(c, obs, model, E, sites, crash)
        absl = [abstraction(c, r, E) for r in range(c.np)]
        ctx.count(c.text(), nontrivial=nontriv and len(set(c.cls)) > 1 or c.np > 2)
        dist['cases'] += 1
        dist['by_family'][c.api] = dist['by_family'].get(c.api, 0) + 1
        dist['by_np'][str(c.np)] = dist['by_np'].get(str(c.np), 0) + 1
        dist['safe'] += c.safe; dist['hcoll'] += c.hcoll; dist['aggr'] += c.aggr
        dist['ops_compared'] += sum(len(o['ops']) for o in obs.values())
        if model and not model['match']:
            dist['predicted_mismatch'] += 1
        for what, det in orc:
            if what == 'hang':
                dist['hangs'] += 1
            if what == 'crash':
                dist['crashes'] += 1
        if orc:
            dist['oracle_failures'] += 1
            what, det = orc[0]
            k = key_of(c, absl, what)
            e = by_key.setdefault(k, dict(n=0, first=None))
            e['n'] += 1
            # keep the smallest witness (fewest ranks, fewest distinct classes)
            cand = witness_order(c)
            if e['first'] is None or cand < e['first'][0]:
                e['first'] = (cand, c, orc, model)
        if cor:
            cor_fail.append((c, cor))
    dist['correspondence_failures'] = len(cor_fail)
    dist['violation_keys'] = len(by_key)
    ctx.cov['violation_keys'] = sorted(by_key)
    ctx.cov['distribution'] = dist
    ctx.cov['traces_validated_against_impl'] = dist['cases']
    ctx.cov['rule'] = ('scenario = fixed file (harness/c08_trace.c setup_file) + ONE collective API call with one argument class per rank; '
                       'classes: valid on fixed/record/scalar variable, zero-length, each invalid kind (start, count, negative count, stride, '
                       'varid, NC_GLOBAL, NC_ECHAR, NULL starts, request id), pending request sets, differing metadata arguments; '
                       'enumerated exhaustively over classes x ranks (see gen_cases), 4 ranks sampled; non-trivial = ranks pass different classes or > 2 ranks')
    for k in sorted(by_key):
        e = by_key[k]
        _, c, orc, model = e['first']
        what, det = orc[0]
        ctx.violation('%s: %s [%s]' % (c.text(), det, what),
                      dict(case=c.to_json(), oracle=[list(x) for x in orc], witnesses_with_this_key=e['n'],
                           model_predicts_match=(model or {}).get('match'), replay_cmd='./check C08 --replay <this file>'), key=k)
    for c, cor in cor_fail[:8]:
        rel, det = cor[0]
        ctx.violation('model and implementation disagree (%s) on %s: %s' % (rel, c.text(), det[:600]),
                      dict(case=c.to_json(), relation=rel, all=[list(x) for x in cor][:6]), no_input=True)


def replay(ctx, d):
    lib = C.libdir()
    exe = C.build_c(lib, [os.path.join(C.VERIF, 'harness', 'c08_trace.c')], 'c08_trace', extra=['-no-pie'])
    E = err_codes(lib)
    wd = C.scratch('c08r.')
    sites = Sites(exe, lib, wd)
    c = case_from_json(d['case']); c.id = 'replay'
    C.run_translators(lib, ('consts', 'collsites'))
    C.coq_make(['Collective.vo'])
    res, _ = execute(ctx, exe, lib, [c], E, wd, sites, 0)
    for c, obs, model, crash in res:
        orc, cor, _ = evaluate(c, obs, model, E, sites, crash)
        print('case:', c.text())
        for r in sorted(obs):
            o = obs[r]
            print(' rank %d: ops=%s ret=%s hang=%s data=%s' % (r, [(x[0], x[1]) for x in o['ops']], o['ret'], o['hang'], o['data']))
        print(' model:', model)
        print(' oracle failures:', orc)
        print(' correspondence failures:', cor)
        if orc:
            absl = [abstraction(c, r, E) for r in range(c.np)]
            k = key_of(c, absl, orc[0][0])
            known = ctx.is_known(k)
            print('REPRODUCED key=%s%s' % (k, ' (listed in known_findings.json)' if known else ''))
            return 0 if known else 1
        if cor:
            print('REPRODUCED model/implementation disagreement %s' % cor[0][0])
            return 1
    print('NOT REPRODUCED')
    return 0
