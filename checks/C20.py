"""C20 Offline utilities agree with the library and the format.

PROVED (coq/Properties_C20.v, spec level; the ~9k lines of C of the utilities are NOT modelled):
  written_files_strict_valid   every header the library model writes (encode_header h, wf_hdr h, dimids in
                               range, <= 1 unlimited dim) is accepted by the grammar decoder written from the
                               format BNF (HeaderSpec.decode) and satisfies strict_valid  => "the validator
                               accepts" is the right expectation for library-written files
  dump_regen_identity          logical_content (encode_with_layout c lc) = Some c   for every well-formed content
                               c and every layout choice lc (gaps, junk, header free space)
  logical_eq_layout_invariant  two encodings of one content with different layouts decode to logical_eq contents
  logical_eq_detects_single_edit / files_logical_eq_iff
                               one value byte / attribute byte / name / dimension length / numrecs / format
                               version changed => logical_eq is false (content_eq stays true for the version)
  logical_eq_equiv             reflexive, symmetric, transitive
TIE (differential validation; every expectation is computed by the EXTRACTED Coq oracle
harness/c20_oracle.ml = coq/ExtractLogical.v on the concrete files):
  1 ncvalidator   accept  <=>  decode <> None /\\ strict_valid /\\ layout_ok   on (a) files written by the real
                  library (generated sessions, CDF-1/2/5, 1-3 ranks, alignment hints, redef), (b) free-layout
                  re-encodings (gaps, junk in free space), (c) header-violating mutations
  2 cdfdiff, ncmpidiff (1-3 ranks)   "no difference" (exit 0)  <=>  logical_eq  on pairs: identical, same
                  content/other layout (oracle encoder and library alignment variants), exactly one logical
                  edit, format version only
  3 ncmpidump / ncoffsets   output parsed by tools/c20_cdl.py  ==  oracle decode (names, types, shapes,
                  attribute values, data values, header size/extent, begins, ends)
  4 ncmpigen      dump -> ncmpigen -> file  is logical_eq to the original
LEVEL other: spec-level theorems + differential validation of separate programs."""
import os, sys, shutil, subprocess, hashlib, copy, importlib.util, concurrent.futures as cf
from fractions import Fraction
from pnc import common as C, scripts as S, api_gen
from pnc.session import Session
from pnc.gen import Schema, hx, ELSIZE

LEVEL = 'other'
ASSUMPTIONS = [
    'the utilities (src/utils, ~9k lines of C) are not modelled: they are validated differentially against the '
    'extracted Coq oracle on generated files; the theorems are about the oracle (format decoder, strict validity, '
    'logical content/equality, free-layout encoder), not about the tools\' code',
    'logical_eq is order sensitive (dimension/attribute/variable order is part of the content); pairs that differ '
    'only by a permutation are not generated (not in the property quantifier)',
    'files are small (a few KiB): CDF-2/5 are exercised for their field widths, not for > 2 GiB offsets',
    'float data and attributes are integers of at most 7 (float) / 15 (double) digits so that the decimal text '
    'printed by ncmpidump is exact; other printed floats are compared at the printed precision',
    'unverified glue: harness/c20_oracle.ml (file I/O, text), tools/c20_cdl.py (parser of the tools\' output), '
    'this script (generation of sessions, edits, mutations; comparison of parsed text with the oracle dump)',
]

_spec = importlib.util.spec_from_file_location('c20_cdl', os.path.join(C.VERIF, 'tools', 'c20_cdl.py'))
CDL = importlib.util.module_from_spec(_spec)
_spec.loader.exec_module(CDL)

TYPE_NAME = {v: k for k, v in CDL.TYPE_NUM.items()}
FILL = {1: -127, 2: 0, 3: -32767, 4: -2147483647, 5: Fraction(0x7cf00000 & 0x7fffff | 0x800000) * Fraction(2) ** (0xf9 - 127 - 23),
        6: Fraction((0x479e000000000000 & ((1 << 52) - 1)) | (1 << 52)) * Fraction(2) ** (0x479 - 1023 - 52),
        7: 255, 8: 65535, 9: 4294967295, 10: -9223372036854775806, 11: 18446744073709551614}


# values placed into single elements: type limits, the default fill values and their neighbours, integers that a
# double cannot hold; for float/double the BIT PATTERNS of the fill values, 0.5, -123.5 and 0.1 (all print exactly
# at 7 / 15 digits and read back to the same bits; -0.0 and the largest finite values are left out: their decimal
# text does not determine the bits)
BOUNDARY = {1: [-128, 127, -127, -1], 3: [-32768, 32767, -32767, -1], 4: [-2 ** 31, 2 ** 31 - 1, -2147483647, -1],
            5: [0x7cf00000, 0x3f000000, 0xc2f70000, 0x3dcccccd], 6: [0x479e000000000000, 0x3fe0000000000000, 0xc05ee00000000000, 0x3fb999999999999a],
            7: [255, 254, 0], 8: [65535, 65534, 0], 9: [4294967295, 4294967294, 2 ** 31],
            10: [2 ** 63 - 1, -2 ** 63, 2 ** 53 + 1, -9223372036854775806, -9223372036854775807, -(2 ** 53) - 1],
            11: [2 ** 64 - 1, 2 ** 64 - 2, 2 ** 63, 2 ** 53 + 1, 2 ** 64 - 3]}


# =============================================================================== small utilities
def _limit_as():
    import resource
    resource.setrlimit(resource.RLIMIT_AS, (4 << 30, 4 << 30))


def _big_stack():
    # the extracted Coq list functions recurse once per byte: a 1-2 MiB header needs a deep stack
    import resource
    resource.setrlimit(resource.RLIMIT_STACK, (resource.RLIM_INFINITY, resource.RLIM_INFINITY))


def sh_(cmd, timeout=120, env=None, cwd=None, limit_mem=False):
    """-> (rc, text); text decoded as latin-1 (the tools print attribute bytes raw); rc -9 = timeout.
    limit_mem: 4 GiB address space (a damaged header can make a serial tool allocate/copy without bound)"""
    e = dict(os.environ)
    if env:
        e.update(env)
    try:
        timeout = timeout * C.load_factor()
        p = subprocess.run(cmd, stdout=subprocess.PIPE, stderr=subprocess.STDOUT, timeout=timeout, env=e, cwd=cwd,
                           preexec_fn=_limit_as if limit_mem else (_big_stack if 'c20_oracle' in os.path.basename(cmd[0]) else None))
        return p.returncode, p.stdout.decode('latin-1')
    except subprocess.TimeoutExpired as ex:
        return -9, (ex.stdout or b'').decode('latin-1') + '\n[timeout]'


os.environ.setdefault('OMPI_MCA_mpi_yield_when_idle', '1')      # oversubscribed ranks must not spin


def mpi(np_, exe, args, timeout=120, cwd=None):
    cmd = ([exe] if np_ == 1 else C.MPIEXEC + ['-n', str(np_), exe]) + list(args)
    rc, out = sh_(cmd, timeout=timeout, cwd=cwd)
    if rc == -9:            # MPI start-up can stall on a loaded machine: one retry with a long watchdog
        rc, out = sh_(cmd, timeout=4 * timeout, cwd=cwd)
    return rc, out


def unhex(s):
    return b'' if s == '-' else bytes.fromhex(s)


def tohex(b):
    return b.hex() if b else '-'


# =============================================================================== oracle program
ORACLE_SRCS = ['Gen_consts.v', 'Base.v', 'Header.v', 'HeaderSpec.v', 'Data.v', 'Logical.v', 'ExtractLogical.v']


def oracle_exe():
    """extract coq/ExtractLogical.v and build harness/c20_oracle.ml (cached on the hash of the sources)"""
    h = hashlib.sha1()
    for s in ORACLE_SRCS:
        h.update(open(os.path.join(C.COQ, s), 'rb').read())
    ml = os.path.join(C.VERIF, 'harness', 'c20_oracle.ml')
    h.update(open(ml, 'rb').read())
    exe = os.path.join(C.BUILD, 'c20_oracle-' + h.hexdigest()[:12])
    if os.path.isfile(exe):
        return exe
    ok, log = C.coq_make(['ExtractLogical.vo'])
    if not ok:
        raise C.BuildFailure('oracle extraction failed:\n' + log[-3000:])
    if not os.path.isfile(os.path.join(C.COQ, 'c20_model.ml')):     # .vo up to date but the extracted file was removed
        with C.Lock('coq'):
            rc, log = C.sh(['coqc', '-Q', '.', 'Pnc', '-w', '-all', 'ExtractLogical.v'], cwd=C.COQ, timeout=600)
        if rc != 0:
            raise C.BuildFailure('oracle extraction failed:\n' + log[-3000:])
    with C.Lock('ocaml-c20'):
        if os.path.isfile(exe):
            return exe
        for old in [p for p in os.listdir(C.BUILD) if p.startswith('c20_oracle-')]:
            os.remove(os.path.join(C.BUILD, old))
        d = C.scratch('c20ml.')
        for f in ('c20_model.ml', 'c20_model.mli'):
            shutil.copy(os.path.join(C.COQ, f), d)
        shutil.copy(ml, d)
        rc, out = C.sh('ocamlfind ocamlopt -package zarith -linkpkg -w -a c20_model.mli c20_model.ml c20_oracle.ml -o c20_oracle',
                       cwd=d, timeout=600)
        if not os.path.isfile(os.path.join(d, 'c20_oracle')):
            raise C.BuildFailure('oracle build failed:\n' + out[-3000:])
        shutil.move(os.path.join(d, 'c20_oracle'), exe)
    return exe


# =============================================================================== oracle dump -> python
class Att:
    def __init__(self, name, typ, nelems, data):
        self.name, self.type, self.nelems, self.data, self.vals = name, typ, nelems, data, []


class Var:
    def __init__(self, name, typ, dimids):
        self.name, self.type, self.dimids, self.atts, self.data, self.vals = name, typ, dimids, [], [], []


class Cont:
    def __init__(self):
        self.fmt = 0; self.numrecs = 0; self.dims = []; self.gatts = []; self.vars = []
        self.info = {}; self.vinfo = []

    def shape(self, v):
        return [self.dims[i][1] for i in v.dimids]

    def isrec(self, v):
        s = self.shape(v)
        return bool(s) and s[0] == 0

    def nper(self, v):
        s = self.shape(v)
        if self.isrec(v):
            s = s[1:]
        n = 1
        for x in s:
            n *= x
        return n

    def nelems(self, v):
        return self.nper(v) * (self.numrecs if self.isrec(v) else 1)

    def has_unlim(self):
        return any(d[1] == 0 for d in self.dims)


def parse_dump(txt):
    c = Cont()
    last = None
    v = None
    for line in txt.split('\n'):
        t = line.split(' ')
        k = t[0]
        if k == 'info':
            if t[1] == 'var':
                c.vinfo.append(dict(name=unhex(t[2]), begin=int(t[4]), vsize=int(t[6]), len=int(t[8]), isrec=int(t[10])))
            elif t[1] == 'content':
                c.info['content'] = t[2]
            else:
                c.info[t[1]] = int(t[2])
        elif k == 'format':
            c.fmt = int(t[1])
        elif k == 'numrecs':
            c.numrecs = int(t[1])
        elif k == 'dim':
            c.dims.append((unhex(t[1]), int(t[2])))
        elif k == 'gatt':
            last = Att(unhex(t[1]), int(t[2]), int(t[3]), unhex(t[4]))
            c.gatts.append(last)
        elif k == 'var':
            v = Var(unhex(t[1]), int(t[2]), [int(x) for x in t[4:4 + int(t[3])]])
            c.vars.append(v)
            last = v
        elif k == 'vatt':
            last = Att(unhex(t[1]), int(t[2]), int(t[3]), unhex(t[4]))
            v.atts.append(last)
        elif k == 'data':
            v.data = [unhex(x) for x in t[1:]]
            last = v
        elif k == 'val':
            last.vals = t[1:]
    return c


def pyval(tok):
    """oracle value token (Data.decode_ext) -> int | Fraction | 'nan' | 'inf' | '-inf' | None (short element)"""
    if tok[0] == 'i':
        return int(tok[1:])
    if tok[0] == 'f':
        s, m, e = tok[1], tok[3:].split(':')[0], tok[3:].split(':')[1]
        val = Fraction(int(m)) * Fraction(2) ** int(e)
        return -val if s == '-' else val
    if tok == 'nan':
        return 'nan'
    if tok == '+inf':
        return 'inf'
    if tok == '-inf':
        return '-inf'
    return None


def write_spec(c, layout, path):
    """content (+ layout choice) in the text format harness/c20_oracle.ml `encode` reads"""
    out = ['format %d' % c.fmt, 'numrecs %d' % c.numrecs]
    for n, s in c.dims:
        out.append('dim %s %d' % (tohex(n), s))
    for a in c.gatts:
        out.append('gatt %s %d %d %s' % (tohex(a.name), a.type, a.nelems, tohex(a.data)))
    for v in c.vars:
        out.append('var %s %d %d%s' % (tohex(v.name), v.type, len(v.dimids), ''.join(' %d' % i for i in v.dimids)))
        for a in v.atts:
            out.append('vatt %s %d %d %s' % (tohex(a.name), a.type, a.nelems, tohex(a.data)))
        out.append('data' + ''.join(' ' + tohex(e) for e in v.data))
    out.append('end')
    out.append('hfree ' + tohex(layout.get('hfree', b'')))
    for g in layout.get('gaps', []):
        out.append('gap ' + tohex(g))
    out.append('recgap ' + tohex(layout.get('recgap', b'')))
    out.append('tail ' + tohex(layout.get('tail', b'')))
    open(path, 'w').write('\n'.join(out) + '\n')


# =============================================================================== python header walker
# (test-input generation only: finds the byte positions of header fields so that single fields can be
#  damaged or edited in place; every verdict about the resulting file comes from the Coq oracle)
def walk_header(b):
    pos = [0]
    fmt = b[3]
    nn = 8 if fmt == 5 else 4
    off = 4 if fmt == 1 else 8
    P = dict(fmt=fmt, tags=[], names=[], dims=[], gatts=[], vars=[], nelems=[])

    def u(n):
        v = int.from_bytes(b[pos[0]:pos[0] + n], 'big'); pos[0] += n; return v

    def name():
        o = pos[0]; n = u(nn); s = pos[0]; pos[0] += n; pad = (-n) % 4; p = pos[0]; pos[0] += pad
        d = dict(len_off=o, off=s, len=n, pad_off=p, pad=pad)
        P['names'].append(d)
        return d

    def atts(owner):
        P['tags'].append(dict(off=pos[0], kind='att', val=int.from_bytes(b[pos[0]:pos[0] + 4], 'big')))
        u(4); P['nelems'].append(pos[0]); n = u(nn); res = []
        for _ in range(n):
            a = dict(name=name(), type_off=pos[0]); a['type'] = u(4); a['nelems_off'] = pos[0]; a['nelems'] = u(nn)
            sz = a['nelems'] * ELSIZE.get(a['type'], 1)
            a['data_off'] = pos[0]; a['data_len'] = sz; pos[0] += sz
            a['pad_off'] = pos[0]; a['pad'] = (-sz) % 4; pos[0] += a['pad']
            res.append(a)
        return res

    P['numrecs_off'] = 4
    pos[0] = 4; u(nn)
    P['tags'].append(dict(off=pos[0], kind='dim', val=int.from_bytes(b[pos[0]:pos[0] + 4], 'big')))
    u(4); P['nelems'].append(pos[0]); nd = u(nn)
    for _ in range(nd):
        d = dict(name=name(), size_off=pos[0]); d['size'] = u(nn); P['dims'].append(d)
    P['gatts'] = atts(None)
    P['tags'].append(dict(off=pos[0], kind='var', val=int.from_bytes(b[pos[0]:pos[0] + 4], 'big')))
    u(4); P['nelems'].append(pos[0]); nv = u(nn)
    for _ in range(nv):
        v = dict(name=name(), ndims_off=pos[0]); k = u(nn); v['dimid_offs'] = []
        for _ in range(k):
            v['dimid_offs'].append(pos[0]); u(nn)
        v['atts'] = atts(v); v['type_off'] = pos[0]; v['type'] = u(4)
        v['vsize_off'] = pos[0]; v['vsize'] = u(nn); v['begin_off'] = pos[0]; v['begin'] = u(off)
        P['vars'].append(v)
    P['end'] = pos[0]; P['nn'] = nn; P['offsz'] = off
    return P


def put_be(b, off, n, val):
    b[off:off + n] = (val % (1 << (8 * n))).to_bytes(n, 'big')


# =============================================================================== session generation
ATT_NAMES = ['units', 'title', 'valid_range', 'a', 'scale', 'comment', 'long_name', 'hist']
INT_MAX = {1: 127, 3: 32767, 4: 2 ** 31 - 1, 7: 255, 8: 65535, 9: 2 ** 32 - 1, 10: 2 ** 63 - 1, 11: 2 ** 63 - 1}


def gen_att_line(rng, f, varid, name, types, feats):
    t = rng.choice(types)
    if t > 6 and rng.chance(2, 3):
        t = rng.choice([1, 2, 3, 4, 5, 6])          # extended-type attributes break the ncmpigen round trip: keep them rarer
    if t == 2:
        n = rng.range(1, 9)
        vals = [rng.choice([rng.range(32, 126), rng.range(32, 126), rng.range(97, 122), rng.range(1, 255)]) for _ in range(n)]
        if rng.chance(1, 12):
            vals[-1] = 0; feats.add('att-text-trailing-nul')
        if any(v == 10 for v in vals):
            feats.add('att-text-newline')
    else:
        n = rng.range(1, 4)
        if t in (5, 6):
            lim = 999999 if t == 5 else 10 ** 14
            vals = [rng.range(-lim, lim) if rng.chance(1, 2) else rng.range(-100, 100) for _ in range(n)]
        else:
            hi = INT_MAX[t]
            lo = 0 if t in (7, 8, 9, 11) else -hi - 1
            vals = [rng.choice([rng.range(max(lo, -100), min(hi, 100)), rng.range(lo, hi), hi, lo]) for _ in range(n)]
            if t in (10, 11) and any(abs(v) > 2 ** 53 for v in vals):
                feats.add('att-int64-beyond-2^53')
        if t in (7, 8, 9, 10, 11):
            feats.add('att-ext-type')
    return '* put_att %d %d %s %d %d %s' % (f, varid, hx(name), t, n, ' '.join(map(str, vals)))


def natural_mem(xtype):
    """memory type for the full writes: the values (1..LIM) must print exactly at 7 digits for float"""
    return 3 if xtype == 5 else xtype


def gen_full_session(rng):
    """define (dims, vars, attributes), write EVERY element of every variable (so no byte of the data is
    undefined), optionally redefine (new attribute / variable => header grows, data moves), close.
    Returns (session, features, nrecs)."""
    feats = set()
    sess = Session(rng, np_=rng.choice([1, 1, 2, 3]))
    s = Schema(rng, maxlen=rng.choice([3, 5, 6]))
    sess.s = s
    f = 0
    types = [1, 2, 3, 4, 5, 6] if s.fmt < 5 else list(range(1, 12))
    sess.emit('* create %d %d 1' % (f, s.fmt))
    for l in s.define_lines(f):
        sess.emit(l)
    used = set()
    for varid in [-1] + [v.vid for v in s.vars]:
        for _ in range(rng.choice([0, 0, 1, 2, 3]) if varid >= 0 else rng.choice([0, 1, 2, 3])):
            nm = rng.choice(ATT_NAMES) + rng.choice(['', '', '_x', '2'])
            if (varid, nm) in used:
                continue
            used.add((varid, nm))
            sess.emit(gen_att_line(rng, f, varid, nm, types, feats))
    sess.emit('* enddef %d' % f)
    nrecs = rng.choice([0, 1, 2, 3]) if any(v.isrec for v in s.vars) else 0

    def write_all(vs):
        sess.emit('* begin_indep %d' % f)
        for v in vs:
            if v.isrec and nrecs == 0:
                continue
            k = natural_mem(v.xtype)
            start = [0] * v.nd
            count = [nrecs if (i == 0 and v.isrec) else d for i, d in enumerate(v.shape)]
            if v.nd == 0:
                args = 'var1 0'
            else:
                args = 'vara %d %s %s' % (v.nd, ' '.join(map(str, start)), ' '.join(map(str, count)))
            sess.emit('0 put %d i %d %s t%d c %s pat %d' % (f, v.vid, args.split(' ')[0], k,
                                                           ' '.join(args.split(' ')[1:]), sess.next_seed()))
        sess.emit('* end_indep %d' % f)
        sess.emit('* sync %d' % f)
    write_all(s.vars)
    if rng.chance(1, 3):
        feats.add('redef')
        sess.emit('* redef %d' % f)
        if rng.chance(1, 2):
            sess.emit(gen_att_line(rng, f, -1, 'later', [2, 4, 6], feats))
        newv = None
        if rng.chance(1, 2):
            newv = s.add_var(False)
            newv.vid = len(s.vars) - 1; newv.name = 'w%d' % newv.vid
            sess.emit('* def_var %d %s %d %d %s' % (f, hx(newv.name), newv.xtype, newv.nd, ' '.join(map(str, newv.dimids))))
        sess.emit('* enddef %d' % f)
        if newv is not None:
            write_all([newv])
    sess.emit('* close %d' % f)
    return sess, feats, nrecs


def with_layout_opts(text, rng):
    """the same session with other alignment hints / _enddef free space (library-made layout variant)"""
    lines = text.split('\n')
    out = []
    done = False
    hints = []
    if rng.chance(2, 3):
        hints.append('hint nc_header_align_size %d' % rng.choice([4, 8, 64, 512, 100, 1024]))
    if rng.chance(1, 2):
        hints.append('hint nc_var_align_size %d' % rng.choice([4, 8, 16, 64, 100]))
    if rng.chance(1, 2):
        hints.append('hint nc_record_align_size %d' % rng.choice([4, 8, 64, 512]))
    ea = '%d %d %d %d' % (rng.choice([0, 10, 64, 200]), rng.choice([0, 4, 16, 512]), rng.choice([0, 8, 100]),
                          rng.choice([0, 4, 64]))
    for l in lines:
        if l.startswith('hint '):
            continue
        if l.startswith('* create '):
            out += hints
        if not done and (l.startswith('* enddef ') or l.startswith('* _enddef ')):
            out.append('* _enddef %s %s' % (l.split()[2], ea)); done = True
            continue
        out.append(l)
    return '\n'.join(out)


# =============================================================================== comparisons with the oracle
def round_sig(x, P):
    """x (Fraction) correctly rounded (half-even) to P significant decimal digits, as a Fraction"""
    if x == 0:
        return Fraction(0)
    a = abs(x)
    e = len(str(a.numerator)) - len(str(a.denominator))      # estimate of floor(log10 a), +-1
    while Fraction(10) ** e > a:
        e -= 1
    while Fraction(10) ** (e + 1) <= a:
        e += 1
    scale = Fraction(10) ** (P - 1 - e)
    y = a * scale
    fl = y.numerator // y.denominator
    r = y - fl
    if r > Fraction(1, 2) or (r == Fraction(1, 2) and fl % 2 == 1):
        fl += 1
    res = Fraction(fl) / scale
    return -res if x < 0 else res


def num_matches(printed, expect, typ):
    """printed: parse_number dict; expect: oracle value; typ: nc_type. Exact for integers, correctly
    rounded 7/15 significant digits for float/double."""
    pv = printed['value']
    if isinstance(expect, str) or isinstance(pv, str):
        return pv == expect
    if typ in (5, 6):
        return Fraction(pv) == round_sig(Fraction(expect), 7 if typ == 5 else 15)
    return isinstance(pv, int) and pv == expect


def is_fill(expect, typ):
    if isinstance(expect, str) or expect is None:
        return False
    if typ in (5, 6):
        fv = FILL[typ]
        eps = Fraction(1, 2 ** 23) if typ == 5 else Fraction(1, 2 ** 52)
        return (expect > 0) == (fv > 0) and abs(Fraction(expect) - fv) <= eps * fv
    return expect == FILL[typ]


def cmp_att(where, pa, oa, probs):
    """pa: parsed CDL attribute, oa: oracle Att"""
    nm = oa.name.decode('latin-1')
    if pa['name'] != nm:
        probs.append(('att-name', '%s: attribute name %r, oracle %r' % (where, pa['name'], nm)))
        return
    try:
        t, vals = CDL.att_type_and_values(pa)
    except CDL.CdlError as e:
        probs.append(('att-parse', '%s:%s: %s' % (where, nm, e)))
        return
    if oa.nelems == 0:
        if not (t == 2 and vals == b''):
            probs.append(('att-empty', '%s:%s: zero-length attribute printed as %r' % (where, nm, pa['tokens'])))
        return
    if t != oa.type:
        probs.append(('att-type', '%s:%s: printed type %d, oracle type %d' % (where, nm, t, oa.type)))
        return
    if t == 2:
        exp = oa.data
        if vals != exp:
            if vals == exp.rstrip(b'\0'):
                probs.append(('att-text-trailing-nul', '%s:%s: trailing NUL bytes of a text attribute are not printed '
                              '(%d of %d bytes shown)' % (where, nm, len(vals), len(exp))))
            else:
                probs.append(('att-text', '%s:%s: printed %r, oracle %r' % (where, nm, vals, exp)))
        return
    ov = [pyval(x) for x in oa.vals]
    if len(vals) != len(ov):
        probs.append(('att-len', '%s:%s: %d values printed, oracle %d' % (where, nm, len(vals), len(ov))))
        return
    for i, (p, o) in enumerate(zip(vals, ov)):
        if not num_matches(p, o, t):
            key = 'att-value'
            if t in (10, 11) and isinstance(o, int) and abs(o) > 2 ** 53:
                key = 'att-int64-beyond-2^53'
            probs.append((key, '%s:%s[%d]: printed %s, oracle %s (type %d)' % (where, nm, i, p['text'], o, t)))
            return


def char_rows(tokens):
    """string tokens of a char variable -> list of rows (a piece ending in newline continues on the next token)"""
    if any(t[0] != 'str' for t in tokens):
        return None
    rows = []
    i = 0
    while i < len(tokens):
        row = tokens[i][1]
        i += 1
        while tokens[i - 1][1].endswith(b'\n') and i < len(tokens):
            row += tokens[i][1]
            i += 1
        rows.append(row)
    return rows


def cmp_dump(cdl, c):
    """ncmpidump's CDL (parsed) against the oracle content; -> list of (key, message)"""
    probs = []
    if cdl['format'] != c.fmt:
        probs.append(('format', 'format printed %r, oracle %d' % (cdl['format'], c.fmt)))
    if len(cdl['dims']) != len(c.dims):
        probs.append(('ndims', '%d dimensions printed, oracle %d' % (len(cdl['dims']), len(c.dims))))
        return probs
    for pd, (n, s) in zip(cdl['dims'], c.dims):
        if pd['name'] != n.decode('latin-1') or pd['len'] != s:
            probs.append(('dim', 'dimension printed %r, oracle (%r,%d)' % (pd, n, s)))
        if s == 0 and pd['current'] != c.numrecs:
            probs.append(('numrecs', 'UNLIMITED (%r currently), oracle numrecs %d' % (pd['current'], c.numrecs)))
    if len(cdl['gatts']) != len(c.gatts):
        probs.append(('ngatts', '%d global attributes printed, oracle %d' % (len(cdl['gatts']), len(c.gatts))))
    else:
        for pa, oa in zip(cdl['gatts'], c.gatts):
            cmp_att('global', pa, oa, probs)
    if len(cdl['vars']) != len(c.vars):
        probs.append(('nvars', '%d variables printed, oracle %d' % (len(cdl['vars']), len(c.vars))))
        return probs
    dimnames = [d[0].decode('latin-1') for d in c.dims]
    for pv, ov in zip(cdl['vars'], c.vars):
        nm = ov.name.decode('latin-1')
        if pv['name'] != nm or pv['type'] != ov.type or pv['dims'] != [dimnames[i] for i in ov.dimids]:
            probs.append(('var-decl', 'variable printed %s %s(%s), oracle %s type %d dims %r' %
                          (pv['typename'], pv['name'], ','.join(pv['dims']), nm, ov.type, ov.dimids)))
            continue
        if len(pv['atts']) != len(ov.atts):
            probs.append(('nvatts', '%s: %d attributes printed, oracle %d' % (nm, len(pv['atts']), len(ov.atts))))
        else:
            for pa, oa in zip(pv['atts'], ov.atts):
                cmp_att(nm, pa, oa, probs)
        toks = cdl['data'].get(nm)
        n = c.nelems(ov)
        if toks is None:
            if n != 0:
                probs.append(('data-missing', '%s: no data printed, oracle has %d elements' % (nm, n)))
            continue
        if ov.type == 2:
            rows = char_rows(toks)
            shape = c.shape(ov)
            if c.isrec(ov):
                shape = [c.numrecs] + shape[1:]
            ncols = shape[-1] if shape else 1
            nrows = (n // ncols) if ncols else 0
            if rows is None or len(rows) != nrows:
                probs.append(('data-char-rows', '%s: %r rows printed, oracle %d' % (nm, None if rows is None else len(rows), nrows)))
                continue
            for i, r in enumerate(rows):
                e = ov.data[i * ncols:(i + 1) * ncols]       # elements past the end of the file are b'' (not defined)
                if len(r) > ncols:
                    probs.append(('data-char', '%s row %d: %d bytes printed, row length %d' % (nm, i, len(r), ncols)))
                    break
                rp = r + b'\0' * (ncols - len(r))
                if any(len(x) == 1 and x[0] != rp[j] for j, x in enumerate(e)):
                    probs.append(('data-char', '%s row %d: printed %r, oracle %r' % (nm, i, r, b''.join(e))))
                    break
            continue
        if len(toks) != n:
            probs.append(('data-count', '%s: %d values printed, oracle %d' % (nm, len(toks), n)))
            continue
        for i, (tk, otok) in enumerate(zip(toks, ov.vals)):
            o = pyval(otok)
            if o is None:
                continue            # element past the end of the file: not defined by the format
            if tk[0] == 'fill':
                if not is_fill(o, ov.type):
                    probs.append(('data-fill:' + TYPE_NAME[ov.type], '%s[%d]: printed _ , oracle %s' % (nm, i, o)))
                    break
                continue
            if tk[0] != 'num':
                probs.append(('data-token', '%s[%d]: unexpected token %r' % (nm, i, tk)))
                break
            try:
                p = CDL.parse_number(tk[1])
            except CDL.CdlError as e:
                probs.append(('data-parse', '%s[%d]: %s' % (nm, i, e)))
                break
            if p['kind'] in (5, 6) and ov.type not in (5, 6) or not num_matches(p, o, ov.type):
                probs.append(('data-value', '%s[%d]: printed %s, oracle %s (type %d)' % (nm, i, tk[1], o, ov.type)))
                break
    return probs


def cmp_offsets(po, c):
    """ncoffsets report (parsed) against the oracle decode"""
    probs = []
    I = c.info
    if po['format'] != c.fmt:
        probs.append(('format', 'format %r, oracle %d' % (po['format'], c.fmt)))
    if po['header_size'] != I['hdr_len']:
        probs.append(('header-size', 'header size %r, oracle %d' % (po['header_size'], I['hdr_len'])))
    if c.vars and po['header_extent'] != I['begin_var']:
        probs.append(('header-extent', 'header extent %r, oracle begin_var %d' % (po['header_extent'], I['begin_var'])))
    if po['ndims'] != len(c.dims) or po['nvars'] != len(c.vars) or po['ngatts'] != len(c.gatts):
        probs.append(('counts', 'counts %r/%r/%r, oracle %d/%d/%d' % (po['ndims'], po['nvars'], po['ngatts'],
                                                                    len(c.dims), len(c.vars), len(c.gatts))))
    ed = [(n.decode('latin-1'), (s if s else None), (c.numrecs if s == 0 else None)) for n, s in c.dims]
    if [tuple(x) for x in po['dims']] != ed:
        probs.append(('dims', 'dimensions %r, oracle %r' % (po['dims'], ed)))
    dimnames = [d[0].decode('latin-1') for d in c.dims]
    fx, rc = [], []
    for ov, vi in zip(c.vars, c.vinfo):
        e = dict(typename=TYPE_NAME[ov.type], name=ov.name.decode('latin-1'), dims=[dimnames[i] for i in ov.dimids],
                 start=vi['begin'], end=vi['begin'] + c.nper(ov) * ELSIZE[ov.type])
        (rc if c.isrec(ov) else fx).append(e)
    for got, exp, what in ((po['fixed'], fx, 'fixed'), (po['record'], rc, 'record')):
        g = [{k: x.get(k) for k in ('typename', 'name', 'dims', 'start', 'end')} for x in got]
        if g != exp:
            probs.append(('vars-' + what, '%s variables %r, oracle %r' % (what, g, exp)))
    return probs


# =============================================================================== edits and mutations
def rand_layout(rng, c):
    def junk(n):
        return bytes(rng.range(1, 255) for _ in range(n))
    return dict(hfree=junk(4 * rng.choice([0, 0, 1, 3, 16, 87])),
                gaps=[junk(4 * rng.choice([0, 0, 1, 2, 5])) for _ in c.vars],
                recgap=junk(4 * rng.choice([0, 0, 1, 7])), tail=junk(rng.choice([0, 0, 1, 5, 64])))


def resize_data(c, v, old_n):
    """after a shape change: keep the leading elements, pad with zero elements"""
    n = c.nelems(v)
    xs = ELSIZE[v.type]
    v.data = (v.data + [b'\0' * xs] * n)[:n]


def content_edit(rng, c0, kind):
    """-> (edited deep copy, description) or None when the edit does not apply"""
    c = copy.deepcopy(c0)
    if kind == 'format':
        opts = [f for f in (1, 2, 5) if f != c.fmt]
        if c.fmt == 5 and any(v.type > 6 for v in c.vars) or any(a.type > 6 for a in c.gatts + [a for v in c.vars for a in v.atts]):
            opts = [f for f in opts if f == 5]
        if not opts:
            return None
        c.fmt = rng.choice(opts)
        return c, 'format %d -> %d' % (c0.fmt, c.fmt)
    if kind == 'numrecs':
        if not c.has_unlim():
            return None
        old = c.numrecs
        c.numrecs = old - 1 if (old > 0 and rng.chance(1, 2)) else old + 1
        for v in c.vars:
            if c.isrec(v):
                resize_data(c, v, None)
        return c, 'numrecs %d -> %d' % (old, c.numrecs)
    if kind == 'delatt':
        owners = [('global', c.gatts)] + [('variable %d' % i, v.atts) for i, v in enumerate(c.vars)]
        owners = [o for o in owners if o[1]]
        if not owners:
            return None
        w, lst = rng.choice(owners)
        k = rng.below(len(lst))
        nm = lst[k].name
        n0 = len(lst)
        del lst[k]
        return c, '%s attribute %r removed (%d -> %d attributes)' % (w, nm, n0, n0 - 1)
    if kind == 'dimlen':
        cand = [i for i, d in enumerate(c.dims) if d[1] != 0]
        if not cand:
            return None
        i = rng.choice(cand)
        n, s = c.dims[i]
        ns = s + 1 if (s == 1 or rng.chance(1, 2)) else s - 1
        c.dims[i] = (n, ns)
        for v in c.vars:
            if i in v.dimids:
                resize_data(c, v, None)
        return c, 'dimension %d length %d -> %d (%s)' % (i, s, ns, 'used' if any(i in v.dimids for v in c.vars) else 'unused')
    return None


def byte_edit(rng, b, P, c, kind):
    """in-place single logical edit of a valid file's bytes (same layout) -> (bytes, description) | None"""
    b = bytearray(b)
    if kind == 'value':
        cand = [(i, v) for i, v in enumerate(c.vars) if c.nelems(v) > 0]
        if not cand:
            return None
        i, v = rng.choice(cand)
        k = rng.below(c.nelems(v))
        xs = ELSIZE[v.type]
        np_ = c.nper(v)
        if c.isrec(v):
            off = c.vinfo[i]['begin'] + (k // np_) * c.info['recsize'] + (k % np_) * xs
        else:
            off = c.vinfo[i]['begin'] + k * xs
        if off + xs > len(b):
            return None
        b[off + xs - 1] ^= 1
        return bytes(b), 'value: variable %d (%s) element %d last byte ^1 (file offset %d)' % (
            i, TYPE_NAME[v.type], k, off + xs - 1), TYPE_NAME[v.type]
    if kind == 'attvalue':
        cand = [a for a in P['gatts'] if a['data_len'] > 0] + [a for v in P['vars'] for a in v['atts'] if a['data_len'] > 0]
        if not cand:
            return None
        a = rng.choice(cand)
        xs = ELSIZE[a['type']]
        k = rng.below(a['nelems'])
        o = a['data_off'] + k * xs + xs - 1
        b[o] ^= 1
        return bytes(b), 'attribute value (%s): element %d last byte ^1 (file offset %d)' % (
            TYPE_NAME.get(a['type'], '?'), k, o), TYPE_NAME.get(a['type'], '?')
    if kind in ('varname', 'dimname', 'attname'):
        if kind == 'varname':
            cand = [v['name'] for v in P['vars']]
        elif kind == 'dimname':
            cand = [d['name'] for d in P['dims']]
        else:
            cand = [a['name'] for a in P['gatts']] + [a['name'] for v in P['vars'] for a in v['atts']]
        cand = [n for n in cand if n['len'] > 0]
        if not cand:
            return None
        n = rng.choice(cand)
        o = n['off'] + rng.below(n['len'])
        old = b[o]
        new = ord('Q') if old != ord('Q') else ord('Z')
        b[o] = new
        return bytes(b), '%s: byte at %d %r -> %r' % (kind, o, chr(old), chr(new)), ''
    if kind == 'numrecs-field':
        if not c.has_unlim() or c.numrecs == 0:
            return None
        put_be(b, 4, P['nn'], c.numrecs - 1)
        return bytes(b), 'numrecs field %d -> %d (data untouched)' % (c.numrecs, c.numrecs - 1), ''
    return None


MUTATIONS = ['bad-list-tag', 'wrong-tag-empty-list', 'nonzero-name-padding', 'nonzero-att-padding', 'wrong-vsize',
             'begin-overlap', 'begin-in-header', 'rec-begin-before-fixed-end', 'dimid-out-of-range', 'truncated-header',
             'two-unlimited', 'bad-magic', 'bad-version', 'nelems-too-big', 'bad-att-type', 'bad-var-type',
             'benign-free-space-junk', 'benign-trailing-junk', 'benign-begin-shift']


def mutate(rng, b0, P, c, kind):
    """header-violating (or benign control) mutation of a valid file -> (bytes, description) | None"""
    b = bytearray(b0)
    nn, osz = P['nn'], P['offsz']
    if kind == 'bad-list-tag':
        cand = [t for t in P['tags'] if t['val'] != 0]
        if not cand:
            return None
        t = rng.choice(cand)
        new = rng.choice([x for x in (10, 11, 12, 13, 1, 0x0a000000) if x != t['val']])
        put_be(b, t['off'], 4, new)
        return bytes(b), '%s list tag %d -> %d at %d' % (t['kind'], t['val'], new, t['off'])
    if kind == 'wrong-tag-empty-list':
        cand = [t for t in P['tags'] if t['val'] == 0]
        if not cand:
            return None
        t = rng.choice(cand)
        good = {'dim': 10, 'var': 11, 'att': 12}[t['kind']]
        new = rng.choice([x for x in (10, 11, 12) if x != good])
        put_be(b, t['off'], 4, new)
        return bytes(b), 'empty %s list: tag 0 -> %d (nelems stays 0) at %d' % (t['kind'], new, t['off'])
    if kind == 'nonzero-name-padding':
        cand = [n for n in P['names'] if n['pad'] > 0]
        if not cand:
            return None
        n = rng.choice(cand)
        o = n['pad_off'] + rng.below(n['pad'])
        b[o] = rng.range(1, 255)
        return bytes(b), 'name padding byte at %d := %d' % (o, b[o])
    if kind == 'nonzero-att-padding':
        cand = [a for a in P['gatts'] if a['pad'] > 0] + [a for v in P['vars'] for a in v['atts'] if a['pad'] > 0]
        if not cand:
            return None
        a = rng.choice(cand)
        o = a['pad_off'] + rng.below(a['pad'])
        b[o] = rng.range(1, 255)
        return bytes(b), 'attribute value padding byte at %d := %d' % (o, b[o])
    if kind == 'wrong-vsize':
        if not P['vars']:
            return None
        v = rng.choice(P['vars'])
        new = v['vsize'] + rng.choice([4, 8, -4, 1, 1000]) if v['vsize'] >= 4 else v['vsize'] + 4
        put_be(b, v['vsize_off'], nn, new)
        return bytes(b), 'vsize %d -> %d at %d' % (v['vsize'], new, v['vsize_off'])
    if kind in ('begin-overlap', 'benign-begin-shift'):
        fixed = [i for i, v in enumerate(c.vars) if not c.isrec(v)]
        recs = [i for i, v in enumerate(c.vars) if c.isrec(v)]
        if kind == 'begin-overlap':
            grp = fixed if (len(fixed) >= 2 and (len(recs) < 2 or rng.chance(1, 2))) else recs
            if len(grp) < 2:
                return None
            j = rng.range(1, len(grp) - 1)
            i, ip = grp[j], grp[j - 1]
            if c.vinfo[ip]['len'] == 0:
                return None
            new = c.vinfo[ip]['begin'] + rng.choice([0, c.vinfo[ip]['len'] - 4]) if c.vinfo[ip]['len'] >= 4 else c.vinfo[ip]['begin']
            put_be(b, P['vars'][i]['begin_off'], osz, new)
            return bytes(b), 'begin of variable %d: %d -> %d (inside variable %d)' % (i, c.vinfo[i]['begin'], new, ip)
        # benign: the LAST fixed-size variable of a file without record variables moves 4 bytes further
        if recs or not fixed:
            return None
        i = fixed[-1]
        new = c.vinfo[i]['begin'] + 4
        put_be(b, P['vars'][i]['begin_off'], osz, new)
        return bytes(b), 'begin of last variable %d: %d -> %d (still ordered, aligned)' % (i, c.vinfo[i]['begin'], new)
    if kind == 'begin-in-header':
        if not P['vars']:
            return None
        i = rng.below(len(P['vars']))
        new = 4 * rng.below(max(1, P['end'] // 4))
        put_be(b, P['vars'][i]['begin_off'], osz, new)
        return bytes(b), 'begin of variable %d: %d -> %d (inside the header)' % (i, c.vinfo[i]['begin'], new)
    if kind == 'rec-begin-before-fixed-end':
        fixed = [i for i, v in enumerate(c.vars) if not c.isrec(v) and c.vinfo[i]['len'] >= 4]
        recs = [i for i, v in enumerate(c.vars) if c.isrec(v)]
        if not fixed or not recs:
            return None
        lf = fixed[-1]
        new = c.vinfo[lf]['begin'] + c.vinfo[lf]['len'] - 4
        # move every record variable so that they stay consecutive; the section now starts inside the last fixed var
        delta = new - c.vinfo[recs[0]]['begin']
        for i in recs:
            put_be(b, P['vars'][i]['begin_off'], osz, c.vinfo[i]['begin'] + delta)
        return bytes(b), 'record section begin %d -> %d (4 bytes before the end of fixed variable %d)' % (
            c.vinfo[recs[0]]['begin'], new, lf)
    if kind == 'dimid-out-of-range':
        cand = [o for v in P['vars'] for o in v['dimid_offs']]
        if not cand:
            return None
        o = rng.choice(cand)
        new = rng.choice([len(P['dims']), len(P['dims']) + 7, 2 ** 31 - 1])
        put_be(b, o, nn, new)
        return bytes(b), 'dimid at %d := %d (ndims %d)' % (o, new, len(P['dims']))
    if kind == 'truncated-header':
        if P['end'] <= 8:
            return None
        n = rng.range(4, P['end'] - 1)
        return bytes(b[:n]), 'file cut to %d bytes (header is %d)' % (n, P['end'])
    if kind == 'two-unlimited':
        cand = [d for d in P['dims'] if d['size'] != 0]
        if not cand or not c.has_unlim():
            return None
        d = rng.choice(cand)
        put_be(b, d['size_off'], nn, 0)
        return bytes(b), 'dimension length at %d: %d -> 0 (second unlimited dimension)' % (d['size_off'], d['size'])
    if kind == 'bad-magic':
        i = rng.below(3)
        b[i] = rng.choice([x for x in (0x43, 0x44, 0x46, 0x63, 0x00, 0x89) if x != b[i]])
        return bytes(b), 'magic byte %d := 0x%02x' % (i, b[i])
    if kind == 'bad-version':
        b[3] = rng.choice([0, 3, 4, 6, 0x35])
        return bytes(b), 'version byte := %d' % b[3]
    if kind == 'nelems-too-big':
        o = rng.choice(P['nelems'])
        old = int.from_bytes(b[o:o + nn], 'big')
        new = old + rng.choice([1, 2, 1000])
        put_be(b, o, nn, new)
        return bytes(b), 'list nelems at %d: %d -> %d' % (o, old, new)
    if kind == 'bad-att-type':
        cand = P['gatts'] + [a for v in P['vars'] for a in v['atts']]
        if not cand:
            return None
        a = rng.choice(cand)
        new = rng.choice([0, 12, 99] + ([7, 11] if P['fmt'] != 5 else []))
        put_be(b, a['type_off'], 4, new)
        return bytes(b), 'attribute nc_type at %d: %d -> %d' % (a['type_off'], a['type'], new)
    if kind == 'bad-var-type':
        if not P['vars']:
            return None
        v = rng.choice(P['vars'])
        new = rng.choice([0, 12, 99] + ([7, 10] if P['fmt'] != 5 else []))
        put_be(b, v['type_off'], 4, new)
        return bytes(b), 'variable nc_type at %d: %d -> %d' % (v['type_off'], v['type'], new)
    if kind == 'benign-free-space-junk':
        if not c.vars or min(len(b), c.info['begin_var']) <= P['end']:
            return None
        for o in range(P['end'], min(len(b), c.info['begin_var'])):
            b[o] = rng.range(1, 255)
        return bytes(b), 'free space [%d,%d) filled with non-zero bytes' % (P['end'], c.info['begin_var'])
    if kind == 'benign-trailing-junk':
        return bytes(b) + bytes(rng.range(0, 255) for _ in range(rng.range(1, 40))), 'bytes appended after the data'
    return None


# =============================================================================== one case
class Tools:
    def __init__(self, d, oracle):
        self.d = d
        self.oracle = oracle
        for t in ('ncvalidator', 'cdfdiff', 'ncoffsets', 'ncmpidiff', 'ncmpidump', 'ncmpigen', 'pnc_impl', 'bighdr'):
            setattr(self, t, os.path.join(d, t))


class CaseOut:
    def __init__(self):
        self.counts = []       # (repr, nontrivial)
        self.viol = []         # (what, replay dict, key)
        self.stats = {}

    def stat(self, k, n=1):
        self.stats[k] = self.stats.get(k, 0) + n


def odump(T, path):
    rc, out = sh_([T.oracle, 'dump', path], timeout=600)
    if rc != 0:
        raise RuntimeError('oracle dump failed on %s: %s' % (path, out[-500:]))
    return parse_dump(out)


def oeq(T, a, b):
    rc, out = sh_([T.oracle, 'eq', a, b], timeout=600)
    t = out.split()
    if rc != 0 or len(t) != 4 or t[0] != 'eq':
        return None
    return dict(logical_eq=t[1] == '1', content_eq=t[2] == '1', same_format=t[3] == '1')


def oencode(T, c, layout, path):
    spec = path + '.spec'
    write_spec(c, layout, spec)
    rc, out = sh_([T.oracle, 'encode', spec, path], timeout=600)
    if rc != 0 or 'data_ok 1' not in out:
        raise RuntimeError('oracle encode failed: %s' % out[-500:])
    return [int(x) for x in out.split('begins')[1].split()]


def diff_verdict(rc, out):
    if rc == 0:
        return 'same'
    if 'DIFF' in out or 'differences' in out:
        return 'differ'
    return 'error'


def check_diff_pair(T, rng, co, base, a, b, klass, desc, np_, tag='', both_orders=False, extra=()):
    """tie 2 on one pair; the expectation is the oracle's logical_eq on the two files"""
    e = oeq(T, a, b)
    if e is None:
        co.viol.append(('oracle could not decode a generated pair (%s)' % klass, dict(base, pair=klass, desc=desc), None))
        return
    want = 'same' if e['logical_eq'] else 'differ'
    if extra:                   # tolerance options: the expectation is passed in (computed from the oracle's values)
        want = extra[1]
    for tool, n, x, y, od in [(t, n, a, b, '') for t, n in (('cdfdiff', 1), ('ncmpidiff', np_))] + \
                             ([(t, n, b, a, ':swapped') for t, n in (('cdfdiff', 1), ('ncmpidiff', np_))] if both_orders else []):
        exe = getattr(T, tool)
        opts = list(extra[0]) if extra else []
        rc, out = mpi(n, exe, opts + [x, y], timeout=120)
        got = diff_verdict(rc, out)
        if got == 'error' and rc not in (136, -8, 139, -11, 134, -6):   # an MPI launch can fail under load: one retry
            co.stat('retry:%s' % tool)
            first = out
            rc, out = mpi(n, exe, opts + [x, y], timeout=240)
            got = diff_verdict(rc, out)
            out = out + '\n[first attempt]\n' + first[-800:]
        if got == 'error':
            got = 'crash(rc=%d)' % rc
        co.counts.append(('%s %s np=%d %s%s: %s | %s -> %s' % (tool, ' '.join(opts), n, klass, od, desc, base['script_sha'], got), True))
        co.stat('diff:%s:%s:%s' % (tool, klass, want))
        if got != want:
            key = '%s:%s-expected:%s%s%s' % (tool, want, klass, (':' + tag) if tag else '', od)
            if got.startswith('crash'):
                key = '%s:crash:%s%s%s' % (tool, klass, (':' + tag) if tag else '', od)
            co.viol.append(('%s %s reports "%s" for a pair that should be reported "%s" (logical_eq %s; %s%s: %s)' %
                            (tool, ' '.join(opts), got, want, e['logical_eq'], klass, od, desc),
                            dict(base, pair=klass, desc=desc, tool=tool, options=opts, order=od or 'as given', np=n, rc=rc,
                                 output=out[-1500:], oracle=e, file_a=open(x, 'rb').read().hex()[:60000],
                                 file_b=open(y, 'rb').read().hex()[:60000]), key))
    return e


def check_valid_batch(T, co, base, items):
    """tie 1: items = [(path, klass, desc)]; ncvalidator verdict against the oracle's"""
    if not items:
        return
    rc, out = sh_([T.oracle, 'valid'] + [p for p, _, _ in items], timeout=900)
    verd = {}
    for l in out.split('\n'):
        t = l.split(' ')
        if len(t) == 4:
            verd[t[0]] = (t[1] == '1', t[2] == '1', t[3] == '1')
    for p, klass, desc in items:
        if p not in verd:
            co.viol.append(('oracle gave no verdict for %s' % klass, dict(base, klass=klass, desc=desc, out=out[-500:]), None))
            continue
        dec, strict, lay = verd[p]
        want = 'accept' if (dec and strict and lay) else 'reject'
        if want == 'reject' and klass in ('library-written', 'large-header'):
            co.viol.append(('the library wrote a file that the format oracle rejects (decode=%d strict_valid=%d layout_ok=%d)' %
                            (dec, strict, lay), dict(base, klass=klass, desc=desc, file=open(p, 'rb').read().hex()[:60000]),
                            'library:writes-invalid-file'))
            continue
        if want == 'reject' and klass in ('tight-layout', 'free-layout', 'large-header-free-layout'):
            co.viol.append(('encode_with_layout produced a file that file_valid rejects (decode=%d strict_valid=%d layout_ok=%d): '
                            'contradicts encode_with_layout_valid_partial' % (dec, strict, lay), dict(base, klass=klass, desc=desc), None))
            continue
        rc, vout = sh_([T.ncvalidator, p], timeout=20, limit_mem=True)
        if rc == -9:            # a hang must survive a second, long watchdog (loaded machine)
            co.stat('retry:ncvalidator')
            rc, vout = sh_([T.ncvalidator, p], timeout=150, limit_mem=True)
        got = 'accept' if rc == 0 else ('reject' if rc == 1 else ('hang' if rc == -9 else 'crash(rc=%d)' % rc))
        nontrivial = not klass.startswith('benign') or want == 'accept'
        co.counts.append(('ncvalidator %s: %s | %s -> %s' % (klass, desc, base['script_sha'], got), nontrivial))
        co.stat('valid:%s:%s' % (klass, want))
        if got != want:
            why = 'decode=%d strict_valid=%d layout_ok=%d' % (dec, strict, lay)
            key = 'ncvalidator:%ss:%s' % (got.split('(')[0], klass)
            co.viol.append(('ncvalidator %ss a file the format oracle %ss (%s; %s: %s)' % (got, want, why, klass, desc),
                            dict(base, klass=klass, desc=desc, oracle=why, rc=rc, output=vout[-1500:],
                                 file=open(p, 'rb').read().hex()[:60000]), key))


def check_dump(T, co, base, path, c, what, feats):
    """tie 3: ncmpidump and ncoffsets on one file"""
    rc, out = mpi(1, T.ncmpidump, [path], timeout=120)
    if rc != 0:
        co.viol.append(('ncmpidump failed (rc %d) on %s' % (rc, what), dict(base, what=what, output=out[-1500:]), 'ncmpidump:error'))
    else:
        try:
            cdl = CDL.parse_cdl(out)
            probs = cmp_dump(cdl, c)
        except CDL.CdlError as e:
            probs = [('parse', 'CDL not parsed: %s' % e)]
        co.counts.append(('ncmpidump %s | %s -> %d problems' % (what, base['script_sha'], len(probs)), True))
        co.stat('dump:' + what)
        seen = set()
        for k, msg in probs:
            if k in seen:
                continue
            seen.add(k)
            co.viol.append(('ncmpidump output disagrees with the decoded file (%s): %s' % (what, msg),
                            dict(base, what=what, problem=msg, cdl=out[-6000:], file=open(path, 'rb').read().hex()[:60000]),
                            'ncmpidump:' + k))
    rc, out = sh_([T.ncoffsets, '-s', '-g', path], timeout=60)
    if rc != 0:
        co.viol.append(('ncoffsets failed (rc %d) on %s' % (rc, what), dict(base, what=what, output=out[-1500:]), 'ncoffsets:error'))
        return
    probs = cmp_offsets(CDL.parse_ncoffsets(out), c)
    co.counts.append(('ncoffsets %s | %s -> %d problems' % (what, base['script_sha'], len(probs)), True))
    co.stat('offsets:' + what)
    for k, msg in probs:
        co.viol.append(('ncoffsets output disagrees with the decoded file (%s): %s' % (what, msg),
                        dict(base, what=what, problem=msg, output=out[-3000:], file=open(path, 'rb').read().hex()[:60000]),
                        'ncoffsets:' + k))


def check_regen(T, co, base, path, c, feats):
    """tie 4: ncmpidump -> ncmpigen -> logical_eq with the original"""
    d = os.path.dirname(path)
    cdlp = os.path.join(d, 'regen.cdl')
    gen = os.path.join(d, 'regen.nc')
    rc, out = mpi(1, T.ncmpidump, [path], timeout=120)
    if rc != 0:
        return
    open(cdlp, 'w', encoding='latin-1').write(out)
    feats = set(feats)
    try:        # a "_" printed for a variable of a CDF-5 type (ncmpigen has no fill value for those)
        pc = CDL.parse_cdl(out)
        if any(v['type'] >= 7 and any(t[0] == 'fill' for t in pc['data'].get(v['name'], [])) for v in pc['vars']):
            feats.add('data-fill-value-ext-type')
    except CDL.CdlError:
        pass
    if os.path.exists(gen):
        os.remove(gen)
    rc, gout = mpi(1, T.ncmpigen, ['-v', str(c.fmt), '-o', gen, cdlp], timeout=120)
    tags = sorted(f for f in feats if f.startswith('att-') or f.startswith('data-'))
    co.counts.append(('ncmpigen round trip | %s feats=%s' % (base['script_sha'], ','.join(tags)), True))
    co.stat('regen')
    if rc != 0 or not os.path.exists(gen):
        key = regen_key('rejects', feats, [])[0][0]
        co.viol.append(('ncmpigen cannot read the CDL that ncmpidump printed for a library-written file (rc %d): %s' %
                        (rc, gout.strip()[-200:]), dict(base, cdl=out[-6000:], output=gout[-1500:], features=tags), key))
        return
    if 'nc_fill: unrecognized type' in gout:
        feats.add('ncmpigen-nc_fill-error')
    e = oeq(T, path, gen)
    if e is None or not e['logical_eq']:
        cg = odump(T, gen)
        diffs = describe_diff(c, cg)
        for key, texts in regen_key('differs', feats, diffs):
            co.viol.append(('dump -> ncmpigen does not reproduce the logical content: %s' % '; '.join(texts[:4]),
                            dict(base, cdl=out[-6000:], oracle=e, differences=texts[:20], features=sorted(feats),
                                 file=open(path, 'rb').read().hex()[:60000]), key))
    else:
        co.stat('regen:identical')


def describe_diff(a, b):
    """-> list of (category, text); category in format|numrecs|dims|att|var-decl|data:<typename>"""
    out = []
    if a.fmt != b.fmt:
        out.append(('format', 'format %d vs %d' % (a.fmt, b.fmt)))
    if a.numrecs != b.numrecs:
        out.append(('numrecs', 'numrecs %d vs %d' % (a.numrecs, b.numrecs)))
    if a.dims != b.dims:
        out.append(('dims', 'dimensions %r vs %r' % (a.dims, b.dims)))

    def atts(w, x, y):
        if len(x) != len(y):
            out.append(('att', '%s: %d vs %d attributes' % (w, len(x), len(y))))
            return
        for p, q in zip(x, y):
            if (p.name, p.type, p.nelems, p.data) != (q.name, q.type, q.nelems, q.data):
                out.append(('att', '%s attribute %r: (type %d, n %d, %s) vs (type %d, n %d, %s)' %
                            (w, p.name, p.type, p.nelems, p.data.hex(), q.type, q.nelems, q.data.hex())))
    atts('global', a.gatts, b.gatts)
    if len(a.vars) != len(b.vars):
        out.append(('var-decl', '%d vs %d variables' % (len(a.vars), len(b.vars))))
        return out
    for p, q in zip(a.vars, b.vars):
        if (p.name, p.type, p.dimids) != (q.name, q.type, q.dimids):
            out.append(('var-decl', 'variable %r/%r declaration' % (p.name, q.name)))
        atts('variable %r' % p.name, p.atts, q.atts)
        if p.data != q.data:
            k = next((i for i, (x, y) in enumerate(zip(p.data, q.data)) if x != y), min(len(p.data), len(q.data)))
            out.append(('data:' + TYPE_NAME.get(p.type, '?'),
                        'variable %r data: %d vs %d elements, first difference at %d (%s vs %s)' %
                        (p.name, len(p.data), len(q.data), k, p.data[k].hex() if k < len(p.data) else '-',
                         q.data[k].hex() if k < len(q.data) else '-')))
    return out or [('none', '(no difference found by the describer)')]


NAMED_ESC = (8, 12, 10, 13, 9, 11, 92, 39, 34)


def char_features(c):
    """features of char variables that matter for the CDL text (ncmpidump prints one string per row of the
    last dimension, trailing NULs stripped, non-printable bytes as 3-digit octal escapes, a row is split after
    every newline)"""
    feats = set()
    for v in c.vars:
        if v.type != 2 or not v.data:
            continue
        shape = c.shape(v)
        ncols = shape[-1] if shape else 1
        if len(shape) == 1 and c.isrec(v):
            ncols = c.numrecs
        data = b''.join(v.data)
        for i in range(0, len(data), max(ncols, 1)):
            r = data[i:i + ncols]
            rs = r.rstrip(b'\0')
            if b'\0' in rs:
                feats.add('data-char-embedded-nul')
            if r != rs:
                feats.add('data-char-trailing-nul')
            if b'\n' in r and len(shape) > 1:
                feats.add('data-char-newline')
            for j in range(len(rs) - 1):
                if not (32 <= rs[j] <= 126) and rs[j] not in NAMED_ESC and rs[j + 1] in b'01234567':
                    feats.add('data-char-octal-escape-then-digit')
    return feats


def data_features(c):
    """features of numeric data that matter for the dump -> generate round trip"""
    feats = set()
    for v in c.vars:
        if v.type in (7, 8, 9, 10, 11):
            vals = [pyval(x) for x in v.vals]
            if any(x == FILL[v.type] for x in vals):
                feats.add('data-fill-value-ext-type')        # printed as "_"
            if v.type in (10, 11) and any(isinstance(x, int) and abs(x) > 2 ** 53 for x in vals):
                feats.add('data-int64-beyond-2^53')
    return feats


def regen_key(kind, feats, diffs):
    """stable keys for a failed dump -> ncmpigen round trip: -> [(key, [difference texts])], one entry per cause"""
    if kind == 'rejects':
        if 'att-ext-type' in feats:
            return [('ncmpigen:rejects-dump:ext-type-att-suffix', [])]
        if 'data-char-newline' in feats:
            return [('ncmpigen:rejects-dump:char-data-newline', [])]
        return [('ncmpigen:rejects-dump', [])]
    groups = {}
    if 'ncmpigen-nc_fill-error' in feats:
        # "nc_fill: unrecognized type": ncmpigen counts an error, never closes the file, exits 0; every missing piece
        # of the output has this single cause
        return [('ncmpigen:content-differs:fill-value-ext-type', [t for _, t in diffs])]

    def add(key, text):
        groups.setdefault(key, []).append(text)
    newline = 'data-char-newline' in feats and any(k == 'data:char' for k, _ in diffs)
    for k, text in diffs:
        if k == 'att':
            f = next((f for f in ('att-text-trailing-nul', 'att-int64-beyond-2^53', 'att-text-newline') if f in feats), 'att')
            add('ncmpigen:content-differs:' + f, text)
        elif newline and (k == 'numrecs' or k.startswith('data:')):
            add('ncmpigen:content-differs:data-char-newline', text)     # the split row adds a row; a record variable grows
        elif k == 'data:char':
            f = next((f for f in ('data-char-octal-escape-then-digit', 'data-char-embedded-nul') if f in feats), 'char-data')
            add('ncmpigen:content-differs:' + f, text)
        elif k.startswith('data:') and 'data-fill-value-ext-type' in feats:
            add('ncmpigen:content-differs:fill-value-ext-type', text)
        elif k in ('data:int64', 'data:uint64') and 'data-int64-beyond-2^53' in feats:
            add('ncmpigen:content-differs:int64-beyond-2^53', text)
        elif k.startswith('data:'):
            add('ncmpigen:content-differs:' + k, text)
        else:
            add('ncmpigen:content-differs', text)
    return sorted(groups.items())


def run_case(T, seed, idx, tier):
    """one generated session and everything derived from it; returns CaseOut"""
    co = CaseOut()
    rng = C.SplitMix64(seed * 1000003 + idx * 7919 + 17)
    family = 'full' if rng.chance(2, 3) else 'rw'
    feats = set()
    if family == 'full':
        sess, feats, nrecs = gen_full_session(rng)
        text = sess.text()
    else:
        text = api_gen.gen_rw_session(rng).text()
    d = os.path.join(T.d, 'case%d' % idx)
    os.makedirs(d, exist_ok=True)
    sha = hashlib.sha1(text.encode()).hexdigest()[:10]
    base = dict(case=idx, case_seed=seed, family=family, script=text, script_sha=sha, features=sorted(feats))
    r = S.run_script(text, T.pnc_impl, None, d, 'w', keep=True, want_model=False, timeout=120)
    A = os.path.join(r.dir, 'f0.nc')
    if r.rc != 0 or not os.path.exists(A):
        co.stat('retry:session')
        shutil.rmtree(r.dir, ignore_errors=True)
        r = S.run_script(text, T.pnc_impl, None, d, 'w', keep=True, want_model=False, timeout=240)
    if r.rc != 0 or not os.path.exists(A):
        co.viol.append(('the session that writes the file failed (rc %s)' % r.rc, dict(base, output=r.stdout[-1500:]), None))
        return co
    bad = [(k, t) for k, t in sorted(r.impl.items()) if len(t) >= 2 and t[0] in ('put_att', 'put', 'def_var', 'def_dim', 'enddef', '_enddef', 'redef', 'close') and t[1] != '0']
    if family == 'full' and bad:
        co.viol.append(('a generated definition/write call failed: %r' % (bad[:3],), dict(base), None))
        return co
    bA = open(A, 'rb').read()
    c = odump(T, A)
    co.stat('family:' + family)
    co.stat('format:%d' % c.fmt)
    if c.info.get('decode') != 1 or c.info.get('content') == 'skipped':
        co.viol.append(('the format oracle cannot decode a library-written file', dict(base, file=bA.hex()[:60000]),
                        'library:writes-undecodable-file'))
        return co
    if family == 'full' and c.info.get('data_ok') != 1:
        co.viol.append(('library-written file is shorter than its variables (data_ok = 0) although every variable was written',
                        dict(base, file=bA.hex()[:60000]), 'library:short-file'))
    P = walk_header(bA)
    feats |= char_features(c) | data_features(c)
    base['features'] = sorted(feats)
    for ft in feats:
        co.stat('feature:' + ft)

    # ---- tie 1a + 3 + 4 on the library-written file
    valid_items = [(A, 'library-written', family)]
    check_dump(T, co, base, A, c, 'library-written', feats)
    if family == 'full':
        check_regen(T, co, base, A, c, feats)

    # ---- layout variants by the oracle encoder (tie 1b, 2, 3)
    nvar = 2 if tier == 'quick' else 3
    variants = []
    for k in range(nvar):
        lay = dict(hfree=b'', gaps=[], recgap=b'', tail=b'') if k == 0 else rand_layout(rng, c)
        Vp = os.path.join(d, 'variant%d.nc' % k)
        try:
            begins = oencode(T, c, lay, Vp)
        except RuntimeError as e:
            if c.info.get('data_ok') == 1:
                co.viol.append(('the free-layout encoder refused a decoded content: %s' % e, dict(base), None))
            break
        variants.append(Vp)
        what = 'tight-layout' if k == 0 else 'free-layout'
        valid_items.append((Vp, what, 'begins %r' % (begins,)))
        check_diff_pair(T, rng, co, base, A, Vp, 'layout-' + what, 'begins %r vs %r' % ([v['begin'] for v in c.vinfo], begins),
                        rng.range(1, 3))
        if k == nvar - 1:
            cv = odump(T, Vp)
            check_dump(T, co, base, Vp, cv, what, feats)
    check_diff_pair(T, rng, co, base, A, A, 'identical', 'the same file twice', rng.range(1, 3))

    # ---- boundary values set in single elements (content-level edit, oracle encoder): tie 3 + 4 on that file
    if family == 'full' and c.info.get('data_ok') == 1 and rng.chance(1, 2):
        cb = copy.deepcopy(c)
        changed = []
        for vi, v in enumerate(cb.vars):
            if not v.data or v.type == 2:
                continue
            val = rng.choice(BOUNDARY[v.type])
            k = rng.below(len(v.data))
            v.data[k] = (val % (1 << (8 * ELSIZE[v.type]))).to_bytes(ELSIZE[v.type], 'big')
            changed.append('%s[%d]=%s' % (v.name.decode('latin-1'), k, val if v.type not in (5, 6) else hex(val)))
        if changed:
            Xp = os.path.join(d, 'boundary.nc')
            try:
                oencode(T, cb, rand_layout(rng, cb), Xp)
                cx = odump(T, Xp)
                fx = set(f for f in feats if f.startswith('att-')) | char_features(cx) | data_features(cx) | {'data-boundary-values'}
                bb = dict(base, boundary=changed, features=sorted(fx))
                check_dump(T, co, bb, Xp, cx, 'boundary-values', fx)
                check_regen(T, co, bb, Xp, cx, fx)
                valid_items.append((Xp, 'free-layout', 'boundary values'))
            except RuntimeError as e:
                co.viol.append(('the free-layout encoder refused a content with boundary values: %s' % e, dict(base), None))

    # ---- layout variant made by the library itself (alignment hints, _enddef free space)
    if family == 'full' and (tier != 'quick' or rng.chance(1, 2)):
        t2 = with_layout_opts(text, rng)
        r2 = S.run_script(t2, T.pnc_impl, None, d, 'w2', keep=True, want_model=False, timeout=120)
        A2 = os.path.join(r2.dir, 'f0.nc')
        if r2.rc == 0 and os.path.exists(A2):
            c2 = odump(T, A2)
            valid_items.append((A2, 'library-written', 'alignment variant'))
            check_diff_pair(T, rng, co, dict(base, script2=t2), A, A2, 'layout-library-alignment',
                            'begins %r vs %r' % ([v['begin'] for v in c.vinfo], [v['begin'] for v in c2.vinfo]), rng.range(1, 3))

    # ---- single logical edits (tie 2)
    kinds = ['value', 'attvalue', 'varname', 'dimname', 'attname', 'numrecs-field', 'format', 'numrecs', 'dimlen', 'delatt']
    rng.shuffle(kinds)
    nedit = 4 if tier == 'quick' else 7
    done = 0
    for kind in kinds:
        if done >= nedit:
            break
        Ep = os.path.join(d, 'edit-%s.nc' % kind)
        tag = ''
        if kind in ('format', 'numrecs', 'dimlen', 'delatt'):
            if c.info.get('data_ok') != 1:
                continue
            ed = content_edit(rng, c, kind)
            if ed is None:
                continue
            c2, desc = ed
            try:
                oencode(T, c2, rand_layout(rng, c2) if rng.chance(1, 2) else {}, Ep)
            except RuntimeError as e:
                co.viol.append(('the free-layout encoder refused an edited content (%s): %s' % (desc, e), dict(base), None))
                continue
        else:
            ed = byte_edit(rng, bA, P, c, kind)
            if ed is None:
                continue
            eb, desc, tag = ed
            open(Ep, 'wb').write(eb)
        done += 1
        e = check_diff_pair(T, rng, co, base, A, Ep, 'edit-' + kind, desc, rng.range(1, 3), tag=tag, both_orders=(kind == 'delatt'))
        if e is not None and e['logical_eq']:
            co.viol.append(('a single logical edit (%s) left logical_eq true: the edit generator or the oracle is wrong' % desc,
                            dict(base, desc=desc), None))
        if e is not None and kind == 'format' and not e['content_eq']:
            co.viol.append(('re-encoding in another format changed content_eq (%s)' % desc, dict(base, desc=desc), None))

    # ---- header mutations (tie 1c)
    src = [(A, bA, P, c)]
    if variants:
        bv = open(variants[-1], 'rb').read()
        src.append((variants[-1], bv, walk_header(bv), odump(T, variants[-1])))
    for kind in MUTATIONS:
        _, sb, sP, sc = rng.choice(src)
        m = mutate(rng, sb, sP, sc, kind)
        if m is None:
            continue
        mb, desc = m
        Mp = os.path.join(d, 'mut-%s.nc' % kind)
        open(Mp, 'wb').write(mb)
        valid_items.append((Mp, kind, desc))
    check_valid_batch(T, co, base, valid_items)
    if not os.environ.get('C20_KEEP'):
        shutil.rmtree(d, ignore_errors=True)
    return co


# =============================================================================== family "large header"
# ncvalidator (and cdfdiff, which shares its reader) fetch the header in 1 MiB chunks; a field that does not fit in
# the rest of the current chunk is re-read from `slack` bytes before the chunk end.  harness/c20_bighdr.c writes, with
# the real library, a file whose first global attribute is a text attribute of a chosen length, so every later header
# field can be placed on / across the 1 MiB (2 MiB) file offset.
MIB = 1 << 20
BIG_L0 = 1048000


def header_fields(P, after):
    """(kind, offset, size) of every header field that starts at or after file offset `after`"""
    nn, osz = P['nn'], P['offsz']
    F = []

    def nm(w, n):
        F.append((w + '-name-length', n['len_off'], nn))
        F.append((w + '-name-bytes', n['off'], n['len'] + n['pad']))

    def att(w, a):
        nm(w, a['name'])
        F.append((w + '-type', a['type_off'], 4))
        F.append((w + '-nelems', a['nelems_off'], nn))
        F.append((w + '-values', a['data_off'], a['data_len'] + a['pad']))
    for a in P['gatts']:
        att('gatt', a)
    for t in P['tags']:
        F.append((t['kind'] + '-list-tag', t['off'], 4))
        F.append((t['kind'] + '-list-nelems', t['off'] + 4, nn))
    for v in P['vars']:
        nm('var', v['name'])
        F.append(('var-ndims', v['ndims_off'], nn))
        for o in v['dimid_offs']:
            F.append(('var-dimid', o, nn))
        for a in v['atts']:
            att('vatt', a)
        F.append(('var-type', v['type_off'], 4))
        F.append(('var-vsize', v['vsize_off'], nn))
        F.append(('var-begin', v['begin_off'], osz))
    return sorted((f for f in F if f[1] >= after and f[2] > 0), key=lambda f: f[1])


def big_plan(T, rng, tier, co):
    """-> list of (fmt, padlen, boundary, label, full) ; one base file per format gives the field table"""
    plan = []
    for fmt in (1, 2, 5):
        basep = os.path.join(T.d, 'bigbase%d.nc' % fmt)
        rc, out = mpi(1, T.bighdr, [basep, str(fmt), str(BIG_L0)], timeout=300)
        if rc != 0:
            co.viol.append(('the large-header writer failed (format %d, rc %d): %s' % (fmt, rc, out[-300:]), dict(fmt=fmt), None))
            continue
        b = open(basep, 'rb').read()
        P = walk_header(b)
        pad = P['gatts'][0]
        pad_end = pad['data_off'] + pad['data_len'] + pad['pad']
        F = header_fields(P, pad_end)
        os.remove(basep)

        def label(delta, boundary):
            tags = []
            for k, o, n in F:
                o += delta
                if o == boundary:
                    tags.append('at:' + k)
                elif o < boundary < o + n:
                    tags.append('straddle(%d):%s' % (boundary - o, k))
            return ','.join(tags) or 'between'
        lo = MIB - 8 - P['end']
        hi = MIB + 8 - pad_end
        deltas = list(range(lo - lo % 4, hi + 1, 4))
        if tier == 'quick':
            # fields of 8 bytes that start 4 bytes before the boundary (the refill-with-slack path), one per kind
            strad = {}
            for d_ in deltas:
                for k, o, n in F:
                    if n == 8 and o + d_ == MIB - 4 and not k.endswith(('-values', '-name-bytes')):
                        strad.setdefault(k, d_)
            kinds = sorted(strad)
            rng.shuffle(kinds)
            pick = [strad[k] for k in kinds[:{5: 3, 2: 1, 1: 0}[fmt]]]
            if 'var-begin' in strad and fmt == 2:
                pick = [strad['var-begin']]
            pick.append(rng.choice(deltas))
            for i, d_ in enumerate(pick):
                plan.append((fmt, BIG_L0 + d_, MIB, label(d_, MIB), i == 0 and fmt != 1))
            if fmt == 5 and kinds:
                d2 = strad[kinds[-1]] + MIB
                plan.append((fmt, BIG_L0 + d2, 2 * MIB, label(d2, 2 * MIB), False))
        else:
            for i, d_ in enumerate(deltas):
                plan.append((fmt, BIG_L0 + d_, MIB, label(d_, MIB), i % 15 == fmt))
            if fmt != 1:
                d2s = [d_ + MIB for d_ in deltas]
                rng.shuffle(d2s)
                for d2 in d2s[:10]:
                    plan.append((fmt, BIG_L0 + d2, 2 * MIB, label(d2, 2 * MIB), False))
    return plan


def run_bigcase(T, seed, idx, fmt, padlen, boundary, label, full):
    co = CaseOut()
    rng = C.SplitMix64(seed * 1000003 + idx * 104729 + 5)
    d = os.path.join(T.d, 'big%d' % idx)
    os.makedirs(d, exist_ok=True)
    A = os.path.join(d, 'big.nc')
    halign = rng.choice([None, None, '4', '64', '4096'])
    args = [A, str(fmt), str(padlen)] + ([halign] if halign else [])
    desc = 'CDF-%d, pad attribute of %d bytes, %d MiB boundary: %s' % (fmt, padlen, boundary // MIB, label)
    base = dict(case='big%d' % idx, case_seed=seed, family='large-header', script_sha='big:%d:%d' % (fmt, padlen),
                big=dict(fmt=fmt, padlen=padlen, boundary=boundary, label=label, full=full, idx=idx),
                script='c20_bighdr ' + ' '.join(args[1:]), features=[])
    rc, out = mpi(1, T.bighdr, args, timeout=300)
    if rc != 0 or not os.path.exists(A):
        co.viol.append(('the large-header writer failed (rc %d): %s' % (rc, out[-300:]), dict(base), None))
        return co
    co.stat('family:large-header')
    co.stat('large-header:format:%d' % fmt)
    for t in label.split(','):
        co.stat('large-header:' + t.split(':')[0].split('(')[0] + ':' + (t.split(':')[1] if ':' in t else ''))
    items = [(A, 'large-header', desc)]
    if full:
        c = odump(T, A)
        if c.info.get('decode') == 1 and c.info.get('data_ok') == 1:
            Vp = os.path.join(d, 'variant.nc')
            begins = oencode(T, c, rand_layout(rng, c), Vp)
            items.append((Vp, 'large-header-free-layout', desc + '; begins %r' % (begins,)))
            check_diff_pair(T, rng, co, base, A, Vp, 'large-header-layout', desc, rng.range(1, 2))
            ed = byte_edit(rng, open(A, 'rb').read(), walk_header(open(A, 'rb').read()), c, 'value')
            if ed is not None:
                Ep = os.path.join(d, 'edit.nc')
                open(Ep, 'wb').write(ed[0])
                check_diff_pair(T, rng, co, base, A, Ep, 'large-header-edit-value', desc + '; ' + ed[1], 1, tag=ed[2])
            check_dump(T, co, base, A, c, 'large-header', set())
    check_valid_batch(T, co, base, items)
    for what, rep, key in co.viol:       # the files are too large for the replay record: drop the hex dumps
        for k in ('file', 'file_a', 'file_b', 'cdl'):
            if k in rep and len(rep[k]) > 4000:
                rep[k] = rep[k][:4000]
    if not os.environ.get('C20_KEEP'):
        shutil.rmtree(d, ignore_errors=True)
    return co


# =============================================================================== family "record offsets"
# ncoffsets has a private header decoder; its per-record offsets (-r), sizes (-s) and gaps (-g, -x) are compared with
# begin + k * recsize from the oracle decode (recsize by the format's rule: a single record variable is packed).
REC_TYPES = {1: [1, 2], 2: [3], 4: [4, 5], 8: [6]}
OFF_OPTS = [['-r'], ['-s', '-r'], ['-g', '-r'], ['-sgr'], ['-s', '-g'], ['-r', '-s', '-v', '@rec'], ['-r', '-v', '@all'], ['-x']]


def rec_grid():
    for fmt in (1, 2, 5):
        for nfix in (0, 1, 2):
            for nrec in (1, 2):
                for xs in (1, 2, 4, 8):
                    for cnt in (1, 2, 3, 4, 5):
                        for nr in (0, 1, 2, 3, 4):
                            yield (fmt, nfix, nrec, xs, cnt, nr)


def rec_plan(rng, tier):
    g = list(rec_grid())
    if tier != 'quick':
        return g
    must = [(f, 1, 1, 2, 3, 3) for f in (1, 2, 5)] + [(1, 1, 1, 1, 5, 2), (2, 2, 1, 1, 1, 4), (5, 0, 1, 2, 3, 3),
                                                     (1, 1, 2, 2, 3, 3), (2, 1, 1, 8, 1, 2), (5, 2, 1, 2, 5, 4)]
    rest = [x for x in g if x not in must]
    rng.shuffle(rest)
    return must + rest[:27]


def rec_script(rng, spec):
    fmt, nfix, nrec, xs, cnt, nr = spec
    L = ['nprocs 1', '* create 0 %d 1' % fmt, '* def_dim 0 %s -1' % hx('t'), '* def_dim 0 %s %d' % (hx('n'), cnt),
         '* def_dim 0 %s 3' % hx('m')]
    vs = []                                          # (name, type, dimids, isrec)
    rtypes = [rng.choice(REC_TYPES[xs])] + [rng.choice([3, 4, 1, 6])] * (nrec - 1)
    for i, t in enumerate(rtypes):
        vs.append(('rec' if i == 0 else 'rec2', t, [0, 1] if (i == 0 or rng.chance(1, 2)) else [0], True))
    fx = [('fa', rng.choice([3, 1, 4]), [2], False), ('fb', rng.choice([2, 6, 3]), rng.choice([[1], [], [2, 1]]), False)][:nfix]
    order = rng.below(3)                             # fixed first / record first / interleaved
    vs = fx + vs if order == 0 else (vs + fx if order == 1 else [x for p in zip(vs, fx) for x in p] + vs[len(fx):] + fx[len(vs):])
    for n, t, ids, _ in vs:
        L.append('* def_var 0 %s %d %d %s' % (hx(n), t, len(ids), ' '.join(map(str, ids))))
    if rng.chance(1, 3):
        L.append('* _enddef 0 %d %d %d %d' % (rng.choice([0, 16]), rng.choice([0, 8, 64]), rng.choice([0, 8]), rng.choice([0, 4, 64])))
    else:
        L.append('* enddef 0')
    L.append('* begin_indep 0')
    dimlen = [nr, cnt, 3]
    seed = 1 + rng.below(500)
    for vid, (n, t, ids, isrec) in enumerate(vs):
        if isrec and nr == 0:
            continue
        k = 3 if t == 5 else t
        if not ids:
            L.append('0 put 0 i %d var1 t%d c 0 pat %d' % (vid, k, seed + vid))
        else:
            L.append('0 put 0 i %d vara t%d c %d %s %s pat %d' % (vid, k, len(ids), ' '.join('0' for _ in ids),
                                                                   ' '.join(str(dimlen[i]) for i in ids), seed + vid))
    L += ['* end_indep 0', '* close 0']
    return '\n'.join(L) + '\n', [v[0] for v in vs]


def expected_offsets(c):
    """per variable, from the oracle decode: begin, unpadded size of one record / of the variable, gap from the previous
    variable of the same section (ncoffsets' definition: from the unpadded end of the previous one; the first fixed one
    from the header size; the first record one from the last fixed one's end, or the header size)"""
    I = c.info
    res = {}
    fixed = [(i, v) for i, v in enumerate(c.vars) if not c.isrec(v)]
    recs = [(i, v) for i, v in enumerate(c.vars) if c.isrec(v)]
    prev_end = I['hdr_len']
    for grp in (fixed, recs):
        for i, v in grp:
            b = c.vinfo[i]['begin']
            size = c.nper(v) * ELSIZE[v.type]
            res[v.name.decode('latin-1')] = dict(begin=b, size=size, gap=b - prev_end, isrec=c.isrec(v))
            prev_end = b + size
    xgap = 0
    pe = None
    for i, v in fixed:
        if pe is not None and c.vinfo[i]['begin'] - pe != 0:
            xgap = 1
        pe = c.vinfo[i]['begin'] + c.nper(v) * ELSIZE[v.type]
    return res, xgap


def run_reccase(T, seed, idx, spec):
    co = CaseOut()
    rng = C.SplitMix64(seed * 1000003 + idx * 15485863 + 11)
    text, names = rec_script(rng, spec)
    d = os.path.join(T.d, 'rec%d' % idx)
    os.makedirs(d, exist_ok=True)
    sha = 'rec:' + ':'.join(map(str, spec))
    base = dict(case='rec%d' % idx, case_seed=seed, family='record-offsets', script=text, script_sha=sha,
                rec=dict(idx=idx, spec=list(spec)), features=[])
    r = S.run_script(text, T.pnc_impl, None, d, 'w', keep=True, want_model=False, timeout=120)
    A = os.path.join(r.dir, 'f0.nc')
    bad = [(k, t) for k, t in sorted(r.impl.items()) if len(t) >= 2 and t[0] in ('put', 'def_var', 'def_dim', 'enddef', '_enddef', 'close') and t[1] != '0']
    if r.rc != 0 or not os.path.exists(A) or bad:
        co.viol.append(('the record-offsets session failed (rc %s, %r)' % (r.rc, bad[:2]), dict(base, output=r.stdout[-800:]), None))
        return co
    c = odump(T, A)
    fmt, nfix, nrec, xs, cnt, nr = spec
    if c.info.get('decode') != 1 or c.numrecs != nr or len(c.vars) != nfix + nrec:
        co.viol.append(('record-offsets file is not what the script defined (numrecs %d, %d variables)' % (c.numrecs, len(c.vars)),
                        dict(base), None))
        return co
    co.stat('family:record-offsets')
    co.stat('record-offsets:nfix%d:nrec%d' % (nfix, nrec))
    exp, xgap = expected_offsets(c)
    recsize = c.info['recsize']
    if nrec == 1 and (cnt * xs) % 4 and nr >= 2:
        co.stat('record-offsets:packed-single-record-variable%s' % ('+fixed' if nfix else '-alone'))
    for opts in OFF_OPTS:
        sel = None
        o = []
        for x in opts:
            if x == '@rec':
                sel = ['rec']; o.append('rec')
            elif x == '@all':
                sel = list(names); o.append(','.join(names))
            else:
                o.append(x)
        cmd = [T.ncoffsets] + o + [A]
        rc, out = sh_(cmd, timeout=60)
        tag = ''.join(x.lstrip('-') for x in opts if x.startswith('-'))
        co.counts.append(('ncoffsets %s | %s' % (' '.join(o), sha), True))
        co.stat('offsets-opts:' + ' '.join(opts))
        probs = []
        if rc != 0:
            probs.append(('error', 'exit status %d' % rc))
        elif opts == ['-x']:
            if out.strip() != str(xgap):
                probs.append(('x', 'printed %r, expected %d (begins %r)' % (out.strip(), xgap, [v['begin'] for v in c.vinfo])))
        else:
            po = CDL.parse_ncoffsets(out)
            allr = 'r' in tag
            got = {v['name']: v for v in po['fixed'] + po['record']}
            want_names = sel if sel is not None else [v.name.decode('latin-1') for v in c.vars]
            if sorted(got) != sorted(want_names):
                probs.append(('vars', 'variables printed %r, expected %r' % (sorted(got), sorted(want_names))))
            for n in want_names:
                if n not in got:
                    continue
                e, g = exp[n], got[n]
                if e['isrec'] != (g in po['record']):
                    probs.append(('section', '%s printed in the wrong section' % n))
                k = (nr if allr else 1) if e['isrec'] else 1
                wr = [[e['begin'] + j * (recsize if e['isrec'] else 0), e['begin'] + j * (recsize if e['isrec'] else 0) + e['size'],
                       j if e['isrec'] else None] for j in range(k)]
                if g.get('recs', []) != wr:
                    probs.append(('record-offsets' if e['isrec'] else 'fixed-offsets',
                                  '%s: printed (start,end,record) %r, oracle %r (begin %d, recsize %d, numrecs %d)' %
                                  (n, g.get('recs'), wr, e['begin'], recsize, nr)))
                if ('s' in tag) != ('size' in g) or ('s' in tag and g['size'] != e['size']):
                    probs.append(('size', '%s: size printed %r, oracle %d' % (n, g.get('size'), e['size'])))
                if 'g' in tag and sel is None and g.get('gap') != e['gap']:
                    probs.append(('gap', '%s: gap printed %r, oracle %d' % (n, g.get('gap'), e['gap'])))
        seen = set()
        for k, msg in probs:
            if k in seen:
                continue
            seen.add(k)
            co.viol.append(('ncoffsets %s disagrees with the decoded file: %s' % (' '.join(o), msg),
                            dict(base, command='ncoffsets ' + ' '.join(o) + ' <file>', problem=msg, output=out[-3000:],
                                 file=open(A, 'rb').read().hex()[:60000]), 'ncoffsets:%s:%s' % (tag, k)))
    if not os.environ.get('C20_KEEP'):
        shutil.rmtree(d, ignore_errors=True)
    return co


# =============================================================================== deterministic mini cases
def enc_int(t, v):
    import struct
    if t == 5:
        return struct.pack('>f', v)
    if t == 6:
        return struct.pack('>d', v)
    return (v % (1 << (8 * ELSIZE[t]))).to_bytes(ELSIZE[t], 'big')


def mk_cont(fmt, gatts, typ, vals):
    c = Cont()
    c.fmt = fmt
    c.dims = [(b'x', len(vals))]
    c.gatts = gatts
    v = Var(b'v', typ, [0])
    v.data = [enc_int(typ, x) for x in vals]
    c.vars = [v]
    return c


def run_minicase(T, seed, which):
    """(a) tolerance option of the diff tools on pairs differing by 2 in one element, per type, both argument orders:
    -t 10,0 must report SAME, -t 1,0 must report DIFF (|x-y| from the oracle's decoded values);
    (b) one file with a global attribute, the other with none (one attribute removed), both orders."""
    co = CaseOut()
    rng = C.SplitMix64(seed + 99)
    d = os.path.join(T.d, 'mini-%s' % which)
    os.makedirs(d, exist_ok=True)
    base = dict(case='mini-' + str(which), case_seed=seed, family='mini', script='mini case %s' % which, script_sha='mini:%s' % which,
                mini=which, features=[])
    A, B = os.path.join(d, 'a.nc'), os.path.join(d, 'b.nc')
    if which == 'gatt-none':
        for fmt in (1, 5):
            oencode(T, mk_cont(fmt, [Att(b'title', 2, 5, b'hello')], 4, [1, 2, 3]), {}, A)
            oencode(T, mk_cont(fmt, [], 4, [1, 2, 3]), {}, B)
            check_diff_pair(T, rng, co, base, A, B, 'edit-delatt', 'CDF-%d: the only global attribute removed (1 -> 0 attributes)' % fmt,
                            1, both_orders=True)
    else:
        t = which
        fmt = 5 if t > 6 else rng.choice([1, 2, 5])
        oencode(T, mk_cont(fmt, [], t, [3, 100, 7, 50]), {}, A)
        oencode(T, mk_cont(fmt, [], t, [5, 100, 7, 50]), {}, B)
        va = [pyval(x) for x in odump(T, A).vars[0].vals]
        vb = [pyval(x) for x in odump(T, B).vars[0].vals]
        md = max(abs(Fraction(x) - Fraction(y)) for x, y in zip(va, vb))
        for D in (10, 1):
            want = 'same' if md <= D else 'differ'
            check_diff_pair(T, rng, co, base, A, B, 'tolerance', 'type %s, one element 3 vs 5, -t %d,0 (max |x-y| = %s)' % (TYPE_NAME[t], D, md),
                            1, tag=TYPE_NAME[t], both_orders=True, extra=(['-t', '%d,0' % D], want))
    if not os.environ.get('C20_KEEP'):
        shutil.rmtree(d, ignore_errors=True)
    return co


# =============================================================================== family "subset comparison"
# cdfdiff / ncmpidiff -v name[,name] on pairs (A, B) where B holds additional fixed and record variables before and
# after the compared ones and uses other alignments: begins AND record sizes differ between the two files.  Expectation
# from the oracle's decoded values of the selected variables only.
SUB_EXTRA = [('eb', 3, [2], False, 1), ('y', 6, [0, 2], True, 2), ('z', 1, [0, 1], True, 4), ('ea', 4, [1], False, 8)]


def sub_plan(rng, tier):
    must = [(f, 4, 3, 3, 2, False, p) for f in (1, 2, 5) for p in (False, True)] + \
           [(1, 3, 3, 2, 6, True, True), (2, 6, 1, 5, 15, True, False), (5, 11, 2, 4, 13, True, True), (5, 8, 5, 2, 4, False, False)]
    n = 4 if tier == 'quick' else 220
    out = list(must)
    while len(out) < len(must) + n:
        fmt = rng.choice([1, 2, 5])
        t = rng.choice([1, 2, 3, 4, 5, 6] if fmt < 5 else list(range(1, 12)))
        out.append((fmt, t, rng.range(1, 5), rng.range(2, 5), rng.range(1, 15), rng.chance(2, 3), rng.chance(1, 2)))
    return out


def sub_scripts(rng, spec):
    """-> (script A, script B): x(t,n) of the given type [and fixed f(m)] with the same values in both; B has the extra
    variables selected by mask around them and other alignment; plant: one element of x (last record in half of the
    cases) gets another value in B"""
    fmt, xt, cnt, nr, mask, hasf, plant = spec
    seed = 1 + rng.below(400)
    where = rng.choice(['last', 'last', 'first', 'any'])

    def script(isB):
        L = ['nprocs 1']
        if isB:
            L.append('hint nc_header_align_size %d' % rng.choice([4, 64, 1024]))
            if rng.chance(1, 2):
                L.append('hint nc_record_align_size %d' % rng.choice([8, 64, 512]))
        L += ['* create 0 %d 1' % fmt, '* def_dim 0 %s -1' % hx('t'), '* def_dim 0 %s %d' % (hx('n'), cnt), '* def_dim 0 %s 2' % hx('m')]
        vs = []
        ex = [e for e in SUB_EXTRA if isB and (mask & e[4])]
        vs += [e[:4] for e in ex if e[4] in (1, 2)]
        vs.append(('x', xt, [0, 1], True))
        if hasf:
            vs.append(('f', 3, [2], False))
        vs += [e[:4] for e in ex if e[4] in (4, 8)]
        for n_, t, ids, _ in vs:
            L.append('* def_var 0 %s %d %d %s' % (hx(n_), t, len(ids), ' '.join(map(str, ids))))
        L.append('* _enddef 0 16 8 8 64' if (isB and rng.chance(1, 2)) else '* enddef 0')
        L.append('* begin_indep 0')
        dl = [nr, cnt, 2]
        for vid, (n_, t, ids, _) in enumerate(vs):
            k = 3 if t == 5 else t
            sd = seed + {'x': 0, 'f': 1}.get(n_, 10 + vid)
            L.append('0 put 0 i %d vara t%d c %d %s %s pat %d' % (vid, k, len(ids), ' '.join('0' for _ in ids),
                                                                   ' '.join(str(dl[i]) for i in ids), sd))
            if n_ == 'x' and isB and plant:
                r = nr - 1 if where == 'last' else (0 if where == 'first' else rng.below(nr))
                L.append('0 put 0 i %d var1 t%d c 2 %d %d pat %d' % (vid, k, r, rng.below(cnt), seed + 77))
        L += ['* end_indep 0', '* close 0']
        return '\n'.join(L) + '\n'
    return script(False), script(True)


def sel_expect(ca, cb, names):
    """verdict for `-v names` from the two oracle decodes: (same|differ, {name: first differing multi-index | None})"""
    verdict, first = 'same', {}
    for n in names:
        va = next((v for v in ca.vars if v.name == n.encode()), None)
        vb = next((v for v in cb.vars if v.name == n.encode()), None)
        if va is None or vb is None:
            return 'differ', first
        sa = [ca.numrecs if x == 0 else x for x in ca.shape(va)]
        sb = [cb.numrecs if x == 0 else x for x in cb.shape(vb)]
        if va.type != vb.type or sa != sb:
            verdict = 'differ'
            continue
        k = next((i for i, (x, y) in enumerate(zip(va.data, vb.data)) if x != y), None)
        if k is not None:
            verdict = 'differ'
            idx = []
            for d_ in reversed(sa):
                idx.append(k % d_); k //= d_
            first[n] = list(reversed(idx))
    return verdict, first


def header_equal(ca, cb):
    def hv(c):
        return (c.dims, [(a.name, a.type, a.nelems, a.data) for a in c.gatts],
                [(v.name, v.type, v.dimids, [(a.name, a.type, a.nelems, a.data) for a in v.atts]) for v in c.vars])
    return hv(ca) == hv(cb)


def run_subcase(T, seed, idx, spec):
    import re
    co = CaseOut()
    rng = C.SplitMix64(seed * 1000003 + idx * 32452843 + 23)
    ta, tb = sub_scripts(rng, spec)
    d = os.path.join(T.d, 'sub%d' % idx)
    os.makedirs(d, exist_ok=True)
    sha = 'sub:' + ':'.join(str(int(x)) for x in spec)
    base = dict(case='sub%d' % idx, case_seed=seed, family='subset-comparison', script=ta, script_b=tb, script_sha=sha,
                sub=dict(idx=idx, spec=[int(x) for x in spec]), features=[])
    files = []
    for tag, text in (('a', ta), ('b', tb)):
        r = S.run_script(text, T.pnc_impl, None, d, tag, keep=True, want_model=False, timeout=120)
        p = os.path.join(r.dir, 'f0.nc')
        bad = [(k, t) for k, t in sorted(r.impl.items()) if len(t) >= 2 and t[0] in ('put', 'def_var', 'def_dim', 'enddef', '_enddef', 'close') and t[1] != '0']
        if r.rc != 0 or not os.path.exists(p) or bad:
            co.viol.append(('the subset-comparison session %s failed (rc %s, %r)' % (tag, r.rc, bad[:2]), dict(base, output=r.stdout[-800:]), None))
            return co
        files.append(p)
    A, B = files
    ca, cb = odump(T, A), odump(T, B)
    fmt, xt, cnt, nr, mask, hasf, plant = spec
    if ca.info.get('decode') != 1 or cb.info.get('decode') != 1 or ca.numrecs != nr or cb.numrecs != nr:
        co.viol.append(('subset-comparison files are not what the scripts defined', dict(base), None))
        return co
    co.stat('family:subset-comparison')
    co.stat('subset:recsize-%s' % ('differs' if ca.info['recsize'] != cb.info['recsize'] else 'equal'))
    sels = [['x']] + ([['f'], ['x', 'f']] if hasf else [])
    runs = [(['-v', ','.join(sl)], sl) for sl in sels] + [(['-h'], None)]
    for opts, sl in runs:
        for x, y, cx, cy, od in ((A, B, ca, cb, ''), (B, A, cb, ca, ':swapped')):
            if sl is None:
                want, first = ('same' if header_equal(cx, cy) else 'differ'), {}
                if od:
                    continue
            else:
                want, first = sel_expect(cx, cy, sl)
            for tool, n in (('cdfdiff', 1), ('ncmpidiff', rng.range(1, 2))):
                if tool == 'ncmpidiff' and xt == 1 and sl and 'x' in sl and want == 'differ':
                    continue            # NC_BYTE is never compared by ncmpidiff: known finding, other keys
                rc, out = mpi(n, getattr(T, tool), opts + [x, y], timeout=120)
                got = diff_verdict(rc, out)
                if got == 'error':
                    co.stat('retry:%s' % tool)
                    rc, out = mpi(n, getattr(T, tool), opts + [x, y], timeout=240)
                    got = diff_verdict(rc, out)
                co.counts.append(('%s %s np=%d subset%s | %s -> %s' % (tool, ' '.join(opts), n, od, sha, got), True))
                co.stat('subset:%s:%s:%s' % (tool, opts[0], want))
                prob = None
                if got != want:
                    prob = ('%s-expected' % want, 'reports "%s", expected "%s"' % (got, want))
                elif want == 'differ' and n == 1 and first:
                    for nm_, fi in first.items():
                        m = re.search(r'variable "%s" of type "[^"]+" at element \[([0-9, ]+)\]' % nm_, out)
                        g = [int(z) for z in m.group(1).split(',')] if m else None
                        if g != fi:
                            prob = ('first-element', 'reports the first difference of %s at %r, the decoded files differ first at %r' % (nm_, g, fi))
                if prob:
                    cmdline = '%s %s <%s> <%s>' % (tool, ' '.join(opts), 'A' if not od else 'B', 'B' if not od else 'A')
                    co.viol.append(('%s: %s (B = A plus extra variables %s; selected variables: type %s, %d records, planted difference %s)' %
                                    (cmdline, prob[1], [e[0] for e in SUB_EXTRA if mask & e[4]], TYPE_NAME[xt], nr, plant),
                                    dict(base, command=cmdline, tool=tool, options=opts, order=od or 'as given', np=n, rc=rc, output=out[-1500:],
                                         expected=want, first_difference=first, recsize=[ca.info['recsize'], cb.info['recsize']],
                                         file_a=open(x, 'rb').read().hex()[:60000], file_b=open(y, 'rb').read().hex()[:60000]),
                                    '%s:subset:%s:%s%s' % (tool, opts[0].lstrip('-'), prob[0], od)))
    if not os.environ.get('C20_KEEP'):
        shutil.rmtree(d, ignore_errors=True)
    return co


# =============================================================================== driver
def setup_tools(lib, oracle):
    """copy the utilities and the script driver out of the (evictable) library cache"""
    d = C.scratch('c20.')
    missing = []
    for t in ('ncvalidator', 'cdfdiff', 'ncoffsets', 'ncmpidiff', 'ncmpidump', 'ncmpigen'):
        p = os.path.join(lib, 'bin', t)
        if os.path.isfile(p):
            shutil.copy(p, os.path.join(d, t))
        else:
            missing.append(t)
    shutil.copy(S.impl_exe(lib), os.path.join(d, 'pnc_impl'))
    shutil.copy(C.build_c(lib, [os.path.join(C.VERIF, 'harness', 'c20_bighdr.c')], 'c20_bighdr'), os.path.join(d, 'bighdr'))
    return Tools(d, oracle), missing


def run(ctx):
    lib = C.libdir()
    pr = C.prove(ctx.pid, gens=('consts',), lib=lib)
    proof_ok = ctx.add_proof(pr, 'make Properties_C20.vo (coqc -Q . Pnc) + Print Assumptions')
    ctx.cov['trusted_base'] = list(C.TRUSTED_COMMON) + [
        'harness/c20_oracle.ml (I/O and text glue around the extracted oracle), tools/c20_cdl.py (parser of the '
        'utilities\' output), checks/C20.py (generators, comparison)']
    ctx.cov['explanation'] = (
        'level "other": Coq theorems are about the ORACLE (format decoder written from the BNF, strict validity, '
        'logical content, logical equality, free-layout encoder): library-written headers are strictly valid, '
        'decode(encode_with_layout c lc) = c for all contents and layouts, logical_eq is an equivalence that is '
        'layout invariant and false after any single logical edit. The utilities themselves (separate programs, '
        '~9k lines of C) are validated differentially against the extracted oracle on generated files; no statement '
        'about their code is proved.')
    if not proof_ok:
        ctx.violation('Properties_C20 does not check: %s' % pr['failed'], dict(log=pr['log'][-3000:], relation='proof'), no_input=True)
    oracle = oracle_exe()
    T, missing = setup_tools(lib, oracle)
    if missing:
        ctx.violation('utilities missing from the build: %s' % missing, dict(missing=missing, relation='build'), no_input=True)
        return
    ncases = int(os.environ.get('C20_CASES', '0')) or (48 if ctx.tier == 'quick' else 220)
    stats = {}
    occ = {}
    case_seed = ctx.rng.next() & 0x7fffffff          # all randomness derives from ctx.rng (VERIF_SEED)
    pco = CaseOut()
    plan = big_plan(T, ctx.rng.fork('large-header'), ctx.tier, pco) if os.environ.get('C20_BIG', '1') != '0' else []
    with cf.ThreadPoolExecutor(max_workers=8) as ex:
        futs = [ex.submit(run_bigcase, T, case_seed, j, *pl) for j, pl in enumerate(plan)]
        rplan = rec_plan(ctx.rng.fork('record-offsets'), ctx.tier) if os.environ.get('C20_REC', '1') != '0' else []
        futs += [ex.submit(run_reccase, T, case_seed, j, sp) for j, sp in enumerate(rplan)]
        splan = sub_plan(ctx.rng.fork('subset'), ctx.tier) if os.environ.get('C20_SUB', '1') != '0' else []
        futs += [ex.submit(run_subcase, T, case_seed, j, sp) for j, sp in enumerate(splan)]
        futs += [ex.submit(run_minicase, T, case_seed, w) for w in ['gatt-none', 3, 4, 5, 6, 7, 8, 9, 10, 11]]
        futs += [ex.submit(run_case, T, case_seed, i, ctx.tier) for i in range(ncases)]
        done_pco = cf.Future()
        done_pco.set_result(pco)
        futs.append(done_pco)
        for i, fu in enumerate(futs):
            try:
                co = fu.result()
            except Exception as e:
                import traceback
                ctx.violation('internal error in case %d: %s' % (i, e), dict(case=i, error=traceback.format_exc()[-2000:],
                                                                            relation='check-internal'), no_input=True)
                continue
            for rep, nt in co.counts:
                ctx.count(rep, nt)
            for k, n in co.stats.items():
                stats[k] = stats.get(k, 0) + n
            for what, rep, key in co.viol:
                k = key or ('internal:' + what[:50])
                occ[k] = occ.get(k, 0) + 1
                if occ[k] > 1:
                    continue            # one VIOLATION / KNOWN-FINDING line and one replay file per key
                if key is None:
                    ctx.violation(what, dict(rep, relation='corr_C20_generator_or_oracle'), no_input=True)
                else:
                    ctx.violation(what, rep, key=key)
    ctx.cov['disagreements_by_key'] = dict(sorted(occ.items()))
    ctx.cov['rule'] = ('per case: one generated session run on the real library (family full = every element written, '
                       'attributes of all types, optional redef; family rw = the C01 read/write sessions) -> file A; then '
                       'ncvalidator on A / oracle re-encodings / ~19 header mutation classes, cdfdiff+ncmpidiff on identical, '
                       'layout (oracle encoder, library alignment variant) and single-edit pairs, ncmpidump+ncoffsets against '
                       'the oracle decode, ncmpidump->ncmpigen round trip. Every expectation is the Coq oracle evaluated on '
                       'the concrete files. A comparison is non-trivial unless it is a benign-control mutation the oracle rejects. '
                       'Family large-header: harness/c20_bighdr.c writes files whose header is a little over 1 MiB / 2 MiB (pad text '
                       'attribute of swept length) so that each kind of later header field (attribute name length/bytes/type/nelems/'
                       'values, list tag/nelems, variable name, ndims, dimid, type, vsize, begin; CDF-1/2/5) lies on or across the read '
                       'chunk boundary at every 4-byte shift (thorough: full sweep; quick: 8-byte fields starting 4 bytes before the '
                       'boundary, one per kind); ncvalidator on all, cdfdiff/ncmpidiff/ncmpidump/ncoffsets/oracle re-encoding on a subset. '
                       'Family record-offsets: library-written files over the grid {0,1,2} fixed x {1,2} record variables x element '
                       'size 1/2/4/8 x per-record count 1..5 x numrecs 0..4 x CDF-1/2/5 (thorough: all 1800; quick: 36 incl. one '
                       'record + one fixed variable, 2-byte type, count 3, 3 records); ncoffsets -r, -s -r, -g -r, -sgr, -s -g, '
                       '-r -s -v, -r -v, -x: every printed start/end/size/gap against begin + k*recsize of the oracle decode. '
                       'Family subset-comparison: library-written pairs (A, B), B = A plus extra fixed/record variables before and after '
                       'the compared ones and other alignment (begins and record sizes differ), 2-5 records, all types, CDF-1/2/5, a '
                       'difference planted in one element (last record in half of the cases); cdfdiff and ncmpidiff -v x | f | x,f in both '
                       'argument orders and -h: SAME/DIFF and the first differing element from the oracle decode of the selected variables.')
    ctx.cov['distribution'] = dict(sorted(stats.items()))
    ctx.cov['cases'] = ncases
    ctx.cov['large_header_files'] = len(plan)
    ctx.cov['record_offsets_files'] = len(rplan)
    ctx.cov['subset_comparison_pairs'] = len(splan)


def replay(ctx, d):
    """re-run one recorded disagreement: from the recorded file bytes when they are complete, else the whole case"""
    lib = C.libdir()
    T, missing = setup_tools(lib, oracle_exe())
    w = os.path.join(T.d, 'replay')
    os.makedirs(w, exist_ok=True)

    def put(name, hx_):
        p = os.path.join(w, name)
        open(p, 'wb').write(bytes.fromhex(hx_))
        return p
    if d.get('mini') is None and not d.get('sub') and not d.get('big') and not d.get('rec') and d.get('tool') in ('cdfdiff', 'ncmpidiff') and len(d.get('file_a', '')) < 60000 and len(d.get('file_b', '')) < 60000 and d.get('file_a'):
        a, b = put('a.nc', d['file_a']), put('b.nc', d['file_b'])
        e = oeq(T, a, b)
        rc, out = mpi(int(d.get('np', 1)), getattr(T, d['tool']), list(d.get('options', [])) + [a, b])
        got = diff_verdict(rc, out)
        print('oracle:', e, '| %s np=%s: rc %d -> %s' % (d['tool'], d.get('np', 1), rc, got))
        print(out[-1500:])
        bad = e is None or got != ('same' if e['logical_eq'] else 'differ')
        print('REPLAY: %s' % ('disagreement reproduced' if bad else 'tool and oracle agree now'))
        return 1 if bad else 0
    if not d.get('big') and not d.get('rec') and d.get('klass') and d.get('file') and len(d['file']) < 60000:
        p = put('m.nc', d['file'])
        rc, out = sh_([T.oracle, 'valid', p])
        t = out.split()
        want = 'accept' if t[1:4] == ['1', '1', '1'] else 'reject'
        rc, vout = sh_([T.ncvalidator, p], timeout=20, limit_mem=True)
        if rc == -9:            # a hang must survive a second, long watchdog (loaded machine)
            co.stat('retry:ncvalidator')
            rc, vout = sh_([T.ncvalidator, p], timeout=150, limit_mem=True)
        got = 'accept' if rc == 0 else ('reject' if rc == 1 else 'rc=%d' % rc)
        print('oracle (decode strict_valid layout_ok):', t[1:4], '->', want, '| ncvalidator:', got)
        print(vout[-1500:])
        print('REPLAY: %s' % ('disagreement reproduced' if got != want else 'tool and oracle agree now'))
        return 1 if got != want else 0
    if d.get('sub'):
        co = run_subcase(T, int(d.get('case_seed', ctx.seed)), d['sub']['idx'], tuple(d['sub']['spec']))
    elif d.get('mini') is not None:
        co = run_minicase(T, int(d.get('case_seed', ctx.seed)), d['mini'])
    elif d.get('rec'):
        co = run_reccase(T, int(d.get('case_seed', ctx.seed)), d['rec']['idx'], tuple(d['rec']['spec']))
    elif d.get('big'):
        g = d['big']
        co = run_bigcase(T, int(d.get('case_seed', ctx.seed)), g['idx'], g['fmt'], g['padlen'], g['boundary'], g['label'], True)
    else:
        co = run_case(T, int(d.get('case_seed', ctx.seed)), int(d['case']), d.get('tier', ctx.tier))
    hit = [x for x in co.viol if x[2] == d.get('key')]
    for what, rep, key in co.viol:
        print('REPLAY:', key, what[:300])
    return 1 if hit else 0
